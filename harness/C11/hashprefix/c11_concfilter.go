//go:build verif

package hashprefix_test

// C11 (hosts across list resets, concurrent part): lookups that run while the
// filter is being refreshed give the verdict of one of the two list versions,
// and a lookup that does not overlap any refresh gives the verdict of the
// version installed by the last completed refresh (in particular no verdict
// computed from the previous version survives in the result cache).  Schedules
// are sampled; the part is bounded by the writer's refresh count.

import (
	"context"
	"fmt"
	"net/url"
	"os"
	"path/filepath"
	"strings"
	"sync"
	"sync/atomic"
	"testing"

	"github.com/AdguardTeam/AdGuardDNS/internal/agdcache"
	"github.com/AdguardTeam/AdGuardDNS/internal/agdtest"
	"github.com/AdguardTeam/AdGuardDNS/internal/filter/hashprefix"
	"github.com/AdguardTeam/AdGuardDNS/internal/filter/internal"
	"github.com/AdguardTeam/AdGuardDNS/internal/filter/internal/filtertest"
	"github.com/AdguardTeam/golibs/logutil/slogutil"
	"github.com/miekg/dns"
	"pgregory.net/rapid"
	"verif.local/harness/vstat"
)

// vc11CFQuery is one lookup of a reader and the expected verdicts under the
// two versions.
type vc11CFQuery struct {
	host string
	qt   uint16

	// want[v] is +1 if the host must be matched under version v, -1 if it
	// must not, 0 if either is accepted.
	want [2]int
}

type vc11CFResult struct {
	lookups, overlapped, quietDiffering int64
	failure                             string
}

func vc11CFVerdictOK(want int, matched bool) bool {
	return want == 0 || (want > 0) == matched
}

func TestVerifC11ConcurrentFilter(t *testing.T) {
	st := vstat.New("C11", "hashprefix.concurrent-filter",
		"rapid cases: 1-2 focus hosts, two list versions over every tail/child/twin of them, 2-3 reader goroutines looking "+
			"up every name (drawn qtype) in a loop through Filter.FilterRequest (result cache on) while a writer alternates "+
			"Filter.Refresh between the versions a fixed number of times; a lookup overlapping a refresh may give either "+
			"version's verdict, one overlapping none must give the verdict of the last completed refresh; then a quiescent "+
			"sweep.  Schedules are sampled.  non-trivial = a reader with a lookup that overlapped a refresh; distinct by "+
			"(versions, reader's lookups)",
		"filter-lookup-overlapped-refresh", "filter-quiet-lookup-verdict-changed-by-refresh")
	st.Finish(t)

	if p := vc11SelfCheck(); p != "" {
		vc11Inconclusive(t, "%s", p)
	}

	dir := t.TempDir()
	msgs := agdtest.NewConstructor(t)
	ctx := context.Background()
	nRefreshes := vstat.Scale(30, 60)

	rapid.Check(t, func(t *rapid.T) {
		nFocus := rapid.IntRange(1, 2).Draw(t, "nFocus")
		focus := make([]vc11Name, nFocus)
		for i := range focus {
			focus[i] = vc11GenName(t, fmt.Sprintf("focus%d", i))
		}

		universe := vc11Universe(focus)

		var versions [2]vc11List
		for v := range versions {
			versions[v].listed = map[string]bool{}
		}

		for _, u := range universe {
			if len(u.labels) == 0 {
				continue
			}

			switch rapid.SampledFrom([]string{"a", "a", "b", "b", "ab", "-", "-", "-", "-"}).Draw(t, "in") {
			case "a":
				versions[0].listed[u.String()] = true
			case "b":
				versions[1].listed[u.String()] = true
			case "ab":
				versions[0].listed[u.String()] = true
				versions[1].listed[u.String()] = true
			}
		}

		for v := range versions {
			versions[v].text = strings.Join(vc11SortedKeys(versions[v].listed), "\n") + "\n"
		}

		listPath := filepath.Join(dir, "conc-list.txt")
		if err := os.WriteFile(listPath, []byte(versions[0].text), 0o644); err != nil {
			t.Fatalf("harness: %v", err)
		}

		strg, err := hashprefix.NewStorage("")
		if err != nil {
			t.Fatalf("NewStorage: %v", err)
		}

		id := rapid.SampledFrom([]internal.ID{
			internal.IDSafeBrowsing, internal.IDAdultBlocking, internal.IDNewRegDomains,
		}).Draw(t, "id")
		f, err := hashprefix.NewFilter(&hashprefix.FilterConfig{
			Logger:          slogutil.NewDiscardLogger(),
			Cloner:          agdtest.NewCloner(),
			CacheManager:    agdcache.EmptyManager{},
			Hashes:          strg,
			URL:             &url.URL{Scheme: "file", Path: listPath},
			ErrColl:         agdtest.NewErrorCollector(),
			Metrics:         internal.EmptyMetrics{},
			ID:              id,
			CachePath:       filepath.Join(dir, "unused-cache"),
			ReplacementHost: rapid.SampledFrom([]string{"repl.example", "192.0.2.7"}).Draw(t, "repl"),
			Staleness:       filtertest.Staleness,
			CacheTTL:        filtertest.CacheTTL,
			CacheCount:      rapid.SampledFrom([]int{4, 1000}).Draw(t, "cacheCount"),
			MaxSize:         filtertest.FilterMaxSize,
		})
		if err != nil {
			t.Fatalf("NewFilter: %v", err)
		}

		if err = f.RefreshInitial(ctx); err != nil {
			t.Fatalf("RefreshInitial: %v", err)
		}

		// The readers' lookups.
		nReaders := rapid.IntRange(2, 3).Draw(t, "readers")
		queries := make([][]vc11CFQuery, nReaders)
		for r := range queries {
			for _, u := range rapid.Permutation(universe).Draw(t, "order") {
				if !vc11TableAgrees(u) {
					vc11Inconclusive(t, "harness suffix table disagrees with publicsuffix for %q", u)
				}

				q := vc11CFQuery{host: u.String(), qt: rapid.SampledFrom(vc11QTypes[:8]).Draw(t, "qt")}
				for v := range versions {
					exp := vc11ExpectFor(u, versions[v].listed)
					switch {
					case !vc11Filterable(q.qt), exp.mustNot:
						q.want[v] = -1
					case exp.must:
						q.want[v] = 1
					}
				}

				queries[r] = append(queries[r], q)
			}
		}

		lookup := func(req *internal.Request, q vc11CFQuery, id uint16) (matched bool, err error) {
			*req = internal.Request{
				DNS: &dns.Msg{
					MsgHdr:   dns.MsgHdr{Id: id, RecursionDesired: true},
					Question: []dns.Question{{Name: dns.Fqdn(q.host), Qtype: q.qt, Qclass: dns.ClassINET}},
				},
				Messages: msgs,
				RemoteIP: filtertest.IPv4Client,
				Host:     q.host,
				QType:    q.qt,
				QClass:   dns.ClassINET,
			}

			res, err := f.FilterRequest(ctx, req)

			return res != nil, err
		}

		var started, finished atomic.Int64
		var stop atomic.Bool
		results := make([]vc11CFResult, nReaders)
		writerErr := ""
		writerDone := make(chan struct{})
		wg := &sync.WaitGroup{}

		for r := 0; r < nReaders; r++ {
			wg.Add(1)
			go func(r int) {
				defer wg.Done()
				res := &results[r]
				defer func() {
					if p := recover(); p != nil {
						res.failure = fmt.Sprintf("a lookup panicked while the filter was being refreshed: %v", p)
					}
				}()

				req := &internal.Request{}
				for round := 0; !stop.Load(); round++ {
					for _, q := range queries[r] {
						before := finished.Load()
						matched, lerr := lookup(req, q, uint16(round))
						after := started.Load()
						res.lookups++
						if lerr != nil {
							res.failure = fmt.Sprintf("lookup %s %q: %v", vc11TypeString(q.qt), q.host, lerr)

							return
						}

						if after > before {
							// A refresh was in flight: either version.
							res.overlapped++
							if !vc11CFVerdictOK(q.want[0], matched) && !vc11CFVerdictOK(q.want[1], matched) {
								res.failure = fmt.Sprintf("lookup %s %q during a refresh: matched=%t, which is the verdict of neither version",
									vc11TypeString(q.qt), q.host, matched)

								return
							}

							continue
						}

						// No refresh overlapped the lookup: the writer starts
						// with version 1 and alternates.
						v := int(before % 2)
						if before > 0 && q.want[v] != 0 && q.want[v] == -q.want[1-v] {
							res.quietDiffering++
						}

						if !vc11CFVerdictOK(q.want[v], matched) {
							res.failure = fmt.Sprintf("lookup %s %q after refresh %d had returned and before the next one began: "+
								"matched=%t, but version %d (installed by that refresh) says %s",
								vc11TypeString(q.qt), q.host, before, matched, v, map[int]string{1: "match", -1: "no match"}[q.want[v]])

							return
						}
					}
				}
			}(r)
		}

		go func() {
			defer close(writerDone)
			defer stop.Store(true)
			defer func() {
				if p := recover(); p != nil {
					writerErr = fmt.Sprintf("Refresh panicked: %v", p)
				}
			}()

			for i := 1; i <= nRefreshes; i++ {
				if werr := os.WriteFile(listPath, []byte(versions[i%2].text), 0o644); werr != nil {
					writerErr = "harness: " + werr.Error()

					return
				}

				started.Add(1)
				rerr := f.Refresh(ctx)
				finished.Add(1)
				if rerr != nil {
					writerErr = fmt.Sprintf("Refresh %d: %v", i, rerr)

					return
				}
			}
		}()

		<-writerDone
		wg.Wait()

		for r, res := range results {
			var classes []string
			nt := ""
			if res.overlapped > 0 {
				classes = append(classes, "filter-lookup-overlapped-refresh")
				nt = fmt.Sprintf("%q|%q|%v", versions[0].text, versions[1].text, queries[r])
			}

			if res.quietDiffering > 0 {
				classes = append(classes, "filter-quiet-lookup-verdict-changed-by-refresh")
			}

			st.Case(nt, classes...)
			if st.WantSample() && res.overlapped > 0 {
				st.Sample(map[string]any{
					"version0": versions[0].text, "version1": versions[1].text, "lookups": res.lookups,
					"overlapped_a_refresh": res.overlapped, "quiet_lookups_with_changed_verdict": res.quietDiffering,
					"refreshes": finished.Load(),
				})
			}
		}

		describe := fmt.Sprintf("version 0 list=%q\nversion 1 list=%q", versions[0].text, versions[1].text)
		for _, res := range results {
			if res.failure != "" {
				t.Fatalf("%s\n%s", res.failure, describe)
			}
		}

		if writerErr != "" {
			t.Fatalf("%s", writerErr)
		}

		// Quiescent sweep: the last completed refresh decides.
		last := int(finished.Load() % 2)
		req := &internal.Request{}
		for _, qs := range queries {
			for _, q := range qs {
				matched, lerr := lookup(req, q, 0)
				if lerr != nil || !vc11CFVerdictOK(q.want[last], matched) {
					t.Fatalf("after %d refreshes and with nothing in flight, lookup %s %q gives matched=%t (err %v), but version %d says %s\n%s",
						finished.Load(), vc11TypeString(q.qt), q.host, matched, lerr, last,
						map[int]string{1: "match", -1: "no match", 0: "either"}[q.want[last]], describe)
				}
			}
		}
	})
}
