//go:build verif

package hashprefix_test

// C11 (across list resets, concurrent part): a multi-prefix query that runs
// while the storage is being reset returns the answer of exactly one list
// version, never a mixture.  Schedules are sampled, not owned: the check is
// bounded by iteration counts, and slowness is never a verdict.

import (
	"context"
	"encoding/hex"
	"fmt"
	"sort"
	"strings"
	"sync"
	"sync/atomic"
	"testing"

	"github.com/AdguardTeam/AdGuardDNS/internal/filter"
	"github.com/AdguardTeam/AdGuardDNS/internal/filter/hashprefix"
	"pgregory.net/rapid"
	"verif.local/harness/vstat"
)

// vc11ConcPool is the pool of the concurrent part: enough names for queries
// of 20-40 different prefixes.
func vc11ConcPool() (pool []string) {
	seen := map[string]bool{}
	for i := 0; len(pool) < 56; i++ {
		name := fmt.Sprintf("c%d.example.com", i)
		if p := vc11Sum(name)[:4]; !seen[p] {
			seen[p] = true
			pool = append(pool, name)
		}
	}

	zero, ones := vc11Magic()

	return append(pool, zero, ones)
}

// vc11ConcQuery is one reader's query and the two acceptable answers.
type vc11ConcQuery struct {
	host  string
	prefs []hashprefix.Prefix
	want  [2]map[string]bool
}

// vc11ConcResult is what one reader observed.
type vc11ConcResult struct {
	queries, overlapped, sawA, sawB int64
	failure                         string
}

func vc11SameSet(got []string, want map[string]bool) bool {
	seen := 0
	gotSet := make(map[string]bool, len(got))
	for _, h := range got {
		if !want[h] {
			return false
		}

		if !gotSet[h] {
			gotSet[h] = true
			seen++
		}
	}

	return seen == len(want)
}

func TestVerifC11Concurrent(t *testing.T) {
	st := vstat.New("C11", "hashprefix.concurrent",
		"rapid cases: two list versions over a 58-name pool that differ under the requested prefixes, 2-3 reader goroutines "+
			"each issuing one drawn query of 20-40 prefixes (Matcher.MatchByPrefix or Storage.Hashes) a fixed number of times "+
			"while a writer alternates Storage.Reset between the versions; every answer, as a set, must equal the expected "+
			"answer of exactly one version, no panic; then the quiescent answer must be the last version's.  Schedules are "+
			"sampled.  non-trivial = a (versions, query) whose reader had a query overlapping a Reset (reset counters read "+
			"before and after the query)",
		"query-overlapped-reset", "reader-saw-both-versions")
	st.Finish(t)

	pool := vc11ConcPool()
	ctx := context.Background()
	nQueries := vstat.Scale(1500, 2500)

	rapid.Check(t, func(t *rapid.T) {
		// Two versions; most names are in exactly one of them.
		var versions [2]vc11List
		var lines [2][]string
		for v := range versions {
			versions[v].listed = map[string]bool{}
		}

		for _, name := range pool {
			switch rapid.SampledFrom([]string{"a", "a", "a", "b", "b", "b", "ab", "ab", "-"}).Draw(t, "in") {
			case "a":
				versions[0].listed[name] = true
			case "b":
				versions[1].listed[name] = true
			case "ab":
				versions[0].listed[name] = true
				versions[1].listed[name] = true
			}
		}

		for v := range versions {
			lines[v] = vc11SortedKeys(versions[v].listed)
			if len(lines[v]) > 1 {
				lines[v] = rapid.Permutation(lines[v]).Draw(t, fmt.Sprintf("order%d", v))
			}

			versions[v].text = strings.Join(lines[v], "\n") + "\n"
			versions[v].count = len(lines[v])
		}

		strg, err := hashprefix.NewStorage(versions[0].text)
		if err != nil {
			t.Fatalf("NewStorage: %v", err)
		}

		m := hashprefix.NewMatcher(map[string]*hashprefix.Storage{filter.GeneralTXTSuffix: strg})

		// The readers' queries.
		nReaders := rapid.IntRange(2, 3).Draw(t, "readers")
		queries := make([]vc11ConcQuery, nReaders)
		direct := make([]bool, nReaders)
		for r := range queries {
			k := rapid.IntRange(20, 40).Draw(t, "nPrefs")
			names := rapid.Permutation(pool).Draw(t, "prefNames")[:k]
			prefs := map[string]bool{}
			var labels []string
			for _, name := range names {
				sum := vc11Sum(name)
				prefs[sum[:4]] = true
				if rapid.IntRange(0, 4).Draw(t, "legacy") == 0 {
					labels = append(labels, sum[:8])
				} else {
					labels = append(labels, sum[:4])
				}

				var p hashprefix.Prefix
				_, _ = hex.Decode(p[:], []byte(sum[:4]))
				queries[r].prefs = append(queries[r].prefs, p)
			}

			queries[r].host = strings.Join(labels, ".") + filter.GeneralTXTSuffix
			for v := range versions {
				queries[r].want[v] = vc11ExpectedHashes(versions[v].listed, prefs)
			}

			direct[r] = rapid.IntRange(0, 2).Draw(t, "direct") == 0
		}

		// started and finished count the writer's resets.
		var started, finished atomic.Int64
		var stop atomic.Bool
		results := make([]vc11ConcResult, nReaders)
		writerErr := ""

		wg := &sync.WaitGroup{}
		writerDone := make(chan struct{})
		go func() {
			defer close(writerDone)
			defer func() {
				if p := recover(); p != nil {
					writerErr = fmt.Sprintf("Reset panicked: %v", p)
				}
			}()

			for v := 1; !stop.Load(); v = 1 - v {
				started.Add(1)
				n, rerr := strg.Reset(versions[v].text)
				finished.Add(1)
				if rerr != nil || n != versions[v].count {
					writerErr = fmt.Sprintf("Reset(version %d) = %d, %v; want %d, nil", v, n, rerr, versions[v].count)

					return
				}
			}
		}()

		for r := 0; r < nReaders; r++ {
			wg.Add(1)
			go func(r int) {
				defer wg.Done()
				q, res := queries[r], &results[r]
				defer func() {
					if p := recover(); p != nil {
						res.failure = fmt.Sprintf("query %q panicked while the storage was being reset: %v", q.host, p)
					}
				}()

				for i := 0; i < nQueries; i++ {
					before := finished.Load()

					var got []string
					if direct[r] {
						got = strg.Hashes(q.prefs)
					} else {
						var matched bool
						var qerr error
						got, matched, qerr = m.MatchByPrefix(ctx, q.host)
						if qerr != nil || !matched {
							res.failure = fmt.Sprintf("query %q: matched=%t err=%v", q.host, matched, qerr)

							return
						}
					}

					after := started.Load()
					res.queries++
					if after > before {
						res.overlapped++
					}

					isA, isB := vc11SameSet(got, q.want[0]), vc11SameSet(got, q.want[1])
					switch {
					case isA:
						res.sawA++
					case isB:
						res.sawB++
					}

					if !isA && !isB {
						sort.Strings(got)
						res.failure = fmt.Sprintf("query %q (direct Hashes: %t) returned an answer that is the answer of neither list "+
							"version (%d resets started before it returned, %d finished before it began):\ngot        %v\nversion 0: %v\nversion 1: %v",
							q.host, direct[r], after, before, got, vc11SortedKeys(q.want[0]), vc11SortedKeys(q.want[1]))

						return
					}
				}
			}(r)
		}

		wg.Wait()
		stop.Store(true)
		<-writerDone

		for r, res := range results {
			classes := []string{}
			nt := ""
			if res.overlapped > 0 {
				classes = append(classes, "query-overlapped-reset")
				nt = fmt.Sprintf("%q|%q|%s", versions[0].text, versions[1].text, queries[r].host)
			}

			if res.sawA > 0 && res.sawB > 0 {
				classes = append(classes, "reader-saw-both-versions")
			}

			if len(queries[r].want[0]) == len(queries[r].want[1]) && vc11SameSet(vc11SortedKeys(queries[r].want[0]), queries[r].want[1]) {
				classes = append(classes, "versions-equal-under-query")
			}

			if direct[r] {
				classes = append(classes, "reader-direct-hashes")
			} else {
				classes = append(classes, "reader-match-by-prefix")
			}

			st.Case(nt, classes...)
			if st.WantSample() && res.overlapped > 0 {
				st.Sample(map[string]any{
					"query": queries[r].host, "queries": res.queries, "overlapped_a_reset": res.overlapped,
					"answers_version0": res.sawA, "answers_version1": res.sawB, "resets": finished.Load(),
				})
			}
		}

		for _, res := range results {
			if res.failure != "" {
				t.Fatalf("%s\nversion 0 list=%q\nversion 1 list=%q", res.failure, versions[0].text, versions[1].text)
			}
		}

		if writerErr != "" {
			t.Fatalf("%s", writerErr)
		}

		// Quiescent: the last completed reset decides.  The writer starts with
		// version 1 and alternates, so an odd number of resets leaves version 1.
		last := int(finished.Load() % 2)
		for r, q := range queries {
			got, matched, qerr := m.MatchByPrefix(ctx, q.host)
			if qerr != nil || !matched || !vc11SameSet(got, q.want[last]) {
				t.Fatalf("after %d resets reader %d's query %q returns %v (matched=%t err=%v), want the answer of version %d: %v",
					finished.Load(), r, q.host, got, matched, qerr, last, vc11SortedKeys(q.want[last]))
			}
		}
	})
}
