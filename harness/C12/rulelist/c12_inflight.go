//go:build verif

package rulelist_test

// C12 (c'', owned schedule): a lookup in flight across a whole refresh of a
// list that is refreshed in place (rulelist.Refreshable: the safe-search
// filters keep one for the life of the process, with one result cache).  The
// Refreshable is constructed the way filterstorage constructs it
// (rulelist.NewRefreshable or safesearch.New with a result cache passed in);
// the result cache is wrapped: it delegates to the real LRU, and its Get parks
// one drawn lookup.  While that lookup is parked a refresh to a new list
// version is started.  The lookup is released when the refresh has returned or
// after a grace period, whichever comes first (an implementation that keeps
// the refresh out while a lookup is inside never returns before the release);
// then everything is left to finish.  Only the final state is judged: a fresh
// lookup of every key must give what a filter without a result cache gives for
// the new list.

import (
	"context"
	"fmt"
	"net/http"
	"net/http/httptest"
	"net/netip"
	"net/url"
	"os"
	"path/filepath"
	"slices"
	"strings"
	"sync"
	"testing"
	"time"

	"github.com/AdguardTeam/AdGuardDNS/internal/dnsmsg"
	"github.com/AdguardTeam/AdGuardDNS/internal/filter/internal"
	"github.com/AdguardTeam/AdGuardDNS/internal/filter/internal/refreshable"
	"github.com/AdguardTeam/AdGuardDNS/internal/filter/internal/rulelist"
	"github.com/AdguardTeam/AdGuardDNS/internal/filter/internal/safesearch"
	"github.com/AdguardTeam/golibs/logutil/slogutil"
	"github.com/AdguardTeam/urlfilter"
	"github.com/miekg/dns"
	"pgregory.net/rapid"
	"verif.local/harness/vstat"
)

// vc12InflightGrace is how long a started refresh is given to return while the
// lookup is parked.  It selects the schedule, it is never a verdict.
const vc12InflightGrace = 30 * time.Millisecond

const vc12InflightTimeout = 60 * time.Second

var (
	vc12InflightHosts  = []string{"a.test", "x.a.test", "b.test", "c.test"}
	vc12InflightQTypes = []uint16{dns.TypeA, dns.TypeAAAA, dns.TypeHTTPS}
)

func vc12InflightRule(t *rapid.T, host string) string {
	switch rapid.IntRange(0, 6).Draw(t, "kind") {
	case 0:
		return "||" + host + "^"
	case 1:
		return "|" + host + "^"
	case 2:
		return "||" + host + "^$dnstype=A"
	case 3:
		return "0.0.0.0 " + host
	case 4:
		return fmt.Sprintf("||%s^$dnsrewrite=NOERROR;A;192.0.2.%d", host, rapid.IntRange(1, 3).Draw(t, "ip"))
	case 5:
		return fmt.Sprintf("||%s^$dnsrewrite=NOERROR;CNAME;safe%d.repl.test", host, rapid.IntRange(1, 2).Draw(t, "cn"))
	default:
		return "@@||" + host + "^"
	}
}

func vc12InflightList(t *rapid.T) (rules []string) {
	for range rapid.IntRange(0, 4).Draw(t, "nrules") {
		r := vc12InflightRule(t, rapid.SampledFrom(vc12InflightHosts).Draw(t, "rhost"))
		if !slices.Contains(rules, r) {
			rules = append(rules, r)
		}
	}

	return rules
}

// vc12ParkingCache is a result cache that delegates to a real one and parks
// the first Get of the armed key.
type vc12ParkingCache struct {
	rulelist.ResultCache

	mu      sync.Mutex
	armed   bool
	key     internal.CacheKey
	entered chan struct{}
	release chan struct{}
}

func (c *vc12ParkingCache) arm(key internal.CacheKey) {
	c.mu.Lock()
	defer c.mu.Unlock()

	c.armed, c.key = true, key
	c.entered, c.release = make(chan struct{}), make(chan struct{})
}

// Get implements the [rulelist.ResultCache] interface for *vc12ParkingCache.
func (c *vc12ParkingCache) Get(key internal.CacheKey) (item *rulelist.CacheItem, ok bool) {
	c.mu.Lock()
	park := c.armed && key == c.key
	if park {
		c.armed = false
	}

	entered, release := c.entered, c.release
	c.mu.Unlock()

	if park {
		close(entered)
		<-release
	}

	return c.ResultCache.Get(key)
}

// vc12Lookuper is a filter under test or its reference.
type vc12Lookuper struct {
	refresh func(ctx context.Context) error
	lookup  func(host string, qt uint16, id uint16) string
}

func vc12RenderDNSResult(res *urlfilter.DNSResult) string {
	if res == nil {
		return "nil"
	}

	var parts []string
	for _, r := range res.NetworkRules {
		parts = append(parts, "n:"+r.RuleText)
	}

	for _, r := range res.HostRulesV4 {
		parts = append(parts, "4:"+r.RuleText)
	}

	for _, r := range res.HostRulesV6 {
		parts = append(parts, "6:"+r.RuleText)
	}

	return strings.Join(parts, " | ")
}

// vc12NewLookuper builds a filter over the list at u the way the storage does:
// directly as a rule list, or as a safe-search filter.
func vc12NewLookuper(safe bool, u *url.URL, cachePath string, cache rulelist.ResultCache, msgs *dnsmsg.Constructor) (l *vc12Lookuper, err error) {
	conf := &refreshable.Config{
		Logger:    slogutil.NewDiscardLogger(),
		URL:       u,
		ID:        "c12_inflight",
		CachePath: cachePath,
		Staleness: 0,
		Timeout:   vc12InflightTimeout,
		MaxSize:   1 << 20,
	}

	ip := netip.MustParseAddr("192.0.2.1")
	if !safe {
		rl, rlErr := rulelist.NewRefreshable(conf, cache)
		if rlErr != nil {
			return nil, rlErr
		}

		return &vc12Lookuper{
			refresh: func(ctx context.Context) error { return rl.Refresh(ctx, false) },
			lookup: func(host string, qt, _ uint16) string {
				return vc12RenderDNSResult(rl.DNSResult(ip, "", host, qt, false))
			},
		}, nil
	}

	ss, err := safesearch.New(&safesearch.Config{Refreshable: conf, CacheTTL: time.Hour}, cache)
	if err != nil {
		return nil, err
	}

	return &vc12Lookuper{
		refresh: func(ctx context.Context) error { return ss.Refresh(ctx, false) },
		lookup: func(host string, qt, id uint16) string {
			m := &dns.Msg{}
			m.Id = id
			m.RecursionDesired = true
			m.Question = []dns.Question{{Name: dns.Fqdn(host), Qtype: qt, Qclass: dns.ClassINET}}
			r, fltErr := ss.FilterRequest(context.Background(), &internal.Request{
				DNS:      m,
				Messages: msgs,
				RemoteIP: ip,
				Host:     host,
				QType:    qt,
				QClass:   dns.ClassINET,
			})
			if fltErr != nil {
				return "error: " + fltErr.Error()
			}

			switch r := r.(type) {
			case nil:
				return "nil"
			case *internal.ResultModifiedResponse:
				return fmt.Sprintf("modresp/%s/%s\n%s", r.List, r.Rule, r.Msg)
			case *internal.ResultModifiedRequest:
				c := r.Msg.Copy()
				c.Id = 0

				return fmt.Sprintf("modreq/%s/%s\n%s", r.List, r.Rule, c)
			default:
				return fmt.Sprintf("%T", r)
			}
		},
	}, nil
}

func vc12InflightInconclusive(t interface {
	Logf(string, ...any)
	FailNow()
}, format string, args ...any) {
	fmt.Printf("VERIF-INCONCLUSIVE: "+format+"\n", args...)
	t.Logf("VERIF-INCONCLUSIVE: "+format, args...)
	t.FailNow()
}

func TestVerifC12InflightLookup(t *testing.T) {
	st := vstat.New("C12", "rulelist.inflight",
		"rapid cases with an owned schedule over a rulelist.Refreshable built as filterstorage builds it (as a rule list or "+
			"inside a safe-search filter) with a wrapped result cache: list v1 loaded, some keys warmed, one drawn lookup (a miss "+
			"or a hit) parked inside the cache's Get together with 0-2 other concurrent lookups, a refresh to list v2 started; "+
			"the lookup is released when the refresh returns or after 30 ms; after everything has finished every key is asked "+
			"again and compared with a filter without a result cache on v2; evaluations = cases; non-trivial = the parked key's "+
			"verdict differs between v1 and v2; distinct by (form, v1, v2, key, miss/hit)",
		"lookup-parked-across-refresh-with-changed-verdict", "parked-miss", "parked-hit", "form-rulelist", "form-safesearch",
		"concurrent-lookups-1", "concurrent-lookups-3")
	st.Finish(t)

	var (
		mu   sync.Mutex
		text = "! c12\n"
	)

	srv := httptest.NewServer(http.HandlerFunc(func(w http.ResponseWriter, _ *http.Request) {
		mu.Lock()
		defer mu.Unlock()

		_, _ = w.Write([]byte(text))
	}))
	t.Cleanup(srv.Close)

	srvURL, err := url.Parse(srv.URL)
	if err != nil {
		t.Fatal(err)
	}

	dir, err := os.MkdirTemp("/dev/shm", "verif-c12-inflight-")
	if err != nil {
		dir = t.TempDir()
	} else {
		t.Cleanup(func() { _ = os.RemoveAll(dir) })
	}

	msgs, err := dnsmsg.NewConstructor(&dnsmsg.ConstructorConfig{
		Cloner:              dnsmsg.NewCloner(dnsmsg.EmptyClonerStat{}),
		BlockingMode:        &dnsmsg.BlockingModeNullIP{},
		StructuredErrors:    &dnsmsg.StructuredDNSErrorsConfig{Enabled: false},
		FilteredResponseTTL: 10 * time.Second,
	})
	if err != nil {
		t.Fatal(err)
	}

	nCase := 0
	rapid.Check(t, func(t *rapid.T) {
		nCase++
		safe := rapid.Bool().Draw(t, "safesearch")
		v1 := vc12InflightList(t)
		host := rapid.SampledFrom(vc12InflightHosts).Draw(t, "host")
		qt := rapid.SampledFrom(vc12InflightQTypes).Draw(t, "qt")

		// The new version usually changes what the list says about the parked
		// host.
		v2 := slices.Clone(v1)
		switch rapid.IntRange(0, 3).Draw(t, "v2") {
		case 0:
			v2 = vc12InflightList(t)
		case 1:
			v2 = slices.DeleteFunc(v2, func(r string) bool { return strings.Contains(r, "|"+host+"^") || strings.HasSuffix(r, " "+host) })
			if len(v2) == len(v1) {
				v2 = append(v2, vc12InflightRule(t, host))
			}
		case 2:
			if r := vc12InflightRule(t, host); !slices.Contains(v2, r) {
				v2 = append([]string{r}, v2...)
			}
		default:
			// The same list again.
		}

		hit := rapid.Bool().Draw(t, "hit")
		others := rapid.IntRange(0, 2).Draw(t, "others")

		setText := func(rules []string) {
			mu.Lock()
			defer mu.Unlock()

			text = "! c12\n" + strings.Join(rules, "\n") + "\n"
		}

		ctx, cancel := context.WithTimeout(context.Background(), 2*vc12InflightTimeout)
		defer cancel()

		cache := &vc12ParkingCache{ResultCache: rulelist.NewResultCache(100, true)}
		sut, err := vc12NewLookuper(safe, srvURL, filepath.Join(dir, fmt.Sprintf("sut%d", nCase)), cache, msgs)
		if err != nil {
			t.Fatalf("constructing the filter: %v", err)
		}

		ref, err := vc12NewLookuper(safe, srvURL, filepath.Join(dir, fmt.Sprintf("ref%d", nCase)), rulelist.ResultCacheEmpty{}, msgs)
		if err != nil {
			t.Fatalf("constructing the reference: %v", err)
		}

		setText(v1)
		if err = sut.refresh(ctx); err != nil {
			vc12InflightInconclusive(t, "first refresh: %v", err)
		} else if err = ref.refresh(ctx); err != nil {
			vc12InflightInconclusive(t, "first refresh of the reference: %v", err)
		}

		old := ref.lookup(host, qt, 7)

		// Warm some keys, the parked one among them or not.
		for _, h := range vc12InflightHosts {
			for _, q := range vc12InflightQTypes {
				if h == host && q == qt {
					if hit {
						sut.lookup(h, q, 1)
					}
				} else if rapid.Bool().Draw(t, "warm") {
					sut.lookup(h, q, 1)
				}
			}
		}

		// The lookups in flight: the parked one and up to two others.
		cache.arm(internal.NewCacheKey(host, qt, dns.ClassINET, false))
		var wg sync.WaitGroup
		wg.Add(1)
		go func() {
			defer wg.Done()

			sut.lookup(host, qt, 2)
		}()

		select {
		case <-cache.entered:
		case <-time.After(vc12InflightTimeout):
			close(cache.release)
			vc12InflightInconclusive(t, "the lookup did not reach the result cache in %s", vc12InflightTimeout)
		}

		for i := range others {
			h := vc12InflightHosts[(i+1)%len(vc12InflightHosts)]
			wg.Add(1)
			go func() {
				defer wg.Done()

				sut.lookup(h, qt, 3)
			}()
		}

		setText(v2)
		refreshDone := make(chan error, 1)
		go func() { refreshDone <- sut.refresh(ctx) }()

		sched := "refresh-waited-for-lookup"
		var refreshErr error
		returned := false
		select {
		case refreshErr = <-refreshDone:
			returned, sched = true, "refresh-completed-while-lookup-parked"
		case <-time.After(vc12InflightGrace):
		}

		close(cache.release)
		if !returned {
			select {
			case refreshErr = <-refreshDone:
			case <-time.After(2 * vc12InflightTimeout):
				vc12InflightInconclusive(t, "the refresh did not return after the lookup had been released")
			}
		}

		wg.Wait()
		if refreshErr != nil {
			vc12InflightInconclusive(t, "refresh: %v", refreshErr)
		} else if err = ref.refresh(ctx); err != nil {
			vc12InflightInconclusive(t, "refresh of the reference: %v", err)
		}

		// Quiescent: every key must be answered from the new list.
		changed := ref.lookup(host, qt, 7) != old
		for _, h := range vc12InflightHosts {
			for _, q := range vc12InflightQTypes {
				got, want := sut.lookup(h, q, 9), ref.lookup(h, q, 9)
				if got != want {
					t.Fatalf("a result computed from the old list survives the refresh (%s, as safe search: %t): list v1 %q; %s %s in flight inside "+
						"the result cache (warm before: %t) with %d other lookups; refresh to v2 %q; all finished; then %s %s gives\n  %s\nbut a "+
						"filter without a result cache on v2 gives\n  %s", sched, safe, v1, dns.Type(qt), host, hit, others, v2, dns.Type(q), h, got, want)
				}
			}
		}

		nt := ""
		classes := []string{sched, fmt.Sprintf("concurrent-lookups-%d", others+1), "parked-miss", "form-rulelist"}
		if hit {
			classes[2] = "parked-hit"
		}

		if safe {
			classes[3] = "form-safesearch"
		}

		if changed {
			nt = fmt.Sprintf("%t|%q|%q|%s/%d|%t", safe, v1, v2, host, qt, hit)
			classes = append(classes, "lookup-parked-across-refresh-with-changed-verdict")
		}

		st.Case(nt, classes...)
		if st.WantSample() && changed {
			st.Sample(map[string]any{"safe_search": safe, "v1": v1, "v2": v2, "parked": host + "/" + dns.Type(qt).String(), "hit": hit,
				"others": others, "schedule": sched})
		}
	})
}
