//go:build verif

package hashprefix

// C12 (c, owned schedule): a hash-list refresh that runs while one
// FilterRequest is in flight.  The in-flight query is parked exactly between
// computing its verdict from the hashes and storing it in the result cache
// (the result cache of the filter is wrapped, nothing in /repo is changed).
// The refresh is then started.  If it gets as far as clearing the result
// cache, it is left to run to completion and the query is released after it;
// if it does not (an implementation that makes the refresh wait for in-flight
// queries), the query is released after a grace period and the refresh
// completes after it.  Either way both have completed before the key is asked
// again, and at that quiescent point no answer may reflect the old list.  The
// grace period only selects the schedule; it is never a verdict.

import (
	"context"
	"fmt"
	"net/http"
	"net/http/httptest"
	"net/netip"
	"net/url"
	"os"
	"path/filepath"
	"slices"
	"strings"
	"sync"
	"testing"
	"time"

	"github.com/AdguardTeam/AdGuardDNS/internal/agdcache"
	"github.com/AdguardTeam/AdGuardDNS/internal/dnsmsg"
	"github.com/AdguardTeam/AdGuardDNS/internal/filter/internal"
	"github.com/AdguardTeam/golibs/logutil/slogutil"
	"github.com/miekg/dns"
	"pgregory.net/rapid"
	"verif.local/harness/vstat"
)

// vc12KnownRefreshRace is the identity of the finding: refresh resets the
// hashes and clears the result cache without excluding an in-flight
// FilterRequest, which stores a verdict computed from the old hashes after the
// clear.
const vc12KnownRefreshRace = "hashprefix-refresh-race-stale-entry"

// vc12RaceGrace is how long a refresh that has downloaded the new list may take
// to reach the result cache before the harness concludes that it is waiting
// for the in-flight query.
const vc12RaceGrace = 40 * time.Millisecond

var vc12RaceHosts = []string{"a.test", "x.a.test", "y.x.a.test", "b.test", "x.b.test", "c.test"}

// vc12ParkCache parks the first Set after arm until released.
type vc12ParkCache struct {
	agdcache.Interface[internal.CacheKey, *cacheItem]

	mu      sync.Mutex
	armed   bool
	parked  chan struct{}
	release chan struct{}

	// cleared is closed by the first Clear after arm.
	cleared     chan struct{}
	clearedOnce *sync.Once
}

func (c *vc12ParkCache) arm() {
	c.mu.Lock()
	defer c.mu.Unlock()

	c.armed = true
	c.parked = make(chan struct{})
	c.release = make(chan struct{})
	c.cleared = make(chan struct{})
	c.clearedOnce = &sync.Once{}
}

func (c *vc12ParkCache) Clear() {
	c.Interface.Clear()

	c.mu.Lock()
	cleared, once := c.cleared, c.clearedOnce
	c.mu.Unlock()

	if once != nil {
		once.Do(func() { close(cleared) })
	}
}

func (c *vc12ParkCache) Set(k internal.CacheKey, v *cacheItem) {
	c.mu.Lock()
	park := c.armed
	c.armed = false
	c.mu.Unlock()

	if park {
		close(c.parked)
		<-c.release
	}

	c.Interface.Set(k, v)
}

type vc12RaceErrColl struct{}

func (vc12RaceErrColl) Collect(_ context.Context, err error) { panic(err) }

func vc12RaceListed(list []string, host string) (matched string) {
	// The filter tries the host and then its parents, longest first.
	for h := host; h != ""; {
		if slices.Contains(list, h) {
			return h
		}

		_, rest, ok := strings.Cut(h, ".")
		if !ok {
			break
		}

		h = rest
	}

	return ""
}

func vc12RaceInconclusive(t interface {
	Logf(string, ...any)
	FailNow()
}, format string, args ...any) {
	fmt.Printf("VERIF-INCONCLUSIVE: "+format+"\n", args...)
	t.Logf("VERIF-INCONCLUSIVE: "+format, args...)
	t.FailNow()
}

func TestVerifC12RefreshRace(t *testing.T) {
	st := vstat.New("C12", "hashprefix.refreshrace",
		"rapid cases with an owned schedule: hash list v1, one FilterRequest (A/AAAA/HTTPS, IP or domain replacement host) "+
			"parked between computing its verdict and storing it in the result cache, Refresh to list v2 runs to completion, "+
			"the query is released and completes, then the same key is asked again; non-trivial = the key's verdict differs "+
			"between v1 and v2; distinct by (host, qtype, replacement, v1, v2)",
		"key-removed-by-refresh", "key-added-by-refresh", "key-unchanged")
	st.Finish(t)

	var (
		mu     sync.Mutex
		text   = "# c12\n"
		served = make(chan struct{}, 16)
	)

	srv := httptest.NewServer(http.HandlerFunc(func(w http.ResponseWriter, _ *http.Request) {
		mu.Lock()
		defer mu.Unlock()

		_, _ = w.Write([]byte(text))
		select {
		case served <- struct{}{}:
		default:
		}
	}))
	t.Cleanup(srv.Close)

	srvURL, err := url.Parse(srv.URL)
	if err != nil {
		t.Fatal(err)
	}

	// The cache files are not part of this property; a memory file system keeps
	// the file synchronisation of every download cheap.
	dir, err := os.MkdirTemp("/dev/shm", "verif-c12-race-")
	if err != nil {
		dir = t.TempDir()
	} else {
		t.Cleanup(func() { _ = os.RemoveAll(dir) })
	}

	nCase := 0

	msgs, err := dnsmsg.NewConstructor(&dnsmsg.ConstructorConfig{
		Cloner:              dnsmsg.NewCloner(dnsmsg.EmptyClonerStat{}),
		BlockingMode:        &dnsmsg.BlockingModeNullIP{},
		StructuredErrors:    &dnsmsg.StructuredDNSErrorsConfig{Enabled: false},
		FilteredResponseTTL: 10 * time.Second,
	})
	if err != nil {
		t.Fatal(err)
	}

	rapid.Check(t, func(t *rapid.T) {
		drawList := func(label string) (l []string) {
			for _, h := range vc12RaceHosts {
				if rapid.IntRange(0, 2).Draw(t, label) == 2 {
					l = append(l, h)
				}
			}

			return l
		}

		v1, v2 := drawList("v1"), drawList("v2")
		host := rapid.SampledFrom(vc12RaceHosts).Draw(t, "host")
		qt := rapid.SampledFrom([]uint16{dns.TypeA, dns.TypeAAAA, dns.TypeHTTPS}).Draw(t, "qt")
		repl := rapid.SampledFrom([]string{"192.0.2.200", "2001:db8::200", "repl.block.test"}).Draw(t, "repl")
		id := rapid.SampledFrom([]internal.ID{internal.IDSafeBrowsing, internal.IDAdultBlocking, internal.IDNewRegDomains}).Draw(t, "id")

		setText := func(l []string) {
			mu.Lock()
			defer mu.Unlock()

			text = "# c12\n" + strings.Join(l, "\n") + "\n"
		}

		setText(v1)
		nCase++
		hashes, err := NewStorage("")
		if err != nil {
			t.Fatalf("storage: %v", err)
		}

		f, err := NewFilter(&FilterConfig{
			Logger:          slogutil.NewDiscardLogger(),
			Cloner:          dnsmsg.NewCloner(dnsmsg.EmptyClonerStat{}),
			CacheManager:    agdcache.EmptyManager{},
			Hashes:          hashes,
			URL:             srvURL,
			ErrColl:         vc12RaceErrColl{},
			Metrics:         internal.EmptyMetrics{},
			ID:              id,
			CachePath:       filepath.Join(dir, fmt.Sprintf("hp%d", nCase)),
			ReplacementHost: repl,
			Staleness:       0,
			CacheTTL:        time.Hour,
			RefreshTimeout:  60 * time.Second,
			CacheCount:      100,
			MaxSize:         1 << 20,
		})
		if err != nil {
			t.Fatalf("filter: %v", err)
		}

		ctx := context.Background()
		if err = f.RefreshInitial(ctx); err != nil {
			vc12RaceInconclusive(t, "initial refresh: %v", err)
		}

		park := &vc12ParkCache{Interface: f.resCache}
		f.resCache = park

		newReq := func(msgID uint16) *internal.Request {
			m := &dns.Msg{}
			m.Id = msgID
			m.RecursionDesired = true
			m.Question = []dns.Question{{Name: dns.Fqdn(host), Qtype: qt, Qclass: dns.ClassINET}}

			return &internal.Request{
				DNS:      m,
				Messages: msgs,
				RemoteIP: netip.MustParseAddr("192.0.2.1"),
				Host:     host,
				QType:    qt,
				QClass:   dns.ClassINET,
			}
		}

		// The in-flight query.
		park.arm()
		type out struct {
			r   internal.Result
			err error
		}

		done := make(chan out, 1)
		go func() {
			r, err := f.FilterRequest(ctx, newReq(1))
			done <- out{r: r, err: err}
		}()

		select {
		case <-park.parked:
		case o := <-done:
			close(park.release)
			t.Fatalf("harness: the first query of a filterable type completed without storing a result (%v, %v)", o.r, o.err)
		case <-time.After(60 * time.Second):
			close(park.release)
			vc12RaceInconclusive(t, "the in-flight query did not reach the result cache in 60s")
		}

		// The refresh starts while the query is parked.
		setText(v2)
		for len(served) > 0 {
			<-served
		}

		refreshDone := make(chan error, 1)
		go func() { refreshDone <- f.Refresh(ctx) }()

		var refreshErr error
		sched := "refresh-completed-while-query-parked"
		select {
		case <-served:
			// The new list has been downloaded; what is left is to write the
			// cache file, reset the hashes and clear the result cache.
			select {
			case <-park.cleared:
				refreshErr = <-refreshDone
				close(park.release)
			case refreshErr = <-refreshDone:
				close(park.release)
			case <-time.After(vc12RaceGrace):
				sched = "refresh-waited-for-query"
				close(park.release)
				refreshErr = <-refreshDone
			}
		case refreshErr = <-refreshDone:
			close(park.release)
		case <-time.After(60 * time.Second):
			close(park.release)
			vc12RaceInconclusive(t, "the refresh did not download the list in 60s")
		}

		inflight := <-done
		if refreshErr != nil {
			vc12RaceInconclusive(t, "refresh: %v", refreshErr)
		} else if inflight.err != nil {
			t.Fatalf("in-flight FilterRequest: %v", inflight.err)
		}

		// Quiescent.  Ask again.
		r, err := f.FilterRequest(ctx, newReq(2))
		if err != nil {
			t.Fatalf("FilterRequest: %v", err)
		}

		was, want := vc12RaceListed(v1, host), vc12RaceListed(v2, host)
		got := ""
		if r != nil {
			_, rule := r.MatchedRule()
			got = string(rule)
		}

		cls, nt := "key-unchanged", ""
		switch {
		case was != "" && want == "":
			cls = "key-removed-by-refresh"
		case was == "" && want != "":
			cls = "key-added-by-refresh"
		case was != want:
			cls = "key-matched-name-changed"
		}

		if was != want {
			nt = fmt.Sprintf("%s/%d/%s/%v/%v", host, qt, repl, v1, v2)
		}

		if got != want {
			desc := fmt.Sprintf("list v1 %v; %s %s is in flight (verdict computed, not yet stored); Refresh to v2 %v returns; the query completes; "+
				"then %s %s is answered with matched name %q, but v2 implies %q (v1 implied %q)", v1, dns.Type(qt), host, v2, dns.Type(qt), host, got, want, was)
			if got == was && st.Known(vc12KnownRefreshRace) {
				st.Class("excluded-" + vc12KnownRefreshRace)
			} else {
				t.Fatalf("answer computed from the old hash list after the refresh: %s [%s]", desc, vc12KnownRefreshRace)
			}
		}

		st.Case(nt, cls, "repl-"+repl, sched)
		if st.WantSample() && nt != "" {
			st.Sample(map[string]any{"v1": v1, "v2": v2, "host": host, "qt": dns.Type(qt).String(), "repl": repl, "after": got, "v2_implies": want})
		}
	})
}
