//go:build verif

package filterstorage_test

// C12 (e, owned schedule): a request that still holds the previous version of
// a profile and is compiling its custom filter while the profile is updated.
// custom.Filters.Get logs "got rules for client" between compiling the filter
// and storing it; the storage's base logger is the harness's, and its handler
// parks the one call whose context carries the harness's mark.  So the order
// is owned without touching /repo: the old-version request compiles and
// parks; the updated profile's first request compiles and stores; the
// old-version request is released and stores last (or, for the other order,
// is released before the update).  The updated profile's first request is
// waited for only for a grace period before the release, so an implementation
// that makes it wait for the compilation in flight cannot hang the schedule.
// Judged are that request's own verdict (it carried the updated rules) and the
// final state: after both have returned, requests with the updated profile get
// the updated rules' verdicts, as a storage without caches gives them.

import (
	"context"
	"fmt"
	"log/slog"
	"sync"
	"testing"
	"time"

	"github.com/miekg/dns"
	"pgregory.net/rapid"
	"verif.local/harness/vstat"
)

// vc12ParkMark is the context key of the mark of the request to park.
type vc12ParkMark struct{}

// vc12Park is the rendezvous of one parked call.
type vc12Park struct {
	once    sync.Once
	entered chan struct{}
	release chan struct{}
}

// vc12CustomRaceGrace is how long the first request with the updated profile is
// given to return while the old-version request is parked.  It selects the
// schedule, it is never a verdict.
const vc12CustomRaceGrace = 75 * time.Millisecond

// vc12CustomCompiledMsg is the message custom.Filters.Get logs after it has
// compiled a filter and before it stores it.
const vc12CustomCompiledMsg = "got rules for client"

// vc12ParkHandler is a log handler that discards everything and parks the
// marked call of vc12CustomCompiledMsg.
type vc12ParkHandler struct{}

func (vc12ParkHandler) Enabled(context.Context, slog.Level) bool { return true }

func (h vc12ParkHandler) WithAttrs([]slog.Attr) slog.Handler { return h }

func (h vc12ParkHandler) WithGroup(string) slog.Handler { return h }

func (vc12ParkHandler) Handle(ctx context.Context, rec slog.Record) error {
	if rec.Message != vc12CustomCompiledMsg {
		return nil
	}

	if p, ok := ctx.Value(vc12ParkMark{}).(*vc12Park); ok {
		p.once.Do(func() {
			close(p.entered)
			<-p.release
		})
	}

	return nil
}

func TestVerifC12CustomUpdateRace(t *testing.T) {
	st := vstat.New("C12", "filterstorage.customrace",
		"rapid cases with an owned schedule over a cache-enabled filterstorage.Default whose base logger parks one marked call "+
			"between custom.Filters compiling a filter and storing it: a request with version n of a profile (not cached, or an "+
			"older version cached) compiles and parks; the profile is updated to version n+1 (other rules, later update time) and "+
			"its first request compiles and stores; the old request is released and stores last (or first, in a quarter of the "+
			"cases); then all hosts are asked with version n+1 and compared with the purged twin and the rule model; a short "+
			"history follows; evaluations = compared queries; non-trivial = the verdict of the asked host differs between the "+
			"two versions; distinct by (rules n, rules n+1, host, qtype, order)",
		"old-version-compilation-finished-after-new-version-cached", "old-version-stored-before-update",
		"older-version-cached-before", "custom-verdict-differs-between-versions")
	st.Finish(t)

	srv := vc12NewSrv(t)
	base := vc12BaseDir(t)
	logger := slog.New(vc12ParkHandler{})

	rapid.Check(t, func(t *rapid.T) {
		c := vc12NewCase(t, st, srv, base, 2, func(conf *vc12SideConf) {
			conf.BaseLogger = logger

			// An evicted entry is another story; here the entry must stay.
			conf.CacheCount = 100
		})
		defer c.close()

		r := c.reqs[0]
		r.CustomEnabled = true
		ctx := context.Background()

		// Optionally an even older version is in the cache already.
		if rapid.Bool().Draw(t, "oldercached") {
			r.CustomRules = vc12DrawRules(t, vc12KindsList, 1, 3)
			c.cached.strg.ForConfig(ctx, r.config())
			r.CustomUpd += int64(time.Second)
			c.st.Class("older-version-cached-before")
		}

		// Version n, held by the request that is already on its way.
		r.CustomRules = vc12DrawRules(t, vc12KindsList, 1, 3)
		oldRules := r.CustomRules
		oldCfg := r.config()
		oldHost := rapid.SampledFrom(vc12Hosts).Draw(t, "oldhost")
		c.logf("VERSION n of %s: %v", r.Name, oldRules)

		park := &vc12Park{entered: make(chan struct{}), release: make(chan struct{})}
		oldDone := make(chan error, 1)
		oldQ := vc12Q{Host: oldHost, QT: dns.TypeA, QC: dns.ClassINET}
		vc12DrawFlags(t, &oldQ, true)
		oldReq := oldQ.request(r, 0)
		go func() {
			f := c.cached.strg.ForConfig(context.WithValue(ctx, vc12ParkMark{}, park), oldCfg)
			_, err := f.FilterRequest(ctx, oldReq)
			oldDone <- err
		}()

		select {
		case <-park.entered:
		case err := <-oldDone:
			close(park.release)
			vc12Inconclusive(t, "the old-version request returned (%v) without logging %q after compiling: the seam is gone", err, vc12CustomCompiledMsg)
		case <-time.After(vc12Timeout):
			close(park.release)
			vc12Inconclusive(t, "the old-version request did not reach the log call in %s", vc12Timeout)
		}

		oldFirst := rapid.IntRange(0, 3).Draw(t, "oldfirst") == 0
		if oldFirst {
			close(park.release)
			if err := <-oldDone; err != nil {
				c.failf("old-version request: %v", err)
			}
		}

		// The update, and the first request with version n+1.
		r.CustomRules = vc12MutateRules(t, oldRules, vc12KindsList, 1)
		if len(r.CustomRules) == 0 || fmt.Sprint(r.CustomRules) == fmt.Sprint(oldRules) {
			r.CustomRules = append([]string{vc12DrawRule(t, vc12KindsList)}, oldRules...)
		}

		r.CustomUpd += rapid.SampledFrom([]int64{1, 1e9}).Draw(t, "bump")
		c.epoch++
		c.logf("VERSION n+1 of %s: %v", r.Name, r.CustomRules)

		// The first request with version n+1, preferably for a host on which the
		// two versions disagree.  It runs on the cache-enabled side while the
		// old-version request may still be parked, so it gets a goroutine of its
		// own; an implementation may make it wait for the compilation in
		// flight, and then it only returns after the release.
		var differing []string
		for _, h := range vc12Hosts {
			if fmt.Sprint(vc12Matching(oldRules, h, dns.TypeA, 0)) != fmt.Sprint(vc12Matching(r.CustomRules, h, dns.TypeA, 0)) {
				differing = append(differing, h)
			}
		}

		hosts := vc12Hosts
		if len(differing) > 0 && rapid.IntRange(0, 3).Draw(t, "anyhost") > 0 {
			hosts = differing
		}

		first := vc12Q{Host: rapid.SampledFrom(hosts).Draw(t, "firsthost"), QT: dns.TypeA, QC: dns.ClassINET}
		vc12DrawFlags(t, &first, false)
		newCfg := r.config()
		newReq := first.request(r, 0)

		type newOut struct {
			res vc12Res
			err error
		}

		newDone := make(chan newOut, 1)
		go func() {
			raw, err := c.cached.strg.ForConfig(ctx, newCfg).FilterRequest(ctx, newReq)
			newDone <- newOut{res: vc12Render(raw), err: err}
		}()

		var got newOut
		returned := false
		select {
		case got = <-newDone:
			returned = true
		case <-time.After(vc12CustomRaceGrace):
			c.st.Class("new-version-request-did-not-return-while-old-compilation-parked")
			c.logf("the first request with version n+1 has not returned %s after it was sent", vc12CustomRaceGrace)
		}

		order := "old-version-stored-before-update"
		if !oldFirst {
			close(park.release)
			select {
			case err := <-oldDone:
				if err != nil {
					c.failf("old-version request: %v", err)
				}
			case <-time.After(vc12Timeout):
				vc12Inconclusive(t, "the old-version request is still stuck %s after its release", vc12Timeout)
			}

			order = "old-version-compilation-finished-after-new-version-cached"
		}

		if !returned {
			select {
			case got = <-newDone:
			case <-time.After(vc12Timeout):
				vc12Inconclusive(t, "the first request with version n+1 is still stuck %s after the old one was released", vc12Timeout)
			}
		}

		if got.err != nil {
			c.failf("first request with version n+1: %v", got.err)
		}

		// (a) That request carried version n+1, so it is judged by version n+1.
		c.twin.purge()
		wantRaw, err := c.twin.strg.ForConfig(ctx, newCfg).FilterRequest(ctx, first.request(r, 1))
		if err != nil {
			c.failf("reference storage: %v", err)
		}

		want := vc12Render(wantRaw)
		c.logf("FIRST n+1 QUERY %s %s -> %s (returned while the old one was parked: %t)", r.Name, &first, got.res.verdict(), returned)
		c.checkErrs("first request with version n+1")
		if got.res.String() != want.String() {
			c.failf("a request with the updated profile is answered from the previous version: %s asked %s with rules %v while a compilation of %v was in flight\n"+
				"  with caches:    %s\n  without caches: %s", r.Name, &first, r.CustomRules, oldRules, got.res, want)
		} else if why := c.modelRequest(r, first.Host, first.QT, got.res); why != "" {
			c.failf("answer does not follow from the current list versions: %s asked %s -> %s: %s", r.Name, &first, got.res.verdict(), why)
		}

		c.st.Case("", "first-query-with-new-version")

		c.logf("ORDER %s", order)
		c.st.Class(order)

		// Both have returned.  Everything asked with version n+1 follows
		// version n+1.
		for _, h := range vc12Hosts {
			for _, qt := range []uint16{dns.TypeA, dns.TypeTXT} {
				differs := len(vc12Matching(oldRules, h, qt, 0)) > 0 != (len(vc12Matching(r.CustomRules, h, qt, 0)) > 0) ||
					fmt.Sprint(vc12Matching(oldRules, h, qt, 0)) != fmt.Sprint(vc12Matching(r.CustomRules, h, qt, 0))
				if differs {
					c.st.Class("custom-verdict-differs-between-versions")
					c.st.NonTrivial(fmt.Sprintf("%v|%v|%s/%d|%s", oldRules, r.CustomRules, h, qt, order))
				}

				q := vc12Q{Host: h, QT: qt, QC: dns.ClassINET}
				vc12DrawFlags(t, &q, false)
				c.ask(0, q, "", false)
			}
		}

		for range rapid.IntRange(0, 6).Draw(t, "more") {
			c.query(false)
		}

		if st.WantSample() {
			st.Sample(c.hist)
		}
	})
}
