//go:build verif

package filterstorage_test

// C12: filter result caches are invisible and never survive a list refresh.
// This file holds the harness world: the versioned HTTP content, the two
// storages (result caches on / result caches off and purged), the requesters,
// the query generators and the list-version model.  See /verif/DESIGN.md,
// section 3, C12.

import (
	"context"
	"encoding/json"
	"fmt"
	"log/slog"
	"net/http"
	"net/http/httptest"
	"net/netip"
	"net/url"
	"os"
	"path/filepath"
	"slices"
	"strings"
	"sync"
	"testing"
	"time"

	"github.com/AdguardTeam/AdGuardDNS/internal/agdcache"
	"github.com/AdguardTeam/AdGuardDNS/internal/agdtest"
	"github.com/AdguardTeam/AdGuardDNS/internal/agdtime"
	"github.com/AdguardTeam/AdGuardDNS/internal/dnsmsg"
	"github.com/AdguardTeam/AdGuardDNS/internal/filter"
	"github.com/AdguardTeam/AdGuardDNS/internal/filter/filterstorage"
	"github.com/AdguardTeam/AdGuardDNS/internal/filter/hashprefix"
	"github.com/AdguardTeam/golibs/logutil/slogutil"
	"github.com/AdguardTeam/urlfilter"
	"github.com/AdguardTeam/urlfilter/filterlist"
	"github.com/c2h5oh/datasize"
	"github.com/miekg/dns"
	"pgregory.net/rapid"
)

// Identities of the findings this check can run into (see the report of the
// C12 build round and /verif/known_findings.json).
const (
	// A hash-prefix filter with an IP replacement host stores the first
	// requester's complete response in its result cache and replays it (after
	// SetReply) to every later requester of the same (host, qtype, class): TTL,
	// blocking mode, EDE and owner-name case are the first requester's, and
	// SetReply turns a cached NXDOMAIN or REFUSED (HTTPS question) into NOERROR
	// even for the same requester.
	vc12KnownRespReplay = "hashprefix-cached-response-replayed-to-other-requester"

	// The same with a domain-name replacement host: the first requester's
	// rewritten request (header flags, EDNS) is replayed.
	vc12KnownReqReplay = "hashprefix-cached-request-replayed-to-other-requester"

	// hashprefix.Filter.refresh resets the hashes and clears the result cache
	// without excluding an in-flight FilterRequest, which can store a result
	// computed from the old hashes after the clear.
	vc12KnownRefreshRace = "hashprefix-refresh-race-stale-entry"
)

// vc12Hosts is the pool of hosts: queried names, rule targets, hash-list
// entries and CNAME targets all come from it, so that keys overlap.  "test" is
// not an ICANN suffix, so every tail of a host is hashable.
var vc12Hosts = []string{"a.test", "x.a.test", "y.x.a.test", "b.test", "x.b.test", "c.test"}

// vc12QueryHosts are the names that are asked: the pool (three times as likely)
// plus names that no rule or hash list names but that are one step away from
// names they do: "aa.test" shares a prefix with "a.test" without a label
// boundary, "z.y.x.a.test" has five labels (its own hash is never consulted,
// those of its last four labels are), and "" is the host of the root question.
var vc12QueryHosts = append(append(append(append([]string{}, vc12Hosts...), vc12Hosts...), vc12Hosts...),
	"aa.test", "z.y.x.a.test", "")

var (
	vc12ListIDs = []string{"rl_one", "rl_two", "rl_three"}
	vc12SvcIDs  = []string{"svc_one", "svc_two", "svc_three"}

	// vc12HPIDs are in the order the composite filter consults them.
	vc12HPIDs = []filter.ID{filter.IDSafeBrowsing, filter.IDAdultBlocking, filter.IDNewRegDomains}
	vc12SSIDs = []filter.ID{filter.IDGeneralSafeSearch, filter.IDYoutubeSafeSearch}

	vc12QTypes = []uint16{dns.TypeA, dns.TypeA, dns.TypeAAAA, dns.TypeHTTPS, dns.TypeTXT, dns.TypeCNAME}
)

// Rule kinds of the restricted grammar.  None carries a client-specific
// modifier ($client, $ctag): that is the precondition of the property.
const (
	vc12KBlock = iota
	vc12KAllow
	vc12KExact
	vc12KOnlyA
	vc12KNotA
	vc12KImportant
	vc12KHosts
	vc12KRewriteA
	vc12KRewriteCNAME
	vc12KRewriteRefused
	vc12KAnswerIP
	vc12KRewriteAAAA
	vc12KAllowImportant
)

var (
	vc12KindsList = []int{vc12KBlock, vc12KBlock, vc12KAllow, vc12KExact, vc12KOnlyA, vc12KNotA, vc12KImportant, vc12KHosts,
		vc12KRewriteA, vc12KRewriteCNAME, vc12KRewriteRefused, vc12KAnswerIP, vc12KRewriteAAAA, vc12KAllowImportant}
	vc12KindsSvc = []int{vc12KBlock, vc12KBlock, vc12KAllow, vc12KExact, vc12KOnlyA, vc12KNotA, vc12KImportant, vc12KHosts, vc12KAnswerIP}
	vc12KindsSS  = []int{vc12KRewriteA, vc12KRewriteCNAME, vc12KRewriteCNAME, vc12KRewriteAAAA}
)

func vc12RuleText(kind int, host string, n int) string {
	switch kind {
	case vc12KBlock:
		return "||" + host + "^"
	case vc12KAllow:
		return "@@||" + host + "^"
	case vc12KExact:
		return "|" + host + "^"
	case vc12KOnlyA:
		return "||" + host + "^$dnstype=A"
	case vc12KNotA:
		return "||" + host + "^$dnstype=~A"
	case vc12KImportant:
		return "||" + host + "^$important"
	case vc12KHosts:
		return "0.0.0.0 " + host
	case vc12KRewriteA:
		return fmt.Sprintf("||%s^$dnsrewrite=NOERROR;A;192.0.2.%d", host, 10+n)
	case vc12KRewriteCNAME:
		return fmt.Sprintf("||%s^$dnsrewrite=NOERROR;CNAME;cn%d.repl.test", host, n)
	case vc12KRewriteRefused:
		return "||" + host + "^$dnsrewrite=REFUSED"
	case vc12KAnswerIP:
		if n == 2 {
			// The unspecified address is what blocked answers of other
			// resolvers carry.
			return "||0.0.0.0^"
		}

		return fmt.Sprintf("||192.0.2.%d^", 1+n)
	case vc12KRewriteAAAA:
		return fmt.Sprintf("|%s^$dnsrewrite=NOERROR;AAAA;2001:db8::%d", host, 10+n)
	case vc12KAllowImportant:
		return "@@||" + host + "^$important"
	default:
		panic("bad rule kind")
	}
}

func vc12IsRewrite(rule string) bool { return strings.Contains(rule, "$dnsrewrite") }

func vc12DrawRule(t *rapid.T, kinds []int) string {
	return vc12RuleText(
		rapid.SampledFrom(kinds).Draw(t, "kind"),
		rapid.SampledFrom(vc12Hosts).Draw(t, "rhost"),
		rapid.IntRange(0, 2).Draw(t, "rarg"),
	)
}

func vc12DrawRules(t *rapid.T, kinds []int, lo, hi int) (rules []string) {
	n := rapid.IntRange(lo, hi).Draw(t, "nrules")
	for range n {
		r := vc12DrawRule(t, kinds)
		if !slices.Contains(rules, r) {
			rules = append(rules, r)
		}
	}

	return rules
}

// vc12MutateRules changes one thing in rules (or redraws all of them) so that a
// refresh is likely to change a verdict on a key that is already cached.
func vc12MutateRules(t *rapid.T, rules []string, kinds []int, lo int) []string {
	switch mode := rapid.IntRange(0, 3).Draw(t, "mut"); {
	case mode == 0 || len(rules) == 0:
		return vc12DrawRules(t, kinds, lo, 4)
	case mode == 1 && len(rules) > lo:
		i := rapid.IntRange(0, len(rules)-1).Draw(t, "drop")

		return slices.Delete(slices.Clone(rules), i, i+1)
	case mode == 2:
		r := vc12DrawRule(t, kinds)
		if slices.Contains(rules, r) {
			return rules
		}

		return append(slices.Clone(rules), r)
	default:
		// Replace one rule by another kind for the same host.
		i := rapid.IntRange(0, len(rules)-1).Draw(t, "flip")
		out := slices.Clone(rules)
		host := ""
		for _, h := range vc12Hosts {
			if strings.Contains(rules[i], h) && len(h) > len(host) {
				host = h
			}
		}

		if host == "" {
			host = rapid.SampledFrom(vc12Hosts).Draw(t, "rhost")
		}

		r := vc12RuleText(rapid.SampledFrom(kinds).Draw(t, "kind"), host, rapid.IntRange(0, 2).Draw(t, "rarg"))
		if slices.Contains(out, r) {
			return slices.Delete(out, i, i+1)
		}

		out[i] = r

		return out
	}
}

// ---------------------------------------------------------------------------
// matching primitive of the model

var (
	vc12EngMu   sync.Mutex
	vc12Engines = map[string]*urlfilter.DNSEngine{}
)

// vc12RuleMatches reports whether the single rule matches (host, qt).  The
// matching of one rule of the restricted grammar by urlfilter is part of the
// trusted base (DESIGN.md 1.5); what the check decides is the composition on
// top of it: lists, versions, caches and refreshes.
func vc12RuleMatches(rule, host string, qt uint16) bool {
	vc12EngMu.Lock()
	e := vc12Engines[rule]
	if e == nil {
		s, err := filterlist.NewRuleStorage([]filterlist.RuleList{&filterlist.StringRuleList{
			ID:             1,
			RulesText:      rule,
			IgnoreCosmetic: true,
		}})
		if err != nil {
			vc12EngMu.Unlock()
			panic(err)
		}

		e = urlfilter.NewDNSEngine(s)
		vc12Engines[rule] = e
	}
	vc12EngMu.Unlock()

	res, ok := e.MatchRequest(&urlfilter.DNSRequest{Hostname: host, DNSType: qt})

	return ok || len(res.NetworkRules) > 0
}

// vc12Matching returns the rules that match (host, qt).  rewrite: 0 = all,
// 1 = only $dnsrewrite rules, -1 = only other rules.
func vc12Matching(rules []string, host string, qt uint16, rewrite int) (m []string) {
	for _, r := range rules {
		if rewrite == 1 && !vc12IsRewrite(r) || rewrite == -1 && vc12IsRewrite(r) {
			continue
		}

		if vc12RuleMatches(r, host, qt) {
			m = append(m, r)
		}
	}

	return m
}

// ---------------------------------------------------------------------------
// versioned content

// vc12World is the content of every list as last loaded by the storages.
type vc12World struct {
	Idx   []string            `json:"idx"`
	Lists map[string][]string `json:"lists"`
	Svcs  map[string][]string `json:"svcs"`
	SS    [2][]string         `json:"ss"`
	HP    [3][]string         `json:"hp"`
}

func vc12DrawWorld(t *rapid.T) (w *vc12World) {
	w = &vc12World{Lists: map[string][]string{}, Svcs: map[string][]string{}}
	for _, id := range vc12ListIDs {
		w.Lists[id] = vc12DrawRules(t, vc12KindsList, 0, 4)
		if rapid.IntRange(0, 3).Draw(t, "inidx") > 0 {
			w.Idx = append(w.Idx, id)
		}
	}

	for _, id := range vc12SvcIDs {
		if rapid.IntRange(0, 3).Draw(t, "insvc") > 0 {
			w.Svcs[id] = vc12DrawRules(t, vc12KindsSvc, 1, 3)
		}
	}

	for i := range w.SS {
		w.SS[i] = vc12DrawRules(t, vc12KindsSS, 0, 3)
	}

	for k := range w.HP {
		w.HP[k] = vc12DrawHashHosts(t)
	}

	return w
}

// vc12DrawHashHosts draws a hash list as it is served: a multiset of names,
// each one to three times, in a drawn order.
func vc12DrawHashHosts(t *rapid.T) (hosts []string) {
	n := rapid.IntRange(0, 3).Draw(t, "nhash")
	for range n {
		h := rapid.SampledFrom(vc12Hosts).Draw(t, "hhost")
		if slices.Contains(hosts, h) {
			continue
		}

		for range rapid.IntRange(1, 3).Draw(t, "copies") {
			hosts = append(hosts, h)
		}
	}

	if len(hosts) > 1 {
		hosts = rapid.Permutation(hosts).Draw(t, "order")
	}

	return hosts
}

func (w *vc12World) clone() (c *vc12World) {
	b, _ := json.Marshal(w)
	c = &vc12World{}
	_ = json.Unmarshal(b, c)

	return c
}

// vc12Srv serves the content of the lists; the harness owns the version of
// every path.
type vc12Srv struct {
	mu      sync.Mutex
	content map[string]string
	status  map[string]int
	hits    map[string]int
	srv     *httptest.Server

	// mirrors maps a path to a file that carries the same content, for
	// consumers that are configured with a file URL.
	mirrors map[string]string
}

// mirror makes every later set of path write file as well; an empty file
// name stops that.
func (s *vc12Srv) mirror(path, file string) {
	s.mu.Lock()
	defer s.mu.Unlock()

	if file == "" {
		delete(s.mirrors, path)
	} else {
		s.mirrors[path] = file
	}
}

func vc12NewSrv(tb testing.TB) (s *vc12Srv) {
	s = &vc12Srv{content: map[string]string{}, status: map[string]int{}, hits: map[string]int{}, mirrors: map[string]string{}}
	s.srv = httptest.NewServer(http.HandlerFunc(func(w http.ResponseWriter, r *http.Request) {
		s.mu.Lock()
		text, ok := s.content[r.URL.Path]
		code := s.status[r.URL.Path]
		s.hits[r.URL.Path]++
		s.mu.Unlock()

		if !ok {
			http.NotFound(w, r)

			return
		} else if code != 0 {
			http.Error(w, "c12 fault", code)

			return
		}

		w.WriteHeader(http.StatusOK)
		_, _ = w.Write([]byte(text))
	}))
	tb.Cleanup(s.srv.Close)

	return s
}

func (s *vc12Srv) url(path string) *url.URL {
	u, err := url.Parse(s.srv.URL + path)
	if err != nil {
		panic(err)
	}

	return u
}

func (s *vc12Srv) set(path, text string) {
	s.mu.Lock()
	defer s.mu.Unlock()

	s.content[path] = text
	delete(s.status, path)
	if f := s.mirrors[path]; f != "" {
		if err := os.WriteFile(f, []byte(text), 0o644); err != nil {
			panic(err)
		}
	}
}

// fail makes the server answer path with an HTTP error until its content is
// set again.
func (s *vc12Srv) fail(path string, code int) {
	s.mu.Lock()
	defer s.mu.Unlock()

	s.status[path] = code
}

func (s *vc12Srv) takeHits() (h map[string]int) {
	s.mu.Lock()
	defer s.mu.Unlock()

	h = s.hits
	s.hits = map[string]int{}

	return h
}

// publishStorage puts the storage-managed content of w on the server.
func (w *vc12World) publishStorage(s *vc12Srv) {
	type idxFilter struct {
		Key string `json:"filterKey"`
		URL string `json:"downloadUrl"`
	}

	idx := struct {
		Filters []idxFilter `json:"filters"`
	}{Filters: []idxFilter{}}
	for _, id := range w.Idx {
		idx.Filters = append(idx.Filters, idxFilter{Key: id, URL: s.url("/rl/" + id).String()})
	}

	b, _ := json.Marshal(idx)
	s.set("/idx", string(b))

	for _, id := range vc12ListIDs {
		s.set("/rl/"+id, "! c12 "+id+"\n"+strings.Join(w.Lists[id], "\n")+"\n")
	}

	type svc struct {
		ID    string   `json:"id"`
		Rules []string `json:"rules"`
	}

	svcs := struct {
		Services []svc `json:"blocked_services"`
	}{Services: []svc{}}
	for _, id := range vc12SvcIDs {
		if rules, ok := w.Svcs[id]; ok {
			svcs.Services = append(svcs.Services, svc{ID: id, Rules: rules})
		}
	}

	b, _ = json.Marshal(svcs)
	s.set("/svc", string(b))

	for i := range w.SS {
		s.set(fmt.Sprintf("/ss/%d", i), "! c12 ss\n"+strings.Join(w.SS[i], "\n")+"\n")
	}
}

func (w *vc12World) publishHP(s *vc12Srv, k int) {
	s.set(fmt.Sprintf("/hp/%d", k), "# c12 hp\n"+strings.Join(w.HP[k], "\n")+"\n")
}

// ---------------------------------------------------------------------------
// the two storages

// vc12ErrColl records what the code under test reports; no fault is injected
// in this check, so any report means the harness set-up is off.
type vc12ErrColl struct {
	mu   sync.Mutex
	errs []string
}

func (c *vc12ErrColl) collector() *agdtest.ErrorCollector {
	return &agdtest.ErrorCollector{OnCollect: func(_ context.Context, err error) {
		c.mu.Lock()
		defer c.mu.Unlock()

		c.errs = append(c.errs, err.Error())
	}}
}

func (c *vc12ErrColl) take() (errs []string) {
	c.mu.Lock()
	defer c.mu.Unlock()

	errs, c.errs = c.errs, nil

	return errs
}

// vc12Side is one storage with its hash-prefix filters.
type vc12Side struct {
	cached bool

	// cloner is the side's message cloner, shared by its hash-prefix filters
	// and by the message constructors its requests carry, as the one global
	// cloner is in the service.  Only the cache-enabled side ever returns
	// messages to its pools.
	cloner *dnsmsg.Cloner

	mgr  *agdcache.DefaultManager
	strg *filterstorage.Default
	hp   [3]*hashprefix.Filter
	errs *vc12ErrColl
}

// vc12SideConf is what is drawn per case about the storages.
type vc12SideConf struct {
	// HPRepl is the replacement host of every hash-prefix filter.
	HPRepl [3]string `json:"hp_repl"`

	// HPFile says which hash-prefix filters read their list from a file URL
	// (the other way a refreshable gets its data: no download, no staleness);
	// HPFilePath are the files.
	HPFile     [3]bool   `json:"hp_file"`
	HPFilePath [3]string `json:"-"`

	// BaseLogger, if not nil, is the base logger of the cache-enabled storage.
	BaseLogger *slog.Logger `json:"-"`

	// CacheCount is the size of every LRU of the cache-enabled side; the small
	// ones make evictions happen inside a history.
	CacheCount int `json:"cache_count"`
}

// vc12CacheCounts are the LRU sizes drawn: the smallest legal one, the next
// one, and one that is never reached.
var vc12CacheCounts = []int{1, 2, 100, 100}

var vc12Repls = []string{"192.0.2.200", "2001:db8::200", "repl.block.test"}

const (
	vc12Timeout = 60 * time.Second
	vc12MaxSize = 640 * datasize.KB
)

func vc12NewSide(srv *vc12Srv, dir string, conf *vc12SideConf, cached bool) (sd *vc12Side, err error) {
	sd = &vc12Side{
		cached: cached,
		cloner: dnsmsg.NewCloner(dnsmsg.EmptyClonerStat{}),
		mgr:    agdcache.NewDefaultManager(),
		errs:   &vc12ErrColl{},
	}
	count := 100
	if cached && conf.CacheCount > 0 {
		count = conf.CacheCount
	}

	err = os.MkdirAll(dir, 0o755)
	if err != nil {
		return nil, err
	}

	for k, id := range vc12HPIDs {
		var hashes *hashprefix.Storage
		hashes, err = hashprefix.NewStorage("")
		if err != nil {
			return nil, err
		}

		u := srv.url(fmt.Sprintf("/hp/%d", k))
		if conf.HPFile[k] {
			u = &url.URL{Scheme: "file", Path: conf.HPFilePath[k]}
		}

		sd.hp[k], err = hashprefix.NewFilter(&hashprefix.FilterConfig{
			Logger:          slogutil.NewDiscardLogger(),
			Cloner:          sd.cloner,
			CacheManager:    sd.mgr,
			Hashes:          hashes,
			URL:             u,
			ErrColl:         sd.errs.collector(),
			Metrics:         filter.EmptyMetrics{},
			ID:              id,
			CachePath:       filepath.Join(dir, fmt.Sprintf("hp%d", k)),
			ReplacementHost: conf.HPRepl[k],
			Staleness:       0,
			CacheTTL:        time.Hour,
			RefreshTimeout:  vc12Timeout,
			CacheCount:      count,
			MaxSize:         vc12MaxSize,
		})
		if err != nil {
			return nil, err
		}
	}

	ss := func(i int) *filterstorage.ConfigSafeSearch {
		return &filterstorage.ConfigSafeSearch{
			URL:              srv.url(fmt.Sprintf("/ss/%d", i)),
			ID:               vc12SSIDs[i],
			MaxSize:          vc12MaxSize,
			ResultCacheTTL:   time.Hour,
			RefreshTimeout:   vc12Timeout,
			Staleness:        0,
			ResultCacheCount: count,
			Enabled:          true,
		}
	}

	baseLogger := slogutil.NewDiscardLogger()
	if cached && conf.BaseLogger != nil {
		baseLogger = conf.BaseLogger
	}

	sd.strg, err = filterstorage.New(&filterstorage.Config{
		BaseLogger: baseLogger,
		Logger:     slogutil.NewDiscardLogger(),
		BlockedServices: &filterstorage.ConfigBlockedServices{
			IndexURL:            srv.url("/svc"),
			IndexMaxSize:        vc12MaxSize,
			IndexRefreshTimeout: vc12Timeout,
			IndexStaleness:      0,
			ResultCacheCount:    count,
			ResultCacheEnabled:  cached,
			Enabled:             true,
		},
		Custom: &filterstorage.ConfigCustom{CacheCount: count},
		HashPrefix: &filterstorage.ConfigHashPrefix{
			Dangerous:       sd.hp[0],
			Adult:           sd.hp[1],
			NewlyRegistered: sd.hp[2],
		},
		RuleLists: &filterstorage.ConfigRuleLists{
			IndexURL:            srv.url("/idx"),
			IndexMaxSize:        vc12MaxSize,
			MaxSize:             vc12MaxSize,
			IndexRefreshTimeout: vc12Timeout,
			IndexStaleness:      0,
			RefreshTimeout:      vc12Timeout,
			Staleness:           0,
			ResultCacheCount:    count,
			ResultCacheEnabled:  cached,
		},
		SafeSearchGeneral: ss(0),
		SafeSearchYouTube: ss(1),
		CacheManager:      sd.mgr,
		Clock:             agdtime.SystemClock{},
		ErrColl:           sd.errs.collector(),
		Metrics:           filter.EmptyMetrics{},
		CacheDir:          dir,
	})
	if err != nil {
		return nil, err
	}

	ctx, cancel := context.WithTimeout(context.Background(), vc12Timeout)
	defer cancel()

	for k := range sd.hp {
		err = sd.hp[k].RefreshInitial(ctx)
		if err != nil {
			return nil, err
		}
	}

	err = sd.strg.RefreshInitial(ctx)
	if err != nil {
		return nil, err
	}

	return sd, nil
}

// purge empties every cache the manager knows about.  It is used on the
// reference side before every query, for the caches that cannot be configured
// off (hash-prefix, safe-search, custom).
func (sd *vc12Side) purge() {
	for _, id := range sd.mgr.IDs() {
		sd.mgr.ClearByID(id)
	}
}

func (sd *vc12Side) refreshStorage() error {
	ctx, cancel := context.WithTimeout(context.Background(), vc12Timeout)
	defer cancel()

	return sd.strg.Refresh(ctx)
}

func (sd *vc12Side) refreshHP(k int) error {
	ctx, cancel := context.WithTimeout(context.Background(), vc12Timeout)
	defer cancel()

	return sd.hp[k].Refresh(ctx)
}

// ---------------------------------------------------------------------------
// requesters

// vc12Req is one requester: a profile (client configuration) or the anonymous
// filtering group.
type vc12Req struct {
	Name  string `json:"name"`
	Group bool   `json:"group"`

	// Response construction settings of the requester.
	TTL  int  `json:"ttl"`
	Mode int  `json:"mode"`
	EDE  bool `json:"ede"`

	IP      string `json:"ip"`
	CliName string `json:"cli_name"`

	RLEnabled bool     `json:"rl_enabled"`
	Lists     []string `json:"lists"`

	ParEnabled bool     `json:"par_enabled"`
	Adult      bool     `json:"adult"`
	SS         [2]bool  `json:"ss"`
	Svcs       []string `json:"svcs"`

	SBEnabled bool `json:"sb_enabled"`
	Danger    bool `json:"danger"`
	NewReg    bool `json:"new_reg"`

	CustomEnabled bool     `json:"custom_enabled"`
	CustomRules   []string `json:"custom_rules"`

	// CustomUpd is the update time of the custom rules, in nanoseconds after
	// the base; ZeroBase makes the base the zero time.
	CustomUpd int64 `json:"custom_upd_ns"`
	ZeroBase  bool  `json:"zero_base"`

	// ProfID is the profile ID; it keys the custom-filter cache.
	ProfID string `json:"prof_id"`

	// msgs are the requester's message constructors, one per side.
	msgs [2]*dnsmsg.Constructor

	// conv, if not nil, is the filtering configuration that the real backend
	// conversion produced for this requester; convMode and convTTL are the
	// blocking mode and filtered-response TTL from the same conversion.  The
	// exported fields then are the settings the backend was given, which the
	// model judges by.
	conv     filter.Config
	convMode dnsmsg.BlockingMode
	convTTL  time.Duration
}

// snapshot returns a deep copy of r without its constructors.
func (r *vc12Req) snapshot() (c *vc12Req) {
	c = &vc12Req{}
	*c = *r
	c.Lists = slices.Clone(r.Lists)
	c.Svcs = slices.Clone(r.Svcs)
	c.CustomRules = slices.Clone(r.CustomRules)
	c.msgs = [2]*dnsmsg.Constructor{}

	return c
}

var vc12ModeNames = []string{"nullip", "nxdomain", "refused", "customip4", "customip46"}

func vc12Mode(i int) dnsmsg.BlockingMode {
	switch i {
	case 0:
		return &dnsmsg.BlockingModeNullIP{}
	case 1:
		return &dnsmsg.BlockingModeNXDOMAIN{}
	case 2:
		return &dnsmsg.BlockingModeREFUSED{}
	case 3:
		return &dnsmsg.BlockingModeCustomIP{IPv4: []netip.Addr{netip.MustParseAddr("192.0.2.66")}}
	default:
		return &dnsmsg.BlockingModeCustomIP{
			IPv4: []netip.Addr{netip.MustParseAddr("192.0.2.67")},
			IPv6: []netip.Addr{netip.MustParseAddr("2001:db8::67")},
		}
	}
}

func (r *vc12Req) init(cloners [2]*dnsmsg.Cloner) (err error) {
	mode, ttl := vc12Mode(r.Mode), time.Duration(r.TTL)*time.Second
	if r.conv != nil {
		mode, ttl = r.convMode, r.convTTL
	}

	for i, cl := range cloners {
		r.msgs[i], err = dnsmsg.NewConstructor(&dnsmsg.ConstructorConfig{
			Cloner:              cl,
			BlockingMode:        mode,
			StructuredErrors:    &dnsmsg.StructuredDNSErrorsConfig{Enabled: false},
			FilteredResponseTTL: ttl,
			EDEEnabled:          r.EDE,
		})
		if err != nil {
			return err
		}
	}

	return nil
}

// params is the identity of everything about the requester that shapes a
// constructed message.
func (r *vc12Req) params() string {
	return fmt.Sprintf("ttl%d/%s/ede%t", r.TTL, vc12ModeNames[r.Mode], r.EDE)
}

func vc12DrawSubset(t *rapid.T, all []string, label string) (sub []string) {
	for _, s := range all {
		if rapid.IntRange(0, 2).Draw(t, label) > 0 {
			sub = append(sub, s)
		}
	}

	// The order of a requester's list is its own.
	if len(sub) > 1 && rapid.Bool().Draw(t, label+"rev") {
		slices.Reverse(sub)
	}

	return sub
}

func vc12DrawReq(t *rapid.T, i int, group bool, cloners [2]*dnsmsg.Cloner) (r *vc12Req) {
	r = &vc12Req{
		Name:    fmt.Sprintf("p%d", i),
		ProfID:  fmt.Sprintf("c12prof%d", i),
		Group:   group,
		TTL:     rapid.SampledFrom([]int{10, 99, 3600, 0}).Draw(t, "ttl"),
		Mode:    rapid.IntRange(0, len(vc12ModeNames)-1).Draw(t, "mode"),
		EDE:     rapid.Bool().Draw(t, "ede"),
		IP:      fmt.Sprintf("192.0.2.%d", 100+i),
		CliName: fmt.Sprintf("dev%d", i),

		RLEnabled: rapid.IntRange(0, 5).Draw(t, "rl") > 0,
		Lists:     vc12DrawSubset(t, vc12ListIDs, "list"),

		ParEnabled: rapid.IntRange(0, 5).Draw(t, "par") > 0,
		Adult:      rapid.IntRange(0, 2).Draw(t, "adult") > 0,
		Svcs:       vc12DrawSubset(t, vc12SvcIDs, "svc"),

		SBEnabled: rapid.IntRange(0, 5).Draw(t, "sb") > 0,
		Danger:    rapid.IntRange(0, 2).Draw(t, "danger") > 0,
		NewReg:    rapid.IntRange(0, 2).Draw(t, "newreg") > 0,
	}
	if group {
		r.Name = "group"
		r.CliName = ""
	}

	for j := range r.SS {
		r.SS[j] = rapid.IntRange(0, 2).Draw(t, "ss") > 0
	}

	if !group && rapid.IntRange(0, 2).Draw(t, "custom") > 0 {
		r.CustomEnabled = true
		r.CustomRules = vc12DrawRules(t, vc12KindsList, 1, 3)
	}

	r.ZeroBase = rapid.IntRange(0, 3).Draw(t, "zerobase") == 0

	err := r.init(cloners)
	if err != nil {
		panic(err)
	}

	return r
}

// vc12CustomBase is the update time of the oldest custom configuration.
var vc12CustomBase = time.Unix(1_700_000_000, 0).UTC()

func (r *vc12Req) config() filter.Config {
	if r.conv != nil {
		return r.conv
	}

	par := &filter.ConfigParental{
		Enabled:                  r.ParEnabled,
		AdultBlockingEnabled:     r.Adult,
		SafeSearchGeneralEnabled: r.SS[0],
		SafeSearchYouTubeEnabled: r.SS[1],
	}
	for _, s := range r.Svcs {
		par.BlockedServices = append(par.BlockedServices, filter.BlockedServiceID(s))
	}

	rl := &filter.ConfigRuleList{Enabled: r.RLEnabled}
	for _, id := range r.Lists {
		rl.IDs = append(rl.IDs, filter.ID(id))
	}

	sb := &filter.ConfigSafeBrowsing{
		Enabled:                       r.SBEnabled,
		DangerousDomainsEnabled:       r.Danger,
		NewlyRegisteredDomainsEnabled: r.NewReg,
	}

	if r.Group {
		return &filter.ConfigGroup{Parental: par, RuleList: rl, SafeBrowsing: sb}
	}

	custom := &filter.ConfigCustom{
		ID:         r.ProfID,
		UpdateTime: r.customTime(),
		Enabled:    r.CustomEnabled && len(r.CustomRules) > 0,
	}
	for _, s := range r.CustomRules {
		custom.Rules = append(custom.Rules, filter.RuleText(s))
	}

	return &filter.ConfigClient{Custom: custom, Parental: par, RuleList: rl, SafeBrowsing: sb}
}

func (r *vc12Req) customTime() time.Time {
	if r.ZeroBase {
		return time.Time{}.Add(time.Duration(r.CustomUpd))
	}

	return vc12CustomBase.Add(time.Duration(r.CustomUpd))
}

func (r *vc12Req) customActive() bool { return !r.Group && r.CustomEnabled && len(r.CustomRules) > 0 }

func (r *vc12Req) hpEnabled(k int) bool {
	switch k {
	case 0:
		return r.SBEnabled && r.Danger
	case 1:
		return r.ParEnabled && r.Adult
	default:
		return r.SBEnabled && r.NewReg
	}
}

func (r *vc12Req) ssEnabled(i int) bool { return r.ParEnabled && r.SS[i] }

// ---------------------------------------------------------------------------
// queries

// vc12Q is a request as it reaches the filter.
type vc12Q struct {
	Host string `json:"host"`
	Name string `json:"qname"`
	QT   uint16 `json:"qt"`
	QC   uint16 `json:"qc"`
	ID   uint16 `json:"id"`
	RD   bool   `json:"rd"`
	CD   bool   `json:"cd"`
	AD   bool   `json:"ad"`

	// EDNS: 0 = none, 1 = OPT, 2 = OPT with DO.
	EDNS int    `json:"edns"`
	UDP  uint16 `json:"udp"`

	// ECS adds a client-subnet option to the OPT record.
	ECS bool `json:"ecs"`
}

func (q *vc12Q) msg() (m *dns.Msg) {
	m = &dns.Msg{}
	m.Id = q.ID
	m.RecursionDesired = q.RD
	m.CheckingDisabled = q.CD
	m.AuthenticatedData = q.AD
	// A CHAOS question is a debug request: mainmw rewrites the class in the
	// message to IN, while the request information keeps CHAOS.
	qc := q.QC
	if qc == dns.ClassCHAOS {
		qc = dns.ClassINET
	}

	m.Question = []dns.Question{{Name: q.Name, Qtype: q.QT, Qclass: qc}}
	if q.EDNS > 0 {
		m.SetEdns0(q.UDP, q.EDNS == 2)
		if q.ECS {
			opt := m.IsEdns0()
			opt.Option = append(opt.Option, &dns.EDNS0_SUBNET{
				Code:          dns.EDNS0SUBNET,
				Family:        1,
				SourceNetmask: 24,
				Address:       []byte{198, 51, 100, 0},
			})
		}
	}

	return m
}

// flags is the identity of everything about the request, other than the cache
// key, that shapes a constructed message.
func (q *vc12Q) flags() string {
	return fmt.Sprintf("%s/rd%t/cd%t/ad%t/edns%d/%d/ecs%t", q.Name, q.RD, q.CD, q.AD, q.EDNS, q.UDP, q.ECS)
}

func (q *vc12Q) String() string {
	return fmt.Sprintf("%s %s id=%d %s", dns.Type(q.QT), q.Name, q.ID, q.flags())
}

func vc12MixCase(t *rapid.T, s string) string {
	if rapid.IntRange(0, 2).Draw(t, "mixcase") > 0 {
		return s
	}

	b := []byte(s)
	for i := range b {
		if b[i] >= 'a' && b[i] <= 'z' && rapid.Bool().Draw(t, "up") {
			b[i] -= 'a' - 'A'
		}
	}

	return string(b)
}

// vc12DrawFlags fills the parts of q that are not in the cache key.  plain
// makes all requests look alike except for the ID.
func vc12DrawFlags(t *rapid.T, q *vc12Q, plain bool) {
	q.ID = uint16(rapid.IntRange(0, 65535).Draw(t, "id"))
	q.ECS = false
	q.Name = dns.Fqdn(q.Host)
	q.RD = true
	if plain {
		return
	}

	q.Name = vc12MixCase(t, q.Name)
	q.RD = rapid.IntRange(0, 3).Draw(t, "rd") > 0
	q.CD = rapid.IntRange(0, 3).Draw(t, "cd") == 0
	q.AD = rapid.IntRange(0, 3).Draw(t, "ad") == 0
	q.EDNS = rapid.IntRange(0, 2).Draw(t, "edns")
	q.UDP = 0
	if q.EDNS > 0 {
		q.UDP = rapid.SampledFrom([]uint16{512, 1232, 4096, 0}).Draw(t, "udp")
		q.ECS = rapid.IntRange(0, 3).Draw(t, "ecs") == 0
	}
}

func (q *vc12Q) request(r *vc12Req, side int) *filter.Request {
	return &filter.Request{
		DNS:        q.msg(),
		Messages:   r.msgs[side],
		RemoteIP:   netip.MustParseAddr(r.IP),
		ClientName: r.CliName,
		Host:       q.Host,
		QType:      q.QT,
		QClass:     q.QC,
	}
}

// vc12Item is one (host, rrtype) an answer is filtered by.
type vc12Item struct {
	Host string
	QT   uint16
}

// vc12Spell returns name in a drawn letter case: as it is, all upper, or mixed
// with at least one upper-case letter.  Upstreams return owner names and
// targets as the authoritative data or a 0x20-preserving forwarder spells
// them; only the question name is lower-cased before the filters see it.
func vc12Spell(t *rapid.T, name string) string {
	b := []byte(name)
	switch rapid.IntRange(0, 3).Draw(t, "spelling") {
	case 0, 1:
		return name
	case 2:
		return strings.ToUpper(name)
	default:
		first := true
		for i := range b {
			if b[i] < 'a' || b[i] > 'z' {
				continue
			}

			if first || rapid.Bool().Draw(t, "up") {
				b[i] -= 'a' - 'A'
			}

			first = false
		}

		return string(b)
	}
}

// vc12DrawAnswers draws the answer section of an upstream response.  target
// draws the target of a CNAME or alias record, as spelled.
func vc12DrawAnswers(t *rapid.T, owner string, target func() string) (rrs []dns.RR) {
	n := rapid.IntRange(1, 3).Draw(t, "nans")
	for range n {
		hdr := func(rt uint16) dns.RR_Header {
			return dns.RR_Header{Name: vc12Spell(t, owner), Rrtype: rt, Class: dns.ClassINET, Ttl: 60}
		}

		v4 := func() netip.Addr {
			if n := rapid.IntRange(0, 4).Draw(t, "ip4"); n > 0 {
				return netip.AddrFrom4([4]byte{192, 0, 2, byte(n)})
			}

			return netip.IPv4Unspecified()
		}

		switch rapid.IntRange(0, 7).Draw(t, "anskind") {
		case 6:
			rrs = append(rrs, &dns.CNAME{Hdr: hdr(dns.TypeCNAME), Target: target()})
		case 7:
			// An alias-mode record; its target is a name of the upstream's too.
			rrs = append(rrs, &dns.HTTPS{SVCB: dns.SVCB{Hdr: hdr(dns.TypeHTTPS), Priority: 0, Target: target()}})
		case 0, 1:
			rrs = append(rrs, &dns.A{Hdr: hdr(dns.TypeA), A: v4().AsSlice()})
		case 2:
			ip := netip.MustParseAddr(fmt.Sprintf("2001:db8::%d", rapid.IntRange(1, 3).Draw(t, "ip6")))
			rrs = append(rrs, &dns.AAAA{Hdr: hdr(dns.TypeAAAA), AAAA: ip.AsSlice()})
		case 3:
			rrs = append(rrs, &dns.CNAME{Hdr: hdr(dns.TypeCNAME), Target: target()})
		case 4:
			hint := &dns.SVCBIPv4Hint{}
			for range rapid.IntRange(1, 2).Draw(t, "nhint") {
				hint.Hint = append(hint.Hint, v4().AsSlice())
			}

			rrs = append(rrs, &dns.HTTPS{SVCB: dns.SVCB{
				Hdr:      hdr(dns.TypeHTTPS),
				Priority: 1,
				Target:   ".",
				Value:    []dns.SVCBKeyValue{&dns.SVCBAlpn{Alpn: []string{"h2"}}, hint},
			}})
		default:
			rrs = append(rrs, &dns.TXT{Hdr: hdr(dns.TypeTXT), Txt: []string{"c12"}})
		}
	}

	return rrs
}

// vc12AnswerItems lists, in the order of the answer section, what each answer
// is filtered by: the address of A and AAAA records, the target of CNAME
// records and every address hint of HTTPS records (with the HTTPS type).
func vc12AnswerItems(rrs []dns.RR) (items [][]vc12Item) {
	for _, rr := range rrs {
		var it []vc12Item
		switch rr := rr.(type) {
		case *dns.A:
			it = []vc12Item{{Host: rr.A.String(), QT: dns.TypeA}}
		case *dns.AAAA:
			it = []vc12Item{{Host: rr.AAAA.String(), QT: dns.TypeAAAA}}
		case *dns.CNAME:
			it = []vc12Item{{Host: strings.TrimSuffix(rr.Target, "."), QT: dns.TypeCNAME}}
		case *dns.HTTPS:
			for _, kv := range rr.Value {
				if k := kv.Key(); k == dns.SVCB_IPV4HINT || k == dns.SVCB_IPV6HINT {
					for _, s := range strings.Split(kv.String(), ",") {
						it = append(it, vc12Item{Host: s, QT: dns.TypeHTTPS})
					}
				}
			}
		}

		items = append(items, it)
	}

	return items
}

// ---------------------------------------------------------------------------
// results

// vc12Res is a filtering result in comparable form.
type vc12Res struct {
	Kind string `json:"kind"`
	List string `json:"list"`
	Rule string `json:"rule"`
	Msg  string `json:"msg,omitempty"`

	msg *dns.Msg
}

func (r vc12Res) verdict() string { return r.Kind + "/" + r.List + "/" + r.Rule }

func (r vc12Res) String() string {
	if r.Msg == "" {
		return r.verdict()
	}

	return r.verdict() + "\n" + r.Msg
}

// vc12MsgText renders a message completely (header, question, all sections
// with owner-name case and TTLs, OPT); zeroID drops the ID, which a rewritten
// request is documented to get anew.
func vc12MsgText(m *dns.Msg, zeroID bool) string {
	c := m.Copy()
	if zeroID {
		c.Id = 0
	}

	return c.String()
}

func vc12Render(r filter.Result) (res vc12Res) {
	switch r := r.(type) {
	case nil:
		return vc12Res{Kind: "nil"}
	case *filter.ResultAllowed:
		return vc12Res{Kind: "allowed", List: string(r.List), Rule: string(r.Rule)}
	case *filter.ResultBlocked:
		return vc12Res{Kind: "blocked", List: string(r.List), Rule: string(r.Rule)}
	case *filter.ResultModifiedResponse:
		return vc12Res{Kind: "modresp", List: string(r.List), Rule: string(r.Rule), Msg: vc12MsgText(r.Msg, false), msg: r.Msg}
	case *filter.ResultModifiedRequest:
		return vc12Res{Kind: "modreq", List: string(r.List), Rule: string(r.Rule), Msg: vc12MsgText(r.Msg, true), msg: r.Msg}
	default:
		return vc12Res{Kind: fmt.Sprintf("%T", r)}
	}
}

// vc12OwnMessage checks what holds for every message a filter builds, whoever
// asked before: a modified response answers this request and every record in
// it carries this requester's filtered-response TTL; a modified request asks
// this request's type.  It returns "" or what is wrong.
func vc12OwnMessage(r *vc12Req, q *vc12Q, res vc12Res) string {
	req := q.msg()
	switch m := res.msg; res.Kind {
	case "modresp":
		if !m.Response || m.Id != req.Id || len(m.Question) != 1 || m.Question[0] != req.Question[0] {
			return "the modified response is not a reply to this request:\n" + res.Msg
		}

		for _, sec := range [][]dns.RR{m.Answer, m.Ns, m.Extra} {
			for _, rr := range sec {
				if _, ok := rr.(*dns.OPT); !ok && rr.Header().Ttl != uint32(r.TTL) {
					return fmt.Sprintf("a record of the modified response has TTL %d, the requester's is %d:\n%s", rr.Header().Ttl, r.TTL, res.Msg)
				}
			}
		}

		if (m.IsEdns0() != nil) && req.IsEdns0() == nil {
			return "the modified response has an OPT record, the request has none:\n" + res.Msg
		}
	case "modreq":
		if len(m.Question) != 1 || m.Question[0].Qtype != req.Question[0].Qtype || m.Question[0].Qclass != req.Question[0].Qclass {
			return "the modified request does not ask this request's type and class:\n" + res.Msg
		}
	}

	return ""
}

// ---------------------------------------------------------------------------
// list-version model (membership predicates, see DESIGN.md section 6)

func vc12HashMatch(listed []string, host string) bool {
	for _, e := range listed {
		if host == e || strings.HasSuffix(host, "."+e) {
			return true
		}
	}

	return false
}

func vc12Filterable(qt uint16) bool {
	return qt == dns.TypeA || qt == dns.TypeAAAA || qt == dns.TypeHTTPS
}

func vc12HPIndex(list string) int {
	for k, id := range vc12HPIDs {
		if string(id) == list {
			return k
		}
	}

	return -1
}

// vc12ModelRuleSources checks a result whose list is the custom filter, a rule
// list or the blocked services against the current versions.  rewrite says
// whether $dnsrewrite rules are applied on this path.
func vc12ModelRuleSources(w *vc12World, r *vc12Req, host string, qt uint16, rewrite bool, res vc12Res) string {
	var src []string
	switch {
	case res.List == string(filter.IDCustom):
		if !r.customActive() {
			return "verdict from the custom filter of a requester that has none"
		}

		src = r.CustomRules
	case slices.Contains(vc12ListIDs, res.List):
		if !r.RLEnabled || !slices.Contains(r.Lists, res.List) {
			return "verdict from a rule list the requester has not enabled"
		} else if !slices.Contains(w.Idx, res.List) {
			return "verdict from a rule list that is not in the current index"
		}

		src = w.Lists[res.List]
	case res.List == string(filter.IDBlockedService):
		rules, ok := w.Svcs[res.Rule]
		switch {
		case !r.ParEnabled || !slices.Contains(r.Svcs, res.Rule):
			return "verdict from a service the requester has not blocked"
		case !ok:
			return "verdict from a service that is not in the current index"
		case len(vc12Matching(rules, host, qt, -1)) == 0:
			return "no rule of the current version of the service matches"
		case res.Kind != "blocked" && res.Kind != "allowed":
			return "service verdict of an unexpected kind"
		}

		return ""
	default:
		return "verdict names an unknown list"
	}

	if res.Rule == "" {
		if !rewrite || res.Kind != "modresp" || len(vc12Matching(src, host, qt, 1)) == 0 {
			return "verdict without a rule, but no $dnsrewrite rule of the current version of the list matches"
		}

		return ""
	}

	if !slices.Contains(vc12Matching(src, host, qt, 0), res.Rule) {
		return "the reported rule is not a matching rule of the current version of the list"
	}

	return ""
}

// vc12ModelRequest checks the result of a request against the current list
// versions.  It returns "" or what is wrong.
func vc12ModelRequest(w *vc12World, conf *vc12SideConf, r *vc12Req, host string, qt uint16, res vc12Res) string {
	any := r.customActive() && len(vc12Matching(r.CustomRules, host, qt, 0)) > 0
	if r.RLEnabled {
		for _, id := range r.Lists {
			if slices.Contains(w.Idx, id) && len(vc12Matching(w.Lists[id], host, qt, 0)) > 0 {
				any = true
			}
		}
	}

	if r.ParEnabled {
		for _, id := range r.Svcs {
			if len(vc12Matching(w.Svcs[id], host, qt, -1)) > 0 {
				any = true
			}
		}
	}

	if vc12Filterable(qt) {
		for k := range w.HP {
			if r.hpEnabled(k) && vc12HashMatch(w.HP[k], host) {
				any = true
			}
		}

		for i := range w.SS {
			if r.ssEnabled(i) && len(vc12Matching(w.SS[i], host, qt, 1)) > 0 {
				any = true
			}
		}
	}

	if res.Kind == "nil" {
		if any {
			return "no verdict, but the current list versions match this request"
		}

		return ""
	} else if !any {
		return "a verdict, but nothing in the current list versions matches this request"
	}

	if k := vc12HPIndex(res.List); k >= 0 {
		isIP := conf.HPRepl[k] != vc12Repls[2]
		switch {
		case !vc12Filterable(qt) || !r.hpEnabled(k):
			return "hash-prefix verdict for a requester or question type it does not apply to"
		case !slices.Contains(w.HP[k], res.Rule) || !vc12HashMatch([]string{res.Rule}, host):
			return "the matched name is not in the current version of the hash list"
		case isIP && res.Kind != "modresp" || !isIP && res.Kind != "modreq":
			return "hash-prefix verdict of an unexpected kind"
		}

		return ""
	}

	for i, id := range vc12SSIDs {
		if res.List != string(id) {
			continue
		}

		switch {
		case !vc12Filterable(qt) || !r.ssEnabled(i):
			return "safe-search verdict for a requester or question type it does not apply to"
		case res.Rule != host:
			return "safe-search verdict for another host"
		case len(vc12Matching(w.SS[i], host, qt, 1)) == 0:
			return "no rule of the current version of the safe-search list matches"
		}

		return ""
	}

	return vc12ModelRuleSources(w, r, host, qt, true, res)
}

// vc12ModelResponse checks the result of a response against the current list
// versions.
func vc12ModelResponse(w *vc12World, r *vc12Req, items [][]vc12Item, res vc12Res) string {
	for _, ans := range items {
		for _, it := range ans {
			any := r.customActive() && len(vc12Matching(r.CustomRules, it.Host, it.QT, -1)) > 0
			if r.RLEnabled {
				for _, id := range r.Lists {
					if slices.Contains(w.Idx, id) && len(vc12Matching(w.Lists[id], it.Host, it.QT, -1)) > 0 {
						any = true
					}
				}
			}

			if r.ParEnabled {
				for _, id := range r.Svcs {
					if len(vc12Matching(w.Svcs[id], it.Host, it.QT, -1)) > 0 {
						any = true
					}
				}
			}

			if !any {
				continue
			}

			switch res.Kind {
			case "nil":
				return fmt.Sprintf("no verdict, but the current list versions match the answer %s/%s", it.Host, dns.Type(it.QT))
			case "blocked", "allowed":
				return vc12ModelRuleSources(w, r, it.Host, it.QT, false, res)
			default:
				return "response verdict of an unexpected kind"
			}
		}
	}

	if res.Kind != "nil" {
		return "a verdict, but nothing in the current list versions matches any answer"
	}

	return ""
}
