//go:build verif

package filterstorage_test

// C12 (d): the custom-filter cache is keyed by profile ID and update time, and
// the update time is assigned by the conversion of backend profiles.  Here the
// requesters' filtering configurations, blocking modes and TTLs reach the
// storages through the real backendpb.ProfileStorage, fed by an in-process
// gRPC backend, over sequences of full and incremental synchronisations with
// changes of custom rules and settings in between, the way profiledb.Default
// drives it.  The model judges by the settings the backend was given.

import (
	"context"
	"fmt"
	"net"
	"net/netip"
	"net/url"
	"strconv"
	"sync"
	"testing"
	"time"

	"github.com/AdguardTeam/AdGuardDNS/internal/backendpb"
	"github.com/AdguardTeam/AdGuardDNS/internal/profiledb"
	"github.com/AdguardTeam/golibs/logutil/slogutil"
	"github.com/c2h5oh/datasize"
	"google.golang.org/grpc"
	"google.golang.org/grpc/credentials/insecure"
	"google.golang.org/grpc/metadata"
	"google.golang.org/protobuf/types/known/durationpb"
	"pgregory.net/rapid"
	"verif.local/harness/vstat"
)

// vc12BackendBase is the backend's first synchronisation point; every change
// and every response moves its clock by ten seconds.
var vc12BackendBase = time.Unix(1_700_000_000, 0).UTC()

// vc12Backend is the fake business-logic backend.
type vc12Backend struct {
	backendpb.UnimplementedDNSServiceServer

	mu       sync.Mutex
	tick     int64
	profiles []*vc12Req
	modTick  []int64
	sent     []int
}

func (b *vc12Backend) reset(profiles []*vc12Req) {
	b.mu.Lock()
	defer b.mu.Unlock()

	b.tick = 0
	b.profiles = profiles
	b.modTick = make([]int64, len(profiles))
}

// changed records that profile i has been changed by its user.
func (b *vc12Backend) changed(i int) {
	b.mu.Lock()
	defer b.mu.Unlock()

	b.tick++
	b.modTick[i] = b.tick
}

func vc12ProfileToPB(r *vc12Req) (p *backendpb.DNSProfile) {
	p = &backendpb.DNSProfile{
		DnsId:            r.ProfID,
		FilteringEnabled: true,
		SafeBrowsing: &backendpb.SafeBrowsingSettings{
			Enabled:               r.SBEnabled,
			BlockDangerousDomains: r.Danger,
			BlockNrd:              r.NewReg,
		},
		Parental: &backendpb.ParentalSettings{
			Enabled:           r.ParEnabled,
			BlockAdult:        r.Adult,
			GeneralSafeSearch: r.SS[0],
			YoutubeSafeSearch: r.SS[1],
			BlockedServices:   r.Svcs,
		},
		RuleLists:           &backendpb.RuleListsSettings{Enabled: r.RLEnabled, Ids: r.Lists},
		FilteredResponseTtl: durationpb.New(time.Duration(r.TTL) * time.Second),
	}
	if r.CustomEnabled {
		p.CustomRules = r.CustomRules
	}

	bin := func(s string) []byte {
		b, _ := netip.MustParseAddr(s).MarshalBinary()

		return b
	}

	// Keep in step with vc12Mode.
	switch r.Mode {
	case 0:
		p.BlockingMode = &backendpb.DNSProfile_BlockingModeNullIp{BlockingModeNullIp: &backendpb.BlockingModeNullIP{}}
	case 1:
		p.BlockingMode = &backendpb.DNSProfile_BlockingModeNxdomain{BlockingModeNxdomain: &backendpb.BlockingModeNXDOMAIN{}}
	case 2:
		p.BlockingMode = &backendpb.DNSProfile_BlockingModeRefused{BlockingModeRefused: &backendpb.BlockingModeREFUSED{}}
	case 3:
		p.BlockingMode = &backendpb.DNSProfile_BlockingModeCustomIp{BlockingModeCustomIp: &backendpb.BlockingModeCustomIP{
			Ipv4: bin("192.0.2.66"),
		}}
	default:
		p.BlockingMode = &backendpb.DNSProfile_BlockingModeCustomIp{BlockingModeCustomIp: &backendpb.BlockingModeCustomIP{
			Ipv4: bin("192.0.2.67"),
			Ipv6: bin("2001:db8::67"),
		}}
	}

	return p
}

// GetDNSProfiles implements the [backendpb.DNSServiceServer] interface for
// *vc12Backend: everything on a full synchronisation, otherwise the profiles
// changed after the given synchronisation point.
func (b *vc12Backend) GetDNSProfiles(
	req *backendpb.DNSProfilesRequest,
	srv grpc.ServerStreamingServer[backendpb.DNSProfile],
) (err error) {
	b.mu.Lock()
	defer b.mu.Unlock()

	since := int64(-1)
	if t := req.GetSyncTime().AsTime(); !t.IsZero() {
		since = int64(t.Sub(vc12BackendBase) / (10 * time.Second))
	}

	b.sent = nil
	for i, p := range b.profiles {
		if b.modTick[i] <= since {
			continue
		}

		err = srv.Send(vc12ProfileToPB(p))
		if err != nil {
			return err
		}

		b.sent = append(b.sent, i)
	}

	b.tick++
	now := vc12BackendBase.Add(time.Duration(b.tick) * 10 * time.Second)
	srv.SetTrailer(metadata.MD{"sync_time": []string{strconv.FormatInt(now.UnixMilli(), 10)}})

	return nil
}

// vc12BackendState is the backend part of a case.
type vc12BackendState struct {
	backend *vc12Backend
	strg    *backendpb.ProfileStorage
	errs    *vc12ErrColl

	// intent are the profiles as the backend has them; c.reqs holds them as
	// last delivered.
	intent []*vc12Req

	// pending marks profiles whose custom rules were changed and not
	// delivered yet; used marks those whose custom filter has been asked for
	// since the last delivery.
	pending []bool
	used    []bool

	lastSync time.Time
}

// backendChange is a user changing a profile at the backend.
func (c *vc12Case) backendChange() {
	t := c.t
	be := c.be
	i := rapid.IntRange(0, len(be.intent)-1).Draw(t, "client")
	r := be.intent[i]
	what := "custom rules"
	switch rapid.IntRange(0, 7).Draw(t, "change") {
	case 0:
		r.CustomEnabled = !r.CustomEnabled
		if r.CustomEnabled && len(r.CustomRules) == 0 {
			r.CustomRules = vc12DrawRules(t, vc12KindsList, 1, 3)
		}

		be.pending[i] = true
	case 1:
		r.Adult, what = !r.Adult, "adult blocking"
	case 2:
		j := rapid.IntRange(0, 1).Draw(t, "whichss")
		r.SS[j], what = !r.SS[j], fmt.Sprintf("safe search %d", j)
	case 3:
		if rapid.Bool().Draw(t, "whichsb") {
			r.Danger, what = !r.Danger, "dangerous domains"
		} else {
			r.NewReg, what = !r.NewReg, "newly registered domains"
		}
	case 4:
		r.TTL = rapid.SampledFrom([]int{10, 99, 3600, 0}).Draw(t, "ttl")
		r.Mode = rapid.IntRange(0, len(vc12ModeNames)-1).Draw(t, "mode")
		what = "ttl and blocking mode"
	default:
		r.CustomEnabled = true
		r.CustomRules = vc12MutateRules(t, r.CustomRules, vc12KindsList, 1)
		if len(r.CustomRules) == 0 {
			r.CustomRules = []string{vc12DrawRule(t, vc12KindsList)}
		}

		be.pending[i] = true
	}

	be.backend.changed(i)
	c.logf("BACKEND %s changes %s: %+v", r.Name, what, *r)
	c.st.Class("op-backend-change")
}

// sync is one synchronisation as profiledb.Default makes them: a full one
// carries the zero time, an incremental one the point of the last response.
func (c *vc12Case) sync(full bool) {
	be := c.be
	req := &profiledb.StorageProfilesRequest{SyncTime: be.lastSync}
	if full {
		req.SyncTime = time.Time{}
	}

	ctx, cancel := context.WithTimeout(context.Background(), vc12Timeout)
	defer cancel()

	resp, err := be.strg.Profiles(ctx, req)
	if err != nil {
		vc12Inconclusive(c.t, "synchronisation failed without an injected fault: %v", err)
	} else if errs := be.errs.take(); len(errs) > 0 {
		vc12Inconclusive(c.t, "synchronisation reported errors: %q", errs)
	}

	be.lastSync = resp.SyncTime
	kind := "incremental"
	if full {
		kind = "full"
		if len(resp.Profiles) != len(be.intent) {
			vc12Inconclusive(c.t, "full synchronisation delivered %d profiles of %d", len(resp.Profiles), len(be.intent))
		}
	}

	var names []string
	classes := []string{"op-sync-" + kind}
	for _, p := range resp.Profiles {
		i := -1
		for j, r := range be.intent {
			if r.ProfID == string(p.ID) {
				i = j
			}
		}

		if i < 0 {
			vc12Inconclusive(c.t, "synchronisation delivered an unknown profile %q", p.ID)
		}

		d := be.intent[i].snapshot()
		d.conv, d.convMode, d.convTTL = p.FilterConfig, p.BlockingMode, p.FilteredResponseTTL
		if err = d.init(c.cloners()); err != nil {
			c.failf("profile %s as converted cannot build messages: %v", d.Name, err)
		}

		c.reqs[i] = d
		names = append(names, d.Name)
		if be.pending[i] {
			classes = append(classes, "sync-"+kind+"-delivers-custom-change")
			if be.used[i] {
				classes = append(classes, "sync-"+kind+"-delivers-custom-change-to-cached-filter")
			}
		}

		be.pending[i], be.used[i] = false, false
	}

	c.epoch++
	c.logf("SYNC %s delivers %v", kind, names)
	c.st.Class(classes...)
}

func TestVerifC12BackendSync(t *testing.T) {
	st := vstat.New("C12", "filterstorage.backendsync",
		"rapid histories as in filterstorage.histories, but the three profiles' filtering configuration (custom rules with the "+
			"update time, lists, services, safe search, hash filters), blocking mode and filtered TTL reach the storages through "+
			"the real backendpb.ProfileStorage from an in-process gRPC backend: users change custom rules or one setting at the "+
			"backend, full (zero sync time) and incremental synchronisations deliver them (incremental ones only the changed "+
			"profiles), queries run in between; the model judges by the settings the backend holds as of the last delivery; "+
			"evaluations = compared queries; non-trivial as in filterstorage.histories",
		"op-sync-full", "op-sync-incremental", "op-backend-change",
		"sync-full-delivers-custom-change-to-cached-filter", "sync-incremental-delivers-custom-change-to-cached-filter",
		"src-custom", "v-modresp", "key-asked-before-last-refresh", "verdict-changed-since-last-asked")
	st.Finish(t)

	backend := &vc12Backend{}
	l, err := net.Listen("tcp", "127.0.0.1:0")
	if err != nil {
		vc12Inconclusive(t, "listening on loopback: %v", err)
	}

	grpcSrv := grpc.NewServer(grpc.Creds(insecure.NewCredentials()))
	backendpb.RegisterDNSServiceServer(grpcSrv, backend)
	go func() { _ = grpcSrv.Serve(l) }()
	t.Cleanup(grpcSrv.Stop)

	errs := &vc12ErrColl{}
	profStrg, err := backendpb.NewProfileStorage(&backendpb.ProfileStorageConfig{
		BindSet:         netip.MustParsePrefix("0.0.0.0/0"),
		ErrColl:         errs.collector(),
		Logger:          slogutil.NewDiscardLogger(),
		GRPCMetrics:     backendpb.EmptyGRPCMetrics{},
		Metrics:         backendpb.EmptyProfileDBMetrics{},
		Endpoint:        &url.URL{Scheme: "grpc", Host: l.Addr().String()},
		MaxProfilesSize: 1 * datasize.MB,
	})
	if err != nil {
		t.Fatalf("profile storage: %v", err)
	}

	srv := vc12NewSrv(t)
	base := vc12BaseDir(t)

	rapid.Check(t, func(t *rapid.T) {
		c := vc12NewCase(t, st, srv, base, 3)
		defer c.close()

		n := len(c.reqs) - 1
		be := &vc12BackendState{backend: backend, strg: profStrg, errs: errs, pending: make([]bool, n), used: make([]bool, n)}
		for _, r := range c.reqs[:n] {
			be.intent = append(be.intent, r.snapshot())
		}

		c.be = be
		backend.reset(be.intent)
		errs.take()

		// The service starts with a full synchronisation.
		c.sync(true)

		steps := rapid.IntRange(10, 40).Draw(t, "steps")
		for range steps {
			switch op := rapid.IntRange(0, 19).Draw(t, "op"); {
			case op < 9:
				c.query(false)
			case op < 11:
				c.query(true)
			case op < 14:
				c.backendChange()
			case op < 16:
				c.sync(false)
			case op < 18:
				c.sync(true)
			case op < 19:
				c.refreshStorage()
			default:
				c.refreshHP()
			}
		}

		if st.WantSample() {
			st.Sample(c.hist)
		}
	})
}
