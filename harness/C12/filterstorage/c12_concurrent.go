//go:build verif

package filterstorage_test

// C12 (c): refreshes that run concurrently with queries.  Schedules are
// sampled, not owned: only the post-quiescence clause is asserted (after the
// refreshes have returned and every in-flight query has completed, no answer
// reflects an old version), plus whatever the race detector sees.

import (
	"context"
	"fmt"
	"strings"
	"sync"
	"sync/atomic"
	"testing"

	"github.com/miekg/dns"
	"pgregory.net/rapid"
	"verif.local/harness/vstat"
)

type vc12Spec struct {
	ri int
	q  vc12Q
}

func TestVerifC12Concurrent(t *testing.T) {
	st := vstat.New("C12", "filterstorage.concurrent",
		"rapid cases: 1-3 rounds in which 4 goroutines keep querying a cache-enabled storage (+hashprefix filters) on 4-8 "+
			"hot keys from 3 requesters with identical message settings while the storage and all hash lists are refreshed to a "+
			"generated new version; real goroutine schedules (sampled); after quiescence every key is compared with a reference "+
			"storage refreshed without concurrency and with the list-version model; evaluations = post-quiescence comparisons; "+
			"non-trivial = the key's verdict differs between the version before and after the concurrent refresh; distinct by "+
			"(key, requester settings, old verdict, new verdict)",
		"verdict-changed-by-concurrent-refresh", "queries-overlapped-refresh")
	st.Finish(t)

	srv := vc12NewSrv(t)
	base := vc12BaseDir(t)

	rapid.Check(t, func(t *rapid.T) {
		c := vc12NewCase(t, st, srv, base, 2)
		defer c.close()

		// Requesters differ in TTL, blocking mode and EDE, and requests in flags,
		// so that a message that reaches the wrong one shows.
		var specs []vc12Spec
		for range rapid.IntRange(4, 8).Draw(t, "nspecs") {
			s := vc12Spec{
				ri: rapid.IntRange(0, len(c.reqs)-1).Draw(t, "requester"),
				q: vc12Q{
					Host: rapid.SampledFrom(vc12QueryHosts).Draw(t, "host"),
					QT:   rapid.SampledFrom(vc12QTypes).Draw(t, "qt"),
					QC:   dns.ClassINET,
				},
			}
			vc12DrawFlags(t, &s.q, false)
			specs = append(specs, s)
		}

		before := make([]vc12Res, len(specs))
		ctx := context.Background()
		ask := func(sd *vc12Side, s vc12Spec) (vc12Res, error) {
			r := c.reqs[s.ri]
			side := 1
			if sd.cached {
				side = 0
			}

			raw, err := sd.strg.ForConfig(ctx, r.config()).FilterRequest(ctx, s.q.request(r, side))

			return vc12Render(raw), err
		}

		for i, s := range specs {
			var err error
			before[i], err = ask(c.cached, s)
			if err != nil {
				c.failf("FilterRequest: %v", err)
			}
		}

		rounds := rapid.IntRange(1, 3).Draw(t, "rounds")
		for round := range rounds {
			old := c.w
			nw := old.clone()
			for _, id := range vc12ListIDs {
				if rapid.Bool().Draw(t, "mutlist") {
					nw.Lists[id] = vc12MutateRules(t, nw.Lists[id], vc12KindsList, 0)
				}
			}

			for _, id := range vc12SvcIDs {
				if _, ok := nw.Svcs[id]; ok && rapid.Bool().Draw(t, "mutsvc") {
					nw.Svcs[id] = vc12MutateRules(t, nw.Svcs[id], vc12KindsSvc, 1)
					if len(nw.Svcs[id]) == 0 {
						nw.Svcs[id] = []string{vc12DrawRule(t, vc12KindsSvc)}
					}
				}
			}

			for i := range nw.SS {
				nw.SS[i] = vc12MutateRules(t, nw.SS[i], vc12KindsSS, 0)
			}

			for k := range nw.HP {
				nw.HP[k] = vc12DrawHashHosts(t)
			}

			nw.publishStorage(srv)
			for k := range nw.HP {
				nw.publishHP(srv, k)
			}

			// Queries run from before the refreshes start until after they
			// have returned.
			var (
				wg         sync.WaitGroup
				stop       atomic.Bool
				refreshing atomic.Bool
				overlapped atomic.Int64
				errMu      sync.Mutex
				errs       []string
			)

			started := make(chan struct{}, 4)
			for g := range 4 {
				wg.Add(1)
				go func() {
					defer wg.Done()

					signalled := false
					for n := g; !stop.Load() || n < g+8; n++ {
						during := refreshing.Load()
						s := specs[n%len(specs)]
						res, err := ask(c.cached, s)
						why := ""
						if err != nil {
							why = err.Error()
						} else {
							why = vc12OwnMessage(c.reqs[s.ri], &s.q, res)
						}

						if why != "" {
							errMu.Lock()
							errs = append(errs, fmt.Sprintf("%s asking %s: %s", c.reqs[s.ri].Name, &s.q, why))
							errMu.Unlock()
						}

						// The result goes through the pipeline and back to the pools.
						if res.msg != nil {
							vc12Scribble(res.msg)
							if res.Kind == "modresp" {
								c.cached.cloner.Dispose(res.msg)
							}
						}

						if during && refreshing.Load() {
							overlapped.Add(1)
						}

						if !signalled {
							signalled = true
							started <- struct{}{}
						}
					}
				}()
			}

			for range 4 {
				<-started
			}

			refreshing.Store(true)
			var refreshErr error
			order := rapid.Permutation([]int{0, 1, 2, 3}).Draw(t, "order")
			for _, what := range order {
				if refreshErr != nil {
					break
				}

				if what == 3 {
					refreshErr = c.cached.refreshStorage()
				} else {
					refreshErr = c.cached.refreshHP(what)
				}
			}

			refreshing.Store(false)
			stop.Store(true)
			wg.Wait()

			if refreshErr != nil {
				vc12Inconclusive(t, "refresh failed without an injected fault: %v", refreshErr)
			} else if len(errs) > 0 {
				c.failf("queries in flight during a refresh got errors or messages that are not theirs:\n%s", strings.Join(errs, "\n"))
			}

			// The reference is refreshed with nothing else running.
			if err := c.twin.refreshStorage(); err != nil {
				vc12Inconclusive(t, "reference refresh failed: %v", err)
			}

			for k := range c.twin.hp {
				if err := c.twin.refreshHP(k); err != nil {
					vc12Inconclusive(t, "reference refresh failed: %v", err)
				}
			}

			srv.takeHits()
			c.checkErrs("concurrent refresh")
			c.w = nw
			c.logf("ROUND %d: refreshed (order %v) to idx=%v lists=%v svcs=%v ss=%v hp=%v with %d queries overlapping", round, order,
				nw.Idx, nw.Lists, nw.Svcs, nw.SS, nw.HP, overlapped.Load())
			if overlapped.Load() > 0 {
				st.Class("queries-overlapped-refresh")
			}

			for i, s := range specs {
				r := c.reqs[s.ri]
				got, err := ask(c.cached, s)
				if err != nil {
					c.failf("FilterRequest: %v", err)
				}

				c.twin.purge()
				want, err := ask(c.twin, s)
				if err != nil {
					c.failf("FilterRequest: %v", err)
				}

				c.logf("AFTER %s %s -> %s (before the round: %s)", r.Name, &s.q, got.verdict(), before[i].verdict())

				nt, cls, extra := "", "verdict-kept", ""
				if before[i].verdict() != want.verdict() {
					cls = "verdict-changed-by-concurrent-refresh"
					nt = fmt.Sprintf("%s/%d|%t%v|%t%t%v%v|%t%t%t|%s->%s", s.q.Host, s.q.QT, r.RLEnabled, r.Lists, r.ParEnabled, r.Adult,
						r.SS, r.Svcs, r.SBEnabled, r.Danger, r.NewReg, before[i].verdict(), want.verdict())
				}

				why := ""
				if got.String() != want.String() {
					why = fmt.Sprintf("differs from a storage refreshed without concurrency\n  concurrent: %s\n  reference:  %s", got, want)
				} else if m := vc12ModelRequest(c.w, c.conf, r, s.q.Host, s.q.QT, got); m != "" {
					why = m
				}

				if why != "" && vc12HPIndex(want.List) >= 0 && got.verdict() == want.verdict() && got.Kind == "modresp" {
					// The replay finding of the sequential part shows even when all
					// requesters are alike: a cached blocked response to an HTTPS
					// question loses its NXDOMAIN or REFUSED code in SetReply.
					m := want.msg.Copy()
					m.SetReply(s.q.msg())
					if vc12MsgText(m, false) == got.Msg {
						if !st.Known(vc12KnownRespReplay) {
							c.failf("result caches are visible: %s asking %s gets a cached message replayed through SetReply [%s]\n  with caches:    %s\n  without caches: %s",
								r.Name, &s.q, vc12KnownRespReplay, got, want)
						}

						why = ""
						extra = "excluded-" + vc12KnownRespReplay
					}
				}

				if why != "" {
					// Is it the hash-prefix in-flight race?  The key's membership in
					// some hash list changed, and the answer is right for the old
					// hash list.
					explained := false
					for k := range nw.HP {
						if !r.hpEnabled(k) || !vc12Filterable(s.q.QT) || vc12HashMatch(old.HP[k], s.q.Host) == vc12HashMatch(nw.HP[k], s.q.Host) {
							continue
						}

						mixed := nw.clone()
						mixed.HP[k] = old.HP[k]
						if (vc12HPIndex(got.List) == k || vc12HPIndex(want.List) == k) &&
							vc12ModelRequest(mixed, c.conf, r, s.q.Host, s.q.QT, got) == "" {
							explained = true
						}
					}

					if explained && st.Known(vc12KnownRefreshRace) {
						extra = "excluded-" + vc12KnownRefreshRace
					} else {
						c.failf("after the refreshes returned and all queries completed, %s asking %s gets %s: %s", r.Name, &s.q, got.verdict(), why)
					}
				}

				before[i] = want
				st.Case(nt, cls, extra)
			}
		}

		if st.WantSample() {
			st.Sample(c.hist)
		}
	})
}
