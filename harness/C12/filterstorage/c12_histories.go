//go:build verif

package filterstorage_test

// C12 (a, b): histories of filter queries from several requesters, interleaved
// with list refreshes and custom-rule updates, against a storage with every
// result cache on and a twin with the caches off or purged before every query.

import (
	"context"
	"fmt"
	"os"
	"path/filepath"
	"slices"
	"strings"
	"testing"
	"time"

	"github.com/AdguardTeam/AdGuardDNS/internal/dnsmsg"
	"github.com/AdguardTeam/AdGuardDNS/internal/filter"
	"github.com/miekg/dns"
	"pgregory.net/rapid"
	"verif.local/harness/vstat"
)

func vc12Inconclusive(t interface {
	Logf(string, ...any)
	FailNow()
}, format string, args ...any) {
	fmt.Printf("VERIF-INCONCLUSIVE: "+format+"\n", args...)
	t.Logf("VERIF-INCONCLUSIVE: "+format, args...)
	t.FailNow()
}

// vc12BaseDir returns the directory the storages keep their cache files in.
//
// Every download ends in an fsync of the cache file (renameio), which is most
// of the cost of a history on a disk; a memory file system is used when there
// is one.  The content of the files is not part of this property.
func vc12BaseDir(tb testing.TB) string {
	for _, d := range []string{"/dev/shm", os.Getenv("VERIF_WORK")} {
		if d == "" {
			continue
		}

		// A run that was killed (a data race halts the process) leaves its
		// directory behind; sweep those that are clearly not in use any more.
		if old, _ := filepath.Glob(filepath.Join(d, "verif-c12-*")); d == "/dev/shm" {
			for _, o := range old {
				if fi, statErr := os.Stat(o); statErr == nil && time.Since(fi.ModTime()) > 3*time.Hour {
					_ = os.RemoveAll(o)
				}
			}
		}

		dir, err := os.MkdirTemp(d, "verif-c12-")
		if err == nil {
			tb.Cleanup(func() { _ = os.RemoveAll(dir) })

			return dir
		}
	}

	return tb.TempDir()
}

// vc12Case is one history.
type vc12Case struct {
	t    *rapid.T
	st   *vstat.Stats
	srv  *vc12Srv
	dir  string
	conf *vc12SideConf
	w    *vc12World

	cached *vc12Side
	twin   *vc12Side
	reqs   []*vc12Req

	hist []string

	// epoch counts the refreshes and custom updates so far.
	epoch int

	// seen maps a cache key to who asked it and when.
	seen map[string]map[int]int

	// last is the last verdict per (requester, key).
	last map[string]vc12Last

	// hpSeen holds, per hash-prefix filter and key, the messages the reference
	// side produced since the filter's last refresh.
	hpSeen map[string][]vc12HPSeen

	// asked are earlier queries to draw repeats from.
	asked []vc12Q

	// hpAlt, per hash-prefix filter, is the readable prefix of the last list
	// whose refresh the filter rejected, until its next successful refresh;
	// hpAltEpoch is when.  This property does not decide whether a rejected
	// refresh leaves the old list or the readable part in place (C13 does):
	// the list-version model accepts either, the twin comparison needs
	// neither.
	hpAlt      [3]*[]string
	hpAltEpoch [3]int

	// modelOff is set between a rejected storage refresh and the next
	// successful one: which of the storage-managed sources were replaced is
	// C13's question, so only the twin comparison is made.
	modelOff bool

	// be is the backend part's state, if any.
	be *vc12BackendState

	// reqObj are the request objects of the two sides, reused for every query.
	reqObj [2]*filter.Request

	// targets maps a lower-cased CNAME target to its spellings in upstream
	// answers so far and when each was last filtered.
	targets map[string]map[string]int
}

// drawTarget draws the target of a CNAME record: a name of the pool in a drawn
// spelling, or a name that has been a target since the last refresh in another
// spelling, so that both orders (lower case first, lower case second) occur
// while the first is still cached.  Rule lists spell names in lower case.
func (c *vc12Case) drawTarget() string {
	t := c.t
	var recent []string
	for lower, spellings := range c.targets {
		for _, ep := range spellings {
			if ep == c.epoch && !slices.Contains(recent, lower) {
				recent = append(recent, lower)
			}
		}
	}

	slices.Sort(recent)
	if len(recent) > 0 && rapid.Bool().Draw(t, "respell") {
		lower := rapid.SampledFrom(recent).Draw(t, "retarget")
		if _, ok := c.targets[lower][lower]; ok || rapid.Bool().Draw(t, "upperagain") {
			// The lower-case spelling has been seen: now another one.
			for range 4 {
				if s := vc12Spell(t, lower); s != lower {
					return s
				}
			}

			return strings.ToUpper(lower)
		}

		return lower
	}

	return vc12Spell(t, dns.Fqdn(rapid.SampledFrom(vc12Hosts).Draw(t, "target")))
}

// modelWorlds returns the list versions the storages may be serving.
func (c *vc12Case) modelWorlds() (ws []*vc12World) {
	ws = []*vc12World{c.w}
	for k, alt := range c.hpAlt {
		if alt == nil {
			continue
		}

		for _, w := range ws[:len(ws):len(ws)] {
			a := w.clone()
			a.HP[k] = slices.Clone(*alt)
			ws = append(ws, a)
		}
	}

	return ws
}

// modelRequest is vc12ModelRequest over the versions that may be served.
func (c *vc12Case) modelRequest(r *vc12Req, host string, qt uint16, res vc12Res) (why string) {
	if c.modelOff {
		return ""
	}

	for _, w := range c.modelWorlds() {
		why = vc12ModelRequest(w, c.conf, r, host, qt, res)
		if why == "" {
			return ""
		}
	}

	return why
}

type vc12Last struct {
	verdict string
	epoch   int
}

type vc12HPSeen struct {
	msg    *dns.Msg
	who    string
	params string
}

func (c *vc12Case) logf(format string, args ...any) {
	c.hist = append(c.hist, fmt.Sprintf("%2d: ", len(c.hist))+fmt.Sprintf(format, args...))
}

func (c *vc12Case) history() string {
	return fmt.Sprintf("hash-prefix replacement hosts %v from file %v cache count %d\n%s", c.conf.HPRepl, c.conf.HPFile, c.conf.CacheCount,
		strings.Join(c.hist, "\n"))
}

func (c *vc12Case) failf(format string, args ...any) {
	c.t.Fatalf("%s\nHISTORY\n%s", fmt.Sprintf(format, args...), c.history())
}

// checkErrs turns anything the code reported to its error collector into an
// inconclusive run: this check injects no fault.
func (c *vc12Case) checkErrs(when string) {
	for _, sd := range []*vc12Side{c.cached, c.twin} {
		if errs := sd.errs.take(); len(errs) > 0 {
			vc12Inconclusive(c.t, "%s: unexpected error reports (cached=%t): %q", when, sd.cached, errs)
		}
	}
}

func vc12NewCase(t *rapid.T, st *vstat.Stats, srv *vc12Srv, base string, nClients int, opts ...func(*vc12SideConf)) (c *vc12Case) {
	c = &vc12Case{
		t: t, st: st, srv: srv,
		conf:    &vc12SideConf{CacheCount: rapid.SampledFrom(vc12CacheCounts).Draw(t, "cachecount")},
		seen:    map[string]map[int]int{},
		targets: map[string]map[string]int{},
		last:    map[string]vc12Last{},
		hpSeen:  map[string][]vc12HPSeen{},
	}
	for k := range c.conf.HPRepl {
		c.conf.HPRepl[k] = rapid.SampledFrom(vc12Repls).Draw(t, "hprepl")
	}

	for _, o := range opts {
		o(c.conf)
	}

	var err error
	c.dir, err = os.MkdirTemp(base, "case-")
	if err != nil {
		vc12Inconclusive(t, "temporary directory: %v", err)
	}

	c.w = vc12DrawWorld(t)
	c.w.publishStorage(srv)
	for k := range c.w.HP {
		c.conf.HPFile[k] = rapid.IntRange(0, 3).Draw(t, "hpfile") == 0
		c.conf.HPFilePath[k] = ""
		if c.conf.HPFile[k] {
			c.conf.HPFilePath[k] = filepath.Join(c.dir, fmt.Sprintf("hpsrc%d", k))
		}

		srv.mirror(fmt.Sprintf("/hp/%d", k), c.conf.HPFilePath[k])
		c.w.publishHP(srv, k)
	}

	c.cached, err = vc12NewSide(srv, c.dir+"/cached", c.conf, true)
	if err != nil {
		vc12Inconclusive(t, "creating the cache-enabled storage: %v", err)
	}

	c.twin, err = vc12NewSide(srv, c.dir+"/twin", c.conf, false)
	if err != nil {
		vc12Inconclusive(t, "creating the reference storage: %v", err)
	}

	srv.takeHits()
	c.checkErrs("initial refresh")

	cloners := c.cloners()
	for i := range nClients {
		c.reqs = append(c.reqs, vc12DrawReq(t, i, false, cloners))
	}

	c.reqs = append(c.reqs, vc12DrawReq(t, nClients, true, cloners))
	c.logf("world %+v", *c.w)
	for _, r := range c.reqs {
		c.logf("requester %+v", *r)
	}

	return c
}

func (c *vc12Case) close() { _ = os.RemoveAll(c.dir) }

func (c *vc12Case) cloners() [2]*dnsmsg.Cloner {
	return [2]*dnsmsg.Cloner{c.cached.cloner, c.twin.cloner}
}

// pooledRequest fills the one request object of the side, as mainmw fills the
// object it takes from its pool: every field is overwritten, and the message
// is taken out again after the call.  Nothing may hold on to it.
func (c *vc12Case) pooledRequest(q *vc12Q, r *vc12Req, side int) *filter.Request {
	if c.reqObj[side] == nil {
		c.reqObj[side] = &filter.Request{}
	}

	*c.reqObj[side] = *q.request(r, side)

	return c.reqObj[side]
}

// vc12Scribble does to a message what the rest of the pipeline is free to do
// with a message it owns: the forwarder gives a request a new ID and adds
// options, the response writers truncate, pad and normalise.  Whatever the
// filters keep must not be reachable through it.
func vc12Scribble(m *dns.Msg) {
	if m == nil {
		return
	}

	m.Id = 0xFFFF
	m.Truncated = true
	m.AuthenticatedData = !m.AuthenticatedData
	m.RecursionDesired = !m.RecursionDesired
	for _, sec := range [][]dns.RR{m.Answer, m.Ns, m.Extra} {
		for _, rr := range sec {
			if opt, ok := rr.(*dns.OPT); ok {
				opt.SetUDPSize(1)
				opt.SetDo(!opt.Do())

				// A reserved flag bit, as echoed from an upstream.
				opt.Hdr.Ttl |= 1 << 14
				opt.Option = append(opt.Option, &dns.EDNS0_PADDING{Padding: make([]byte, 7)})

				continue
			}

			rr.Header().Ttl = 1
		}
	}
}

// release hands a result of the cache-enabled side back as the service does:
// the message has been through the pipeline, and a response is returned to the
// cloner's pools after it has been written (dnsserver disposes of it).  The
// request message is the caller's again and is reused as well.
func (c *vc12Case) release(res vc12Res, req *dns.Msg) {
	vc12Scribble(req)
	if len(req.Question) > 0 {
		req.Question[0].Name = "scribbled.invalid."
	}

	if res.msg == nil {
		return
	}

	vc12Scribble(res.msg)
	if res.Kind == "modresp" {
		c.cached.cloner.Dispose(res.msg)
	}
}

// ---------------------------------------------------------------------------
// operations

// refreshStorage changes some storage-managed content and refreshes both
// storages.
func (c *vc12Case) refreshStorage() {
	t := c.t
	nw := c.w.clone()
	var what []string
	for range rapid.IntRange(0, 3).Draw(t, "nmut") {
		switch rapid.IntRange(0, 5).Draw(t, "what") {
		case 0, 1:
			id := rapid.SampledFrom(vc12ListIDs).Draw(t, "list")
			nw.Lists[id] = vc12MutateRules(t, nw.Lists[id], vc12KindsList, 0)
			what = append(what, id)
		case 2:
			id := rapid.SampledFrom(vc12ListIDs).Draw(t, "list")
			if i := slices.Index(nw.Idx, id); i >= 0 {
				nw.Idx = slices.Delete(nw.Idx, i, i+1)
			} else {
				nw.Idx = append(nw.Idx, id)
			}

			what = append(what, "index:"+id)
		case 3:
			id := rapid.SampledFrom(vc12SvcIDs).Draw(t, "svc")
			if _, ok := nw.Svcs[id]; ok && rapid.IntRange(0, 2).Draw(t, "dropsvc") == 0 {
				delete(nw.Svcs, id)
			} else {
				nw.Svcs[id] = vc12MutateRules(t, nw.Svcs[id], vc12KindsSvc, 1)
				if len(nw.Svcs[id]) == 0 {
					nw.Svcs[id] = []string{vc12DrawRule(t, vc12KindsSvc)}
				}
			}

			what = append(what, id)
		default:
			i := rapid.IntRange(0, 1).Draw(t, "ss")
			nw.SS[i] = vc12MutateRules(t, nw.SS[i], vc12KindsSS, 0)
			what = append(what, fmt.Sprintf("ss%d", i))
		}
	}

	nw.publishStorage(c.srv)
	if rapid.IntRange(0, 5).Draw(t, "storagereject") == 0 {
		c.rejectedStorage(nw)

		return
	}

	c.srv.takeHits()
	for _, sd := range []*vc12Side{c.cached, c.twin} {
		if err := sd.refreshStorage(); err != nil {
			vc12Inconclusive(t, "storage refresh failed without an injected fault (cached=%t): %v", sd.cached, err)
		}
	}

	// Every path must have been downloaded by both storages, or the harness
	// does not own the versions.
	hits := c.srv.takeHits()
	want := []string{"/idx", "/svc", "/ss/0", "/ss/1"}
	for _, id := range nw.Idx {
		want = append(want, "/rl/"+id)
	}

	for _, p := range want {
		if hits[p] != 2 {
			vc12Inconclusive(t, "refresh downloaded %s %d times, want 2 (staleness 0 not honoured?)", p, hits[p])
		}
	}

	c.checkErrs("storage refresh")
	c.w = nw
	c.modelOff = false
	c.epoch++
	c.logf("REFRESH storage after changing %v: idx=%v lists=%v svcs=%v ss=%v", what, nw.Idx, nw.Lists, nw.Svcs, nw.SS)
	c.st.Class("op-refresh-storage")
}

// refreshHP changes one hash list and refreshes that filter on both sides.
func (c *vc12Case) refreshHP() {
	t := c.t
	k := rapid.IntRange(0, 2).Draw(t, "hp")
	if rapid.IntRange(0, 3).Draw(t, "hpreject") == 0 {
		c.rejectedHP(k)

		return
	}

	nw := c.w.clone()
	switch hosts := nw.HP[k]; rapid.IntRange(0, 6).Draw(t, "hpmut") {
	case 4, 5, 6:
		// Replace some copies of one name by as many copies of another, after
		// both names have been asked: the number of lines stays, and so does
		// anything symmetric that is computed from an even number of copies.
		if !c.replaceCopies(k, nw) {
			nw.HP[k] = vc12DrawHashHosts(t)
		}
	case 0:
		nw.HP[k] = vc12DrawHashHosts(t)
	case 1:
		if len(hosts) > 0 {
			i := rapid.IntRange(0, len(hosts)-1).Draw(t, "drop")
			nw.HP[k] = slices.Delete(slices.Clone(hosts), i, i+1)
		}
	case 2:
		if h := rapid.SampledFrom(vc12Hosts).Draw(t, "hhost"); !slices.Contains(hosts, h) {
			nw.HP[k] = append(slices.Clone(hosts), h)
		}
	default:
		// Same content: the refresh must still be harmless.
	}

	nw.publishHP(c.srv, k)
	c.srv.takeHits()
	for _, sd := range []*vc12Side{c.cached, c.twin} {
		if err := sd.refreshHP(k); err != nil {
			vc12Inconclusive(t, "hash-prefix refresh failed without an injected fault (cached=%t): %v", sd.cached, err)
		}
	}

	if p := fmt.Sprintf("/hp/%d", k); c.srv.takeHits()[p] != 2 && !c.conf.HPFile[k] {
		vc12Inconclusive(t, "refresh did not download %s twice (staleness 0 not honoured?)", p)
	}

	c.checkErrs("hash-prefix refresh")
	c.w = nw
	c.hpAlt[k] = nil
	c.epoch++
	for key := range c.hpSeen {
		if strings.HasPrefix(key, fmt.Sprintf("%d|", k)) {
			delete(c.hpSeen, key)
		}
	}

	c.logf("REFRESH hash list %d (%s): %v", k, vc12HPIDs[k], nw.HP[k])
	c.st.Class("op-refresh-hp")
	if c.conf.HPFile[k] {
		c.st.Class("op-refresh-hp-from-file")
	}
}

// replaceCopies replaces copies of a listed name in nw.HP[k] by copies of
// another name and warms the result cache for both names first.  It reports
// whether there was a name to replace.
func (c *vc12Case) replaceCopies(k int, nw *vc12World) (ok bool) {
	t := c.t
	hosts := nw.HP[k]
	if len(hosts) == 0 {
		return false
	}

	a := rapid.SampledFrom(hosts).Draw(t, "replaced")
	count := 0
	for _, h := range hosts {
		if h == a {
			count++
		}
	}

	var others []string
	for _, h := range vc12Hosts {
		if h != a {
			others = append(others, h)
		}
	}

	b := rapid.SampledFrom(others).Draw(t, "replacement")
	n := rapid.IntRange(1, count).Draw(t, "copies")

	// Requests for both names from a requester that uses this filter, if there
	// is one, so that their results are in the cache when the list changes.
	warm := false
	for ri, r := range c.reqs {
		if !r.hpEnabled(k) {
			continue
		}

		for _, h := range []string{a, b} {
			q := vc12Q{Host: h, QT: rapid.SampledFrom([]uint16{dns.TypeA, dns.TypeAAAA, dns.TypeHTTPS}).Draw(t, "warmqt"), QC: dns.ClassINET}
			c.asked = append(c.asked, q)
			vc12DrawFlags(t, &q, false)
			c.ask(ri, q, "", false)
		}

		warm = true

		break
	}

	out := slices.Clone(hosts)
	left := n
	for i, h := range out {
		if h == a && left > 0 {
			out[i] = b
			left--
		}
	}

	nw.HP[k] = out
	cls := fmt.Sprintf("refresh-replacing-%d-copies", n)
	c.st.Class(cls)
	if n%2 == 0 && warm {
		c.st.Class("refresh-replacing-even-multiplicity-entries-with-warm-cache")
	}

	c.logf("REPLACING %d of %d copies of %s by %s in hash list %d (requests for both sent first: %t)", n, count, a, b, k, warm)

	return true
}

// rejectedHP serves hash list k in a form the filter cannot take and refreshes
// it on both sides.  Whatever the filter then serves without its result cache,
// it must serve with it.
func (c *vc12Case) rejectedHP(k int) {
	t := c.t
	old := c.w.HP[k]

	// The readable part differs from the current list in a name that has been
	// asked, if there is one, so that a warm cache entry is at stake.
	prefix := slices.Clone(old)
	var cand []string
	for _, q := range c.asked {
		if vc12Filterable(q.QT) && slices.Contains(vc12Hosts, q.Host) && !slices.Contains(cand, q.Host) {
			cand = append(cand, q.Host)
		}
	}

	if len(cand) == 0 {
		cand = vc12Hosts
	}

	h := rapid.SampledFrom(cand).Draw(t, "toggle")
	if slices.Contains(prefix, h) {
		prefix = slices.DeleteFunc(prefix, func(e string) bool { return e == h })
	} else {
		prefix = append(prefix, h)
	}

	tail := rapid.SampledFrom(vc12Hosts).Draw(t, "tail")
	path := fmt.Sprintf("/hp/%d", k)
	kinds := []string{"long-line-after-prefix", "long-line-after-prefix", "long-line-first", "empty-body", "http-500"}
	if c.conf.HPFile[k] {
		// An empty file is an empty list, and there is no transfer to fail.
		kinds = kinds[:3]
	}

	kind := rapid.SampledFrom(kinds).Draw(t, "hpfault")
	long := strings.Repeat("x", 70_000)
	var alt *[]string
	switch kind {
	case "long-line-after-prefix":
		c.srv.set(path, "# c12 hp\n"+strings.Join(prefix, "\n")+"\n"+long+"\n"+tail+"\n")
		alt = &prefix
	case "long-line-first":
		c.srv.set(path, long+"\n"+strings.Join(prefix, "\n")+"\n")
		alt = &[]string{}
	case "empty-body":
		c.srv.set(path, "")
	default:
		c.srv.fail(path, 500)
	}

	for _, sd := range []*vc12Side{c.cached, c.twin} {
		if err := sd.refreshHP(k); err == nil {
			vc12Inconclusive(t, "hash-prefix refresh accepted a list served as %s (cached=%t)", kind, sd.cached)
		}

		// The refusal is reported to the error collector, as it should be.
		sd.errs.take()
	}

	c.srv.takeHits()
	c.hpAlt[k], c.hpAltEpoch[k] = alt, c.epoch
	c.epoch++
	c.logf("REJECTED REFRESH of hash list %d (%s) served as %s: readable part %v, current list %v", k, vc12HPIDs[k], kind, prefix, old)
	c.st.Class("op-refresh-hp-rejected", "hp-rejected-"+kind)
}

// rejectedStorage serves one of the storage-managed documents in a form its
// consumer cannot take, next to ordinary changes, and refreshes both storages.
func (c *vc12Case) rejectedStorage(nw *vc12World) {
	t := c.t
	kind := rapid.SampledFrom([]string{"index-bad-json", "list-empty-body", "list-http-500", "services-bad-json", "services-bad-id",
		"safesearch-empty-body"}).Draw(t, "storagefault")
	switch kind {
	case "index-bad-json":
		c.srv.set("/idx", `{"filters":[{"filterKey":"rl_one",`)
	case "list-empty-body", "list-http-500":
		id := rapid.SampledFrom(vc12ListIDs).Draw(t, "faultlist")
		if !slices.Contains(nw.Idx, id) {
			nw.Idx = append(nw.Idx, id)
			nw.publishStorage(c.srv)
		}

		if kind == "list-empty-body" {
			c.srv.set("/rl/"+id, "")
		} else {
			c.srv.fail("/rl/"+id, 500)
		}

		// The next publication carries the list as it was.
		nw.Lists[id] = slices.Clone(c.w.Lists[id])
	case "services-bad-json":
		c.srv.set("/svc", `{"blocked_services":[{"id":"svc_one","rules":[`)
		nw.Svcs = c.w.clone().Svcs
	case "services-bad-id":
		c.srv.set("/svc", `{"blocked_services":[{"id":"svc/one","rules":["||a.test^"]}]}`)
		nw.Svcs = c.w.clone().Svcs
	default:
		i := rapid.IntRange(0, 1).Draw(t, "faultss")
		c.srv.set(fmt.Sprintf("/ss/%d", i), "")
		nw.SS[i] = slices.Clone(c.w.SS[i])
	}

	for _, sd := range []*vc12Side{c.cached, c.twin} {
		// Whether the refresh as a whole reports the fault depends on the
		// document; both sides are given the same.
		_ = sd.refreshStorage()
		sd.errs.take()
	}

	c.srv.takeHits()
	c.w = nw
	c.modelOff = true
	c.epoch++
	c.logf("REJECTED storage refresh (%s) while changing to idx=%v lists=%v svcs=%v ss=%v", kind, nw.Idx, nw.Lists, nw.Svcs, nw.SS)
	c.st.Class("op-refresh-storage-rejected", "storage-rejected-"+kind)
}

// customUpdate is a profile synchronisation that touches one client: the
// update time always moves forward; the rules may or may not change.
func (c *vc12Case) customUpdate() {
	t := c.t
	r := c.reqs[rapid.IntRange(0, len(c.reqs)-2).Draw(t, "client")]
	// The smallest step a time stamp can make is as good as a large one.
	r.CustomUpd += rapid.SampledFrom([]int64{1, 1e9, 3e9}).Draw(t, "bump")
	cls := "op-custom-touch"
	switch rapid.IntRange(0, 4).Draw(t, "custommode") {
	case 0:
		// Same rules, newer update time.
	case 1:
		r.CustomEnabled = !r.CustomEnabled
		if r.CustomEnabled && len(r.CustomRules) == 0 {
			r.CustomRules = vc12DrawRules(t, vc12KindsList, 1, 3)
		}

		cls = "op-custom-toggle"
	default:
		r.CustomEnabled = true
		r.CustomRules = vc12MutateRules(t, r.CustomRules, vc12KindsList, 1)
		if len(r.CustomRules) == 0 {
			r.CustomRules = []string{vc12DrawRule(t, vc12KindsList)}
		}

		cls = "op-custom-change"
	}

	c.epoch++
	c.logf("CUSTOM %s: enabled=%t upd=%s rules=%v", r.Name, r.CustomEnabled, r.customTime().Format(time.RFC3339Nano), r.CustomRules)
	c.st.Class(cls)
}

// classify records who asked the key and returns the classes and the
// non-trivial identity of the step.
func (c *vc12Case) classify(ri int, key string, res vc12Res) (nt string, classes []string) {
	other, stale := false, false
	for who, ep := range c.seen[key] {
		if who != ri && ep == c.epoch {
			other = true
		}

		if ep < c.epoch {
			stale = true
		}
	}

	if c.seen[key] == nil {
		c.seen[key] = map[int]int{}
	}

	c.seen[key][ri] = c.epoch

	lk := fmt.Sprintf("%d|%s", ri, key)
	if l, ok := c.last[lk]; ok && l.epoch < c.epoch && l.verdict != res.verdict() {
		classes = append(classes, "verdict-changed-since-last-asked")
	} else if ok && l.epoch == c.epoch {
		classes = append(classes, "same-requester-repeat")
	}

	c.last[lk] = vc12Last{verdict: res.verdict(), epoch: c.epoch}

	if other {
		classes = append(classes, "key-asked-by-other-requester")
	}

	if stale {
		classes = append(classes, "key-asked-before-last-refresh")
	}

	classes = append(classes, "v-"+res.Kind)
	switch {
	case res.Kind == "nil":
	case res.List == string(filter.IDCustom):
		classes = append(classes, "src-custom")
	case res.List == string(filter.IDBlockedService):
		classes = append(classes, "src-service")
	case vc12HPIndex(res.List) >= 0:
		classes = append(classes, "src-hashprefix")
	case slices.Contains(vc12ListIDs, res.List):
		classes = append(classes, "src-rulelist")
	default:
		classes = append(classes, "src-safesearch")
	}

	if other || stale {
		r := c.reqs[ri]
		nt = fmt.Sprintf("%s|%t%v|%t%t%v%v|%t%t%t|%v|%s|%t%t|%s", key, r.RLEnabled, r.Lists, r.ParEnabled, r.Adult, r.SS, r.Svcs,
			r.SBEnabled, r.Danger, r.NewReg, r.customActive(), r.params(), other, stale, res.verdict())
	}

	return nt, classes
}

// explainByReplay reports whether the difference between the cache-enabled
// side's message and the reference is exactly the replay of a message that was
// built for an earlier request on the same hash-prefix cache key.
func (c *vc12Case) explainByReplay(k int, q *vc12Q, got, want vc12Res) (id, detail string, ok bool) {
	if got.Kind != want.Kind || got.List != want.List || got.Rule != want.Rule || got.msg == nil {
		return "", "", false
	}

	for _, prev := range c.hpSeen[vc12HPKey(k, q)] {
		m := prev.msg.Copy()
		switch got.Kind {
		case "modresp":
			m.SetReply(q.msg())
			if vc12MsgText(m, false) == got.Msg {
				return vc12KnownRespReplay, fmt.Sprintf("built for %s (%s)", prev.who, prev.params), true
			}
		case "modreq":
			if vc12MsgText(m, true) == got.Msg {
				return vc12KnownReqReplay, fmt.Sprintf("built for %s (%s)", prev.who, prev.params), true
			}
		}
	}

	return "", "", false
}

func vc12HPKey(k int, q *vc12Q) string {
	return fmt.Sprintf("%d|%s|%d|%d", k, q.Host, q.QT, q.QC)
}

// query sends one request through both storages.  With exchange, the upstream
// response to it is sent through the same composite filters afterwards, as
// mainmw does for every request whose question has not been rewritten.
func (c *vc12Case) query(exchange bool) {
	t := c.t
	ri := rapid.IntRange(0, len(c.reqs)-1).Draw(t, "requester")

	var q vc12Q
	near := ""
	switch mode := rapid.IntRange(0, 9).Draw(t, "repeat"); {
	case len(c.asked) > 0 && mode < 4:
		q = c.asked[rapid.IntRange(0, len(c.asked)-1).Draw(t, "which")]
	case len(c.asked) > 0 && mode < 7:
		// A near miss: an earlier key with exactly one component changed.
		q = c.asked[rapid.IntRange(0, len(c.asked)-1).Draw(t, "which")]
		switch rapid.IntRange(0, 3).Draw(t, "nearwhat") {
		case 0, 1:
			if qt := rapid.SampledFrom(vc12QTypes).Draw(t, "qt"); qt != q.QT {
				q.QT, near = qt, "near-miss-qtype"
			}
		case 2:
			if q.QC == dns.ClassINET {
				q.QC, near = dns.ClassCHAOS, "near-miss-class"
			} else {
				q.QC, near = dns.ClassINET, "near-miss-class"
			}
		default:
			// The parent, a child or the look-alike of the host.
			var cand []string
			for _, h := range vc12QueryHosts {
				if h != q.Host && h != "" && q.Host != "" && !slices.Contains(cand, h) &&
					(strings.HasSuffix(h, "."+q.Host) || strings.HasSuffix(q.Host, "."+h) || strings.HasSuffix(h, q.Host) || strings.HasSuffix(q.Host, h)) {
					cand = append(cand, h)
				}
			}

			if len(cand) > 0 {
				q.Host, near = rapid.SampledFrom(cand).Draw(t, "nearhost"), "near-miss-host"
			}
		}

		if near != "" {
			c.asked = append(c.asked, q)
		}
	default:
		q = vc12Q{
			Host: rapid.SampledFrom(vc12QueryHosts).Draw(t, "host"),
			QT:   rapid.SampledFrom(vc12QTypes).Draw(t, "qt"),
			QC:   dns.ClassINET,
		}
		if rapid.IntRange(0, 15).Draw(t, "class") == 0 {
			q.QC = dns.ClassCHAOS
		}

		c.asked = append(c.asked, q)
	}

	vc12DrawFlags(t, &q, false)
	c.ask(ri, q, near, exchange)
}

// ask sends q from requester ri through both storages and compares.
func (c *vc12Case) ask(ri int, q vc12Q, near string, exchange bool) {
	t := c.t
	r := c.reqs[ri]
	ctx := context.Background()
	// A profile or device with filtering switched off gets the nil
	// configuration, and with it the empty filter.
	cfg := r.config()
	disabled := rapid.IntRange(0, 24).Draw(t, "filteringoff") == 0
	if disabled {
		cfg = nil
	}

	gotReq := c.pooledRequest(&q, r, 0)
	gotDNS := gotReq.DNS
	fGot := c.cached.strg.ForConfig(ctx, cfg)
	gotRaw, err := fGot.FilterRequest(ctx, gotReq)
	gotReq.DNS = nil
	if err != nil {
		c.failf("cache-enabled storage: FilterRequest(%s by %s): %v", &q, r.Name, err)
	}

	c.twin.purge()
	fWant := c.twin.strg.ForConfig(ctx, cfg)
	wantReq := c.pooledRequest(&q, r, 1)
	wantRaw, err := fWant.FilterRequest(ctx, wantReq)
	wantReq.DNS = nil
	if err != nil {
		c.failf("reference storage: FilterRequest(%s by %s): %v", &q, r.Name, err)
	}

	got, want := vc12Render(gotRaw), vc12Render(wantRaw)
	c.logf("QUERY %s (%s) %s -> %s", r.Name, r.params(), &q, got.verdict())
	c.checkErrs("query")
	if disabled {
		if got.Kind != "nil" || want.Kind != "nil" {
			c.failf("%s asked %s with filtering off: verdicts %s and %s", r.Name, &q, got.verdict(), want.verdict())
		}

		c.release(got, gotDNS)
		c.st.Case("", "filtering-off-nil-config")

		return
	}

	key := fmt.Sprintf("%s/%d/%d/req", q.Host, q.QT, q.QC)
	atStake := false
	for k, alt := range c.hpAlt {
		if alt == nil || !r.hpEnabled(k) || !vc12Filterable(q.QT) || vc12HashMatch(c.w.HP[k], q.Host) == vc12HashMatch(*alt, q.Host) {
			continue
		}

		for _, ep := range c.seen[key] {
			atStake = atStake || ep <= c.hpAltEpoch[k]
		}
	}

	nt, classes := c.classify(ri, key, want)
	if atStake {
		classes = append(classes, "key-asked-before-rejected-hp-refresh-that-changes-it")
	}

	if c.be != nil && ri < len(c.be.used) {
		c.be.used[ri] = c.be.used[ri] || r.customActive()
	}
	classes = append(classes, near)
	switch q.Host {
	case "":
		classes = append(classes, "host-root")
	case "aa.test", "z.y.x.a.test":
		classes = append(classes, "host-off-pool")
	}

	hpk := vc12HPIndex(want.List)
	if hpk >= 0 {
		for _, prev := range c.hpSeen[vc12HPKey(hpk, &q)] {
			if prev.params != r.params()+" "+q.flags() {
				classes = append(classes, "hp-key-built-for-other-params")

				break
			}
		}
	}

	if got.String() != want.String() {
		id, detail, explained := "", "", false
		if hpk >= 0 {
			id, detail, explained = c.explainByReplay(hpk, &q, got, want)
		}

		if explained && c.st.Known(id) {
			classes = append(classes, "excluded-"+id)
		} else {
			why := "not explained by a recorded finding; the cache-enabled side also returns its responses to the cloner's pools, as dnsserver does, so state carried over by a pooled object shows here as well"
			if explained {
				why = fmt.Sprintf("the cache-enabled side replayed the message %s [%s]", detail, id)
			}

			c.failf("result caches are visible: %s asked %s\n  with caches:    %s\n  without caches: %s\n  (%s)", r.Name, &q, got, want, why)
		}
	}

	// A modified message must be this request's and this requester's, unless it
	// is the replay that has just been excluded.
	if why := vc12OwnMessage(r, &q, got); why != "" && got.String() == want.String() {
		c.failf("%s asked %s: %s", r.Name, &q, why)
	}

	if why := c.modelRequest(r, q.Host, q.QT, got); why != "" {
		c.failf("answer does not follow from the current list versions: %s asked %s -> %s: %s", r.Name, &q, got.verdict(), why)
	}

	if hpk >= 0 && want.msg != nil {
		hk := vc12HPKey(hpk, &q)
		c.hpSeen[hk] = append(c.hpSeen[hk], vc12HPSeen{msg: want.msg.Copy(), who: r.Name, params: r.params() + " " + q.flags()})
	}

	c.release(got, gotDNS)
	c.st.Case(nt, classes...)

	if exchange && want.Kind != "modreq" {
		c.response(ri, &q, fGot, fWant, want, nil)
	}
}

// response sends the upstream response to q through the composite filters the
// request went through.
func (c *vc12Case) response(ri int, q *vc12Q, fGot, fWant filter.Interface, reqRes vc12Res, forced []dns.RR) {
	t := c.t
	r := c.reqs[ri]

	resp := (&dns.Msg{}).SetReply(q.msg())
	resp.Answer = forced
	if forced == nil {
		resp.Answer = vc12DrawAnswers(t, q.Name, c.drawTarget)
	}
	items := vc12AnswerItems(resp.Answer)

	// Which CNAME targets are spelled with upper-case letters, and which have
	// been filtered in another spelling since the last refresh or update.
	var caseClasses []string
	for _, rr := range resp.Answer {
		cn, ok := rr.(*dns.CNAME)
		if !ok {
			continue
		}

		lower := strings.ToLower(cn.Target)
		if cn.Target != lower {
			caseClasses = append(caseClasses, "resp-target-mixed-case")
		}

		for spelling, ep := range c.targets[lower] {
			if spelling != cn.Target && ep == c.epoch {
				caseClasses = append(caseClasses, "same-target-two-spellings-while-cached")
				if spelling == lower {
					caseClasses = append(caseClasses, "two-spellings-lower-first")
				} else if cn.Target == lower {
					caseClasses = append(caseClasses, "two-spellings-lower-second")
				}
			}
		}

		if c.targets[lower] == nil {
			c.targets[lower] = map[string]int{}
		}

		c.targets[lower][cn.Target] = c.epoch
	}

	mk := func() *filter.Response {
		return &filter.Response{DNS: resp.Copy(), RemoteIP: q.request(r, 0).RemoteIP, ClientName: r.CliName}
	}

	ctx := context.Background()
	gotResp := mk()
	gotRaw, err := fGot.FilterResponse(ctx, gotResp)
	if err != nil {
		c.failf("cache-enabled storage: FilterResponse: %v", err)
	}

	c.twin.purge()
	wantRaw, err := fWant.FilterResponse(ctx, mk())
	if err != nil {
		c.failf("reference storage: FilterResponse: %v", err)
	}

	got, want := vc12Render(gotRaw), vc12Render(wantRaw)
	var ans []string
	for _, rr := range resp.Answer {
		ans = append(ans, strings.Join(strings.Fields(rr.String()), " "))
	}

	c.logf("RESPONSE to %s answers %q -> %s", r.Name, ans, got.verdict())
	c.checkErrs("response")

	key := fmt.Sprintf("%v/resp", items)
	nt, classes := c.classify(ri, key, want)
	classes = append(classes, "op-response")
	classes = append(classes, caseClasses...)
	if want.Kind != "nil" {
		classes = append(classes, "response-filtered")
		switch reqRes.Kind {
		case "nil":
			classes = append(classes, "exchange-request-passed-response-filtered")
		case "allowed":
			classes = append(classes, "exchange-request-allowed-response-filtered")
		default:
			classes = append(classes, "exchange-both-stages-filtered")
		}
	}

	if got.String() != want.String() {
		c.failf("result caches are visible: response to %s with answers %q\n  with caches:    %s\n  without caches: %s", r.Name, ans, got, want)
	}

	if why := vc12ModelResponse(c.w, r, items, got); why != "" && !c.modelOff {
		c.failf("answer does not follow from the current list versions: response to %s with answers %q -> %s: %s", r.Name, ans, got.verdict(), why)
	}

	// The response is the caller's again.
	vc12Scribble(gotResp.DNS)
	c.st.Case(nt, classes...)

	// Often the next answer through the same lists names the same target in
	// the other spelling: lower case after upper or mixed, or the reverse.
	if forced != nil {
		return
	}

	for _, rr := range resp.Answer {
		cn, ok := rr.(*dns.CNAME)
		if !ok || rapid.IntRange(0, 2).Draw(t, "respellnext") == 0 {
			continue
		}

		other := strings.ToLower(cn.Target)
		if other == cn.Target {
			other = strings.ToUpper(cn.Target)
			if s := vc12Spell(t, cn.Target); s != cn.Target {
				other = s
			}
		}

		next := &dns.CNAME{Hdr: cn.Hdr, Target: other}
		c.response(ri, q, fGot, fWant, reqRes, []dns.RR{next})

		break
	}
}

func TestVerifC12Histories(t *testing.T) {
	st := vstat.New("C12", "filterstorage.histories",
		"rapid histories (8-40 steps) over a cache-enabled filterstorage.Default (+3 hashprefix filters) and a twin with result "+
			"caches off / purged before every query, both fed from one versioned HTTP server: requests and upstream responses "+
			"from 3 profiles + the anonymous group (own blocking mode, filtered TTL, EDE, lists, services, safe search, hash "+
			"filters, custom rules) over 6 overlapping hosts x 6 qtypes with varying header flags/EDNS/0x20 case, storage "+
			"refreshes after list/index/service/safe-search changes, hash-list refreshes, custom-rule updates; evaluations = "+
			"compared queries; non-trivial = the key was asked by another requester since the last refresh or update, or was "+
			"asked before it; distinct by (key, requester settings, which of the two, verdict)",
		"key-asked-by-other-requester", "key-asked-before-last-refresh", "verdict-changed-since-last-asked",
		"v-nil", "v-blocked", "v-allowed", "v-modresp", "v-modreq",
		"src-custom", "src-rulelist", "src-service", "src-safesearch", "src-hashprefix",
		"response-filtered", "op-refresh-storage", "op-refresh-hp", "op-custom-change", "op-custom-touch",
		"hp-key-built-for-other-params", "near-miss-qtype", "near-miss-class", "near-miss-host", "host-root", "host-off-pool",
		"exchange-request-passed-response-filtered", "exchange-request-allowed-response-filtered", "exchange-both-stages-filtered",
		"op-refresh-hp-rejected", "op-refresh-storage-rejected", "key-asked-before-rejected-hp-refresh-that-changes-it",
		"op-refresh-hp-from-file", "filtering-off-nil-config", "resp-target-mixed-case", "same-target-two-spellings-while-cached",
		"two-spellings-lower-first", "two-spellings-lower-second", "refresh-replacing-even-multiplicity-entries-with-warm-cache")
	st.Finish(t)

	srv := vc12NewSrv(t)
	base := vc12BaseDir(t)

	rapid.Check(t, func(t *rapid.T) {
		c := vc12NewCase(t, st, srv, base, 3)
		defer c.close()

		steps := rapid.IntRange(8, 40).Draw(t, "steps")
		for range steps {
			switch op := rapid.IntRange(0, 19).Draw(t, "op"); {
			case op < 11:
				c.query(false)
			case op < 14:
				c.query(true)
			case op < 16:
				c.refreshStorage()
			case op < 18:
				c.refreshHP()
			default:
				c.customUpdate()
			}
		}

		if st.WantSample() {
			st.Sample(c.hist)
		}
	})
}
