//go:build verif

package filterstorage_test

// C12 (a, b): histories of filter queries from several requesters, interleaved
// with list refreshes and custom-rule updates, against a storage with every
// result cache on and a twin with the caches off or purged before every query.

import (
	"context"
	"fmt"
	"os"
	"path/filepath"
	"slices"
	"strings"
	"testing"
	"time"

	"github.com/AdguardTeam/AdGuardDNS/internal/dnsmsg"
	"github.com/AdguardTeam/AdGuardDNS/internal/filter"
	"github.com/miekg/dns"
	"pgregory.net/rapid"
	"verif.local/harness/vstat"
)

func vc12Inconclusive(t interface {
	Logf(string, ...any)
	FailNow()
}, format string, args ...any) {
	fmt.Printf("VERIF-INCONCLUSIVE: "+format+"\n", args...)
	t.Logf("VERIF-INCONCLUSIVE: "+format, args...)
	t.FailNow()
}

// vc12BaseDir returns the directory the storages keep their cache files in.
//
// Every download ends in an fsync of the cache file (renameio), which is most
// of the cost of a history on a disk; a memory file system is used when there
// is one.  The content of the files is not part of this property.
func vc12BaseDir(tb testing.TB) string {
	for _, d := range []string{"/dev/shm", os.Getenv("VERIF_WORK")} {
		if d == "" {
			continue
		}

		// A run that was killed (a data race halts the process) leaves its
		// directory behind; sweep those that are clearly not in use any more.
		if old, _ := filepath.Glob(filepath.Join(d, "verif-c12-*")); d == "/dev/shm" {
			for _, o := range old {
				if fi, statErr := os.Stat(o); statErr == nil && time.Since(fi.ModTime()) > 3*time.Hour {
					_ = os.RemoveAll(o)
				}
			}
		}

		dir, err := os.MkdirTemp(d, "verif-c12-")
		if err == nil {
			tb.Cleanup(func() { _ = os.RemoveAll(dir) })

			return dir
		}
	}

	return tb.TempDir()
}

// vc12Case is one history.
type vc12Case struct {
	t    *rapid.T
	st   *vstat.Stats
	srv  *vc12Srv
	dir  string
	conf *vc12SideConf
	w    *vc12World

	cached *vc12Side
	twin   *vc12Side
	reqs   []*vc12Req

	hist []string

	// epoch counts the refreshes and custom updates so far.
	epoch int

	// seen maps a cache key to who asked it and when.
	seen map[string]map[int]int

	// last is the last verdict per (requester, key).
	last map[string]vc12Last

	// hpSeen holds, per hash-prefix filter and key, the messages the reference
	// side produced since the filter's last refresh.
	hpSeen map[string][]vc12HPSeen

	// asked are earlier queries to draw repeats from.
	asked []vc12Q
}

type vc12Last struct {
	verdict string
	epoch   int
}

type vc12HPSeen struct {
	msg    *dns.Msg
	who    string
	params string
}

func (c *vc12Case) logf(format string, args ...any) {
	c.hist = append(c.hist, fmt.Sprintf("%2d: ", len(c.hist))+fmt.Sprintf(format, args...))
}

func (c *vc12Case) history() string {
	return fmt.Sprintf("hash-prefix replacement hosts %v cache count %d\n%s", c.conf.HPRepl, c.conf.CacheCount, strings.Join(c.hist, "\n"))
}

func (c *vc12Case) failf(format string, args ...any) {
	c.t.Fatalf("%s\nHISTORY\n%s", fmt.Sprintf(format, args...), c.history())
}

// checkErrs turns anything the code reported to its error collector into an
// inconclusive run: this check injects no fault.
func (c *vc12Case) checkErrs(when string) {
	for _, sd := range []*vc12Side{c.cached, c.twin} {
		if errs := sd.errs.take(); len(errs) > 0 {
			vc12Inconclusive(c.t, "%s: unexpected error reports (cached=%t): %q", when, sd.cached, errs)
		}
	}
}

func vc12NewCase(t *rapid.T, st *vstat.Stats, srv *vc12Srv, base string, nClients int) (c *vc12Case) {
	c = &vc12Case{
		t: t, st: st, srv: srv,
		conf:   &vc12SideConf{CacheCount: rapid.SampledFrom(vc12CacheCounts).Draw(t, "cachecount")},
		seen:   map[string]map[int]int{},
		last:   map[string]vc12Last{},
		hpSeen: map[string][]vc12HPSeen{},
	}
	for k := range c.conf.HPRepl {
		c.conf.HPRepl[k] = rapid.SampledFrom(vc12Repls).Draw(t, "hprepl")
	}

	c.w = vc12DrawWorld(t)
	c.w.publishStorage(srv)
	for k := range c.w.HP {
		c.w.publishHP(srv, k)
	}

	var err error
	c.dir, err = os.MkdirTemp(base, "case-")
	if err != nil {
		vc12Inconclusive(t, "temporary directory: %v", err)
	}

	c.cached, err = vc12NewSide(srv, c.dir+"/cached", c.conf, true)
	if err != nil {
		vc12Inconclusive(t, "creating the cache-enabled storage: %v", err)
	}

	c.twin, err = vc12NewSide(srv, c.dir+"/twin", c.conf, false)
	if err != nil {
		vc12Inconclusive(t, "creating the reference storage: %v", err)
	}

	srv.takeHits()
	c.checkErrs("initial refresh")

	cloners := c.cloners()
	for i := range nClients {
		c.reqs = append(c.reqs, vc12DrawReq(t, i, false, cloners))
	}

	c.reqs = append(c.reqs, vc12DrawReq(t, nClients, true, cloners))
	c.logf("world %+v", *c.w)
	for _, r := range c.reqs {
		c.logf("requester %+v", *r)
	}

	return c
}

func (c *vc12Case) close() { _ = os.RemoveAll(c.dir) }

func (c *vc12Case) cloners() [2]*dnsmsg.Cloner {
	return [2]*dnsmsg.Cloner{c.cached.cloner, c.twin.cloner}
}

// vc12Scribble does to a message what the rest of the pipeline is free to do
// with a message it owns: the forwarder gives a request a new ID and adds
// options, the response writers truncate, pad and normalise.  Whatever the
// filters keep must not be reachable through it.
func vc12Scribble(m *dns.Msg) {
	if m == nil {
		return
	}

	m.Id = 0xFFFF
	m.Truncated = true
	m.AuthenticatedData = !m.AuthenticatedData
	m.RecursionDesired = !m.RecursionDesired
	for _, sec := range [][]dns.RR{m.Answer, m.Ns, m.Extra} {
		for _, rr := range sec {
			if opt, ok := rr.(*dns.OPT); ok {
				opt.SetUDPSize(1)
				opt.SetDo(!opt.Do())

				// A reserved flag bit, as echoed from an upstream.
				opt.Hdr.Ttl |= 1 << 14
				opt.Option = append(opt.Option, &dns.EDNS0_PADDING{Padding: make([]byte, 7)})

				continue
			}

			rr.Header().Ttl = 1
		}
	}
}

// release hands a result of the cache-enabled side back as the service does:
// the message has been through the pipeline, and a response is returned to the
// cloner's pools after it has been written (dnsserver disposes of it).  The
// request message is the caller's again and is reused as well.
func (c *vc12Case) release(res vc12Res, req *dns.Msg) {
	vc12Scribble(req)
	if len(req.Question) > 0 {
		req.Question[0].Name = "scribbled.invalid."
	}

	if res.msg == nil {
		return
	}

	vc12Scribble(res.msg)
	if res.Kind == "modresp" {
		c.cached.cloner.Dispose(res.msg)
	}
}

// ---------------------------------------------------------------------------
// operations

// refreshStorage changes some storage-managed content and refreshes both
// storages.
func (c *vc12Case) refreshStorage() {
	t := c.t
	nw := c.w.clone()
	var what []string
	for range rapid.IntRange(0, 3).Draw(t, "nmut") {
		switch rapid.IntRange(0, 5).Draw(t, "what") {
		case 0, 1:
			id := rapid.SampledFrom(vc12ListIDs).Draw(t, "list")
			nw.Lists[id] = vc12MutateRules(t, nw.Lists[id], vc12KindsList, 0)
			what = append(what, id)
		case 2:
			id := rapid.SampledFrom(vc12ListIDs).Draw(t, "list")
			if i := slices.Index(nw.Idx, id); i >= 0 {
				nw.Idx = slices.Delete(nw.Idx, i, i+1)
			} else {
				nw.Idx = append(nw.Idx, id)
			}

			what = append(what, "index:"+id)
		case 3:
			id := rapid.SampledFrom(vc12SvcIDs).Draw(t, "svc")
			if _, ok := nw.Svcs[id]; ok && rapid.IntRange(0, 2).Draw(t, "dropsvc") == 0 {
				delete(nw.Svcs, id)
			} else {
				nw.Svcs[id] = vc12MutateRules(t, nw.Svcs[id], vc12KindsSvc, 1)
				if len(nw.Svcs[id]) == 0 {
					nw.Svcs[id] = []string{vc12DrawRule(t, vc12KindsSvc)}
				}
			}

			what = append(what, id)
		default:
			i := rapid.IntRange(0, 1).Draw(t, "ss")
			nw.SS[i] = vc12MutateRules(t, nw.SS[i], vc12KindsSS, 0)
			what = append(what, fmt.Sprintf("ss%d", i))
		}
	}

	nw.publishStorage(c.srv)
	c.srv.takeHits()
	for _, sd := range []*vc12Side{c.cached, c.twin} {
		if err := sd.refreshStorage(); err != nil {
			vc12Inconclusive(t, "storage refresh failed without an injected fault (cached=%t): %v", sd.cached, err)
		}
	}

	// Every path must have been downloaded by both storages, or the harness
	// does not own the versions.
	hits := c.srv.takeHits()
	want := []string{"/idx", "/svc", "/ss/0", "/ss/1"}
	for _, id := range nw.Idx {
		want = append(want, "/rl/"+id)
	}

	for _, p := range want {
		if hits[p] != 2 {
			vc12Inconclusive(t, "refresh downloaded %s %d times, want 2 (staleness 0 not honoured?)", p, hits[p])
		}
	}

	c.checkErrs("storage refresh")
	c.w = nw
	c.epoch++
	c.logf("REFRESH storage after changing %v: idx=%v lists=%v svcs=%v ss=%v", what, nw.Idx, nw.Lists, nw.Svcs, nw.SS)
	c.st.Class("op-refresh-storage")
}

// refreshHP changes one hash list and refreshes that filter on both sides.
func (c *vc12Case) refreshHP() {
	t := c.t
	k := rapid.IntRange(0, 2).Draw(t, "hp")
	nw := c.w.clone()
	switch hosts := nw.HP[k]; rapid.IntRange(0, 3).Draw(t, "hpmut") {
	case 0:
		nw.HP[k] = vc12DrawHashHosts(t)
	case 1:
		if len(hosts) > 0 {
			i := rapid.IntRange(0, len(hosts)-1).Draw(t, "drop")
			nw.HP[k] = slices.Delete(slices.Clone(hosts), i, i+1)
		}
	case 2:
		if h := rapid.SampledFrom(vc12Hosts).Draw(t, "hhost"); !slices.Contains(hosts, h) {
			nw.HP[k] = append(slices.Clone(hosts), h)
		}
	default:
		// Same content: the refresh must still be harmless.
	}

	nw.publishHP(c.srv, k)
	c.srv.takeHits()
	for _, sd := range []*vc12Side{c.cached, c.twin} {
		if err := sd.refreshHP(k); err != nil {
			vc12Inconclusive(t, "hash-prefix refresh failed without an injected fault (cached=%t): %v", sd.cached, err)
		}
	}

	if p := fmt.Sprintf("/hp/%d", k); c.srv.takeHits()[p] != 2 {
		vc12Inconclusive(t, "refresh did not download %s twice (staleness 0 not honoured?)", p)
	}

	c.checkErrs("hash-prefix refresh")
	c.w = nw
	c.epoch++
	for key := range c.hpSeen {
		if strings.HasPrefix(key, fmt.Sprintf("%d|", k)) {
			delete(c.hpSeen, key)
		}
	}

	c.logf("REFRESH hash list %d (%s): %v", k, vc12HPIDs[k], nw.HP[k])
	c.st.Class("op-refresh-hp")
}

// customUpdate is a profile synchronisation that touches one client: the
// update time always moves forward; the rules may or may not change.
func (c *vc12Case) customUpdate() {
	t := c.t
	r := c.reqs[rapid.IntRange(0, len(c.reqs)-2).Draw(t, "client")]
	// The smallest step a time stamp can make is as good as a large one.
	r.CustomUpd += rapid.SampledFrom([]int64{1, 1e9, 3e9}).Draw(t, "bump")
	cls := "op-custom-touch"
	switch rapid.IntRange(0, 4).Draw(t, "custommode") {
	case 0:
		// Same rules, newer update time.
	case 1:
		r.CustomEnabled = !r.CustomEnabled
		if r.CustomEnabled && len(r.CustomRules) == 0 {
			r.CustomRules = vc12DrawRules(t, vc12KindsList, 1, 3)
		}

		cls = "op-custom-toggle"
	default:
		r.CustomEnabled = true
		r.CustomRules = vc12MutateRules(t, r.CustomRules, vc12KindsList, 1)
		if len(r.CustomRules) == 0 {
			r.CustomRules = []string{vc12DrawRule(t, vc12KindsList)}
		}

		cls = "op-custom-change"
	}

	c.epoch++
	c.logf("CUSTOM %s: enabled=%t upd=%s rules=%v", r.Name, r.CustomEnabled, r.customTime().Format(time.RFC3339Nano), r.CustomRules)
	c.st.Class(cls)
}

// classify records who asked the key and returns the classes and the
// non-trivial identity of the step.
func (c *vc12Case) classify(ri int, key string, res vc12Res) (nt string, classes []string) {
	other, stale := false, false
	for who, ep := range c.seen[key] {
		if who != ri && ep == c.epoch {
			other = true
		}

		if ep < c.epoch {
			stale = true
		}
	}

	if c.seen[key] == nil {
		c.seen[key] = map[int]int{}
	}

	c.seen[key][ri] = c.epoch

	lk := fmt.Sprintf("%d|%s", ri, key)
	if l, ok := c.last[lk]; ok && l.epoch < c.epoch && l.verdict != res.verdict() {
		classes = append(classes, "verdict-changed-since-last-asked")
	} else if ok && l.epoch == c.epoch {
		classes = append(classes, "same-requester-repeat")
	}

	c.last[lk] = vc12Last{verdict: res.verdict(), epoch: c.epoch}

	if other {
		classes = append(classes, "key-asked-by-other-requester")
	}

	if stale {
		classes = append(classes, "key-asked-before-last-refresh")
	}

	classes = append(classes, "v-"+res.Kind)
	switch {
	case res.Kind == "nil":
	case res.List == string(filter.IDCustom):
		classes = append(classes, "src-custom")
	case res.List == string(filter.IDBlockedService):
		classes = append(classes, "src-service")
	case vc12HPIndex(res.List) >= 0:
		classes = append(classes, "src-hashprefix")
	case slices.Contains(vc12ListIDs, res.List):
		classes = append(classes, "src-rulelist")
	default:
		classes = append(classes, "src-safesearch")
	}

	if other || stale {
		r := c.reqs[ri]
		nt = fmt.Sprintf("%s|%t%v|%t%t%v%v|%t%t%t|%v|%s|%t%t|%s", key, r.RLEnabled, r.Lists, r.ParEnabled, r.Adult, r.SS, r.Svcs,
			r.SBEnabled, r.Danger, r.NewReg, r.customActive(), r.params(), other, stale, res.verdict())
	}

	return nt, classes
}

// explainByReplay reports whether the difference between the cache-enabled
// side's message and the reference is exactly the replay of a message that was
// built for an earlier request on the same hash-prefix cache key.
func (c *vc12Case) explainByReplay(k int, q *vc12Q, got, want vc12Res) (id, detail string, ok bool) {
	if got.Kind != want.Kind || got.List != want.List || got.Rule != want.Rule || got.msg == nil {
		return "", "", false
	}

	for _, prev := range c.hpSeen[vc12HPKey(k, q)] {
		m := prev.msg.Copy()
		switch got.Kind {
		case "modresp":
			m.SetReply(q.msg())
			if vc12MsgText(m, false) == got.Msg {
				return vc12KnownRespReplay, fmt.Sprintf("built for %s (%s)", prev.who, prev.params), true
			}
		case "modreq":
			if vc12MsgText(m, true) == got.Msg {
				return vc12KnownReqReplay, fmt.Sprintf("built for %s (%s)", prev.who, prev.params), true
			}
		}
	}

	return "", "", false
}

func vc12HPKey(k int, q *vc12Q) string {
	return fmt.Sprintf("%d|%s|%d|%d", k, q.Host, q.QT, q.QC)
}

// query sends one request through both storages.  With exchange, the upstream
// response to it is sent through the same composite filters afterwards, as
// mainmw does for every request whose question has not been rewritten.
func (c *vc12Case) query(exchange bool) {
	t := c.t
	ri := rapid.IntRange(0, len(c.reqs)-1).Draw(t, "requester")
	r := c.reqs[ri]

	var q vc12Q
	near := ""
	switch mode := rapid.IntRange(0, 9).Draw(t, "repeat"); {
	case len(c.asked) > 0 && mode < 4:
		q = c.asked[rapid.IntRange(0, len(c.asked)-1).Draw(t, "which")]
	case len(c.asked) > 0 && mode < 7:
		// A near miss: an earlier key with exactly one component changed.
		q = c.asked[rapid.IntRange(0, len(c.asked)-1).Draw(t, "which")]
		switch rapid.IntRange(0, 3).Draw(t, "nearwhat") {
		case 0, 1:
			if qt := rapid.SampledFrom(vc12QTypes).Draw(t, "qt"); qt != q.QT {
				q.QT, near = qt, "near-miss-qtype"
			}
		case 2:
			if q.QC == dns.ClassINET {
				q.QC, near = dns.ClassCHAOS, "near-miss-class"
			} else {
				q.QC, near = dns.ClassINET, "near-miss-class"
			}
		default:
			// The parent, a child or the look-alike of the host.
			var cand []string
			for _, h := range vc12QueryHosts {
				if h != q.Host && h != "" && q.Host != "" && !slices.Contains(cand, h) &&
					(strings.HasSuffix(h, "."+q.Host) || strings.HasSuffix(q.Host, "."+h) || strings.HasSuffix(h, q.Host) || strings.HasSuffix(q.Host, h)) {
					cand = append(cand, h)
				}
			}

			if len(cand) > 0 {
				q.Host, near = rapid.SampledFrom(cand).Draw(t, "nearhost"), "near-miss-host"
			}
		}

		if near != "" {
			c.asked = append(c.asked, q)
		}
	default:
		q = vc12Q{
			Host: rapid.SampledFrom(vc12QueryHosts).Draw(t, "host"),
			QT:   rapid.SampledFrom(vc12QTypes).Draw(t, "qt"),
			QC:   dns.ClassINET,
		}
		if rapid.IntRange(0, 15).Draw(t, "class") == 0 {
			q.QC = dns.ClassCHAOS
		}

		c.asked = append(c.asked, q)
	}

	vc12DrawFlags(t, &q, false)

	ctx := context.Background()
	gotReq := q.request(r, 0)
	fGot := c.cached.strg.ForConfig(ctx, r.config())
	gotRaw, err := fGot.FilterRequest(ctx, gotReq)
	if err != nil {
		c.failf("cache-enabled storage: FilterRequest(%s by %s): %v", &q, r.Name, err)
	}

	c.twin.purge()
	fWant := c.twin.strg.ForConfig(ctx, r.config())
	wantRaw, err := fWant.FilterRequest(ctx, q.request(r, 1))
	if err != nil {
		c.failf("reference storage: FilterRequest(%s by %s): %v", &q, r.Name, err)
	}

	got, want := vc12Render(gotRaw), vc12Render(wantRaw)
	c.logf("QUERY %s (%s) %s -> %s", r.Name, r.params(), &q, got.verdict())
	c.checkErrs("query")

	key := fmt.Sprintf("%s/%d/%d/req", q.Host, q.QT, q.QC)
	nt, classes := c.classify(ri, key, want)
	classes = append(classes, near)
	switch q.Host {
	case "":
		classes = append(classes, "host-root")
	case "aa.test", "z.y.x.a.test":
		classes = append(classes, "host-off-pool")
	}

	hpk := vc12HPIndex(want.List)
	if hpk >= 0 {
		for _, prev := range c.hpSeen[vc12HPKey(hpk, &q)] {
			if prev.params != r.params()+" "+q.flags() {
				classes = append(classes, "hp-key-built-for-other-params")

				break
			}
		}
	}

	if got.String() != want.String() {
		id, detail, explained := "", "", false
		if hpk >= 0 {
			id, detail, explained = c.explainByReplay(hpk, &q, got, want)
		}

		if explained && c.st.Known(id) {
			classes = append(classes, "excluded-"+id)
		} else {
			why := "not explained by a recorded finding; the cache-enabled side also returns its responses to the cloner's pools, as dnsserver does, so state carried over by a pooled object shows here as well"
			if explained {
				why = fmt.Sprintf("the cache-enabled side replayed the message %s [%s]", detail, id)
			}

			c.failf("result caches are visible: %s asked %s\n  with caches:    %s\n  without caches: %s\n  (%s)", r.Name, &q, got, want, why)
		}
	}

	// A modified message must be this request's and this requester's, unless it
	// is the replay that has just been excluded.
	if why := vc12OwnMessage(r, &q, got); why != "" && got.String() == want.String() {
		c.failf("%s asked %s: %s", r.Name, &q, why)
	}

	if why := vc12ModelRequest(c.w, c.conf, r, q.Host, q.QT, got); why != "" {
		c.failf("answer does not follow from the current list versions: %s asked %s -> %s: %s", r.Name, &q, got.verdict(), why)
	}

	if hpk >= 0 && want.msg != nil {
		hk := vc12HPKey(hpk, &q)
		c.hpSeen[hk] = append(c.hpSeen[hk], vc12HPSeen{msg: want.msg.Copy(), who: r.Name, params: r.params() + " " + q.flags()})
	}

	c.release(got, gotReq.DNS)
	c.st.Case(nt, classes...)

	if exchange && want.Kind != "modreq" {
		c.response(ri, &q, fGot, fWant, want)
	}
}

// response sends the upstream response to q through the composite filters the
// request went through.
func (c *vc12Case) response(ri int, q *vc12Q, fGot, fWant filter.Interface, reqRes vc12Res) {
	t := c.t
	r := c.reqs[ri]

	resp := (&dns.Msg{}).SetReply(q.msg())
	resp.Answer = vc12DrawAnswers(t, q.Name)
	items := vc12AnswerItems(resp.Answer)

	mk := func() *filter.Response {
		return &filter.Response{DNS: resp.Copy(), RemoteIP: q.request(r, 0).RemoteIP, ClientName: r.CliName}
	}

	ctx := context.Background()
	gotResp := mk()
	gotRaw, err := fGot.FilterResponse(ctx, gotResp)
	if err != nil {
		c.failf("cache-enabled storage: FilterResponse: %v", err)
	}

	c.twin.purge()
	wantRaw, err := fWant.FilterResponse(ctx, mk())
	if err != nil {
		c.failf("reference storage: FilterResponse: %v", err)
	}

	got, want := vc12Render(gotRaw), vc12Render(wantRaw)
	var ans []string
	for _, rr := range resp.Answer {
		ans = append(ans, strings.Join(strings.Fields(rr.String()), " "))
	}

	c.logf("RESPONSE to %s answers %q -> %s", r.Name, ans, got.verdict())
	c.checkErrs("response")

	key := fmt.Sprintf("%v/resp", items)
	nt, classes := c.classify(ri, key, want)
	classes = append(classes, "op-response")
	if want.Kind != "nil" {
		classes = append(classes, "response-filtered")
		switch reqRes.Kind {
		case "nil":
			classes = append(classes, "exchange-request-passed-response-filtered")
		case "allowed":
			classes = append(classes, "exchange-request-allowed-response-filtered")
		default:
			classes = append(classes, "exchange-both-stages-filtered")
		}
	}

	if got.String() != want.String() {
		c.failf("result caches are visible: response to %s with answers %q\n  with caches:    %s\n  without caches: %s", r.Name, ans, got, want)
	}

	if why := vc12ModelResponse(c.w, r, items, got); why != "" {
		c.failf("answer does not follow from the current list versions: response to %s with answers %q -> %s: %s", r.Name, ans, got.verdict(), why)
	}

	// The response is the caller's again.
	vc12Scribble(gotResp.DNS)
	c.st.Case(nt, classes...)
}

func TestVerifC12Histories(t *testing.T) {
	st := vstat.New("C12", "filterstorage.histories",
		"rapid histories (8-40 steps) over a cache-enabled filterstorage.Default (+3 hashprefix filters) and a twin with result "+
			"caches off / purged before every query, both fed from one versioned HTTP server: requests and upstream responses "+
			"from 3 profiles + the anonymous group (own blocking mode, filtered TTL, EDE, lists, services, safe search, hash "+
			"filters, custom rules) over 6 overlapping hosts x 6 qtypes with varying header flags/EDNS/0x20 case, storage "+
			"refreshes after list/index/service/safe-search changes, hash-list refreshes, custom-rule updates; evaluations = "+
			"compared queries; non-trivial = the key was asked by another requester since the last refresh or update, or was "+
			"asked before it; distinct by (key, requester settings, which of the two, verdict)",
		"key-asked-by-other-requester", "key-asked-before-last-refresh", "verdict-changed-since-last-asked",
		"v-nil", "v-blocked", "v-allowed", "v-modresp", "v-modreq",
		"src-custom", "src-rulelist", "src-service", "src-safesearch", "src-hashprefix",
		"response-filtered", "op-refresh-storage", "op-refresh-hp", "op-custom-change", "op-custom-touch",
		"hp-key-built-for-other-params", "near-miss-qtype", "near-miss-class", "near-miss-host", "host-root", "host-off-pool",
		"exchange-request-passed-response-filtered", "exchange-request-allowed-response-filtered", "exchange-both-stages-filtered")
	st.Finish(t)

	srv := vc12NewSrv(t)
	base := vc12BaseDir(t)

	rapid.Check(t, func(t *rapid.T) {
		c := vc12NewCase(t, st, srv, base, 3)
		defer c.close()

		steps := rapid.IntRange(8, 40).Draw(t, "steps")
		for range steps {
			switch op := rapid.IntRange(0, 19).Draw(t, "op"); {
			case op < 11:
				c.query(false)
			case op < 14:
				c.query(true)
			case op < 16:
				c.refreshStorage()
			case op < 18:
				c.refreshHP()
			default:
				c.customUpdate()
			}
		}

		if st.WantSample() {
			st.Sample(c.hist)
		}
	})
}
