//go:build verif

package filterstorage_test

// C13: the world under test (one real filterstorage.Default plus the three
// hash-prefix filters, all fed by one vc13Server), the self-identifying list
// contents, and the observers (verdicts and cache-file bytes).

import (
	"context"
	"encoding/json"
	"fmt"
	"net/netip"
	"net/url"
	"os"
	"path/filepath"
	"slices"
	"sort"
	"strings"
	"sync"
	"syscall"
	"time"

	"github.com/AdguardTeam/AdGuardDNS/internal/agdcache"
	"github.com/AdguardTeam/AdGuardDNS/internal/agdtest"
	"github.com/AdguardTeam/AdGuardDNS/internal/agdtime"
	"github.com/AdguardTeam/AdGuardDNS/internal/dnsmsg"
	"github.com/AdguardTeam/AdGuardDNS/internal/dnsserver/dnsservertest"
	"github.com/AdguardTeam/AdGuardDNS/internal/filter"
	"github.com/AdguardTeam/AdGuardDNS/internal/filter/filterstorage"
	"github.com/AdguardTeam/AdGuardDNS/internal/filter/hashprefix"
	"github.com/AdguardTeam/golibs/logutil/slogutil"
	"github.com/c2h5oh/datasize"
	"github.com/miekg/dns"
)

// vc13MaxSize is the size limit of every download in the harness.
const vc13MaxSize = 4096

// vc13DupOffset is added to the round number to get the version served by the
// alternative URL of a rule list (used by duplicate index entries).
const vc13DupOffset = 1000

// Slot kinds.
const (
	vc13KindRule = "rule"
	vc13KindSvc  = "svc"
	vc13KindSS   = "ss"
	vc13KindHash = "hash"
)

// vc13Slot is one downloadable list with versions.
type vc13Slot struct {
	name string
	kind string
	path string
	file string
	id   filter.ID
}

// Names of the files and paths of the rule-list index.
const (
	vc13IdxPath = "/idx"
	vc13IdxFile = "filters.json"
	vc13SvcFile = "services.json"
)

// Blocked-service IDs used by the service index.
const (
	vc13SvcA filter.BlockedServiceID = "vc13_svc_a"
	vc13SvcB filter.BlockedServiceID = "vc13_svc_b"
)

// vc13Slots are all versioned lists.
var vc13Slots = []*vc13Slot{
	{name: "a", kind: vc13KindRule, path: "/rl/a", file: "vc13_a", id: "vc13_a"},
	{name: "b", kind: vc13KindRule, path: "/rl/b", file: "vc13_b", id: "vc13_b"},
	{name: "c", kind: vc13KindRule, path: "/rl/c", file: "vc13_c", id: "vc13_c"},

	// A list whose ID differs from that of list "a" only in letter case;
	// IDs are case-sensitive, so it is another list with its own cache file.
	{name: "ua", kind: vc13KindRule, path: "/rl/ua", file: "VC13_A", id: "VC13_A"},
	{name: "svc", kind: vc13KindSvc, path: "/svc", file: vc13SvcFile},
	{name: "ssg", kind: vc13KindSS, path: "/ssg", file: string(filter.IDGeneralSafeSearch), id: filter.IDGeneralSafeSearch},
	{name: "ssy", kind: vc13KindSS, path: "/ssy", file: string(filter.IDYoutubeSafeSearch), id: filter.IDYoutubeSafeSearch},
	{name: "adult", kind: vc13KindHash, path: "/hp/adult", file: string(filter.IDAdultBlocking), id: filter.IDAdultBlocking},
	{name: "danger", kind: vc13KindHash, path: "/hp/danger", file: string(filter.IDSafeBrowsing), id: filter.IDSafeBrowsing},
	{name: "newreg", kind: vc13KindHash, path: "/hp/newreg", file: string(filter.IDNewRegDomains), id: filter.IDNewRegDomains},
}

// vc13RuleNames are the names of the rule-list slots.
var vc13RuleNames = []string{"a", "b", "c", "ua"}

// vc13CaseTwin maps a rule list to the one whose ID differs only in case.
var vc13CaseTwin = map[string]string{"a": "ua", "ua": "a"}

// vc13Key returns the index key of a rule list.
func vc13Key(name string) (key string) { return string(vc13SlotByName(name).id) }

// vc13SlotByName returns the slot with the given name.
func vc13SlotByName(name string) (s *vc13Slot) {
	for _, s = range vc13Slots {
		if s.name == name {
			return s
		}
	}

	panic("vc13: no slot " + name)
}

// vc13AllFiles returns the names of all cache files.
func vc13AllFiles() (files []string) {
	files = []string{vc13IdxFile}
	for _, s := range vc13Slots {
		files = append(files, s.file)
	}

	return files
}

// vc13First and vc13Last are the marker hosts of a version of a list.
func vc13First(name string, ver int) (h string) { return fmt.Sprintf("first-%s-v%d.test", name, ver) }
func vc13Last(name string, ver int) (h string)  { return fmt.Sprintf("last-%s-v%d.test", name, ver) }

// vc13ProbeHosts is the number of hosts in every version that only the
// mid-transfer probe asks for, each at most once, so that no result cache can
// answer for the list.
const vc13ProbeHosts = 4

// vc13ProbeHost returns the i-th probe host of a version of a list.
func vc13ProbeHost(name string, ver, i int) (h string) {
	return fmt.Sprintf("probe-%s-v%d-%d.test", name, ver, i)
}

// vc13Body returns the complete content of version ver of slot s with fill
// filler entries between the first and the last marker.
func vc13Body(s *vc13Slot, ver, fill int, flavor string, pad int) (b []byte) {
	if flavor == "longline" || flavor == "junk" {
		// Something must stand on both sides of the defect.
		fill = max(fill, 4)
	}

	hosts := make([]string, 0, fill+2+vc13ProbeHosts)
	hosts = append(hosts, vc13First(s.name, ver))
	for i := 0; i < vc13ProbeHosts; i++ {
		hosts = append(hosts, vc13ProbeHost(s.name, ver, i))
	}

	for i := 0; i < fill; i++ {
		hosts = append(hosts, fmt.Sprintf("fill-%s-v%d-%04d.test", s.name, ver, i))
	}
	hosts = append(hosts, vc13Last(s.name, ver))

	// The padding stands after the first marker and the probe hosts, so that
	// a body that is cut anywhere in it still shows its first marker and not
	// its last one.  There is no newline after the last line, so that a body
	// that lacks its last octet lacks a part of its last marker.
	const padAt = 1 + vc13ProbeHosts

	sb := &strings.Builder{}
	switch s.kind {
	case vc13KindRule:
		fmt.Fprintf(sb, "! vc13 list %s version %d\n", s.name, ver)
		for i, h := range hosts {
			if i == padAt {
				vc13PadLines(sb, "! ", pad)
			}

			if flavor == "junk" && i == len(hosts)/2 {
				sb.WriteString(vc13Junk)
			}

			fmt.Fprintf(sb, "||%s^\n", h)
		}
	case vc13KindSS:
		fmt.Fprintf(sb, "! vc13 list %s version %d\n", s.name, ver)
		for i, h := range hosts {
			if i == padAt {
				vc13PadLines(sb, "! ", pad)
			}

			if flavor == "junk" && i == len(hosts)/2 {
				sb.WriteString(vc13Junk)
			}

			fmt.Fprintf(sb, "|%s^$dnsrewrite=NOERROR;CNAME;safe-%s.test\n", h, s.name)
		}
	case vc13KindHash:
		fmt.Fprintf(sb, "# vc13 list %s version %d\n", s.name, ver)
		for i, h := range hosts {
			if i == padAt {
				vc13PadLines(sb, "# ", pad)
			}

			if flavor == "longline" && i == max(len(hosts)/2, padAt) {
				// Longer than the token limit of bufio.Scanner.
				sb.WriteString(strings.Repeat("x", vc13LongLine))
				sb.WriteString(".test\n")
			}

			fmt.Fprintf(sb, "%s\n", h)
		}
	case vc13KindSvc:
		return vc13SvcBody(hosts, ver, flavor, pad)
	default:
		panic("vc13: bad slot kind")
	}

	return []byte(strings.TrimSuffix(sb.String(), "\n"))
}

// vc13LongLine is the length of the over-long line of a hash list; it is above
// bufio.MaxScanTokenSize (64 KiB), so hashprefix.Storage.Reset fails on it.
const vc13LongLine = 70_000

// vc13Junk are lines that are not valid rules; the rule-list parser has no
// error path, it skips them.
const vc13Junk = "@@@@|||^^$$badmodifier=,,\n" +
	"||unterminated.test^$dnsrewrite=BAD;;;\n" +
	"$$$\n" +
	"!#if (nonsense\n" +
	"\x00\x01\xff\xfe binary \x7f\n" +
	"/[unclosed regexp(/\n" +
	"||bad^$client='unclosed\n"

// vc13PadLines writes exactly pad octets of comment lines (none if pad is less
// than the length of an empty comment line), none longer than 200 octets, so
// that a body can be given an exact size without changing what it means.
func vc13PadLines(sb *strings.Builder, prefix string, pad int) {
	for pad > 0 {
		n := min(pad, 200)
		if rest := pad - n; rest > 0 && rest < len(prefix)+1 {
			n -= len(prefix) + 1
		}

		if n < len(prefix)+1 {
			panic("vc13: pad is too small")
		}

		sb.WriteString(prefix)
		sb.WriteString(strings.Repeat("x", n-len(prefix)-1))
		sb.WriteString("\n")
		pad -= n
	}
}

// vc13SvcInvalidEntries are the flavours of the service index that add an
// entry which (*indexRespService).toInternal refuses: an ID that is not a
// valid blocked-service ID (bad characters, empty, missing, too long) and a
// null entry.  The unchanged code then refuses the whole index and keeps the
// previous services; that is what is asked of it.
var vc13SvcInvalidEntries = []string{"badid", "emptyid", "longid", "noid", "nilentry"}

// vc13SvcPositions are the places of the additional entry.
var vc13SvcPositions = []string{"first", "middle", "last"}

// vc13SvcFlavor splits a flavour of the service index into its name and the
// position of the additional entry ("middle" if none is given).
func vc13SvcFlavor(f string) (name, pos string) {
	name, pos, ok := strings.Cut(f, "@")
	if !ok {
		pos = "middle"
	}

	return name, pos
}

// vc13SvcBody returns a blocked-service index.  The first half of hosts goes
// to service A, the rest to service B, so the first marker and the last marker
// live in different services.  flavor adds one entry between them.
func vc13SvcBody(hosts []string, ver int, flavor string, pad int) (b []byte) {
	flavor, pos := vc13SvcFlavor(flavor)
	if flavor == "notjson" {
		return []byte(fmt.Sprintf("<html><body>maintenance, services v%d</body></html>\n%s", ver, strings.Repeat("x", pad)))
	}

	rules := func(hs []string) (rs []string) {
		for _, h := range hs {
			rs = append(rs, "||"+h+"^")
		}

		return rs
	}

	mid := (len(hosts) + 1) / 2
	svcA := map[string]any{"id": string(vc13SvcA), "name": "A", "rules": rules(hosts[:mid])}
	svcB := map[string]any{"id": string(vc13SvcB), "name": "B", "rules": rules(hosts[mid:])}

	var extra any
	hasExtra := true
	switch flavor {
	case "", "valid":
		hasExtra = false
	case "emptyrules":
		// Valid: a service without rules is reported, not refused.
		extra = map[string]any{"id": "vc13_svc_empty", "name": "Empty", "rules": []string{}}
	case "badid":
		extra = map[string]any{"id": "bad id/x", "name": "Bad", "rules": []string{"||bad-svc.test^"}}
	case "emptyid":
		extra = map[string]any{"id": "", "name": "NoID", "rules": []string{"||noid-svc.test^"}}
	case "longid":
		extra = map[string]any{"id": strings.Repeat("s", 65), "name": "Long", "rules": []string{"||long-svc.test^"}}
	case "noid":
		extra = map[string]any{"name": "Missing", "rules": []string{"||missing-svc.test^"}}
	case "nilentry":
		extra = nil
	case "typeerr":
		extra = map[string]any{"id": 7, "name": "Seven", "rules": []string{"||seven-svc.test^"}}
	default:
		panic("vc13: bad svc flavor " + flavor)
	}

	// The additional entry stands first, between the two valid services, or
	// last.
	svcs := []any{svcA, svcB}
	if hasExtra {
		switch pos {
		case "first":
			svcs = []any{extra, svcA, svcB}
		case "last":
			svcs = []any{svcA, svcB, extra}
		default:
			svcs = []any{svcA, extra, svcB}
		}
	}

	m := map[string]any{"blocked_services": svcs, "vc13_version": ver}
	if pad > 0 {
		m["pad"] = strings.Repeat("p", pad)
	}

	b, err := json.MarshalIndent(m, "", " ")
	if err != nil {
		panic(err)
	}

	return append(b, '\n')
}

// vc13Entry is one entry of a generated rule-list index.
type vc13Entry struct {
	// T is the entry type: valid, dupsame, dupalt, nil, emptykey, badkey,
	// longkey, emptyurl, badurl, fileurl, typeerr.
	T string `json:"t"`

	// L is the rule-list name for valid, dupsame, dupalt and keybad.
	L string `json:"l,omitempty"`

	// U is, for keybad, the form of the download URL: the entry carries the
	// key of list L, passes or fails validate() and is rejected at the latest
	// when its URL is parsed; see vc13BadURLForms.
	U string `json:"u,omitempty"`
}

// vc13BadURLForms are the forms of a download URL that make an index entry
// invalid, by the stage of toInternal that rejects them.
var vc13BadURLForms = []struct {
	name  string
	stage string
}{
	{name: "emptyurl", stage: "validate"},
	{name: "ftp", stage: "url"},
	{name: "ws", stage: "url"},
	{name: "nohost", stage: "url"},
	{name: "relative", stage: "url"},
	{name: "noscheme", stage: "url"},
	{name: "badport", stage: "url"},
	{name: "ctrl", stage: "url"},
	{name: "badescape", stage: "url"},
}

// vc13BadURLStage returns the stage that rejects the form.
func vc13BadURLStage(form string) (stage string) {
	for _, f := range vc13BadURLForms {
		if f.name == form {
			return f.stage
		}
	}

	panic("vc13: bad url form " + form)
}

// vc13BadURL returns a download URL of the given invalid form that would
// otherwise point at path on the server at base.
func vc13BadURL(base, form, path string) (u string) {
	hostport := strings.TrimPrefix(base, "http://")
	switch form {
	case "emptyurl":
		return ""
	case "ftp":
		return "ftp://" + hostport + path
	case "ws":
		return "ws://" + hostport + path
	case "nohost":
		return "http://" + path
	case "relative":
		return path
	case "noscheme":
		return hostport + path
	case "badport":
		return "http://" + hostport + "x" + path
	case "ctrl":
		return base + path + "\x7f"
	case "badescape":
		return base + path + "%zz"
	default:
		panic("vc13: bad url form " + form)
	}
}

// vc13LimitOf returns the size limit of the download at path.  Every limit is
// different, so that a limit that reaches the wrong component shows at the
// sizes limit-1 and limit+1.
func vc13LimitOf(path string, hashMax int) (limit int) {
	switch {
	case path == vc13IdxPath:
		return 3000
	case path == "/svc":
		return 3500
	case path == "/ssg":
		return 5000
	case path == "/ssy":
		return 4500
	case path == "/hp/adult":
		return hashMax
	case path == "/hp/danger":
		return hashMax - 8192
	case path == "/hp/newreg":
		return hashMax - 16384
	default:
		return vc13MaxSize
	}
}

// vc13InvalidEntryTypes are the entry types that toInternal must skip.
var vc13InvalidEntryTypes = []string{"nil", "emptykey", "badkey", "longkey", "emptyurl", "badurl", "fileurl"}

// vc13MistypedEntryTypes are the entry types that are valid JSON of the wrong
// type: an element of the filters array that is not an object, or an object
// with a field of the wrong type.  encoding/json reports a type error for
// them after it has decoded the rest, so it is the code's choice whether the
// index is refused or the entry is skipped; both keep the statement.
var vc13MistypedEntryTypes = []string{"typeerr", "urlnum", "urlobj", "bothnum", "el-string", "el-number", "el-bool", "el-array"}

// vc13Shape is an index document that is valid JSON of the wrong shape.
type vc13Shape struct {
	name string

	// family is "top" (the top-level value is not an object with filters)
	// or "filters" (the value of filters is not an array).
	family string

	// nullish is set if the document says nothing where the array is
	// expected (null, a missing key): encoding/json reads that as "no
	// entries" without any error, and whether such a document is an empty
	// index or a broken one is not decided here; see the report.
	nullish bool
}

// vc13Shapes are the wrong shapes.
var vc13Shapes = []vc13Shape{
	{name: "top-string", family: "top"},
	{name: "top-number", family: "top"},
	{name: "top-bool", family: "top"},
	{name: "top-array", family: "top"},
	{name: "top-null", family: "top", nullish: true},
	{name: "top-empty-object", family: "top", nullish: true},
	{name: "top-object-without-filters", family: "top", nullish: true},
	{name: "filters-string", family: "filters"},
	{name: "filters-number", family: "filters"},
	{name: "filters-bool", family: "filters"},
	{name: "filters-object", family: "filters"},
	{name: "filters-null", family: "filters", nullish: true},
}

// vc13ShapeByName returns the shape, nil if name is not one.
func vc13ShapeByName(name string) (sh *vc13Shape) {
	for i := range vc13Shapes {
		if vc13Shapes[i].name == name {
			return &vc13Shapes[i]
		}
	}

	return nil
}

// vc13ShapeDoc returns the document of the shape; the valid entries of all
// three rule lists are in it wherever there is room for them, so that it
// looks as much like an index as the shape allows.
func vc13ShapeDoc(sh *vc13Shape, base string, ver int) (b []byte) {
	var entries []any
	byKey := map[string]any{}
	for _, name := range vc13RuleNames {
		e := map[string]any{"filterKey": vc13Key(name), "downloadUrl": base + vc13SlotByName(name).path}
		entries = append(entries, e)
		byKey[vc13Key(name)] = e
	}

	var doc any
	switch sh.name {
	case "top-string":
		doc = fmt.Sprintf("temporarily unavailable, v%d", ver)
	case "top-number":
		doc = 503000 + ver
	case "top-bool":
		doc = true
	case "top-array":
		doc = entries
	case "top-null":
		doc = nil
	case "top-empty-object":
		doc = map[string]any{}
	case "top-object-without-filters":
		doc = map[string]any{"lists": entries, "vc13_version": ver}
	case "filters-string":
		doc = map[string]any{"filters": "temporarily unavailable", "vc13_version": ver}
	case "filters-number":
		doc = map[string]any{"filters": 503, "vc13_version": ver}
	case "filters-bool":
		doc = map[string]any{"filters": false, "vc13_version": ver}
	case "filters-object":
		doc = map[string]any{"filters": byKey, "vc13_version": ver}
	case "filters-null":
		doc = map[string]any{"filters": nil, "vc13_version": ver}
	default:
		panic("vc13: bad shape " + sh.name)
	}

	b, err := json.MarshalIndent(doc, "", " ")
	if err != nil {
		panic(err)
	}

	return append(b, '\n')
}

// vc13IdxInfo is what an index body means.
type vc13IdxInfo struct {
	// class is valid (all entries valid and distinct), partial (some entries
	// invalid or duplicated), ambiguous (an entry of the wrong JSON type:
	// the statement does not say whether that is an invalid entry or an
	// invalid index), garbage (not JSON, or JSON of a shape that is not an
	// index: the lists must stay) or nullish (JSON that says nothing where
	// the array of entries is expected: the lists stay or all go, see
	// vc13Shape).
	class string

	// shape is the name of the wrong shape, if any.
	shape string

	// urls maps a rule-list name to the paths of its valid entries, in
	// index order.
	urls map[string][]string

	// entries are the entries the body was built from.
	entries []vc13Entry
}

// vc13IndexBody builds an index from entries.
func vc13IndexBody(base string, ver int, entries []vc13Entry, notJSON bool, pad int) (b []byte, info *vc13IdxInfo) {
	info = &vc13IdxInfo{class: "valid", urls: map[string][]string{}, entries: entries}
	if notJSON {
		info.class = "garbage"

		return []byte(fmt.Sprintf("<html><body>maintenance, index v%d</body></html>\n%s", ver, strings.Repeat("x", pad))), info
	}

	worse := func(c string) {
		if info.class == "valid" || c == "ambiguous" {
			info.class = c
		}
	}

	fls := []any{}
	for i, e := range entries {
		switch e.T {
		case "valid", "dupsame":
			p := vc13SlotByName(e.L).path
			if len(info.urls[e.L]) > 0 {
				worse("partial")
			}
			info.urls[e.L] = append(info.urls[e.L], p)
			fls = append(fls, map[string]any{"filterKey": vc13Key(e.L), "downloadUrl": base + p, "name": e.L})
		case "dupalt":
			p := vc13SlotByName(e.L).path + "/dup"
			if len(info.urls[e.L]) > 0 {
				worse("partial")
			}
			info.urls[e.L] = append(info.urls[e.L], p)
			fls = append(fls, map[string]any{"filterKey": vc13Key(e.L), "downloadUrl": base + p, "name": e.L})
		case "nil":
			worse("partial")
			fls = append(fls, nil)
		case "emptykey":
			worse("partial")
			fls = append(fls, map[string]any{"filterKey": "", "downloadUrl": base + "/rl/none"})
		case "badkey":
			worse("partial")
			fls = append(fls, map[string]any{"filterKey": fmt.Sprintf("../bad key %d", i), "downloadUrl": base + "/rl/none"})
		case "longkey":
			worse("partial")
			fls = append(fls, map[string]any{"filterKey": strings.Repeat("k", 129), "downloadUrl": base + "/rl/none"})
		case "keybad":
			worse("partial")
			fls = append(fls, map[string]any{
				"filterKey":   vc13Key(e.L),
				"downloadUrl": vc13BadURL(base, e.U, vc13SlotByName(e.L).path),
				"name":        e.L,
			})
		case "emptyurl":
			worse("partial")
			fls = append(fls, map[string]any{"filterKey": fmt.Sprintf("vc13_nourl_%d", i), "downloadUrl": ""})
		case "badurl":
			worse("partial")
			fls = append(fls, map[string]any{"filterKey": fmt.Sprintf("vc13_badurl_%d", i), "downloadUrl": "::not a url::"})
		case "fileurl":
			worse("partial")
			fls = append(fls, map[string]any{"filterKey": fmt.Sprintf("vc13_fileurl_%d", i), "downloadUrl": "file:///etc/hostname"})
		case "typeerr":
			worse("ambiguous")
			fls = append(fls, map[string]any{"filterKey": 7, "downloadUrl": base + "/rl/none"})
		case "urlnum":
			worse("ambiguous")
			fls = append(fls, map[string]any{"filterKey": fmt.Sprintf("vc13_urlnum_%d", i), "downloadUrl": 8080})
		case "urlobj":
			worse("ambiguous")
			fls = append(fls, map[string]any{
				"filterKey":   fmt.Sprintf("vc13_urlobj_%d", i),
				"downloadUrl": map[string]any{"href": base + "/rl/none"},
			})
		case "bothnum":
			worse("ambiguous")
			fls = append(fls, map[string]any{"filterKey": 1, "downloadUrl": 2})
		case "el-string":
			worse("ambiguous")
			fls = append(fls, base+"/rl/none")
		case "el-number":
			worse("ambiguous")
			fls = append(fls, 17)
		case "el-bool":
			worse("ambiguous")
			fls = append(fls, true)
		case "el-array":
			worse("ambiguous")
			fls = append(fls, []any{map[string]any{"filterKey": "vc13_nested", "downloadUrl": base + "/rl/none"}})
		default:
			panic("vc13: bad entry type " + e.T)
		}
	}

	m := map[string]any{"filters": fls, "vc13_version": ver}
	if pad > 0 {
		m["pad"] = strings.Repeat("p", pad)
	}

	b, err := json.MarshalIndent(m, "", " ")
	if err != nil {
		panic(err)
	}

	return append(b, '\n'), info
}

// vc13ErrLog collects the errors reported by the code under test.
type vc13ErrLog struct {
	mu   sync.Mutex
	msgs []string
}

// Collect implements the [errcoll.Interface] interface for *vc13ErrLog.
func (l *vc13ErrLog) Collect(_ context.Context, err error) {
	l.mu.Lock()
	defer l.mu.Unlock()

	l.msgs = append(l.msgs, err.Error())
}

// add records an error returned to the harness.
func (l *vc13ErrLog) add(err error) {
	if err != nil {
		l.Collect(context.Background(), err)
	}
}

// take returns and clears the collected messages.
func (l *vc13ErrLog) take() (msgs []string) {
	l.mu.Lock()
	defer l.mu.Unlock()

	msgs, l.msgs = l.msgs, nil

	return msgs
}

// vc13Units is one set of the real objects under test.
type vc13Units struct {
	strg   *filterstorage.Default
	hashes map[string]*hashprefix.Filter

	// mu protects cancels, the cancel functions of the refreshes that are
	// running now.
	mu      sync.Mutex
	cancels map[int]context.CancelFunc
	nextID  int
}

// cancelRunning cancels the contexts of all refreshes that are running now, as
// a caller that gives up (shutdown, its own deadline) does.
func (u *vc13Units) cancelRunning() {
	u.mu.Lock()
	defer u.mu.Unlock()

	for _, c := range u.cancels {
		c()
	}
}

// vc13NewUnits creates the storage and the hash-prefix filters over cache
// directory dir and server base URL base.  Nothing is loaded yet.
func vc13NewUnits(
	dir string,
	base string,
	el *vc13ErrLog,
	timeout time.Duration,
	cacheOn bool,
	hashMax int,
	srcURLs map[string]string,
	limits map[string]int,
) (u *vc13Units, err error) {
	// A target may also come from a hostless file URI: the rule-list index
	// (see FILTER_INDEX_URL), the service index and the hash lists accept
	// one; srcURLs maps the path of such a target to its URI.
	mustURL := func(p string) (res *url.URL) {
		s := base + p
		if srcURLs[p] != "" {
			s = srcURLs[p]
		}

		res, perr := url.Parse(s)
		if perr != nil {
			panic(perr)
		}

		return res
	}

	const (
		stale = 1 * time.Nanosecond
		count = 100
	)

	idxU := mustURL(vc13IdxPath)

	// limits, if it has the path, overrides the size limit of a target (a
	// restart with a lowered max_size).
	limit := func(path string) (l datasize.ByteSize) {
		if v, ok := limits[path]; ok {
			return datasize.ByteSize(v)
		}

		return datasize.ByteSize(vc13LimitOf(path, hashMax))
	}
	logger := slogutil.NewDiscardLogger()

	u = &vc13Units{hashes: map[string]*hashprefix.Filter{}}
	for _, s := range vc13Slots {
		if s.kind != vc13KindHash {
			continue
		}

		var hs *hashprefix.Storage
		hs, err = hashprefix.NewStorage("")
		if err != nil {
			return nil, fmt.Errorf("hash storage: %w", err)
		}

		u.hashes[s.name], err = hashprefix.NewFilter(&hashprefix.FilterConfig{
			Logger:          logger,
			Cloner:          agdtest.NewCloner(),
			CacheManager:    agdcache.EmptyManager{},
			Hashes:          hs,
			URL:             mustURL(s.path),
			ErrColl:         el,
			Metrics:         filter.EmptyMetrics{},
			ID:              s.id,
			CachePath:       filepath.Join(dir, s.file),
			ReplacementHost: "repl-" + s.name + ".test",
			Staleness:       stale,
			CacheTTL:        time.Hour,
			RefreshTimeout:  timeout,
			CacheCount:      count,
			MaxSize:         limit(s.path),
		})
		if err != nil {
			return nil, fmt.Errorf("hash filter %s: %w", s.name, err)
		}
	}

	ss := func(name string) (c *filterstorage.ConfigSafeSearch) {
		s := vc13SlotByName(name)

		return &filterstorage.ConfigSafeSearch{
			URL:              mustURL(s.path),
			ID:               s.id,
			MaxSize:          limit(s.path),
			ResultCacheTTL:   time.Hour,
			RefreshTimeout:   timeout,
			Staleness:        stale,
			ResultCacheCount: count,
			Enabled:          true,
		}
	}

	u.strg, err = filterstorage.New(&filterstorage.Config{
		BaseLogger: logger,
		Logger:     logger,
		BlockedServices: &filterstorage.ConfigBlockedServices{
			IndexURL:            mustURL("/svc"),
			IndexMaxSize:        limit("/svc"),
			IndexRefreshTimeout: timeout,
			IndexStaleness:      stale,
			ResultCacheCount:    count,
			ResultCacheEnabled:  cacheOn,
			Enabled:             true,
		},
		Custom: &filterstorage.ConfigCustom{CacheCount: count},
		HashPrefix: &filterstorage.ConfigHashPrefix{
			Adult:           u.hashes["adult"],
			Dangerous:       u.hashes["danger"],
			NewlyRegistered: u.hashes["newreg"],
		},
		RuleLists: &filterstorage.ConfigRuleLists{
			IndexURL:            idxU,
			IndexMaxSize:        limit(vc13IdxPath),
			MaxSize:             limit("/rl/"),
			IndexRefreshTimeout: timeout,
			IndexStaleness:      stale,
			RefreshTimeout:      timeout,
			Staleness:           vc13RuleStaleness,
			ResultCacheCount:    count,
			ResultCacheEnabled:  cacheOn,
		},
		SafeSearchGeneral: ss("ssg"),
		SafeSearchYouTube: ss("ssy"),
		CacheManager:      agdcache.EmptyManager{},
		Clock:             agdtime.SystemClock{},
		ErrColl:           el,
		Metrics:           filter.EmptyMetrics{},
		CacheDir:          dir,
	})
	if err != nil {
		return nil, fmt.Errorf("storage: %w", err)
	}

	return u, nil
}

// vc13HashOrder is the order in which the hash-prefix filters are refreshed.
var vc13HashOrder = []string{"adult", "danger", "newreg"}

// refreshAll runs one refresh of everything.  A panic of the code under test
// is returned as pnc.
//
// If parallel is set, the storage and the three filters refresh at the same
// time, as their four refresh workers may in production.
func (u *vc13Units) refreshAll(el *vc13ErrLog, initial bool, ctxTimeout time.Duration, parallel bool) (pnc any) {
	pncMu := &sync.Mutex{}
	guarded := func(f func(ctx context.Context)) {
		defer func() {
			if v := recover(); v != nil {
				pncMu.Lock()
				defer pncMu.Unlock()

				if pnc == nil {
					pnc = v
				}
			}
		}()

		ctx, cancel := context.WithTimeout(context.Background(), ctxTimeout)
		defer cancel()

		u.mu.Lock()
		if u.cancels == nil {
			u.cancels = map[int]context.CancelFunc{}
		}
		u.nextID++
		id := u.nextID
		u.cancels[id] = cancel
		u.mu.Unlock()

		defer func() {
			u.mu.Lock()
			defer u.mu.Unlock()

			delete(u.cancels, id)
		}()

		f(ctx)
	}

	jobs := []func(){func() {
		guarded(func(ctx context.Context) {
			if initial {
				// RefreshInitial does not report to the error collector.
				el.add(u.strg.RefreshInitial(ctx))
			} else {
				_ = u.strg.Refresh(ctx)
			}
		})
	}}

	for _, name := range vc13HashOrder {
		jobs = append(jobs, func() {
			guarded(func(ctx context.Context) {
				if initial {
					el.add(u.hashes[name].RefreshInitial(ctx))
				} else {
					_ = u.hashes[name].Refresh(ctx)
				}
			})
		})
	}

	if !parallel {
		for _, j := range jobs {
			j()
		}

		return pnc
	}

	wg := &sync.WaitGroup{}
	for _, j := range jobs {
		wg.Add(1)
		go func() {
			defer wg.Done()

			j()
		}()
	}
	wg.Wait()

	return pnc
}

// vc13Obs is what can be seen of the lists at a quiescent point.
type vc13Obs struct {
	// Served maps a slot name to the one complete version it serves, 0 if it
	// serves nothing.
	Served map[string]int

	// Files maps a cache file name to its content, nil if absent.
	Files map[string][]byte

	// Inodes maps a cache file name to its inode number.
	Inodes map[string]uint64
}

// vc13ConfFor returns the filtering configuration that enables exactly slot s.
func vc13ConfFor(s *vc13Slot) (c *filter.ConfigGroup) {
	c = &filter.ConfigGroup{
		Parental:     &filter.ConfigParental{},
		RuleList:     &filter.ConfigRuleList{},
		SafeBrowsing: &filter.ConfigSafeBrowsing{},
	}

	switch s.name {
	case "svc":
		c.Parental.Enabled = true
		c.Parental.BlockedServices = []filter.BlockedServiceID{vc13SvcA, vc13SvcB}
	case "ssg":
		c.Parental.Enabled = true
		c.Parental.SafeSearchGeneralEnabled = true
	case "ssy":
		c.Parental.Enabled = true
		c.Parental.SafeSearchYouTubeEnabled = true
	case "adult":
		c.Parental.Enabled = true
		c.Parental.AdultBlockingEnabled = true
	case "danger":
		c.SafeBrowsing.Enabled = true
		c.SafeBrowsing.DangerousDomainsEnabled = true
	case "newreg":
		c.SafeBrowsing.Enabled = true
		c.SafeBrowsing.NewlyRegisteredDomainsEnabled = true
	default:
		c.RuleList.Enabled = true
		c.RuleList.IDs = []filter.ID{s.id}
	}

	return c
}

// vc13ClientIP is the client address of all harness queries.
var vc13ClientIP = netip.MustParseAddr("192.0.2.1")

// vc13Hit reports whether f filters an A query for host.
func vc13Hit(f filter.Interface, msgs *dnsmsg.Constructor, host string) (hit bool, err error) {
	req := &filter.Request{
		DNS:      dnsservertest.NewReq(host, dns.TypeA, dns.ClassINET),
		Messages: msgs,
		RemoteIP: vc13ClientIP,
		Host:     host,
		QType:    dns.TypeA,
		QClass:   dns.ClassINET,
	}

	r, err := f.FilterRequest(context.Background(), req)
	if err != nil {
		return false, err
	}

	switch r.(type) {
	case nil:
		return false, nil
	case *filter.ResultBlocked, *filter.ResultModifiedRequest, *filter.ResultModifiedResponse:
		return true, nil
	default:
		return false, nil
	}
}

// observeServed determines, from verdicts only, which version each slot
// serves.  tried lists every version of which at least one byte may have been
// transmitted.  bad describes a slot that serves anything other than exactly
// one complete version or nothing.
func (u *vc13Units) observeServed(msgs *dnsmsg.Constructor, tried map[string][]int) (served map[string]int, bad string) {
	served = map[string]int{}
	for _, s := range vc13Slots {
		f := u.strg.ForConfig(context.Background(), vc13ConfFor(s))

		// Every rule that a list serves comes from a body that was sent for
		// that list: the list whose ID differs only in case is another list.
		if twin := vc13CaseTwin[s.name]; twin != "" {
			for _, ver := range tried[twin] {
				hit, err := vc13Hit(f, msgs, vc13First(twin, ver))
				if err != nil {
					return nil, fmt.Sprintf("slot %s: filtering error: %v", s.name, err)
				}

				if hit {
					return nil, fmt.Sprintf(
						"list %q (id %q) serves a rule of version %d of list %q (id %q), whose ID differs only in letter case",
						s.name, s.id, ver, twin, vc13SlotByName(twin).id,
					)
				}
			}
		}

		var firsts, lasts []int
		for _, ver := range tried[s.name] {
			hf, err := vc13Hit(f, msgs, vc13First(s.name, ver))
			if err != nil {
				return nil, fmt.Sprintf("slot %s: filtering error: %v", s.name, err)
			}

			hl, err := vc13Hit(f, msgs, vc13Last(s.name, ver))
			if err != nil {
				return nil, fmt.Sprintf("slot %s: filtering error: %v", s.name, err)
			}

			if hf {
				firsts = append(firsts, ver)
			}

			if hl {
				lasts = append(lasts, ver)
			}
		}

		switch {
		case len(firsts) == 0 && len(lasts) == 0:
			served[s.name] = 0
		case len(firsts) == 1 && len(lasts) == 1 && firsts[0] == lasts[0]:
			served[s.name] = firsts[0]
		default:
			return nil, fmt.Sprintf(
				"slot %s serves an incomplete or mixed list: first markers of versions %v, last markers of versions %v",
				s.name, firsts, lasts,
			)
		}
	}

	return served, ""
}

// vc13ReadFiles reads all cache files under dir.
func vc13ReadFiles(dir string) (files map[string][]byte, inodes map[string]uint64, err error) {
	files = map[string][]byte{}
	inodes = map[string]uint64{}
	for _, name := range vc13AllFiles() {
		b, rerr := os.ReadFile(filepath.Join(dir, name))
		switch {
		case rerr == nil:
			if b == nil {
				b = []byte{}
			}
			files[name] = b
			if fi, serr := os.Stat(filepath.Join(dir, name)); serr == nil {
				if sys, ok := fi.Sys().(*syscall.Stat_t); ok {
					inodes[name] = sys.Ino
				}
			}
		case os.IsNotExist(rerr):
			files[name] = nil
		default:
			return nil, nil, rerr
		}
	}

	return files, inodes, nil
}

// vc13AgeFiles sets the modification time of every cache file under dir one
// hour back, so that the next refresh downloads again whatever the wall clock
// did in between (the harness owns the staleness, not the clock).
func vc13AgeFiles(dir string) { vc13AgeFilesExcept(dir, nil) }

// vc13RuleStaleness is the staleness interval of the rule lists.  A file that
// the harness has not aged is fresh for the code: its modification time is
// the beginning of the refresh that wrote it.
const vc13RuleStaleness = 10 * time.Minute

// vc13AgeFilesExcept is like vc13AgeFiles but leaves the cache files of the
// rule lists named in fresh as they are.
func vc13AgeFilesExcept(dir string, fresh []string) {
	old := time.Now().Add(-1 * time.Hour)
	for _, name := range vc13AllFiles() {
		if s := vc13SlotByFile(name); s != nil && s.kind == vc13KindRule && slices.Contains(fresh, s.name) {
			continue
		}

		_ = os.Chtimes(filepath.Join(dir, name), old, old)
	}
}

// vc13SlotByFile returns the slot with the given cache file, nil if none.
func vc13SlotByFile(file string) (s *vc13Slot) {
	for _, s = range vc13Slots {
		if s.file == file {
			return s
		}
	}

	return nil
}

// vc13Strays returns the names in dir that are not cache files.
func vc13Strays(dir string) (names []string) {
	known := map[string]bool{}
	for _, n := range vc13AllFiles() {
		known[n] = true
	}

	ents, _ := os.ReadDir(dir)
	for _, e := range ents {
		if !known[e.Name()] {
			names = append(names, e.Name())
		}
	}

	sort.Strings(names)

	return names
}

// vc13Short abbreviates file content for messages.
func vc13Short(b []byte) (s string) {
	switch {
	case b == nil:
		return "<absent>"
	case len(b) <= 160:
		return fmt.Sprintf("%d bytes %q", len(b), b)
	default:
		return fmt.Sprintf("%d bytes %q ... %q", len(b), b[:80], b[len(b)-60:])
	}
}
