//go:build verif

package filterstorage_test

// C13 (a): fault sequences.  A sequence is a list of refresh rounds; in every
// round every URL (rule-list index, rule lists, service index, safe-search
// lists, hash lists) has a scripted behaviour.  After every round the verdicts
// and the cache-file bytes are compared with the versions that the statement
// allows.  See /verif/DESIGN.md, section 3, C13.

import (
	"bytes"
	"context"
	"encoding/json"
	"fmt"
	"net/http"
	"os"
	"path/filepath"
	"slices"
	"sort"
	"strings"
	"sync"
	"testing"
	"time"

	"github.com/AdguardTeam/AdGuardDNS/internal/agdtest"
	"github.com/AdguardTeam/AdGuardDNS/internal/dnsmsg"
	"pgregory.net/rapid"
	"verif.local/harness/vstat"
)

// vc13Timeout is the HTTP timeout of every refreshable in the fault-sequence
// part.  Hanging responses cost exactly this much.
const vc13Timeout = 150 * time.Millisecond

// vc13CtxGenerous is the context timeout of a whole refresh when the context
// is not meant to expire.
const vc13CtxGenerous = 20 * time.Second

// Finding identifiers (see the findings protocol in the guide).
const (
	vc13KnownSvcNilPanic = "svc-index-null-entry-panic"
)

// vc13Script is the behaviour of one URL in one round.
type vc13Script struct {
	Kind vc13Kind `json:"k"`

	// Fill is the number of filler entries of the body.
	Fill int `json:"f,omitempty"`

	// CutPct is the part of the body, in percent, that is transmitted by the
	// kinds that transmit a part.
	CutPct int `json:"c,omitempty"`

	// Over is, for the oversize kinds, the number of octets by which the
	// body exceeds the size limit; 0 means a few thousand.
	Over int `json:"over,omitempty"`

	// Flavor is the content flavour for the two indexes: "" (valid),
	// "notjson", and for the service index also "badid", "nilentry",
	// "typeerr".
	Flavor string `json:"fl,omitempty"`

	// Code and Body are, for the status kind, the status (one of
	// vc13StatusCodes) and the form of the body: "junk", "valid" (a complete
	// other version, for the index: the index of the round's entries) or
	// "empty".
	Code int    `json:"code,omitempty"`
	Body string `json:"body,omitempty"`

	// Form is, for the ok kinds, how the complete body is delimited: ""
	// (Content-Length), "chunked" or "close".
	Form string `json:"form,omitempty"`

	// At gives an ok_new body an exact size: "limit-1" (the largest body
	// that is certainly allowed) or "limit" (exactly the limit; whether that
	// is allowed is not decided here, so only "previous or new" is asked).
	At string `json:"at,omitempty"`
}

// vc13Round is one refresh round.
type vc13Round struct {
	Idx     vc13Script            `json:"idx"`
	Entries []vc13Entry           `json:"entries"`
	S       map[string]vc13Script `json:"s"`

	// Tight makes the refresh context expire together with the first HTTP
	// timeout, as in production, where both use the same duration.
	Tight bool `json:"tight,omitempty"`

	// Dribble makes complete bodies arrive in three pieces; between the
	// pieces the server looks at the cache files.
	Dribble bool `json:"dribble,omitempty"`

	// CancelReq, if positive, makes the caller cancel the context of the
	// refresh when the request with that number (from 1) arrives or, with
	// CancelMid, after the first piece of its complete body.
	CancelReq int  `json:"cancel_req,omitempty"`
	CancelMid bool `json:"cancel_mid,omitempty"`

	// Fresh names the rule lists whose cache files the harness does not age
	// before this round: if such a file was written in the round before, it
	// is within its staleness interval, and the code reads it instead of
	// downloading.
	Fresh []string `json:"fresh,omitempty"`

	// Parallel runs the refresh of the storage and of the three hash-prefix
	// filters at the same time, as their refresh workers may.
	Parallel bool `json:"parallel,omitempty"`
}

// vc13Seq is one generated case.
type vc13Seq struct {
	CacheOn bool `json:"cache_on"`

	// IdxFile makes the rule-list index come from a file URI instead of an
	// HTTP URL.
	IdxFile bool `json:"idx_file,omitempty"`

	// FileSrc are further targets that come from a file URI: "svc", "adult",
	// "danger", "newreg" (and "idx", which is the same as IdxFile).
	FileSrc []string `json:"file_src,omitempty"`

	// Lowered, if not empty, asks for one more restart at the end, with the
	// size limit of each named target ("idx", "rl", "svc", "ssg", "ssy",
	// "adult", "danger", "newreg") set relative to the size of its cache
	// file: "limit-1" (the file is one octet smaller than the limit),
	// "limit", "limit+1" or "3limit" (the file is three times the limit).
	Lowered map[string]string `json:"lowered,omitempty"`

	Rounds []vc13Round `json:"rounds"`
}

// vc13T is the part of *testing.T and *rapid.T that the runner needs.
type vc13T interface {
	Helper()
	Fatalf(format string, args ...any)
	Logf(format string, args ...any)
}

// vc13URLInfo is what was planned for one path in one round.
type vc13URLInfo struct {
	// rejected is set if the body is delivered completely but its consumer
	// cannot process it (a processing-level fault).
	rejected bool

	// flavor is the content flavour of the body.
	flavor string

	// form and at are the delimiting and the exact-size class of an ok body.
	form string
	at   string

	kind vc13Kind
	ok   bool
	ver  int
	body []byte
}

// vc13RoundInfo is the plan of one round in the terms of the oracle.
type vc13RoundInfo struct {
	n    int
	urls map[string]*vc13URLInfo
	idx  *vc13IdxInfo

	// idxClass is idx.class if the index is delivered completely, else
	// "fault".
	idxClass string

	// svcClass is ok, ambiguous (delivered completely, with an entry that
	// is invalid), garbage or fault.
	svcClass  string
	svcFlavor string
	svcPos    string

	// uncertain is set if a body of exactly the size limit is delivered; the
	// progress clauses are not asked in such a round.
	uncertain bool
}

// vc13World is one storage with its server and the bookkeeping of the
// versions.
type vc13World struct {
	t    vc13T
	st   *vstat.Stats
	msgs *dnsmsg.Constructor
	srv  *vc13Server
	dir  string
	el   *vc13ErrLog
	u    *vc13Units

	// tried maps a slot name to every version of which a byte may have been
	// transmitted.
	tried map[string][]int

	// vers maps a file name and a complete valid body to its version.
	vers map[string]map[string]int

	// idxInfos maps a complete index body to its meaning.
	idxInfos map[string]*vc13IdxInfo

	// svcOK is the set of complete valid service-index bodies.
	svcOK map[string]bool

	// svcNil is the set of complete service-index bodies with a null entry.
	svcNil map[string]bool

	// pub maps a path to the last complete valid body it delivered.
	pub map[string][]byte

	// timeout is the HTTP timeout of every refreshable.
	timeout time.Duration

	// probeUsed is the set of probe hosts already asked for.
	probeUsed map[string]bool

	// srcDir is the directory of the files of the targets that come from a
	// file URI; src maps the path of such a target to its file and srcURLs
	// to its URI.
	srcDir  string
	src     map[string]string
	srcURLs map[string]string

	// hashMax is the size limit of the hash lists.
	hashMax int
}

// vc13Probe watches the cache files while bodies are only partly delivered.
type vc13Probe struct {
	mu     sync.Mutex
	closed bool
	dir    string

	// before maps a file name to its content when the round began.
	before map[string][]byte

	// fileOf maps a path to its cache file; others maps a path to the
	// complete bodies that other URLs of the same file deliver in this
	// round.
	fileOf map[string]string
	others map[string][][]byte

	n    int
	fail string

	// units, msgs, slotOf and served, if units is not nil, let the probe also
	// ask the list that is being downloaded for its previous version.
	units  *vc13Units
	msgs   *dnsmsg.Constructor
	slotOf map[string]*vc13Slot
	served map[string]int
	nAsked int

	// used is the set of probe hosts that have been asked for already; it
	// lives as long as the world.
	used map[string]bool
}

// look is the probe callback of the server.
func (p *vc13Probe) look(path, stage string) {
	p.mu.Lock()
	defer p.mu.Unlock()

	file := p.fileOf[path]
	if p.closed || file == "" || p.fail != "" {
		return
	}

	got, err := os.ReadFile(filepath.Join(p.dir, file))
	if os.IsNotExist(err) {
		got = nil
	} else if err != nil {
		return
	} else if got == nil {
		got = []byte{}
	}

	p.n++
	want := p.before[file]
	changed := !((got == nil) == (want == nil) && bytes.Equal(got, want))
	for _, o := range p.others[path] {
		if changed && got != nil && bytes.Equal(got, o) {
			changed = false
		}
	}

	if changed {
		p.fail = fmt.Sprintf(
			"while the body of %s was only partly delivered (%s), the cache file %q had already changed\nbefore the round: %s\nseen: %s",
			path, stage, file, vc13Short(want), vc13Short(got),
		)

		return
	}

	// The list whose new body is not there yet still serves its previous
	// version.
	s := p.slotOf[path]
	if p.units == nil || s == nil || p.served[s.name] == 0 || len(p.others[path]) > 0 {
		return
	}

	ver := p.served[s.name]
	f := p.units.strg.ForConfig(context.Background(), vc13ConfFor(s))

	// Prefer a host that nobody has asked for yet: a result cache cannot
	// stand in for the list then.
	host := vc13First(s.name, ver)
	for i := 0; i < vc13ProbeHosts; i++ {
		if h := vc13ProbeHost(s.name, ver, i); !p.used[h] {
			p.used[h] = true
			host = h

			break
		}
	}

	var hf, hl bool
	var err1, err2 error
	limit := vc13WatchLimit()
	x := vc13Go(func() {
		hf, err1 = vc13Hit(f, p.msgs, host)
		hl, err2 = vc13Hit(f, p.msgs, vc13Last(s.name, ver))
	})
	if !x.wait(limit) {
		// The server is, of course, handling this very request; nothing
		// else may be pending.  A lookup does not wait for the server.
		if x.wait(5 * time.Second) {
			// It came back after all.
		} else {
			vc13WatchHung.Store(true)
			p.fail = fmt.Sprintf(
				"while the body of %s was only partly delivered (%s), a lookup in list %q has not returned after %s: "+
					"the filter stopped serving\ngoroutines parked inside the filtering code:\n%s",
				path, stage, s.name, limit, vc13ParkedDump(),
			)

			return
		}
	}

	p.nAsked++
	if err1 != nil || err2 != nil || !hf || !hl {
		p.fail = fmt.Sprintf(
			"while the body of %s was only partly delivered (%s), list %q did not serve its previous version %d any more "+
				"(%s blocked: %t, last marker blocked: %t, errors: %v %v)",
			path, stage, s.name, ver, host, hf, hl, err1, err2,
		)
	}
}

// finish stops the probe and returns the number of looks and the first
// failure.
func (p *vc13Probe) finish() (n int, fail string) {
	p.mu.Lock()
	defer p.mu.Unlock()

	p.closed = true

	return p.n, p.fail
}

// asked returns the number of times the probe asked a list for a verdict.
func (p *vc13Probe) asked() (n int) {
	p.mu.Lock()
	defer p.mu.Unlock()

	return p.nAsked
}

// newProbe creates the probe of a round.
func (w *vc13World) newProbe(before *vc13Obs, info *vc13RoundInfo) (p *vc13Probe) {
	p = &vc13Probe{
		dir:    w.dir,
		before: before.Files,
		fileOf: map[string]string{},
		others: map[string][][]byte{},
		msgs:   w.msgs,
		used:   w.probeUsed,
		slotOf: map[string]*vc13Slot{},
		served: before.Served,
	}
	p.fileOf[vc13IdxPath] = vc13IdxFile
	for _, s := range vc13Slots {
		p.fileOf[s.path] = s.file
		p.slotOf[s.path] = s
		if s.kind != vc13KindRule {
			continue
		}

		d := s.path + "/dup"
		p.fileOf[d] = s.file
		p.slotOf[d] = s
		if ui := info.urls[d]; ui != nil && ui.ok {
			p.others[s.path] = append(p.others[s.path], ui.body)
		}

		if ui := info.urls[s.path]; ui != nil && ui.ok {
			p.others[d] = append(p.others[d], ui.body)
		}
	}

	return p
}

// vc13NewWorld creates the server, the directory and the units.
func vc13NewWorld(
	t vc13T,
	st *vstat.Stats,
	msgs *dnsmsg.Constructor,
	baseDir string,
	cacheOn bool,
	timeout time.Duration,
	hashMax int,
	fileSrc []string,
) (w *vc13World) {
	dir, err := os.MkdirTemp(baseDir, "cache-")
	if err != nil {
		t.Fatalf("harness: creating cache dir: %v", err)
	}

	srcDir := ""
	src, srcURLs := map[string]string{}, map[string]string{}
	if len(fileSrc) > 0 {
		srcDir, err = os.MkdirTemp(baseDir, "src-")
		if err != nil {
			t.Fatalf("harness: creating source dir: %v", err)
		}

		for _, tg := range fileSrc {
			p := vc13IdxPath
			if tg != "idx" {
				p = vc13SlotByName(tg).path
			}

			src[p] = filepath.Join(srcDir, "src-"+tg)
			srcURLs[p] = "file://" + src[p]
		}
	}

	w = &vc13World{
		t:        t,
		st:       st,
		msgs:     msgs,
		srv:      vc13NewServer(),
		dir:      dir,
		el:       &vc13ErrLog{},
		tried:    map[string][]int{},
		vers:     map[string]map[string]int{},
		idxInfos: map[string]*vc13IdxInfo{},
		svcOK:    map[string]bool{},
		svcNil:   map[string]bool{},
		pub:      map[string][]byte{},
		timeout:  timeout,
		hashMax:  hashMax,

		probeUsed: map[string]bool{},

		srcDir:  srcDir,
		src:     src,
		srcURLs: srcURLs,
	}

	w.u, err = vc13NewUnits(dir, w.srv.URL(), w.el, timeout, cacheOn, hashMax, srcURLs, nil)
	if err != nil {
		w.close()
		t.Fatalf("harness: creating units: %v", err)
	}

	return w
}

// close releases the resources of w.
func (w *vc13World) close() {
	w.srv.close()
	if tr, ok := http.DefaultTransport.(*http.Transport); ok {
		tr.CloseIdleConnections()
	}
	_ = os.RemoveAll(w.dir)
	if w.srcDir != "" {
		_ = os.RemoveAll(w.srcDir)
	}
}

// vc13FileScript maps the script of a target to what can happen to a target
// that is a local file.  There are no transfer faults for a file.
//
// The two indexes are JSON, so a file that is missing, empty or cut short is a
// file that cannot be decoded: the previous content stays.  A hash list is
// plain text: a shorter file is just another complete list, and what the code
// does with a missing or empty one (it takes it for an empty list) is a
// matter of the operator's file, not of a failed update; so for hash lists
// every transfer fault means "the file is left as it is".
//
// The size limit is documented as "the maximum size of the downloadable data";
// a complete file of any size is a complete new version.  The oversize kinds
// become complete files larger than the limit.
func vc13FileScript(sc vc13Script, json bool) (res vc13Script) {
	res = vc13Script{Kind: sc.Kind, Fill: sc.Fill, CutPct: sc.CutPct, Flavor: sc.Flavor, At: sc.At}
	switch {
	case vc13IsOK(sc.Kind):
		// Keep.
	case vc13IsOversize(sc.Kind):
		res.Kind = vc13OKNew
		res.At = "3limit"
		if sc.Over == 1 || sc.Over == 7 {
			res.At = "limit+1"
		}
	case !json:
		res = vc13Script{Kind: vc13OKSame, Fill: sc.Fill}
	case sc.Kind == vc13Empty, sc.Kind == vc13ShortCL, sc.Kind == vc13ChunkTrunc:
		// Keep.
	case sc.Kind == vc13HangBody:
		res.Kind = vc13ShortCL
	default:
		res.Kind = vc13S404
	}

	return res
}

// publishFile puts the planned response of a target that comes from a file
// URI into its file and takes it out of the plan of the server.
func (w *vc13World) publishFile(resps map[string]*vc13Resp, path string) {
	r := resps[path]
	delete(resps, path)
	file := w.src[path]

	var content []byte
	switch r.kind {
	case vc13OKNew, vc13OKSame:
		content = r.body
	case vc13Empty:
		content = []byte{}
	case vc13ShortCL, vc13ChunkTrunc:
		// Not the whole object, whatever the percentage says.
		content = r.body[:max(1, min(r.cut, len(r.body)-3))]
	default:
		_ = os.Remove(file)

		return
	}

	tmp := file + ".new"
	if err := os.WriteFile(tmp, content, 0o600); err != nil {
		w.t.Fatalf("harness: writing source file: %v", err)
	}

	if err := os.Rename(tmp, file); err != nil {
		w.t.Fatalf("harness: publishing source file: %v", err)
	}
}

// onDisk returns what a restarted process finds for the target at path: its
// source file if it comes from a file URI, its cache file otherwise.
func (w *vc13World) onDisk(path, cacheFile string, last *vc13Obs) (b []byte) {
	if f := w.src[path]; f != "" {
		b, err := os.ReadFile(f)
		if err != nil {
			return nil
		}

		if b == nil {
			b = []byte{}
		}

		return b
	}

	return last.Files[cacheFile]
}

// try records that a byte of version ver of the slot may be transmitted.
func (w *vc13World) try(slot string, ver int) {
	for _, v := range w.tried[slot] {
		if v == ver {
			return
		}
	}

	w.tried[slot] = append(w.tried[slot], ver)
}

// registerBody records a complete valid body of a file.
func (w *vc13World) registerBody(file string, body []byte, ver int) {
	m := w.vers[file]
	if m == nil {
		m = map[string]int{}
		w.vers[file] = m
	}

	m[string(body)] = ver
}

// cut returns the number of bytes that a partial kind transmits.
func vc13Cut(n, pct int) (cut int) {
	cut = n * pct / 100
	cut = max(cut, 1)
	cut = min(cut, n-1)

	return cut
}

// vc13FaultHashMax is the size limit of the hash lists in the fault-sequence
// part; it is above 64 KiB so that a list with a line that the parser cannot
// take still downloads.
const vc13FaultHashMax = 128 << 10

// plan turns the scripts of round number n into server responses and the
// oracle's view of them.
func (w *vc13World) plan(n int, rd *vc13Round) (resps map[string]*vc13Resp, info *vc13RoundInfo) {
	base := w.srv.URL()
	resps = map[string]*vc13Resp{}
	info = &vc13RoundInfo{n: n, urls: map[string]*vc13URLInfo{}}

	add := func(path string, sc vc13Script, fresh func(fill, pad int) (body []byte), valid bool, same []byte) (ui *vc13URLInfo) {
		limit := vc13LimitOf(path, w.hashMax)

		// sized returns a well-formed body of exactly want octets.
		sized := func(want int) (body []byte) {
			const minPad = 3
			pad := minPad + want - len(fresh(2, minPad))
			if pad < minPad {
				panic("vc13: cannot make a body that small")
			}

			body = fresh(2, pad)
			if len(body) != want {
				panic(fmt.Sprintf("vc13: sized body has %d octets, want %d", len(body), want))
			}

			return body
		}

		ui = &vc13URLInfo{kind: sc.Kind}
		r := &vc13Resp{kind: sc.Kind}
		if vc13IsOK(sc.Kind) {
			r.form = sc.Form
			ui.form = sc.Form
		}

		switch sc.Kind {
		case vc13OKNew:
			switch sc.At {
			case "limit-1":
				r.body = sized(limit - 1)
				ui.at = sc.At
			case "limit":
				r.body = sized(limit)
				ui.at = sc.At
				info.uncertain = true
			case "limit+1", "3limit":
				// Only a file can be complete and larger than the limit.
				if w.src[path] == "" {
					panic("vc13: a complete body over the limit for a target that is downloaded")
				}

				r.body = sized(limit + 1)
				if sc.At == "3limit" {
					r.body = sized(3 * limit)
				}

				ui.at = sc.At
				info.uncertain = true
			default:
				r.body = fresh(sc.Fill, 0)
			}
			ui.ok = true
		case vc13OKSame:
			if same != nil {
				r.body = same
			} else {
				r.body = fresh(sc.Fill, 0)
			}
			ui.ok = true
		case vc13Oversize, vc13OversizeChunked, vc13OversizeClose:
			{
				// A well-formed body of exactly limit+over octets.  The
				// largest enumerated excess means "twice the limit".
				over := sc.Over
				switch over {
				case 0:
					over = 2000
				case vc13MaxSize:
					over = limit
				}

				r.body = sized(limit + over)
			}
		case vc13S404, vc13S500:
			r.body = fresh(sc.Fill, 0)
		case vc13Status:
			r.code = sc.Code
			if r.code == 0 {
				r.code = 203
			}

			switch sc.Body {
			case "valid":
				r.body = fresh(sc.Fill, 0)
			case "junk", "":
				r.body = []byte(fmt.Sprintf("<html><body>%d: the list is being regenerated, try later</body></html>\n", sc.Code))
			case "empty":
				// No body.
			default:
				panic("vc13: bad status body " + sc.Body)
			}
		case vc13HangBody, vc13ShortCL, vc13ChunkTrunc:
			r.body = fresh(sc.Fill, 0)
			r.cut = vc13Cut(len(r.body), sc.CutPct)
		case vc13ConnClose, vc13HangHdr, vc13Empty:
			// No body.
		default:
			panic("vc13: bad kind " + string(sc.Kind))
		}

		if ui.ok && len(r.body) >= limit && (ui.at == "" || ui.at == "limit-1") {
			panic("vc13: complete body is too large")
		}

		if vc13IsOversize(sc.Kind) && len(r.body) <= limit {
			panic("vc13: oversize body is too small")
		}

		if (rd.Dribble || rd.CancelMid) && (ui.ok || sc.Kind == vc13Oversize) {
			r.chunks = 3
		}

		ui.body = r.body
		resps[path] = r
		info.urls[path] = ui

		if ui.ok && valid && (ui.at == "" || ui.at == "limit-1") {
			w.pub[path] = r.body
		}

		return ui
	}

	// Rule-list index.
	{
		sc := rd.Idx
		var fresh *vc13IdxInfo
		mk := func(_, pad int) (body []byte) {
			if pad == 0 && vc13IsOversize(sc.Kind) {
				pad = vc13MaxSize + 100
			}

			if sh := vc13ShapeByName(strings.TrimPrefix(sc.Flavor, "shape:")); sh != nil {
				fresh = &vc13IdxInfo{class: "garbage", urls: map[string][]string{}, shape: sh.name}
				if sh.nullish {
					fresh.class = "nullish"
				}

				return vc13ShapeDoc(sh, base, n)
			}

			body, fresh = vc13IndexBody(base, n, rd.Entries, sc.Flavor == "notjson", pad)

			return body
		}

		var same []byte
		if sc.Flavor == "" {
			same = w.pub[vc13IdxPath]
		}

		// Only indexes whose every entry is valid are republished by
		// ok_same; decide after building.
		ui := add(vc13IdxPath, sc, mk, false, same)
		info.idxClass = "fault"
		if ui.ok {
			if fresh != nil {
				w.idxInfos[string(ui.body)] = fresh
			}

			info.idx = w.idxInfos[string(ui.body)]
			info.idxClass = info.idx.class
			if info.idx.class == "valid" && (ui.at == "" || ui.at == "limit-1") {
				w.pub[vc13IdxPath] = ui.body
			}
		}
	}

	// Versioned lists.
	for _, s := range vc13Slots {
		sc, ok := rd.S[s.name]
		if !ok {
			panic("vc13: no script for slot " + s.name)
		}

		flavor := ""
		switch {
		case s.kind == vc13KindSvc:
			flavor = sc.Flavor
		case s.kind == vc13KindHash && sc.Flavor == "longline":
			flavor = sc.Flavor
		case (s.kind == vc13KindRule || s.kind == vc13KindSS) && sc.Flavor == "junk":
			flavor = sc.Flavor
		}

		mk := func(fill, pad int) (body []byte) {
			w.try(s.name, n)

			return vc13Body(s, n, fill, flavor, pad)
		}

		valid := flavor == "" || flavor == "junk" || strings.HasPrefix(flavor, "emptyrules")
		ui := add(s.path, sc, mk, valid, w.pub[s.path])
		ui.flavor = flavor
		ui.rejected = ui.ok && flavor == "longline"
		if ui.ok && valid {
			if v, seen := w.vers[s.file][string(ui.body)]; seen {
				ui.ver = v
			} else {
				ui.ver = n
				w.registerBody(s.file, ui.body, n)
			}
		} else if ui.ok {
			ui.ver = n
		}

		if s.kind == vc13KindSvc {
			base, pos := vc13SvcFlavor(flavor)
			info.svcFlavor, info.svcPos = base, pos
			switch {
			case !ui.ok:
				info.svcClass = "fault"
			case base == "" || base == "emptyrules":
				info.svcClass = "ok"
				w.svcOK[string(ui.body)] = true
			case base == "notjson":
				info.svcClass = "garbage"
			case slices.Contains(vc13SvcInvalidEntries, base):
				// Delivered completely, an entry is refused: the whole
				// index is refused, as the unchanged code does.
				info.svcClass = "invalid-entry"
				if base == "nilentry" {
					w.svcNil[string(ui.body)] = true
				}
			default:
				info.svcClass = "ambiguous"
			}
		}

		if s.kind != vc13KindRule {
			continue
		}

		// The alternative URL of a rule list.
		dsc, ok := rd.S[s.name+"/dup"]
		if !ok {
			dsc = vc13Script{Kind: vc13OKNew, Fill: 1}
		}

		dver := n + vc13DupOffset
		dmk := func(fill, pad int) (body []byte) {
			w.try(s.name, dver)

			return vc13Body(s, dver, fill, "", pad)
		}

		dui := add(s.path+"/dup", dsc, dmk, false, nil)
		if dui.ok {
			dui.ver = dver
			w.registerBody(s.file, dui.body, dver)
		}
	}

	return resps, info
}

// observe returns the verdict-level and the byte-level state; anything that is
// not a complete version fails the case.
func (w *vc13World) observe(u *vc13Units, where string, seq *vc13Seq) (o *vc13Obs) {
	var served map[string]int
	var bad string
	w.watched("asking every list for its markers "+where, seq, func() { served, bad = u.observeServed(w.msgs, w.tried) })
	if bad != "" {
		w.t.Fatalf("C13 violated %s: %s\ncase: %s", where, bad, vc13JSON(seq))
	}

	files, inodes, err := vc13ReadFiles(w.dir)
	if err != nil {
		w.t.Fatalf("harness: reading cache files: %v", err)
	}

	return &vc13Obs{Served: served, Files: files, Inodes: inodes}
}

// vc13JSON renders v for messages.
func vc13JSON(v any) (s string) {
	b, err := json.Marshal(v)
	if err != nil {
		return fmt.Sprintf("%+v", v)
	}

	return string(b)
}

// vc13IntsHave reports whether vs contains v.
func vc13IntsHave(vs []int, v int) (ok bool) {
	for _, x := range vs {
		if x == v {
			return true
		}
	}

	return false
}

// vc13TimeoutLike reports whether an error message of the code under test
// says that a deadline was hit.
func vc13TimeoutLike(msg string) (ok bool) {
	msg = strings.ToLower(msg)

	return strings.Contains(msg, "timeout") ||
		strings.Contains(msg, "deadline") ||
		strings.Contains(msg, "canceled")
}

// vc13RoundResult is what checkRound learnt about a round, for statistics.
type vc13RoundResult struct {
	classes []string

	// faultAfterSuccess is set if a list that had a complete version was hit
	// by a fault and the request reached the server.
	faultAfterSuccess bool

	// stalled is set if the code reported deadlines that were not scripted.
	stalled bool
}

// checkRound is the oracle for one round.
func (w *vc13World) checkRound(
	seq *vc13Seq,
	ri int,
	info *vc13RoundInfo,
	before, after *vc13Obs,
	hits map[string]int,
	msgs []string,
) (res *vc13RoundResult) {
	t := w.t
	rd := &seq.Rounds[ri]
	res = &vc13RoundResult{}
	cls := func(c string) { res.classes = append(res.classes, c) }

	fail := func(format string, args ...any) {
		t.Fatalf(
			"C13 violated in round %d: %s\nround: %s\nserved before: %v\nserved after:  %v\nrequests: %v\nerrors reported by the code: %q\ncase: %s",
			ri, fmt.Sprintf(format, args...), vc13JSON(rd), before.Served, after.Served, hits, msgs, vc13JSON(seq),
		)
	}

	idxApplied := info.idxClass == "valid" || info.idxClass == "partial" || info.idxClass == "ambiguous" ||
		info.idxClass == "nullish"
	cls("idx:" + info.idxClass)
	cls("svc:" + info.svcClass)
	if rd.Tight {
		cls("ctx:tight")
	}

	// statusClasses counts the non-200 answers that reached the code.
	statusClasses := func(name string, sc vc13Script, ui *vc13URLInfo) {
		if ui.kind != vc13Status {
			return
		}

		if sc.Code == 0 {
			sc.Code = 203
		}

		if sc.Body == "" {
			sc.Body = "junk"
		}

		cls(fmt.Sprintf("status:%s:%d:%s", name, sc.Code, sc.Body))
		switch {
		case sc.Code < 300 && sc.Body == "valid":
			cls("non-200-success-class-with-valid-body")
		case sc.Code < 300:
			cls("non-200-success-class-with-" + sc.Body + "-body")
		case sc.Code < 400:
			cls("non-200-redirect-class-without-location")
		default:
			cls("non-200-error-class")
		}
	}

	if ui := info.urls[vc13IdxPath]; !ui.ok && hits[vc13IdxPath] > 0 {
		statusClasses("idx", rd.Idx, ui)
		cls("fault:" + string(ui.kind))
		cls("cell:idx:" + string(ui.kind))
		if rd.Idx.Over > 0 {
			cls(fmt.Sprintf("cell:idx:%s:+%d", ui.kind, rd.Idx.Over))
		}
		if ri > 0 {
			res.faultAfterSuccess = true
			cls("fault-after-success")
		}
	}

	if ri > 0 && hits[vc13IdxPath] > 0 && (info.idxClass == "partial" || info.idxClass == "ambiguous" || info.idxClass == "garbage") {
		res.faultAfterSuccess = true
	}

	if ri > 0 && hits["/svc"] > 0 && info.svcClass == "invalid-entry" {
		cls("service-index-invalid-entry:" + info.svcFlavor + ":" + info.svcPos)
		if info.svcPos != "last" {
			cls("service-index-invalid-entry-not-last")
		}
	}

	if ri > 0 && hits["/svc"] > 0 && (info.svcClass == "ambiguous" || info.svcClass == "garbage" || info.svcClass == "invalid-entry") {
		res.faultAfterSuccess = true

		// What the code does with a service index that has an invalid entry
		// is recorded, not judged.
		if after.Served["svc"] == info.urls["/svc"].ver && before.Served["svc"] != info.urls["/svc"].ver {
			cls("svc-" + info.svcFlavor + ":valid-entries-applied")
		} else {
			cls("svc-" + info.svcFlavor + ":previous-kept")
		}
	}

	if info.idx != nil && info.idx.shape != "" && hits[vc13IdxPath] > 0 && ri > 0 {
		sh := vc13ShapeByName(info.idx.shape)
		if sh.family == "top" {
			cls("index-valid-json-wrong-top-level-shape")
		} else {
			cls("index-filters-value-not-an-array")
		}

		cls("index-shape:" + sh.name)
		if sh.nullish {
			// Recorded, not judged: do the rule lists that were there go?
			had, left := 0, 0
			for _, name := range vc13RuleNames {
				if before.Served[name] != 0 {
					had++
					if after.Served[name] != 0 {
						left++
					}
				}
			}

			switch {
			case had == 0:
				// Nothing to tell.
			case left == 0:
				cls("index-nullish:" + sh.name + ":all-rule-lists-dropped")
			default:
				cls("index-nullish:" + sh.name + ":rule-lists-kept")
			}
		}
	}

	if info.idx != nil && info.idxClass == "ambiguous" && hits[vc13IdxPath] > 0 && ri > 0 {
		nValid := 0
		for _, e := range info.idx.entries {
			if e.T == "valid" {
				nValid++
			}
		}

		for _, e := range info.idx.entries {
			if slices.Contains(vc13MistypedEntryTypes, e.T) && nValid > 0 {
				cls("index-entry-of-wrong-type-next-to-valid-entries")
				cls("index-mistyped:" + e.T)
			}
		}
	}

	if info.idxClass == "ambiguous" && hits[vc13IdxPath] > 0 {
		// An entry of the wrong JSON type: recorded, not judged.
		if hits["/rl/a"]+hits["/rl/b"]+hits["/rl/c"] == 0 {
			cls("idx-typeerr:whole-index-discarded")
		} else {
			cls("idx-typeerr:valid-entries-applied")
		}
	}

	// Did the code report more deadline errors than the harness scripted?
	// Then the machine stalled; this only ever excuses the progress clauses.
	nTimeoutMsgs := 0
	for _, m := range msgs {
		if vc13TimeoutLike(m) {
			nTimeoutMsgs++
		}
	}

	nHangs := 0
	for p, ui := range info.urls {
		if vc13IsHang(ui.kind) && hits[p] > 0 {
			nHangs++
		}
	}

	stalled := nTimeoutMsgs > nHangs
	if stalled && !rd.Tight && rd.CancelReq == 0 {
		res.stalled = true
		cls("excused:stall-timeout")
	}

	progress := !rd.Tight && !stalled && rd.CancelReq == 0 && !info.uncertain
	if rd.CancelReq > 0 {
		mode := "arrival"
		if rd.CancelMid {
			mode = "mid"
		}

		cls(fmt.Sprintf("cancel:%d:%s", rd.CancelReq, mode))
		for _, m := range msgs {
			if strings.Contains(m, "context canceled") {
				cls("cancel:seen-by-the-code")
			}
		}
	}

	if rd.Parallel {
		cls("parallel")
	}

	if info.idx != nil && idxApplied && hits[vc13IdxPath] > 0 && len(info.idx.urls["a"]) > 0 && len(info.idx.urls["ua"]) > 0 {
		cls("ids-differ-in-case-only")
		for _, name := range []string{"a", "ua"} {
			s, twin := vc13SlotByName(name), vc13SlotByName(vc13CaseTwin[name])
			if !info.urls[s.path].ok && hits[s.path] > 0 && before.Served[name] == 0 && info.urls[twin.path].ok && hits[twin.path] > 0 {
				cls("ids-differ-in-case-only:one-fails-without-previous")
			}
		}
	}

	if info.svcFlavor == "emptyrules" && hits["/svc"] > 0 && ri > 0 && after.Served["svc"] == info.urls["/svc"].ver {
		cls("svc-emptyrules-applied")
	}

	if info.idx != nil && len(info.idx.urls) == 0 && info.idxClass == "valid" && hits[vc13IdxPath] > 0 {
		cls("index-empty")
	}

	// Forms and exact sizes of complete bodies.
	okCell := func(name, path string, ui *vc13URLInfo, b, a int) {
		if !ui.ok || ui.rejected || hits[path] == 0 || ri == 0 {
			return
		}

		form := ui.form
		if form == "" {
			form = "length"
		}

		applied := "not-applied"
		if name == "idx" || (a == ui.ver && b != ui.ver) {
			applied = "applied"
		}

		switch ui.at {
		case "limit":
			cls(fmt.Sprintf("size:%s:%s:limit", name, form))
			if name != "idx" {
				cls(fmt.Sprintf("size-limit:%s", applied))
			}
		case "limit+1", "3limit":
			cls("file-source-larger-than-limit")
			cls(fmt.Sprintf("file-source:%s:%s", name, ui.at))
			if name != "idx" {
				cls("file-source-larger-than-limit:" + applied)
			}
		case "limit-1":
			cls(fmt.Sprintf("size:%s:%s:limit-1", name, form))
		default:
			if ui.form != "" {
				cls(fmt.Sprintf("okform:%s:%s", name, form))
			}
		}
	}

	okCell("idx", vc13IdxPath, info.urls[vc13IdxPath], 0, 0)
	for _, s := range vc13Slots {
		okCell(s.name, s.path, info.urls[s.path], before.Served[s.name], after.Served[s.name])
	}

	// ---- Verdict clause.

	// allowed computes the versions a slot may serve after the round; must
	// is, if progress can be demanded, the set it has to be in.
	check := func(s *vc13Slot, allowed []int, must []int, why string) {
		b, a := before.Served[s.name], after.Served[s.name]
		if !vc13IntsHave(allowed, a) {
			fail("list %q (%s) served version %d before the round and serves %d after it; the statement allows only %v (%s)",
				s.name, s.path, b, a, allowed, why)
		}

		if progress && must != nil && !vc13IntsHave(must, a) {
			fail("list %q (%s): nothing failed on its way, so it must serve one of %v, but it serves %d (before: %d) (%s)",
				s.name, s.path, must, a, b, why)
		}
	}

	// The refresh chain of the storage: index, rule lists, services, general
	// safe search, YouTube safe search; a failure of one of the last three
	// makes the storage keep the previous rule lists, which the statement
	// allows ("previous or new").
	chain := idxApplied && info.idxClass != "ambiguous" && info.idxClass != "nullish"

	for _, s := range vc13Slots {
		ui := info.urls[s.path]
		b := before.Served[s.name]

		if ui.flavor == "junk" && ui.ok && hits[s.path] > 0 && ri > 0 {
			// Not a fault: the parser of rule lists and safe-search lists
			// skips what it cannot read, there is no error path.
			cls("content-junk:" + s.kind)
			if after.Served[s.name] == ui.ver {
				cls("content-junk-accepted:" + s.name)
			}
		}

		faulted := !ui.ok || ui.rejected
		kindLabel := string(ui.kind)
		if ui.rejected {
			kindLabel = "content_" + ui.flavor
		}

		if faulted && hits[s.path] > 0 {
			statusClasses(s.name, rd.S[s.name], ui)
			cls("fault:" + kindLabel)
			cls("fault-slot:" + s.kind)
			cls("cell:" + s.name + ":" + kindLabel)
			if over := rd.S[s.name].Over; over > 0 {
				cls(fmt.Sprintf("cell:%s:%s:+%d", s.name, ui.kind, over))
			}
			if b != 0 {
				res.faultAfterSuccess = true
				cls("fault-after-success")
			} else {
				cls("fault-without-previous")
			}
		}

		switch s.kind {
		case vc13KindHash:
			if ui.rejected {
				check(s, []int{b}, nil, "it is delivered completely, but its parser rejects it: "+ui.flavor)
			} else if ui.ok {
				check(s, []int{b, ui.ver}, []int{ui.ver}, "hash list delivered completely")
			} else {
				check(s, []int{b}, nil, "its download failed: "+string(ui.kind))
			}
		case vc13KindSvc:
			switch {
			case !idxApplied:
				check(s, []int{b}, nil, "the rule-list index failed, the storage refresh stops")
			case info.svcClass == "ok":
				var must []int
				if chain {
					must = []int{ui.ver}
				}
				check(s, []int{b, ui.ver}, must, "service index delivered completely")
			case info.svcClass == "ambiguous":
				check(s, []int{b, ui.ver}, nil, "service index with a mistyped entry: previous, or the valid entries of the new one")
			case info.svcClass == "invalid-entry":
				check(s, []int{b}, nil, "service index with an entry that is refused ("+info.svcFlavor+", "+info.svcPos+
					"): the whole index is refused, the previous services stay")
			default:
				check(s, []int{b}, nil, "its download failed: "+string(ui.kind)+" "+info.svcFlavor)
			}

			chain = chain && info.svcClass == "ok"
		case vc13KindSS:
			switch {
			case !idxApplied:
				check(s, []int{b}, nil, "the rule-list index failed, the storage refresh stops")
			case ui.ok:
				var must []int
				if chain {
					must = []int{ui.ver}
				}
				check(s, []int{b, ui.ver}, must, "safe-search list delivered completely")
			default:
				check(s, []int{b}, nil, "its download failed: "+string(ui.kind))
			}

			chain = chain && ui.ok
		case vc13KindRule:
			// Checked below, when the chain is known.
		}
	}

	for _, name := range vc13RuleNames {
		s := vc13SlotByName(name)
		b := before.Served[name]
		if !idxApplied {
			check(s, []int{b}, nil, "the rule-list index failed: "+string(info.urls[vc13IdxPath].kind)+" "+info.idxClass)

			continue
		}

		paths := info.idx.urls[name]
		if len(paths) == 0 {
			var must []int
			if chain {
				must = []int{0}
			}

			if b != 0 {
				cls("list-dropped-by-index")
			}

			check(s, []int{b, 0}, must, "the new index does not list it")

			continue
		}

		// A list whose file is within its staleness interval is not
		// downloaded: the code reads the file, and after a round in which
		// nothing failed the list serves what the file holds, as a fresh
		// storage over the same directory would.
		if fileVer := w.vers[s.file][string(before.Files[s.file])]; slices.Contains(rd.Fresh, name) &&
			before.Files[s.file] != nil && fileVer != 0 && hits[s.path] == 0 && hits[s.path+"/dup"] == 0 {
			var must []int
			if chain {
				must = []int{fileVer}
			}

			cls("rule-list-file-within-staleness")
			if chain && progress && fileVer != b {
				cls("successful-round-after-failed-round-within-staleness")
			}

			check(s, []int{b, fileVer}, must, fmt.Sprintf("its file, version %d, is within the staleness interval and is not downloaded again", fileVer))

			continue
		}

		allowed := []int{b}
		var okVers []int
		anyFailed := false
		for _, p := range paths {
			if ui := info.urls[p]; ui.ok {
				allowed = append(allowed, ui.ver)
				okVers = append(okVers, ui.ver)
			} else {
				anyFailed = true
			}
		}

		// With duplicate entries it is the code's choice which one it
		// downloads; if that one fails, keeping the previous version is
		// what the statement asks for.
		var must []int
		if chain {
			must = okVers
			if anyFailed || len(okVers) == 0 {
				must = append([]int{b}, okVers...)
			}
		}

		why := fmt.Sprintf("index lists it at %v", paths)
		if len(okVers) == 0 {
			why += "; every download of it failed"
		}

		check(s, allowed, must, why)
		if b == 0 && after.Served[name] != 0 {
			cls("list-added")
		}

		// Invalid entries that carry the key of this list, by the stage that
		// rejects them and by their place relative to the valid entry.
		if b != 0 && len(okVers) > 0 && hits[vc13IdxPath] > 0 {
			seenValid := false
			for _, e := range info.idx.entries {
				switch {
				case e.L != name:
					// Another list.
				case e.T == "keybad" && seenValid:
					cls("valid-entry-before-" + vc13BadURLStage(e.U) + "-rejected-duplicate")
					cls("dupbad:" + e.U + ":after-valid:" + name)
				case e.T == "keybad":
					// The valid entry, if any, comes later.
					cls("valid-entry-after-" + vc13BadURLStage(e.U) + "-rejected-duplicate")
					cls("dupbad:" + e.U + ":before-valid:" + name)
				default:
					seenValid = true
				}
			}
		}
	}

	if idxApplied && !chain {
		cls("storage-refresh-aborted-after-lists")
	}

	if info.idxClass == "partial" && chain {
		cls("partial-index-valid-entries-applied")
	}

	// ---- Byte clause.
	checkFile := func(file string, paths ...string) {
		b, a := before.Files[file], after.Files[file]
		if (a == nil) == (b == nil) && bytes.Equal(a, b) {
			return
		}

		for _, p := range paths {
			ui := info.urls[p]
			if ui != nil && ui.ok && hits[p] > 0 && a != nil && bytes.Equal(a, ui.body) {
				if v, ok := after.Served[vc13FileSlot(file)]; ok && v != ui.ver {
					cls("file-new-memory-previous")
				}

				// A file that is replaced atomically is another file
				// (rename over it); the same inode with other bytes was
				// rewritten in place, and was neither version meanwhile.
				if b != nil && before.Inodes[file] != 0 && before.Inodes[file] == after.Inodes[file] {
					fail("cache file %q changed from one complete version to another in place (same inode %d): "+
						"between the truncation and the last write it was neither\nbefore: %s\nafter:  %s",
						file, after.Inodes[file], vc13Short(b), vc13Short(a))
				}

				cls("file-replaced-by-new-inode")

				return
			}
		}

		fail("cache file %q is neither its previous content nor a completely delivered new one\nbefore: %s\nafter:  %s",
			file, vc13Short(b), vc13Short(a))
	}

	checkFile(vc13IdxFile, vc13IdxPath)
	for _, s := range vc13Slots {
		if s.kind == vc13KindRule {
			checkFile(s.file, s.path, s.path+"/dup")
		} else {
			checkFile(s.file, s.path)
		}
	}

	return res
}

// vc13FileSlot returns the slot name of a cache file, "" for the index.
func vc13FileSlot(file string) (name string) {
	for _, s := range vc13Slots {
		if s.file == file {
			return s.name
		}
	}

	return ""
}

// checkRestart loads a second set of units from the cache directory while the
// server refuses everything, and compares what it serves with the files.
func (w *vc13World) checkRestart(seq *vc13Seq, last *vc13Obs, cacheOn bool, lowered map[string]string) (classes []string) {
	t := w.t

	// While the fresh process loads, the server refuses everything, with an
	// error status or with a non-200 status of the success or the redirect
	// class and a body; nothing of that may be taken for a list.
	refusal := &vc13Resp{kind: vc13S500, body: []byte("down\n")}
	switch len(seq.Rounds) % 3 {
	case 1:
		refusal = &vc13Resp{kind: vc13Status, code: 203, body: []byte("||refused-203.test^\nrefused-203.test\n")}
	case 2:
		refusal = &vc13Resp{kind: vc13Status, code: 300, body: []byte("||refused-300.test^\nrefused-300.test\n")}
	}

	w.srv.setPlan(map[string]*vc13Resp{}, refusal, nil)
	defer w.srv.endRound()

	// What a restarted process finds for each target.
	disk := map[string][]byte{vc13IdxPath: w.onDisk(vc13IdxPath, vc13IdxFile, last)}
	for _, s := range vc13Slots {
		disk[s.path] = w.onDisk(s.path, s.file, last)
	}

	// A restart with a lowered max_size: the limits are set relative to the
	// sizes of the files that are there.  small is the set of targets whose
	// file is certainly within its limit.
	limits := map[string]int{}
	relOf := func(tg string) (path string, size int) {
		switch tg {
		case "idx":
			return vc13IdxPath, len(disk[vc13IdxPath])
		case "rl":
			return "/rl/", len(disk[vc13SlotByName("a").path])
		default:
			p := vc13SlotByName(tg).path

			return p, len(disk[p])
		}
	}

	for tg, rel := range lowered {
		path, size := relOf(tg)
		if size == 0 {
			continue
		}

		switch rel {
		case "limit-1":
			limits[path] = size + 1
		case "limit":
			limits[path] = size
		case "limit+1":
			limits[path] = max(size-1, 1)
		case "3limit":
			limits[path] = max(size/3, 1)
		default:
			panic("vc13: bad relation " + rel)
		}
	}

	limitOf := func(path string) (l int) {
		key := path
		if strings.HasPrefix(path, "/rl/") {
			key = "/rl/"
		}

		if v, ok := limits[key]; ok {
			return v
		}

		return vc13LimitOf(path, w.hashMax)
	}

	// A file that is not smaller than its limit may be refused as a whole by
	// an implementation that limits files too; it must never be applied in
	// part.  within tells whether the file of a target is certainly allowed.
	within := func(path string) (ok bool) { return len(disk[path]) < limitOf(path) }
	for path, b := range disk {
		if b != nil && len(b) > limitOf(path) {
			classes = append(classes, "file-source-larger-than-limit")
			if lowered != nil {
				classes = append(classes, "cache-file-larger-than-limit:"+path)
			}
		}
	}

	el := &vc13ErrLog{}
	u, err := vc13NewUnits(w.dir, w.srv.URL(), el, w.timeout, cacheOn, w.hashMax, w.srcURLs, limits)
	if err != nil {
		t.Fatalf("harness: creating units for restart: %v", err)
	}

	// What must a restarted process serve?  Exactly what the files say: the
	// complete version, or, where that is allowed, nothing.
	want := map[string]int{}
	must := map[string]bool{}
	for _, s := range vc13Slots {
		if s.kind == vc13KindHash {
			want[s.name] = w.vers[s.file][string(disk[s.path])]
			must[s.name] = within(s.path)
		}
	}

	idxInfo := w.idxInfos[string(disk[vc13IdxPath])]
	ssg, ssy := vc13SlotByName("ssg"), vc13SlotByName("ssy")

	// The storage can only come up if both indexes on disk are usable and
	// both safe-search lists are on disk (the server refuses everything now,
	// and a stall in the very first round may have left one of them out).
	strgOK := idxInfo != nil && (idxInfo.class == "valid" || idxInfo.class == "partial") &&
		w.svcOK[string(disk["/svc"])] && disk[ssg.path] != nil && disk[ssy.path] != nil
	strgWithin := within(vc13IdxPath) && within("/svc") && within(ssg.path) && within(ssy.path)

	var pnc any
	w.watched("the initial refresh of a fresh process over the cache directory", seq, func() {
		pnc = u.refreshAll(el, true, vc13CtxGenerous, false)
	})

	msgs := el.take()
	if pnc != nil {
		// The only complete download that is known to make the loader panic
		// is a service index with a null entry (the same finding as during a
		// refresh: the file is replaced before its content is looked at).
		if w.svcNil[string(disk["/svc"])] && w.st.Known(vc13KnownSvcNilPanic) {
			return append(classes, "restart:known-panic-on-null-service-entry")
		}

		t.Fatalf("C13 violated at restart: a fresh process over the cache directory panics: %v\nservice index on disk: %s\ncase: %s",
			pnc, vc13Short(disk["/svc"]), vc13JSON(seq))
	}

	if strgOK {
		for _, s := range vc13Slots {
			switch s.kind {
			case vc13KindSvc, vc13KindSS:
				want[s.name] = w.vers[s.file][string(disk[s.path])]
				must[s.name] = strgWithin
			case vc13KindRule:
				if len(idxInfo.urls[s.name]) > 0 && disk[s.path] != nil {
					want[s.name] = w.vers[s.file][string(disk[s.path])]
				} else {
					want[s.name] = 0
				}

				must[s.name] = strgWithin && within(s.path)
			}
		}
	}

	var served map[string]int
	var bad string
	w.watched("asking every list of a fresh process for its markers", seq, func() { served, bad = u.observeServed(w.msgs, w.tried) })
	if bad != "" {
		t.Fatalf("C13 violated at restart (limits lowered: %v): %s\nerrors: %q\ncase: %s", lowered, bad, msgs, vc13JSON(seq))
	}

	names := make([]string, 0, len(want))
	for name := range want {
		names = append(names, name)
	}
	sort.Strings(names)

	for _, name := range names {
		if served[name] == want[name] || (!must[name] && served[name] == 0) {
			continue
		}

		s := vc13SlotByName(name)
		t.Fatalf(
			"C13 violated at restart (limits lowered: %v): a fresh process serves version %d of %q, its file holds version %d "+
				"(%s, size limit %d)\nerrors: %q\ncase: %s",
			lowered, served[name], name, want[name], vc13Short(disk[s.path]), limitOf(s.path), msgs, vc13JSON(seq),
		)
	}

	prefix := "restart"
	if lowered != nil {
		prefix = "restart-lowered"
	}

	if !strgOK {
		return append(classes, prefix+":hash-only-invalid-index-on-disk")
	}

	return append(classes, prefix+":checked")
}

// vc13RunSeq runs one sequence against the real code.
//
// If retryOnStall is set and the machine stalled in some round (the code
// reported deadlines that were not scripted), nothing is recorded and stalled
// is true: the caller runs the same sequence again, so that an enumerated cell
// is not lost to a busy machine.  No verdict depends on this.
func vc13RunSeq(
	t vc13T,
	st *vstat.Stats,
	msgs *dnsmsg.Constructor,
	baseDir string,
	seq *vc13Seq,
	retryOnStall bool,
) (stalled bool) {
	fileSrc := append([]string{}, seq.FileSrc...)
	if seq.IdxFile && !slices.Contains(fileSrc, "idx") {
		fileSrc = append(fileSrc, "idx")
	}

	w := vc13NewWorld(t, st, msgs, baseDir, seq.CacheOn, vc13Timeout, vc13FaultHashMax, fileSrc)
	defer w.close()

	var classes []string
	nontrivial := false

	before := &vc13Obs{Served: map[string]int{}, Files: map[string][]byte{}}
	for _, s := range vc13Slots {
		before.Served[s.name] = 0
	}

	for i := range seq.Rounds {
		rd := &seq.Rounds[i]
		for _, tg := range fileSrc {
			switch tg {
			case "idx":
				rd.Idx = vc13FileScript(rd.Idx, true)
			case "svc":
				rd.S[tg] = vc13FileScript(rd.S[tg], true)
			default:
				rd.S[tg] = vc13FileScript(rd.S[tg], false)
			}
		}
	}

	for ri := range seq.Rounds {
		rd := &seq.Rounds[ri]
		n := ri + 1

		// Ask for the markers of the version that is about to be published:
		// nothing may serve them yet, and the negative answers now sit in the
		// result caches, which a successful refresh has to drop.
		w.prewarm(n, seq)

		resps, info := w.plan(n, rd)
		for _, tg := range fileSrc {
			if tg == "idx" {
				w.publishFile(resps, vc13IdxPath)
				classes = append(classes, "idx-from-file", "idx-from-file:"+info.idxClass)
			} else {
				w.publishFile(resps, vc13SlotByName(tg).path)
				classes = append(classes, "from-file:"+tg)
			}
		}

		probe := w.newProbe(before, info)
		probe.units = w.u
		w.srv.setPlanCancel(resps, nil, probe.look, w.u.cancelRunning, rd.CancelReq, rd.CancelMid)

		ctxTimeout := vc13CtxGenerous
		if rd.Tight {
			ctxTimeout = vc13Timeout
		}

		var pnc any
		w.watched(fmt.Sprintf("the refresh of round %d", ri), seq, func() {
			pnc = w.u.refreshAll(w.el, ri == 0, ctxTimeout, rd.Parallel)
		})

		nLooks, probeFail := probe.finish()
		if probe.asked() > 0 {
			classes = append(classes, "probe:verdict-while-body-in-flight")
		}

		hits := w.srv.endRound()
		for p := range w.src {
			// The file is read on every refresh.
			hits[p] = 1
		}

		emsgs := w.el.take()
		if probeFail != "" {
			t.Fatalf("C13 violated in round %d: %s\nround: %s\ncase: %s", ri, probeFail, vc13JSON(rd), vc13JSON(seq))
		}

		if nLooks > 0 {
			classes = append(classes, "probe:looked-while-body-in-flight")
		}

		if pnc != nil {
			if info.svcFlavor == "nilentry" && hits["/svc"] > 0 && st.Known(vc13KnownSvcNilPanic) {
				classes = append(classes, "known:"+vc13KnownSvcNilPanic)
			} else {
				t.Fatalf("C13 violated in round %d: the refresh panicked: %v\nround: %s\nrequests: %v\ncase: %s",
					ri, pnc, vc13JSON(rd), hits, vc13JSON(seq))
			}
		}

		after := w.observe(w.u, fmt.Sprintf("after round %d", ri), seq)
		res := w.checkRound(seq, ri, info, before, after, hits, emsgs)
		classes = append(classes, res.classes...)
		if res.faultAfterSuccess {
			nontrivial = true
		}

		if res.stalled && retryOnStall {
			return true
		}

		before = after

		var fresh []string
		if ri+1 < len(seq.Rounds) {
			fresh = seq.Rounds[ri+1].Fresh
		}

		vc13AgeFilesExcept(w.dir, fresh)
	}

	classes = append(classes, w.checkRestart(seq, before, seq.CacheOn, nil)...)
	if len(seq.Lowered) > 0 {
		classes = append(classes, w.checkRestart(seq, before, seq.CacheOn, seq.Lowered)...)
	}
	classes = append(classes, fmt.Sprintf("rounds:%d", len(seq.Rounds)))

	key := ""
	if nontrivial {
		key = vc13JSON(seq)
	}

	st.Case(key, vc13Uniq(classes)...)
	if nontrivial && st.WantSample() {
		st.Sample(seq)
	}

	return false
}

// prewarm queries the markers of version n (and of its alternative) of every
// list before that version exists.
func (w *vc13World) prewarm(n int, seq *vc13Seq) {
	fail := ""
	w.watched(fmt.Sprintf("asking for hosts nobody asked for before, ahead of round %d", n-1), seq, func() {
		for _, s := range vc13Slots {
			f := w.u.strg.ForConfig(context.Background(), vc13ConfFor(s))
			for _, ver := range []int{n, n + vc13DupOffset} {
				for _, h := range []string{vc13First(s.name, ver), vc13Last(s.name, ver)} {
					hit, err := vc13Hit(f, w.msgs, h)
					if (err != nil || hit) && fail == "" {
						fail = fmt.Sprintf("%q is filtered by list %q before any version with it was published (hit %t, error %v)",
							h, s.name, hit, err)
					}
				}
			}
		}
	})

	if fail != "" {
		w.t.Fatalf("C13 violated before round %d: %s\ncase: %s", n-1, fail, vc13JSON(seq))
	}
}

// vc13Uniq removes duplicates, so that a class counts cases, not rounds.
func vc13Uniq(in []string) (out []string) {
	seen := map[string]bool{}
	for _, c := range in {
		if !seen[c] {
			seen[c] = true
			out = append(out, c)
		}
	}

	return out
}

// ---------------------------------------------------------------------------
// Generators.

// vc13GenScript draws an OK script.
func vc13GenOK(t *rapid.T, label string) (sc vc13Script) {
	k := vc13OKNew
	if rapid.IntRange(0, 4).Draw(t, label+"-same") == 0 {
		k = vc13OKSame
	}

	sc = vc13Script{Kind: k, Fill: rapid.IntRange(0, 12).Draw(t, label+"-fill")}
	sc.Form = rapid.SampledFrom([]string{"", "", "", "", "chunked", "close"}).Draw(t, label+"-form")
	if k == vc13OKNew {
		switch rapid.IntRange(0, 23).Draw(t, label+"-at") {
		case 0, 1:
			sc.At = "limit-1"
		case 2:
			sc.At = "limit"
		}
	}

	return sc
}

// vc13GenFault draws a transport fault.  hangs is the remaining budget of
// hanging responses of the sequence.
func vc13GenFault(t *rapid.T, label string, hangs *int) (sc vc13Script) {
	k := rapid.SampledFrom(vc13FaultKinds).Draw(t, label+"-kind")
	if rapid.IntRange(0, 3).Draw(t, label+"-status") == 0 {
		k = vc13Status
	}

	if k == vc13Status {
		return vc13Script{
			Kind: k,
			Fill: rapid.IntRange(0, 12).Draw(t, label+"-fill"),
			Code: rapid.SampledFrom(vc13StatusCodes).Draw(t, label+"-code"),
			Body: rapid.SampledFrom(vc13StatusBodies).Draw(t, label+"-body"),
		}
	}

	if vc13IsHang(k) {
		if *hangs == 0 {
			k = vc13ShortCL
		} else {
			*hangs--
		}
	}

	return vc13Script{
		Kind:   k,
		Fill:   rapid.IntRange(0, 12).Draw(t, label+"-fill"),
		CutPct: rapid.SampledFrom([]int{0, 10, 50, 90, 100}).Draw(t, label+"-cut"),
		Over:   rapid.SampledFrom(append([]int{0}, vc13Overs...)).Draw(t, label+"-over"),
	}
}

// vc13Overs are the enumerated excesses over the size limit: one octet, a few,
// and twice the limit.
var vc13Overs = []int{1, 7, vc13MaxSize}

// vc13GenEntries draws the entries of an index.  If partial is set, invalid
// and duplicate entries are mixed in.
func vc13GenEntries(t *rapid.T, partial, typeErr bool) (es []vc13Entry) {
	if !partial && !typeErr && rapid.IntRange(0, 14).Draw(t, "idx-empty") == 0 {
		// A valid index that lists nothing.
		return []vc13Entry{}
	}

	for _, name := range vc13RuleNames {
		if rapid.IntRange(0, 4).Draw(t, "idx-has-"+name) != 0 {
			es = append(es, vc13Entry{T: "valid", L: name})
		}
	}

	if len(es) == 0 {
		es = append(es, vc13Entry{T: "valid", L: rapid.SampledFrom(vc13RuleNames).Draw(t, "idx-one")})
	}

	es = rapid.Permutation(es).Draw(t, "idx-order")

	insert := func(e vc13Entry) {
		i := rapid.IntRange(0, len(es)).Draw(t, "idx-pos")
		es = append(es[:i], append([]vc13Entry{e}, es[i:]...)...)
	}

	if partial {
		n := rapid.IntRange(1, 3).Draw(t, "idx-bad-n")
		for i := 0; i < n; i++ {
			switch rapid.IntRange(0, 3).Draw(t, "idx-bad-what") {
			case 0:
				var present []string
				for _, e := range es {
					if e.T == "valid" {
						present = append(present, e.L)
					}
				}

				l := rapid.SampledFrom(present).Draw(t, "idx-dup-of")
				typ := rapid.SampledFrom([]string{"dupsame", "dupalt", "keybad", "keybad"}).Draw(t, "idx-dup-type")
				e := vc13Entry{T: typ, L: l}
				if typ == "keybad" {
					e.U = rapid.SampledFrom(vc13BadURLForms).Draw(t, "idx-dup-url").name
				}

				insert(e)
			default:
				insert(vc13Entry{T: rapid.SampledFrom(vc13InvalidEntryTypes).Draw(t, "idx-bad-type")})
			}
		}
	}

	if typeErr {
		insert(vc13Entry{T: rapid.SampledFrom(vc13MistypedEntryTypes).Draw(t, "idx-mistyped")})
	}

	return es
}

// vc13SetScript sets the script of a target of a round.
func vc13SetScript(rd *vc13Round, tg string, sc vc13Script) {
	if tg == "idx" {
		rd.Idx = sc
	} else {
		rd.S[tg] = sc
	}
}

// vc13LowerTargets are the size limits that a restart can lower.
var vc13LowerTargets = []string{"idx", "rl", "svc", "ssg", "ssy", "adult", "danger", "newreg"}

// vc13FileTargets are the targets that can come from a file URI.
var vc13FileTargets = []string{"idx", "svc", "adult", "danger", "newreg"}

// vc13Targets are the things that can be hit by a fault in a round.
var vc13Targets = []string{"idx", "a", "b", "c", "svc", "ssg", "ssy", "adult", "danger", "newreg"}

// vc13GenSeq draws a sequence.
func vc13GenSeq(t *rapid.T) (seq *vc13Seq) {
	seq = &vc13Seq{CacheOn: rapid.Bool().Draw(t, "cache-on")}
	seq.IdxFile = rapid.IntRange(0, 5).Draw(t, "idx-file") == 0
	for _, tg := range []string{"svc", "adult", "danger", "newreg"} {
		if rapid.IntRange(0, 7).Draw(t, "file-src-"+tg) == 0 {
			seq.FileSrc = append(seq.FileSrc, tg)
		}
	}

	if rapid.IntRange(0, 2).Draw(t, "lowered") == 0 {
		seq.Lowered = map[string]string{}
		for _, tg := range vc13LowerTargets {
			rel := rapid.SampledFrom([]string{"", "", "limit-1", "limit", "limit+1", "3limit"}).Draw(t, "lowered-"+tg)
			if rel != "" {
				seq.Lowered[tg] = rel
			}
		}
	}
	nRounds := rapid.IntRange(1, 6).Draw(t, "rounds")
	hangs := 2

	// Round 0 is the initial load; the indexes, the safe-search lists and
	// the hash lists must load, or there is no process to speak of.  Rule
	// lists may already fail (a fault without a previous version).
	r0 := vc13Round{Idx: vc13Script{Kind: vc13OKNew}, S: map[string]vc13Script{}}
	r0.Entries = vc13GenEntries(t, rapid.IntRange(0, 5).Draw(t, "r0-partial") == 0, false)
	for _, s := range vc13Slots {
		if s.kind == vc13KindRule && rapid.IntRange(0, 4).Draw(t, "r0-fault-"+s.name) == 0 {
			r0.S[s.name] = vc13GenFault(t, "r0-"+s.name, &hangs)
		} else {
			r0.S[s.name] = vc13Script{Kind: vc13OKNew, Fill: rapid.IntRange(0, 12).Draw(t, "r0-fill-"+s.name)}
		}
	}
	seq.Rounds = append(seq.Rounds, r0)

	for ri := 1; ri <= nRounds; ri++ {
		lbl := fmt.Sprintf("r%d", ri)
		rd := vc13Round{S: map[string]vc13Script{}}

		// Which targets fail in this round?
		faulty := map[string]bool{}
		switch mode := rapid.IntRange(0, 9).Draw(t, lbl+"-mode"); {
		case mode == 0:
			// All fine.
		case mode <= 4:
			faulty[rapid.SampledFrom(vc13Targets).Draw(t, lbl+"-target")] = true
		default:
			for _, tg := range vc13Targets {
				if rapid.IntRange(0, 9).Draw(t, lbl+"-f-"+tg) < 3 {
					faulty[tg] = true
				}
			}
		}

		// Index.
		partial, typeErr := false, false
		if faulty["idx"] {
			switch rapid.IntRange(0, 11).Draw(t, lbl+"-idx-what") {
			case 0, 1:
				partial = true
				rd.Idx = vc13Script{Kind: vc13OKNew}
			case 2:
				typeErr = true
				rd.Idx = vc13Script{Kind: vc13OKNew}
			case 3:
				rd.Idx = vc13Script{Kind: vc13OKNew, Flavor: "notjson"}
			case 4, 5:
				rd.Idx = vc13Script{Kind: vc13OKNew, Flavor: "shape:" + rapid.SampledFrom(vc13Shapes).Draw(t, lbl+"-idx-shape").name}
			default:
				rd.Idx = vc13GenFault(t, lbl+"-idx", &hangs)
			}
		} else {
			rd.Idx = vc13GenOK(t, lbl+"-idx")
			rd.Idx.Fill = 0
			partial = rd.Idx.Kind == vc13OKNew && rapid.IntRange(0, 3).Draw(t, lbl+"-idx-partial") == 0
		}

		rd.Entries = vc13GenEntries(t, partial, typeErr)

		for _, s := range vc13Slots {
			switch {
			case !faulty[s.name]:
				sc := vc13GenOK(t, lbl+"-"+s.name)
				if (s.kind == vc13KindRule || s.kind == vc13KindSS) && sc.Kind == vc13OKNew &&
					rapid.IntRange(0, 5).Draw(t, lbl+"-junk-"+s.name) == 0 {
					sc.Flavor = "junk"
				}

				if s.kind == vc13KindSvc && sc.Kind == vc13OKNew && rapid.IntRange(0, 5).Draw(t, lbl+"-svc-emptyrules") == 0 {
					sc.Flavor = "emptyrules"
				}

				rd.S[s.name] = sc
			case s.kind == vc13KindHash && rapid.IntRange(0, 4).Draw(t, lbl+"-hash-content-"+s.name) == 0:
				// Delivered completely, rejected by the parser.
				rd.S[s.name] = vc13Script{
					Kind:   vc13OKNew,
					Fill:   rapid.IntRange(0, 12).Draw(t, lbl+"-hash-fill-"+s.name),
					Flavor: "longline",
				}
			case s.kind == vc13KindSvc && rapid.IntRange(0, 2).Draw(t, lbl+"-svc-content") == 0:
				rd.S[s.name] = vc13Script{
					Kind: vc13OKNew,
					Fill: rapid.IntRange(0, 12).Draw(t, lbl+"-svc-fill"),
					Flavor: rapid.SampledFrom(append([]string{"typeerr", "notjson"}, vc13SvcInvalidEntries...)).Draw(t, lbl+"-svc-flavor") +
						"@" + rapid.SampledFrom(vc13SvcPositions).Draw(t, lbl+"-svc-pos"),
				}
			default:
				rd.S[s.name] = vc13GenFault(t, lbl+"-"+s.name, &hangs)
			}
		}

		for _, e := range rd.Entries {
			if e.T == "dupalt" {
				if rapid.IntRange(0, 3).Draw(t, lbl+"-dup-fault-"+e.L) == 0 {
					rd.S[e.L+"/dup"] = vc13GenFault(t, lbl+"-dup-"+e.L, &hangs)
				} else {
					rd.S[e.L+"/dup"] = vc13Script{Kind: vc13OKNew, Fill: rapid.IntRange(0, 12).Draw(t, lbl+"-dup-fill-"+e.L)}
				}
			}
		}

		if rapid.IntRange(0, 3).Draw(t, lbl+"-ua-fault") == 0 {
			rd.S["ua"] = vc13GenFault(t, lbl+"-ua", &hangs)
		}

		rd.Tight = rapid.IntRange(0, 5).Draw(t, lbl+"-tight") == 0
		rd.Dribble = rapid.IntRange(0, 3).Draw(t, lbl+"-dribble") == 0
		rd.Parallel = rapid.IntRange(0, 3).Draw(t, lbl+"-parallel") == 0
		if rapid.IntRange(0, 2).Draw(t, lbl+"-fresh") == 0 {
			for _, name := range vc13RuleNames {
				if rapid.IntRange(0, 3).Draw(t, lbl+"-fresh-"+name) != 0 {
					rd.Fresh = append(rd.Fresh, name)
				}
			}
		}
		if rapid.IntRange(0, 7).Draw(t, lbl+"-cancel") == 0 {
			rd.CancelReq = rapid.IntRange(1, len(vc13Targets)).Draw(t, lbl+"-cancel-req")
			rd.CancelMid = rapid.Bool().Draw(t, lbl+"-cancel-mid")
		}
		seq.Rounds = append(seq.Rounds, rd)
	}

	return seq
}

// ---------------------------------------------------------------------------
// Tests.

// vc13FaultRule is the stated non-triviality rule of the fault-sequence part.
const vc13FaultRule = "a case is a sequence of 1+1..6 refresh rounds of one real storage and three hash-prefix filters " +
	"against one scripted server; it is non-trivial if in some round after the first a list that already had a complete " +
	"version was hit by a fault and the faulty request reached the server, or an index with invalid entries or content " +
	"was delivered; identity is the whole sequence"

// vc13RequiredClasses are the classes that every quick run must reach.
var vc13RequiredClasses = []string{
	"fault-after-success",
	"fault-without-previous",
	"fault:conn_close", "fault:hang_hdr", "fault:hang_body", "fault:s404", "fault:s500", "fault:empty",
	"fault:content_longline", "content-junk:rule", "content-junk:ss",
	"valid-entry-after-url-rejected-duplicate", "valid-entry-before-url-rejected-duplicate",
	"idx-from-file:valid", "idx-from-file:fault", "idx-from-file:partial",
	"file-source-larger-than-limit", "restart-lowered:checked", "from-file:svc", "from-file:adult",
	"non-200-success-class-with-valid-body", "non-200-redirect-class-without-location", "non-200-error-class",
	"index-valid-json-wrong-top-level-shape", "index-filters-value-not-an-array",
	"index-entry-of-wrong-type-next-to-valid-entries", "service-index-invalid-entry-not-last",
	"successful-round-after-failed-round-within-staleness", "rule-list-file-within-staleness",
	"ids-differ-in-case-only", "ids-differ-in-case-only:one-fails-without-previous",
	"parallel", "cancel:seen-by-the-code", "index-empty", "svc-emptyrules-applied", "probe:verdict-while-body-in-flight",
	"size-limit:applied",
	"fault:oversize", "fault:oversize_chunked", "fault:oversize_close", "fault:short_cl", "fault:chunk_trunc",
	"fault-slot:rule", "fault-slot:svc", "fault-slot:ss", "fault-slot:hash",
	"idx:fault", "idx:partial", "idx:garbage",
	"partial-index-valid-entries-applied",
	"storage-refresh-aborted-after-lists",
	"list-dropped-by-index", "list-added",
	"restart:checked",
	"probe:looked-while-body-in-flight",
	"file-replaced-by-new-inode",
	"ctx:tight",
}

// TestVerifC13FaultSequences is the rapid part of C13 (a).
func TestVerifC13FaultSequences(t *testing.T) {
	st := vstat.New("C13", "faults.rapid", vc13FaultRule, vc13RequiredClasses...)
	st.Finish(t)

	msgs := agdtest.NewConstructor(t)
	baseDir := t.TempDir()

	rapid.Check(t, func(t *rapid.T) {
		seq := vc13GenSeq(t)
		vc13RunSeq(t, st, msgs, baseDir, seq, false)
	})
}

// vc13GridSeqs enumerates every fault kind at every list, after a successful
// round and followed by a recovery round, every index-entry defect, every
// content defect of the two indexes, and every fault kind at a rule list that
// has no previous version.
func vc13GridSeqs() (seqs []*vc13Seq) {
	allEntries := []vc13Entry{{T: "valid", L: "a"}, {T: "valid", L: "b"}, {T: "valid", L: "c"}}

	okRound := func() (rd vc13Round) {
		rd = vc13Round{Idx: vc13Script{Kind: vc13OKNew}, Entries: allEntries, S: map[string]vc13Script{}, Dribble: true}
		for _, s := range vc13Slots {
			rd.S[s.name] = vc13Script{Kind: vc13OKNew, Fill: 3}
		}

		return rd
	}

	three := func(mid vc13Round) (seq *vc13Seq) {
		return &vc13Seq{CacheOn: true, Rounds: []vc13Round{okRound(), mid, okRound()}}
	}

	for _, k := range vc13FaultKinds {
		for _, tg := range vc13Targets {
			for _, cut := range []int{50} {
				mid := okRound()
				sc := vc13Script{Kind: k, Fill: 3, CutPct: cut}
				if tg == "idx" {
					mid.Idx = sc
				} else {
					mid.S[tg] = sc
				}

				seqs = append(seqs, three(mid))
			}
		}

		// No previous version: the list enters the index in the round in
		// which its download fails.
		first := okRound()
		first.S["b"] = vc13Script{Kind: k, Fill: 3, CutPct: 50}
		seqs = append(seqs, &vc13Seq{CacheOn: true, Rounds: []vc13Round{first, okRound()}})

		// The same with a tight context.
		if vc13IsHang(k) {
			mid := okRound()
			mid.S["a"] = vc13Script{Kind: k, Fill: 3, CutPct: 50}
			mid.Tight = true
			seqs = append(seqs, three(mid))
		}
	}

	// Every form of an oversized body (announced length, chunked, delimited
	// by the end of the connection) of every enumerated size at every target.
	for _, k := range []vc13Kind{vc13Oversize, vc13OversizeChunked, vc13OversizeClose} {
		for _, over := range vc13Overs {
			for _, tg := range vc13Targets {
				mid := okRound()
				sc := vc13Script{Kind: k, Over: over}
				if tg == "idx" {
					mid.Idx = sc
				} else {
					mid.S[tg] = sc
				}

				seqs = append(seqs, three(mid))
			}
		}
	}

	// Every non-200 status with every form of body at every target.  Targets
	// whose failure does not stop the refresh of the others share a round.
	for _, code := range vc13StatusCodes {
		for _, body := range vc13StatusBodies {
			sc := vc13Script{Kind: vc13Status, Fill: 3, Code: code, Body: body}

			// The index; if its "valid" body were accepted, two lists would go.
			mid := okRound()
			mid.Idx = sc
			mid.Entries = []vc13Entry{{T: "valid", L: "b"}}
			seqs = append(seqs, three(mid))

			mid = okRound()
			for _, tg := range []string{"a", "b", "c", "ssy", "adult", "danger", "newreg"} {
				mid.S[tg] = sc
			}
			seqs = append(seqs, three(mid))

			for _, tg := range []string{"svc", "ssg"} {
				mid = okRound()
				mid.S[tg] = sc
				seqs = append(seqs, three(mid))
			}
		}

		// An index that is accepted with a non-200 status and lists nothing
		// would drop every rule list.
		mid := okRound()
		mid.Idx = vc13Script{Kind: vc13Status, Code: code, Body: "valid"}
		mid.Entries = []vc13Entry{}
		seqs = append(seqs, three(mid))
	}

	for _, cut := range []int{0, 100} {
		for _, k := range []vc13Kind{vc13HangBody, vc13ShortCL, vc13ChunkTrunc} {
			if k == vc13HangBody && cut == 0 {
				continue
			}

			mid := okRound()
			mid.S["a"] = vc13Script{Kind: k, Fill: 3, CutPct: cut}
			mid.S["adult"] = vc13Script{Kind: k, Fill: 3, CutPct: cut}
			seqs = append(seqs, three(mid))
		}
	}

	// Two lists whose IDs differ only in letter case, with different content:
	// both fine; one of them failing with and without a previous version, in
	// both orders; one leaving the index.
	{
		both := []vc13Entry{{T: "valid", L: "a"}, {T: "valid", L: "ua"}, {T: "valid", L: "b"}}
		withBoth := func() (rd vc13Round) {
			rd = okRound()
			rd.Entries = both

			return rd
		}

		seqs = append(seqs, &vc13Seq{CacheOn: true, Rounds: []vc13Round{withBoth(), withBoth(), okRound(), withBoth()}})
		for _, failing := range []string{"a", "ua"} {
			for _, k := range []vc13Kind{vc13S500, vc13ConnClose, vc13ShortCL} {
				// No previous version: the twin enters the index failing.
				bad := withBoth()
				bad.S[failing] = vc13Script{Kind: k, Fill: 3, CutPct: 50}
				seqs = append(seqs, &vc13Seq{CacheOn: true, Rounds: []vc13Round{okRound(), bad, withBoth(), okRound()}})
				seqs = append(seqs, &vc13Seq{CacheOn: false, Rounds: []vc13Round{bad, bad, withBoth()}})

				// With a previous version.
				seqs = append(seqs, &vc13Seq{CacheOn: true, Rounds: []vc13Round{withBoth(), bad, withBoth()}})
			}
		}
	}

	// A round that fails after the rule lists were downloaded (the service
	// index or a safe-search list fails, or the context expires there), then
	// a good round while the files of the rule lists are within the staleness
	// interval, then another good one.
	for _, tg := range []string{"svc", "ssg", "ssy"} {
		for _, sc := range []vc13Script{
			{Kind: vc13S500, Fill: 3},
			{Kind: vc13HangHdr},
			{Kind: vc13ConnClose},
			{Kind: vc13Status, Code: 203, Body: "junk"},
		} {
			for _, fresh := range [][]string{{"a", "b", "c"}, {"b"}} {
				bad := okRound()
				bad.S[tg] = sc
				retry := okRound()
				retry.Fresh = fresh
				seqs = append(seqs, &vc13Seq{CacheOn: true, Rounds: []vc13Round{okRound(), bad, retry, okRound()}})
			}
		}
	}

	{
		bad := okRound()
		bad.S["ssy"] = vc13Script{Kind: vc13HangHdr}
		bad.Tight = true
		retry := okRound()
		retry.Fresh = []string{"a", "b", "c"}
		seqs = append(seqs, &vc13Seq{CacheOn: false, Rounds: []vc13Round{okRound(), bad, retry, okRound()}})

		// Fresh files without a failed round before: nothing to download.
		seqs = append(seqs, &vc13Seq{CacheOn: true, Rounds: []vc13Round{okRound(), retry, okRound()}})
	}

	// Valid JSON of the wrong shape, after a good round and before another.
	for _, sh := range vc13Shapes {
		mid := okRound()
		mid.Idx.Flavor = "shape:" + sh.name
		seqs = append(seqs, three(mid))

		// The same twice in a row, then a lasting recovery.
		seqs = append(seqs, &vc13Seq{CacheOn: true, Rounds: []vc13Round{okRound(), mid, mid, okRound(), okRound()}})
	}

	bad := append([]string{"dupsame", "dupalt"}, vc13MistypedEntryTypes...)
	bad = append(bad, vc13InvalidEntryTypes...)
	for _, typ := range bad {
		for pos := 0; pos <= len(allEntries); pos++ {
			mid := okRound()
			e := vc13Entry{T: typ}
			if typ == "dupsame" || typ == "dupalt" {
				if pos == 0 {
					continue
				}

				e.L = allEntries[pos-1].L
			}

			es := append([]vc13Entry{}, allEntries[:pos]...)
			es = append(es, e)
			es = append(es, allEntries[pos:]...)
			mid.Entries = es
			seqs = append(seqs, three(mid))
		}
	}

	// An invalid entry that shares its key with a valid one: every form, by
	// the stage that rejects it, before and after the valid entry, for the
	// first and for the last key of the index; and for a key that has no
	// valid entry at all.
	for _, f := range vc13BadURLForms {
		for _, l := range []string{"a", "c"} {
			for _, first := range []bool{true, false} {
				mid := okRound()
				var es []vc13Entry
				for _, e := range allEntries {
					switch {
					case e.L != l:
						es = append(es, e)
					case first:
						es = append(es, vc13Entry{T: "keybad", L: l, U: f.name}, e)
					default:
						es = append(es, e, vc13Entry{T: "keybad", L: l, U: f.name})
					}
				}

				mid.Entries = es
				seqs = append(seqs, three(mid))
			}
		}

		mid := okRound()
		mid.Entries = []vc13Entry{{T: "valid", L: "a"}, {T: "keybad", L: "b", U: f.name}, {T: "valid", L: "c"}}
		seqs = append(seqs, three(mid))
	}

	// Every target that can come from a file URI does, with a complete file
	// of the largest allowed size, of exactly the limit, one octet larger and
	// three times the limit; a hash list from a file with a line its parser
	// rejects.
	for _, tg := range vc13FileTargets {
		for _, at := range []string{"limit-1", "limit", "limit+1", "3limit"} {
			mid := okRound()
			vc13SetScript(&mid, tg, vc13Script{Kind: vc13OKNew, Fill: 3, At: at})
			seq := three(mid)
			seq.FileSrc = []string{tg}
			seqs = append(seqs, seq)
		}

		if tg != "idx" && tg != "svc" {
			mid := okRound()
			mid.S[tg] = vc13Script{Kind: vc13OKNew, Fill: 6, Flavor: "longline"}
			seq := three(mid)
			seq.FileSrc = []string{tg}
			seqs = append(seqs, seq)
		}
	}

	// A restart with a lowered size limit: every limit, relative to the size
	// of the cache file it applies to.
	for _, tg := range vc13LowerTargets {
		for _, rel := range []string{"limit-1", "limit", "limit+1", "3limit"} {
			seqs = append(seqs, &vc13Seq{
				CacheOn: true,
				Rounds:  []vc13Round{okRound(), okRound()},
				Lowered: map[string]string{tg: rel},
			})
		}
	}

	{
		all := map[string]string{}
		for _, tg := range vc13LowerTargets {
			all[tg] = "3limit"
		}

		seqs = append(seqs, &vc13Seq{CacheOn: true, Rounds: []vc13Round{okRound(), okRound()}, Lowered: all})
	}

	// The index comes from a file URI: present, missing, empty, cut short, not
	// JSON, partly invalid, and with a rejected entry before a valid one.
	{
		file := func(mid vc13Round) {
			seq := three(mid)
			seq.IdxFile = true
			seqs = append(seqs, seq)
		}

		file(okRound())
		for _, k := range []vc13Kind{vc13S404, vc13Empty, vc13ShortCL, vc13Oversize} {
			mid := okRound()
			mid.Idx = vc13Script{Kind: k, CutPct: 100}
			file(mid)
		}

		mid := okRound()
		mid.Idx.Flavor = "notjson"
		file(mid)

		mid = okRound()
		mid.Entries = []vc13Entry{{T: "nil"}, {T: "valid", L: "a"}, {T: "badkey"}, {T: "valid", L: "c"}}
		file(mid)

		mid = okRound()
		mid.Entries = []vc13Entry{{T: "keybad", L: "a", U: "ftp"}, {T: "valid", L: "a"}, {T: "valid", L: "b"}, {T: "valid", L: "c"}}
		file(mid)

		mid = okRound()
		mid.S["a"] = vc13Script{Kind: vc13S500, Fill: 3}
		file(mid)
	}

	{
		// A rejected entry on both sides of the valid one, of both stages.
		mid := okRound()
		mid.Entries = []vc13Entry{
			{T: "keybad", L: "b", U: "ftp"}, {T: "keybad", L: "b", U: "emptyurl"}, {T: "valid", L: "b"},
			{T: "keybad", L: "b", U: "nohost"}, {T: "valid", L: "a"}, {T: "valid", L: "c"},
		}
		seqs = append(seqs, three(mid))
	}

	{
		mid := okRound()
		mid.Idx.Flavor = "notjson"
		seqs = append(seqs, three(mid))

		// A list leaves and comes back while its download fails.
		gone := okRound()
		gone.Entries = allEntries[:2]
		back := okRound()
		back.S["c"] = vc13Script{Kind: vc13S500, Fill: 3}
		seqs = append(seqs, &vc13Seq{CacheOn: false, Rounds: []vc13Round{okRound(), gone, back, okRound()}})

		// A duplicate whose first download fails.
		dup := okRound()
		dup.Entries = []vc13Entry{{T: "valid", L: "a"}, {T: "dupalt", L: "a"}, {T: "valid", L: "b"}}
		dup.S["a"] = vc13Script{Kind: vc13S404, Fill: 3}
		seqs = append(seqs, three(dup))
		dup0 := okRound()
		dup0.Entries = dup.Entries
		dup0.S["a"] = vc13Script{Kind: vc13S404, Fill: 3}
		seqs = append(seqs, &vc13Seq{CacheOn: false, Rounds: []vc13Round{dup0, okRound()}})
	}

	for _, fl := range []string{"typeerr", "notjson"} {
		mid := okRound()
		mid.S["svc"] = vc13Script{Kind: vc13OKNew, Fill: 3, Flavor: fl}
		seqs = append(seqs, three(mid))
	}

	// A service index with an entry that is refused, first, between the valid
	// ones and last; also mistyped and empty-rules entries at every place.
	for _, fl := range append([]string{"typeerr", "emptyrules"}, vc13SvcInvalidEntries...) {
		for _, pos := range vc13SvcPositions {
			mid := okRound()
			mid.S["svc"] = vc13Script{Kind: vc13OKNew, Fill: 3, Flavor: fl + "@" + pos}
			seqs = append(seqs, three(mid))
		}
	}

	// Processing-level faults: a complete download that the parser of the
	// hash lists rejects (a line over 64 KiB between valid hosts), alone and
	// for all three lists at once; and, for the list kinds whose parser has
	// no error path, content that it has to skip.
	for _, fill := range []int{4, 11} {
		all := okRound()
		for _, name := range vc13HashOrder {
			mid := okRound()
			mid.S[name] = vc13Script{Kind: vc13OKNew, Fill: fill, Flavor: "longline"}
			seqs = append(seqs, three(mid))
			all.S[name] = mid.S[name]
		}

		seqs = append(seqs, three(all))
	}

	for _, name := range []string{"a", "b", "c", "ssg", "ssy"} {
		mid := okRound()
		mid.S[name] = vc13Script{Kind: vc13OKNew, Fill: 5, Flavor: "junk"}
		seqs = append(seqs, three(mid))
	}

	// Complete bodies in every form of delimiting, of ordinary size, of the
	// largest allowed size and of exactly the size limit, at every target.
	set := func(rd *vc13Round, tg string, sc vc13Script) {
		if tg == "idx" {
			rd.Idx = sc
		} else {
			rd.S[tg] = sc
		}
	}

	for _, form := range []string{"", "chunked", "close"} {
		for _, at := range []string{"", "limit-1", "limit"} {
			if form == "" && at == "" {
				continue
			}

			for _, tg := range vc13Targets {
				mid := okRound()
				set(&mid, tg, vc13Script{Kind: vc13OKNew, Fill: 3, Form: form, At: at})
				seqs = append(seqs, three(mid))
			}
		}
	}

	// The caller gives up at every request of the round, on its arrival and
	// in the middle of its body.
	for req := 1; req <= len(vc13Targets); req++ {
		for _, mid := range []bool{false, true} {
			rd := okRound()
			rd.CancelReq, rd.CancelMid = req, mid
			seqs = append(seqs, three(rd))
		}
	}

	// The four refreshes run at the same time; one target fails.
	for _, tg := range vc13Targets {
		mid := okRound()
		mid.Parallel = true
		set(&mid, tg, vc13Script{Kind: vc13S500, Fill: 3})
		seqs = append(seqs, three(mid))
	}

	{
		// A valid index that lists nothing; a service without rules.
		mid := okRound()
		mid.Entries = []vc13Entry{}
		seqs = append(seqs, three(mid))

		mid = okRound()
		mid.S["svc"] = vc13Script{Kind: vc13OKNew, Fill: 3, Flavor: "emptyrules"}
		seqs = append(seqs, three(mid))
	}

	return seqs
}

// TestVerifC13FaultGrid is the enumerated part of C13 (a).
func TestVerifC13FaultGrid(t *testing.T) {
	req := []string{
		"fault-after-success", "fault-without-previous", "restart:checked", "partial-index-valid-entries-applied",
		"probe:looked-while-body-in-flight", "file-replaced-by-new-inode",
	}
	for _, name := range vc13HashOrder {
		req = append(req, "cell:"+name+":content_longline")
	}

	for _, name := range []string{"a", "b", "c", "ssg", "ssy"} {
		req = append(req, "content-junk-accepted:"+name)
	}

	for _, tg := range vc13Targets {
		for _, form := range []string{"length", "chunked", "close"} {
			req = append(req, "size:"+tg+":"+form+":limit-1", "size:"+tg+":"+form+":limit")
			if form != "length" {
				req = append(req, "okform:"+tg+":"+form)
			}
		}
	}

	for i := 1; i <= len(vc13Targets); i++ {
		req = append(req, fmt.Sprintf("cancel:%d:arrival", i), fmt.Sprintf("cancel:%d:mid", i))
	}

	for _, f := range vc13BadURLForms {
		for _, l := range []string{"a", "c"} {
			req = append(req, "dupbad:"+f.name+":before-valid:"+l, "dupbad:"+f.name+":after-valid:"+l)
		}
	}

	req = append(req,
		"valid-entry-after-url-rejected-duplicate", "valid-entry-before-url-rejected-duplicate",
		"valid-entry-after-validate-rejected-duplicate", "valid-entry-before-validate-rejected-duplicate",
	)

	for _, code := range vc13StatusCodes {
		for _, body := range vc13StatusBodies {
			for _, tg := range vc13Targets {
				req = append(req, fmt.Sprintf("status:%s:%d:%s", tg, code, body))
			}
		}
	}

	for _, sh := range vc13Shapes {
		req = append(req, "index-shape:"+sh.name)
	}

	for _, typ := range vc13MistypedEntryTypes {
		req = append(req, "index-mistyped:"+typ)
	}

	for _, fl := range vc13SvcInvalidEntries {
		for _, pos := range vc13SvcPositions {
			req = append(req, "service-index-invalid-entry:"+fl+":"+pos)
		}
	}

	req = append(req, "service-index-invalid-entry-not-last", "successful-round-after-failed-round-within-staleness",
		"rule-list-file-within-staleness")
	req = append(req, "index-valid-json-wrong-top-level-shape", "index-filters-value-not-an-array",
		"index-entry-of-wrong-type-next-to-valid-entries")
	req = append(req, "non-200-success-class-with-valid-body", "non-200-redirect-class-without-location")
	req = append(req, "file-source-larger-than-limit", "restart-lowered:checked")
	for _, tg := range vc13FileTargets {
		req = append(req, "file-source:"+tg+":limit+1", "file-source:"+tg+":3limit")
	}

	req = append(req, "cache-file-larger-than-limit:"+vc13IdxPath)
	for _, s := range vc13Slots {
		if s.name != "ua" {
			req = append(req, "cache-file-larger-than-limit:"+s.path)
		}
	}

	req = append(req, "ids-differ-in-case-only", "ids-differ-in-case-only:one-fails-without-previous")

	req = append(req, "idx-from-file:valid", "idx-from-file:fault", "idx-from-file:partial", "idx-from-file:garbage")
	req = append(req, "cancel:seen-by-the-code", "parallel", "index-empty", "svc-emptyrules-applied",
		"probe:verdict-while-body-in-flight")

	for _, k := range vc13FaultKinds {
		for _, tg := range vc13Targets {
			req = append(req, "cell:"+tg+":"+string(k))
			if vc13IsOversize(k) {
				for _, over := range vc13Overs {
					req = append(req, fmt.Sprintf("cell:%s:%s:+%d", tg, k, over))
				}
			}
		}
	}

	st := vstat.New("C13", "faults.grid",
		"every fault kind at every URL after a successful round and before a recovery round, every index-entry defect at every "+
			"position, every content defect of both indexes; all are non-trivial; identity is the sequence", req...)
	st.Finish(t)

	msgs := agdtest.NewConstructor(t)
	baseDir := t.TempDir()

	// The driver may split the grid over processes; the union is complete.
	shard, nShards := vstat.EnvInt("VERIF_SHARD", 0), max(vstat.EnvInt("VERIF_NSHARDS", 1), 1)

	seqs := vc13GridSeqs()
	for i, seq := range seqs {
		if i%nShards != shard%nShards {
			continue
		}

		t.Logf("grid case %d", i)
		for attempt := 0; attempt < 5; attempt++ {
			if !vc13RunSeq(t, st, msgs, baseDir, seq, attempt < 4) {
				break
			}

			st.Class("grid:retried-after-stall")
		}
	}

	st.Extra("grid_cases", len(seqs))
	st.SetExhaustive()
}
