//go:build verif

package filterstorage_test

// C13 (b): crash points.  The test binary re-executes itself as a child that
// loads the cache and then refreshes everything against a server, in the
// parent, that dribbles the bodies.  The parent sends SIGKILL at a generated
// instant, then checks that every cache file is byte-equal to one complete
// version and that a fresh storage over the directory serves exactly what the
// files hold.  See /verif/DESIGN.md, section 3, C13.

import (
	"bufio"
	"bytes"
	"fmt"
	"os"
	"os/exec"
	"path/filepath"
	"strings"
	"syscall"
	"testing"
	"time"

	"github.com/AdguardTeam/AdGuardDNS/internal/agdtest"
	"pgregory.net/rapid"
	"verif.local/harness/vstat"
)

// Environment of the child.
const (
	vc13EnvChild = "VC13_CHILD"
	vc13EnvDir   = "VC13_DIR"
	vc13EnvURL   = "VC13_URL"
)

// vc13ChildTimeout is the HTTP timeout in the crash-point part.
const vc13ChildTimeout = 10 * time.Second

// vc13CrashHashMax is the size limit of the hash lists in the crash-point
// part; large lists make the windows around the replacement of a file wider.
const vc13CrashHashMax = 8 << 20

// TestVerifC13Child is the body of the child process.  It does nothing unless
// the parent asked for it.
func TestVerifC13Child(t *testing.T) {
	if os.Getenv(vc13EnvChild) == "" {
		t.Skip("not a child")
	}

	el := &vc13ErrLog{}
	u, err := vc13NewUnits(os.Getenv(vc13EnvDir), os.Getenv(vc13EnvURL), el, vc13ChildTimeout, true, vc13CrashHashMax, nil, nil)
	if err != nil {
		fmt.Printf("VC13-ERR %v\n", err)
		os.Exit(3)
	}

	if pnc := u.refreshAll(el, true, vc13ChildTimeout, false); pnc != nil {
		fmt.Printf("VC13-ERR panic %v\n", pnc)
		os.Exit(3)
	}

	if msgs := el.take(); len(msgs) > 0 {
		fmt.Printf("VC13-ERR initial load: %q\n", msgs)
		os.Exit(3)
	}

	fmt.Println("VC13-READY")

	if pnc := u.refreshAll(el, false, vc13ChildTimeout, false); pnc != nil {
		fmt.Printf("VC13-ERR panic %v\n", pnc)
		os.Exit(3)
	}

	fmt.Println("VC13-DONE")
	os.Exit(0)
}

// vc13Kill is one generated crash case.
type vc13Kill struct {
	// Scripts are the behaviours in the round during which the child dies.
	Scripts map[string]vc13Script `json:"s"`

	// Chunks and DelayUS make the bodies dribble.
	Chunks  int `json:"chunks"`
	DelayUS int `json:"delay_us"`

	// Mode is "event" (kill when the server reaches chunk Chunk of request
	// Ord, plus ExtraUS) or "delay" (kill DelayKillUS after the child said
	// it starts refreshing).
	Mode        string `json:"mode"`
	Ord         int    `json:"ord"`
	Chunk       int    `json:"chunk"`
	ExtraUS     int    `json:"extra_us"`
	DelayKillUS int    `json:"delay_kill_us"`

	// Lowered is as in vc13Seq: a second restart with lowered size limits.
	Lowered map[string]string `json:"lowered,omitempty"`

	// PartialIdx adds invalid entries to the index of the round.
	PartialIdx bool `json:"partial_idx,omitempty"`

	// TmpFallback makes renameio put its temporary files into the cache
	// directory itself.
	TmpFallback bool `json:"tmp_fallback"`
}

// vc13GenKill draws a crash case.
func vc13GenKill(t *rapid.T) (k *vc13Kill) {
	k = &vc13Kill{Scripts: map[string]vc13Script{}}
	crashFaults := []vc13Kind{
		vc13ConnClose, vc13S404, vc13S500, vc13Empty, vc13Oversize, vc13OversizeChunked, vc13OversizeClose, vc13ShortCL,
		vc13ChunkTrunc, vc13Status, vc13Status, vc13Status,
	}
	for _, tg := range vc13Targets {
		sc := vc13Script{Kind: vc13OKNew, Fill: rapid.IntRange(0, 12).Draw(t, "fill-"+tg)}
		sc.Form = rapid.SampledFrom([]string{"", "", "", "chunked", "close"}).Draw(t, "form-"+tg)
		isHash := tg == "adult" || tg == "danger" || tg == "newreg"
		switch what := rapid.IntRange(0, 15).Draw(t, "what-"+tg); {
		case what <= 1 && tg != "idx":
			// A transfer-level fault.
			sc.Form = ""
			sc.Kind = rapid.SampledFrom(crashFaults).Draw(t, "kind-"+tg)
			sc.CutPct = rapid.SampledFrom([]int{10, 50, 90}).Draw(t, "cut-"+tg)
			sc.Over = rapid.SampledFrom([]int{0, 1, 7, vc13MaxSize}).Draw(t, "over-"+tg)
			if sc.Kind == vc13Status {
				sc.Code = rapid.SampledFrom(vc13StatusCodes).Draw(t, "code-"+tg)
				sc.Body = rapid.SampledFrom(vc13StatusBodies).Draw(t, "body-"+tg)
			}
			if isHash && vc13IsOversize(sc.Kind) {
				// The hash lists have a large limit here.
				sc.Kind = vc13S500
			}
		case what == 2 && tg != "a" && tg != "b" && tg != "c":
			// A complete body that its consumer rejects (or, for the
			// rule-list index, partly rejects; see PartialIdx).
			switch {
			case isHash:
				sc.Flavor = "longline"
			case tg == "svc":
				sc.Flavor = rapid.SampledFrom([]string{"badid", "nilentry", "typeerr", "notjson", "emptyrules"}).Draw(t, "flavor-svc")
			case tg == "idx":
				if rapid.Bool().Draw(t, "idx-notjson") {
					sc.Flavor = "notjson"
				} else {
					k.PartialIdx = true
				}
			}
		case isHash && what >= 8:
			// About 0.3 to 1 MB.
			sc.Fill = rapid.IntRange(10_000, 35_000).Draw(t, "bigfill-"+tg)
		}

		k.Scripts[tg] = sc
	}

	k.Chunks = rapid.IntRange(2, 6).Draw(t, "chunks")
	k.DelayUS = rapid.IntRange(0, 3000).Draw(t, "delay-us")
	if rapid.IntRange(0, 3).Draw(t, "mode") == 0 {
		k.Mode = "delay"
		k.DelayKillUS = rapid.IntRange(0, 120_000).Draw(t, "delay-kill-us")
	} else {
		k.Mode = "event"
		k.Ord = rapid.IntRange(0, len(vc13Targets)-1).Draw(t, "ord")
		// Chunk == Chunks is the instant after the last byte was written:
		// the client is about to sync, rename and set the times.
		k.Chunk = rapid.IntRange(0, k.Chunks).Draw(t, "chunk")
		if rapid.Bool().Draw(t, "at-end") {
			k.Chunk = k.Chunks
		}
		k.ExtraUS = rapid.IntRange(0, 4000).Draw(t, "extra-us")
	}

	k.TmpFallback = rapid.IntRange(0, 2).Draw(t, "tmp-fallback") == 0
	if rapid.Bool().Draw(t, "lowered") {
		k.Lowered = map[string]string{}
		for _, tg := range vc13LowerTargets {
			rel := rapid.SampledFrom([]string{"", "limit-1", "limit", "limit+1", "3limit"}).Draw(t, "lowered-"+tg)
			if rel != "" {
				k.Lowered[tg] = rel
			}
		}
	}

	return k
}

// vc13CrashRule is the stated non-triviality rule of the crash-point part.
const vc13CrashRule = "a case is one SIGKILL of a child process that refreshes all lists from version 1 to version 2 " +
	"against a dribbling server, at a generated instant (server event plus microseconds, or a delay); it is " +
	"non-trivial if the signal was sent while at least one complete body was in flight or after a body was " +
	"delivered and before the child finished; identity is the case"

// TestVerifC13CrashPoints is C13 (b).
func TestVerifC13CrashPoints(t *testing.T) {
	st := vstat.New("C13", "crash", vc13CrashRule,
		"kill:body-in-flight", "kill:between-bodies", "files:some-new-some-previous", "restart:checked",
		"trigger:after-last-byte", "probe:looked-while-body-in-flight")
	st.Finish(t)

	msgs := agdtest.NewConstructor(t)
	baseDir := t.TempDir()

	rapid.Check(t, func(t *rapid.T) {
		k := vc13GenKill(t)

		w := vc13NewWorld(t, st, msgs, baseDir, true, vc13ChildTimeout, vc13CrashHashMax, nil)
		defer w.close()

		tmpDir, err := os.MkdirTemp(baseDir, "tmp-")
		if err != nil {
			t.Fatalf("harness: %v", err)
		}
		defer func() { _ = os.RemoveAll(tmpDir) }()

		seq := &vc13Seq{CacheOn: true}

		// Version 1, loaded by the real code in this process.
		r1 := vc13Round{Idx: vc13Script{Kind: vc13OKNew}, S: map[string]vc13Script{}}
		for _, name := range vc13RuleNames {
			r1.Entries = append(r1.Entries, vc13Entry{T: "valid", L: name})
		}
		for _, s := range vc13Slots {
			r1.S[s.name] = vc13Script{Kind: vc13OKNew, Fill: 2}
		}

		// Version 2, during which the child dies.
		r2 := vc13Round{Idx: k.Scripts["idx"], Entries: r1.Entries, S: map[string]vc13Script{}}
		if k.PartialIdx {
			r2.Entries = []vc13Entry{{T: "nil"}, r1.Entries[0], {T: "badkey"}, r1.Entries[1], {T: "emptyurl"}, r1.Entries[2]}
		}
		for _, s := range vc13Slots {
			r2.S[s.name] = k.Scripts[s.name]
			if r2.S[s.name].Kind == "" {
				r2.S[s.name] = vc13Script{Kind: vc13OKNew, Fill: 2}
			}
		}
		seq.Rounds = []vc13Round{r1, r2}

		resps, _ := w.plan(1, &r1)
		w.srv.setPlan(resps, nil, nil)
		var pnc any
		w.watched("the initial load of the crash-point part", seq, func() {
			pnc = w.u.refreshAll(w.el, true, vc13CtxGenerous, false)
		})
		w.srv.endRound()
		if emsgs := w.el.take(); pnc != nil || len(emsgs) > 0 {
			for _, m := range emsgs {
				if !vc13TimeoutLike(m) {
					t.Fatalf("harness: initial load failed: panic %v, errors %q", pnc, emsgs)
				}
			}

			fmt.Println("VERIF-INCONCLUSIVE: the initial load of the crash-point part hit a deadline")
			t.Fatalf("inconclusive: initial load: panic %v, errors %q", pnc, emsgs)
		}

		v1 := w.observe(w.u, "after the initial load", seq)
		for _, s := range vc13Slots {
			if v1.Served[s.name] != 1 {
				t.Fatalf("harness: initial load: slot %s serves %d", s.name, v1.Served[s.name])
			}
		}

		vc13AgeFiles(w.dir)

		resps, info := w.plan(2, &r2)
		for _, r := range resps {
			if vc13IsOK(r.kind) || r.kind == vc13Oversize {
				r.chunks = k.Chunks
				r.delay = time.Duration(k.DelayUS) * time.Microsecond
			}
		}
		probe := w.newProbe(v1, info)
		w.srv.setPlan(resps, nil, probe.look)

		trig := w.srv.arm(-1, -1)
		if k.Mode == "event" {
			trig = w.srv.arm(k.Ord, k.Chunk)
		}

		cmd := exec.Command(os.Args[0], "-test.run", "^TestVerifC13Child$", "-test.count=1", "-test.timeout=60s")
		cmd.Env = append(os.Environ(),
			vc13EnvChild+"=1",
			vc13EnvDir+"="+w.dir,
			vc13EnvURL+"="+w.srv.URL(),
			"VERIF_STATS_DIR=",
		)
		if k.TmpFallback {
			cmd.Env = append(cmd.Env, "TMPDIR="+filepath.Join(tmpDir, "does-not-exist"))
		} else {
			cmd.Env = append(cmd.Env, "TMPDIR="+tmpDir)
		}

		stdout, err := cmd.StdoutPipe()
		if err != nil {
			t.Fatalf("harness: %v", err)
		}
		cmd.Stderr = cmd.Stdout

		if err = cmd.Start(); err != nil {
			t.Fatalf("harness: starting child: %v", err)
		}

		lines := make(chan string, 64)
		go func() {
			defer close(lines)

			sc := bufio.NewScanner(stdout)
			for sc.Scan() {
				lines <- sc.Text()
			}
		}()

		waitLine := func(want string, d time.Duration) (got bool, all []string) {
			tm := time.NewTimer(d)
			defer tm.Stop()

			for {
				select {
				case l, ok := <-lines:
					if !ok {
						return false, all
					}

					all = append(all, l)
					if strings.HasPrefix(l, want) {
						return true, all
					}
				case <-tm.C:
					return false, all
				}
			}
		}

		reap := func() {
			_ = cmd.Process.Kill()
			for range lines {
			}
			_ = cmd.Wait()
		}

		ready, out := waitLine("VC13-READY", 60*time.Second)
		if !ready {
			reap()
			w.srv.endRound()
			for _, l := range out {
				if strings.HasPrefix(l, "VC13-ERR") {
					t.Fatalf("C13 violated: the child could not load version 1 from the cache directory: %q", out)
				}
			}

			fmt.Println("VERIF-INCONCLUSIVE: the child of the crash-point part did not get ready")
			t.Fatalf("inconclusive: child output %q", out)
		}

		// Choose the instant.
		fired := false
		switch k.Mode {
		case "event":
			tm := time.NewTimer(30 * time.Second)
			select {
			case <-trig:
				fired = true
				vc13SpinSleep(time.Duration(k.ExtraUS) * time.Microsecond)
			case <-tm.C:
				// The event never happened (for example, the request with
				// that ordinal was a fault); kill now, wherever that is.
			case l, ok := <-lines:
				// The child finished first.
				_, _ = l, ok
			}
			tm.Stop()
		default:
			vc13SpinSleep(time.Duration(k.DelayKillUS) * time.Microsecond)
		}

		inflight, started, finished := w.srv.snapshot()
		_ = cmd.Process.Signal(syscall.SIGKILL)
		for range lines {
		}
		werr := cmd.Wait()
		nLooks, probeFail := probe.finish()
		hits := w.srv.endRound()
		if probeFail != "" {
			t.Fatalf("C13 violated: %s\ncase: %s", probeFail, vc13JSON(k))
		}

		killed := false
		if ee, ok := werr.(*exec.ExitError); ok {
			if ws, ok2 := ee.Sys().(syscall.WaitStatus); ok2 && ws.Signaled() {
				killed = true
			}
		}

		var classes []string
		nt := false
		if nLooks > 0 {
			classes = append(classes, "probe:looked-while-body-in-flight")
		}
		switch {
		case !killed:
			classes = append(classes, "kill:child-finished-first")
		case inflight > 0:
			classes = append(classes, "kill:body-in-flight")
			nt = true
		case started == 0:
			classes = append(classes, "kill:before-first-body")
		case finished >= started:
			classes = append(classes, "kill:between-bodies")
			nt = true
		}

		if fired {
			classes = append(classes, "trigger:fired")
			if k.Chunk == k.Chunks {
				classes = append(classes, "trigger:after-last-byte")
			}
		}

		if k.TmpFallback {
			classes = append(classes, "tmp:in-cache-dir")
		}

		for _, tg := range vc13Targets {
			sc := k.Scripts[tg]
			switch {
			case sc.Kind == vc13Status:
				classes = append(classes, "round-fault:status", fmt.Sprintf("round-status:%dxx:%s", sc.Code/100, sc.Body))
			case !vc13IsOK(sc.Kind):
				classes = append(classes, "round-fault:"+string(sc.Kind))
			case sc.Flavor != "":
				classes = append(classes, "round-content:"+sc.Flavor)
			case sc.Form != "":
				classes = append(classes, "round-okform:"+sc.Form)
			}
		}

		if k.PartialIdx {
			classes = append(classes, "round-content:partial-index")
		}

		classes = vc13Uniq(classes)

		// Byte clause: every file is its version 1 or the completely
		// delivered version 2.
		files, _, err := vc13ReadFiles(w.dir)
		if err != nil {
			t.Fatalf("harness: %v", err)
		}

		nNew, nOld := 0, 0
		check := func(file string, path string) {
			b, a := v1.Files[file], files[file]
			ui := info.urls[path]
			switch {
			case a != nil && bytes.Equal(a, b):
				nOld++
			case a != nil && ui.ok && hits[path] > 0 && bytes.Equal(a, ui.body):
				nNew++
			default:
				t.Fatalf(
					"C13 violated: after SIGKILL of a refreshing process the cache file %q is neither the previous nor the new complete version\n"+
						"previous: %s\nnew (%s): %s\nfound: %s\nin flight at the kill: %d, started %d, finished %d\ncase: %s",
					file, vc13Short(b), ui.kind, vc13Short(ui.body), vc13Short(a), inflight, started, finished, vc13JSON(k),
				)
			}
		}

		check(vc13IdxFile, vc13IdxPath)
		for _, s := range vc13Slots {
			check(s.file, s.path)
		}

		if nNew > 0 && nOld > 0 {
			classes = append(classes, "files:some-new-some-previous")
		} else if nNew == 0 {
			classes = append(classes, "files:all-previous")
		} else {
			classes = append(classes, "files:all-new")
		}

		if strays := vc13Strays(w.dir); len(strays) > 0 {
			classes = append(classes, "tmp:leftover-in-cache-dir")
		}

		// Restart clause.
		classes = append(classes, w.checkRestart(seq, &vc13Obs{Files: files}, true, nil)...)
		if len(k.Lowered) > 0 {
			classes = append(classes, w.checkRestart(seq, &vc13Obs{Files: files}, true, k.Lowered)...)
		}

		key := ""
		if nt {
			key = vc13JSON(k)
		}

		st.Case(key, vc13Uniq(classes)...)
		if nt && st.WantSample() {
			st.Sample(k)
		}
	})
}

// vc13SpinSleep waits for d with sub-millisecond precision.
func vc13SpinSleep(d time.Duration) {
	if d <= 0 {
		return
	}

	if d > 2*time.Millisecond {
		time.Sleep(d - time.Millisecond)
		d = time.Millisecond
	}

	end := time.Now().Add(d)
	for time.Now().Before(end) {
	}
}
