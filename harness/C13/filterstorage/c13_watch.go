//go:build verif

package filterstorage_test

// C13: the watchdog.  A refresh or a lookup that never returns cannot be told
// from a slow one by anything but time.  The harness, however, owns everything
// the code under test could be waiting for: the scripted server (its handlers
// are counted) and the files.  So a refresh or an in-memory lookup that has
// not returned after a generous limit while the server handles no request is
// reported as "filtering stopped serving", with the goroutines that are parked
// inside the code under test; if the server still handles a request, or the
// machine is merely slow, the run is inconclusive instead.

import (
	"fmt"
	"runtime"
	"strings"
	"sync/atomic"
	"time"
)

// vc13WatchFirst is the generous limit; a lookup takes microseconds, a refresh
// with scripted hangs well under a second.
const vc13WatchFirst = 90 * time.Second

// vc13WatchLater is the limit after the first hang of the process has been
// reported: the verdict is settled by then, and shrinking should not take ten
// minutes.
const vc13WatchLater = 4 * time.Second

// vc13WatchHung is set once a hang has been reported in this process.
var vc13WatchHung atomic.Bool

// vc13WatchLimit returns the current limit.
func vc13WatchLimit() (d time.Duration) {
	if vc13WatchHung.Load() {
		return vc13WatchLater
	}

	return vc13WatchFirst
}

// vc13Task is a function running in its own goroutine.
type vc13Task struct {
	done chan struct{}
	pnc  any
}

// vc13Go starts f.  f must not call Fatalf.
func vc13Go(f func()) (x *vc13Task) {
	x = &vc13Task{done: make(chan struct{})}
	go func() {
		defer close(x.done)
		defer func() { x.pnc = recover() }()

		f()
	}()

	return x
}

// wait reports whether the task has finished within d.
func (x *vc13Task) wait(d time.Duration) (finished bool) {
	tm := time.NewTimer(d)
	defer tm.Stop()

	select {
	case <-x.done:
		return true
	case <-tm.C:
		return false
	}
}

// vc13ParkedDump returns the stacks of the goroutines that are inside the
// filtering code of the repository.
func vc13ParkedDump() (dump string) {
	buf := make([]byte, 4<<20)
	buf = buf[:runtime.Stack(buf, true)]

	var keep []string
	for _, g := range strings.Split(string(buf), "\n\n") {
		if strings.Contains(g, "AdGuardDNS/internal/filter/") &&
			(strings.Contains(g, "/hashprefix.") || strings.Contains(g, "/rulelist.") ||
				strings.Contains(g, "/filterstorage.") || strings.Contains(g, "/serviceblock.") ||
				strings.Contains(g, "/refreshable.") || strings.Contains(g, "/composite.") ||
				strings.Contains(g, "/safesearch.")) {
			keep = append(keep, g)
		}

		if len(keep) >= 6 {
			break
		}
	}

	if len(keep) == 0 {
		return "(no goroutine inside the filtering code was found)"
	}

	return strings.Join(keep, "\n\n")
}

// vc13HangReport decides what a task that has not finished within the limit
// means.  verdict is "" if it finished after all, "violation" or
// "inconclusive"; msg describes it.
func vc13HangReport(x *vc13Task, srv *vc13Server, what string, limit time.Duration) (verdict, msg string) {
	// Is the harness holding anything?  Scripted hangs end with the client's
	// timeout or, at the latest, after the safety limit of the handler.
	for i := 0; i < 450 && srv != nil && srv.activeHandlers() > 0; i++ {
		if x.wait(100 * time.Millisecond) {
			return "", ""
		}
	}

	if srv != nil && srv.activeHandlers() > 0 {
		return "inconclusive", fmt.Sprintf(
			"%s has not returned after %s, but the scripted server is still handling %d request(s)",
			what, limit, srv.activeHandlers(),
		)
	}

	if x.wait(5 * time.Second) {
		return "", ""
	}

	dump := vc13ParkedDump()
	vc13WatchHung.Store(true)

	return "violation", fmt.Sprintf(
		"%s has not returned after %s although the harness holds nothing the code could be waiting for "+
			"(the scripted server handles no request): the filter stopped serving its content\n"+
			"goroutines parked inside the filtering code:\n%s",
		what, limit, dump,
	)
}

// watched runs f under the watchdog.  f must not call Fatalf.
func (w *vc13World) watched(what string, seq any, f func()) {
	limit := vc13WatchLimit()
	x := vc13Go(f)
	if !x.wait(limit) {
		switch verdict, msg := vc13HangReport(x, w.srv, what, limit); verdict {
		case "violation":
			w.t.Fatalf("C13 violated: %s\ncase: %s", msg, vc13JSON(seq))
		case "inconclusive":
			fmt.Println("VERIF-INCONCLUSIVE: " + msg)
			w.t.Fatalf("inconclusive: %s", msg)
		}
	}

	if x.pnc != nil {
		panic(x.pnc)
	}
}
