//go:build verif

package filterstorage_test

// C13: the fault-injecting download server.  One server serves every URL of
// one storage; its behaviour per path is scripted per refresh round.  See
// /verif/DESIGN.md, section 3, C13.

import (
	"fmt"
	"net"
	"net/http"
	"net/http/httptest"
	"strconv"
	"sync"
	"time"
)

// vc13Kind is the transport-level behaviour of one path in one round.
type vc13Kind string

// Transport behaviours.  The first two deliver a complete body with status
// 200; every other one is a fault named in the property statement.
const (
	vc13OKNew     vc13Kind = "ok_new"
	vc13OKSame    vc13Kind = "ok_same"
	vc13ConnClose vc13Kind = "conn_close"
	vc13HangHdr   vc13Kind = "hang_hdr"
	vc13HangBody  vc13Kind = "hang_body"
	vc13S404      vc13Kind = "s404"
	vc13S500      vc13Kind = "s500"

	// vc13Status is an answer with a status other than 200, see
	// vc13StatusCodes, and a body that is junk, a valid other version, or
	// empty.
	vc13Status   vc13Kind = "status"
	vc13Empty    vc13Kind = "empty"
	vc13Oversize vc13Kind = "oversize"

	// vc13OversizeChunked and vc13OversizeClose are complete bodies over the
	// size limit that do not announce their length: chunked transfer coding,
	// and HTTP/1.0-style delimiting by the end of the connection.
	vc13OversizeChunked vc13Kind = "oversize_chunked"
	vc13OversizeClose   vc13Kind = "oversize_close"
	vc13ShortCL         vc13Kind = "short_cl"
	vc13ChunkTrunc      vc13Kind = "chunk_trunc"
)

// vc13FaultKinds are all faulty transport behaviours.
var vc13FaultKinds = []vc13Kind{
	vc13ConnClose,
	vc13HangHdr,
	vc13HangBody,
	vc13S404,
	vc13S500,
	vc13Status,
	vc13Empty,
	vc13Oversize,
	vc13OversizeChunked,
	vc13OversizeClose,
	vc13ShortCL,
	vc13ChunkTrunc,
}

// vc13IsOK reports whether k delivers a complete body with status 200.
func vc13IsOK(k vc13Kind) (ok bool) { return k == vc13OKNew || k == vc13OKSame }

// vc13StatusCodes are the non-200 statuses that net/http hands to its caller
// as a response: the success class, the redirect class without anything the
// client would follow (300, 304, and 305 and 306, which it does not follow),
// client and server errors.
var vc13StatusCodes = []int{201, 202, 203, 206, 226, 300, 304, 305, 306, 400, 403, 404, 429, 500, 502, 503}

// vc13StatusBodies are the forms of the body of such an answer.
var vc13StatusBodies = []string{"junk", "valid", "empty"}

// vc13IsOversize reports whether k is a complete body over the size limit.
func vc13IsOversize(k vc13Kind) (ok bool) {
	return k == vc13Oversize || k == vc13OversizeChunked || k == vc13OversizeClose
}

// vc13IsHang reports whether k makes the client run into its timeout.
func vc13IsHang(k vc13Kind) (ok bool) { return k == vc13HangHdr || k == vc13HangBody }

// vc13Resp is the scripted response of one path.
type vc13Resp struct {
	kind vc13Kind

	// body is the complete body.  For partial kinds only body[:cut] is sent.
	body []byte
	cut  int

	// chunks and delay make complete bodies dribble (crash-point part).
	chunks int
	delay  time.Duration

	// code is the status of a vc13Status response.
	code int

	// form is how a complete body is delimited: "" (Content-Length),
	// "chunked" or "close" (HTTP/1.0-style, end of the connection).
	form string
}

// vc13Plan is the behaviour of the server for one round.
type vc13Plan struct {
	resps map[string]*vc13Resp

	// def, if not nil, is used for paths that have no entry.
	def *vc13Resp

	hits    map[string]int
	release chan struct{}

	// probe, if not nil, is called by handlers while a body is only partly
	// delivered: stage is "mid" between two chunks, "hung" while a partial
	// body hangs, "gaveup" after the client of a hanging body went away.
	probe func(path, stage string)

	// cancel, if not nil, is called when request number cancelOrd (counted
	// from 1 within the plan) arrives or, if cancelMid is set and the body
	// comes in pieces, after its first piece: the caller of the refresh
	// gives up at that instant.
	cancel    func()
	cancelOrd int
	cancelMid bool
	count     int
}

// vc13Trigger describes an instant during a round: chunk number chunk of the
// request with ordinal ord (counted from the arming of the trigger).
type vc13Trigger struct {
	ord   int
	chunk int
	ch    chan struct{}
	fired bool
}

// vc13Server is the fault-injecting server.
type vc13Server struct {
	srv *httptest.Server

	mu       sync.Mutex
	plan     *vc13Plan
	ordinal  int
	inflight int
	started  int
	finished int
	trig     *vc13Trigger

	// active is the number of requests that are being handled right now.
	active int
}

// activeHandlers returns the number of requests that the server is handling
// right now, that is, what the code under test could be waiting for.
func (s *vc13Server) activeHandlers() (n int) {
	s.mu.Lock()
	defer s.mu.Unlock()

	return s.active
}

// vc13NewServer starts a server with an empty plan (everything is 404).
func vc13NewServer() (s *vc13Server) {
	s = &vc13Server{}
	s.plan = &vc13Plan{resps: map[string]*vc13Resp{}, hits: map[string]int{}, release: make(chan struct{})}
	s.srv = httptest.NewServer(s)

	return s
}

// URL returns the base URL of the server.
func (s *vc13Server) URL() (u string) { return s.srv.URL }

// setPlan installs the behaviour for the next round.
func (s *vc13Server) setPlan(resps map[string]*vc13Resp, def *vc13Resp, probe func(path, stage string)) {
	s.setPlanCancel(resps, def, probe, nil, 0, false)
}

// setPlanCancel is like setPlan and also installs the instant at which the
// caller of the refresh gives up.
func (s *vc13Server) setPlanCancel(
	resps map[string]*vc13Resp,
	def *vc13Resp,
	probe func(path, stage string),
	cancel func(),
	cancelOrd int,
	cancelMid bool,
) {
	s.mu.Lock()
	defer s.mu.Unlock()

	s.plan = &vc13Plan{
		resps:     resps,
		def:       def,
		hits:      map[string]int{},
		release:   make(chan struct{}),
		probe:     probe,
		cancel:    cancel,
		cancelOrd: cancelOrd,
		cancelMid: cancelMid,
	}
}

// vc13ProbeSettle gives the client a moment to consume what was flushed before
// a probe looks at the files; it only affects what a probe can see.
const vc13ProbeSettle = 300 * time.Microsecond

// endRound releases every hanging handler of the current plan and returns the
// number of requests per path.
func (s *vc13Server) endRound() (hits map[string]int) {
	s.mu.Lock()
	defer s.mu.Unlock()

	select {
	case <-s.plan.release:
	default:
		close(s.plan.release)
	}

	hits = map[string]int{}
	for k, v := range s.plan.hits {
		hits[k] = v
	}

	return hits
}

// arm installs a trigger and resets the request ordinal.
func (s *vc13Server) arm(ord, chunk int) (ch chan struct{}) {
	s.mu.Lock()
	defer s.mu.Unlock()

	s.ordinal = 0
	s.started, s.finished = 0, 0
	s.trig = &vc13Trigger{ord: ord, chunk: chunk, ch: make(chan struct{})}

	return s.trig.ch
}

// snapshot returns the number of complete-body responses in flight, started
// and finished since the last arm.
func (s *vc13Server) snapshot() (inflight, started, finished int) {
	s.mu.Lock()
	defer s.mu.Unlock()

	return s.inflight, s.started, s.finished
}

// at is called by handlers at chunk boundaries.
func (s *vc13Server) at(ord, chunk int) {
	s.mu.Lock()
	defer s.mu.Unlock()

	if t := s.trig; t != nil && !t.fired && t.ord == ord && t.chunk == chunk {
		t.fired = true
		close(t.ch)
	}
}

// atRequest is called by handlers of responses that have no chunk boundaries.
func (s *vc13Server) atRequest(ord int) {
	s.mu.Lock()
	defer s.mu.Unlock()

	if t := s.trig; t != nil && !t.fired && t.ord == ord {
		t.fired = true
		close(t.ch)
	}
}

// close shuts the server down.  All rounds must have been ended.
func (s *vc13Server) close() {
	s.endRound()
	s.srv.CloseClientConnections()
	s.srv.Close()
}

// ServeHTTP implements the [http.Handler] interface for *vc13Server.
func (s *vc13Server) ServeHTTP(w http.ResponseWriter, r *http.Request) {
	s.mu.Lock()
	s.active++
	defer func() {
		s.mu.Lock()
		s.active--
		s.mu.Unlock()
	}()

	p := s.plan
	resp := p.resps[r.URL.Path]
	if resp == nil {
		resp = p.def
	}
	p.hits[r.URL.Path]++
	p.count++
	planOrd := p.count
	ord := s.ordinal
	s.ordinal++
	s.mu.Unlock()

	cancelNow := p.cancel != nil && p.cancelOrd == planOrd
	if cancelNow && !p.cancelMid {
		p.cancel()
		cancelNow = false
	}

	// midway is called between the pieces of a complete body.
	midway := func(stage string) {
		if cancelNow {
			cancelNow = false
			p.cancel()
			time.Sleep(vc13ProbeSettle)
		}

		if p.probe != nil {
			time.Sleep(vc13ProbeSettle)
			p.probe(r.URL.Path, stage)
		}
	}

	w.Header().Set("Server", "vc13/1.0")
	if resp == nil {
		http.Error(w, "vc13: no such path in this round", http.StatusNotFound)

		return
	}

	wait := func() {
		tm := time.NewTimer(20 * time.Second)
		defer tm.Stop()

		select {
		case <-r.Context().Done():
		case <-p.release:
		case <-tm.C:
		}
	}

	form := resp.form
	switch resp.kind {
	case vc13OversizeChunked:
		form = "chunked"
	case vc13OversizeClose:
		form = "close"
	}

	complete := vc13IsOK(resp.kind) || vc13IsOversize(resp.kind)
	if !complete || form != "" {
		s.atRequest(ord)
	}

	switch {
	case complete && form == "":
		s.writeComplete(w, p, resp, ord, midway)

		return
	case complete && form == "chunked":
		// No Content-Length and a flush before the end: the server uses the
		// chunked transfer coding and terminates it properly.
		w.Header().Set("Content-Type", "text/plain")
		w.WriteHeader(http.StatusOK)
		fl, _ := w.(http.Flusher)
		third := (len(resp.body) + 2) / 3
		for lo := 0; lo < len(resp.body); lo += third {
			if lo > 0 {
				midway("mid")
			}

			if _, err := w.Write(resp.body[lo:min(lo+third, len(resp.body))]); err != nil {
				return
			}

			if fl != nil {
				fl.Flush()
			}
		}

		return
	case complete && form == "close":
		if c := vc13Hijack(w); c != nil {
			_, _ = fmt.Fprintf(c, "HTTP/1.0 200 OK\r\nServer: vc13/1.0\r\nContent-Type: text/plain\r\n"+
				"Connection: close\r\n\r\n")
			half := len(resp.body) / 2
			_, _ = c.Write(resp.body[:half])
			if half > 0 {
				midway("mid")
			}
			_, _ = c.Write(resp.body[half:])
			if tc, ok := c.(*net.TCPConn); ok {
				_ = tc.CloseWrite()
			}
			_ = c.Close()
		}

		return
	case complete:
		http.Error(w, "vc13: bad form", http.StatusTeapot)

		return
	}

	switch resp.kind {
	case vc13Status:
		// No Location header, whatever the class.
		w.Header().Set("Content-Type", "text/plain")
		if resp.code == http.StatusPartialContent && len(resp.body) > 0 {
			w.Header().Set("Content-Range", fmt.Sprintf("bytes 0-%d/%d", len(resp.body)-1, len(resp.body)+100))
		}

		w.WriteHeader(resp.code)
		if len(resp.body) > 0 {
			// For 304 the server refuses a body; that is fine.
			_, _ = w.Write(resp.body)
		}
	case vc13S404:
		w.WriteHeader(http.StatusNotFound)
		_, _ = w.Write(resp.body)
	case vc13S500:
		w.WriteHeader(http.StatusInternalServerError)
		_, _ = w.Write(resp.body)
	case vc13Empty:
		w.Header().Set("Content-Length", "0")
		w.WriteHeader(http.StatusOK)
	case vc13HangHdr:
		wait()
	case vc13HangBody:
		w.Header().Set("Content-Length", strconv.Itoa(len(resp.body)))
		w.WriteHeader(http.StatusOK)
		_, _ = w.Write(resp.body[:resp.cut])
		if f, ok := w.(http.Flusher); ok {
			f.Flush()
		}
		if p.probe != nil {
			time.Sleep(10 * vc13ProbeSettle)
			p.probe(r.URL.Path, "hung")
		}
		wait()
		if p.probe != nil {
			p.probe(r.URL.Path, "gaveup")
		}
	case vc13ConnClose:
		if c := vc13Hijack(w); c != nil {
			_ = c.Close()
		}
	case vc13ShortCL:
		if c := vc13Hijack(w); c != nil {
			_, _ = fmt.Fprintf(c, "HTTP/1.1 200 OK\r\nServer: vc13/1.0\r\nContent-Type: text/plain\r\n"+
				"Content-Length: %d\r\n\r\n", len(resp.body))
			_, _ = c.Write(resp.body[:resp.cut])
			_ = c.Close()
		}
	case vc13ChunkTrunc:
		if c := vc13Hijack(w); c != nil {
			_, _ = fmt.Fprintf(c, "HTTP/1.1 200 OK\r\nServer: vc13/1.0\r\nContent-Type: text/plain\r\n"+
				"Transfer-Encoding: chunked\r\n\r\n%x\r\n", resp.cut)
			_, _ = c.Write(resp.body[:resp.cut])
			_, _ = c.Write([]byte("\r\n"))
			_ = c.Close()
		}
	default:
		http.Error(w, "vc13: bad kind", http.StatusTeapot)
	}
}

// writeComplete sends the whole body of resp, optionally in chunks with
// pauses.
func (s *vc13Server) writeComplete(w http.ResponseWriter, p *vc13Plan, resp *vc13Resp, ord int, midway func(stage string)) {
	s.mu.Lock()
	s.inflight++
	s.started++
	s.mu.Unlock()

	defer func() {
		s.mu.Lock()
		s.inflight--
		s.finished++
		s.mu.Unlock()
	}()

	w.Header().Set("Content-Length", strconv.Itoa(len(resp.body)))
	w.WriteHeader(http.StatusOK)

	n := resp.chunks
	if n <= 1 {
		s.at(ord, 0)
		_, _ = w.Write(resp.body)
		if f, ok := w.(http.Flusher); ok {
			f.Flush()
		}
		s.at(ord, 1)

		return
	}

	fl, _ := w.(http.Flusher)
	size := (len(resp.body) + n - 1) / n
	for i := 0; i < n; i++ {
		s.at(ord, i)

		lo, hi := min(i*size, len(resp.body)), min((i+1)*size, len(resp.body))
		if i > 0 && lo < len(resp.body) {
			// A part of the body is still to be sent.
			midway("mid")
		}
		if _, err := w.Write(resp.body[lo:hi]); err != nil {
			return
		}

		if fl != nil {
			fl.Flush()
		}

		if resp.delay > 0 && i < n-1 {
			time.Sleep(resp.delay)
		}
	}

	s.at(ord, n)
}

// vc13Hijack takes the connection over.
func vc13Hijack(w http.ResponseWriter) (c net.Conn) {
	hj, ok := w.(http.Hijacker)
	if !ok {
		return nil
	}

	c, _, err := hj.Hijack()
	if err != nil {
		return nil
	}

	return c
}
