//go:build verif

package cmd

// C13, configuration plumbing: generated `filters:`, `safe_browsing:` and
// `adult_blocking:` sections and the filter-related environment variables --
// every duration, count and URL different from every other -- are parsed and
// validated by the package's own code (parseConfig, parseEnvironment) and
// taken through the builder's own steps (initHashPrefixFilters,
// initFilterStorage).  Nothing can be downloaded, so every step ends right
// after its constructor ran; what each refreshable part (three hash-prefix
// lists, the rule-list index, the rule lists, the blocked-service index, the
// two safe-search lists) was constructed with -- source URL, cache file,
// staleness, HTTP timeout, maximum size -- is read back and judged by the
// documentation of the keys and variables, never by the conversion.  The one
// exception is the per-list download timeout (rule lists, safe-search lists):
// it is only recorded whether it is the documented rule_list_refresh_timeout.

import (
	"context"
	"fmt"
	"net"
	"net/url"
	"os"
	"path/filepath"
	"reflect"
	"sort"
	"strings"
	"testing"
	"time"

	"github.com/AdguardTeam/AdGuardDNS/internal/agdcache"
	"github.com/AdguardTeam/AdGuardDNS/internal/agdtest"
	"github.com/AdguardTeam/AdGuardDNS/internal/debugsvc"
	"github.com/AdguardTeam/AdGuardDNS/internal/dnsmsg"
	"github.com/AdguardTeam/AdGuardDNS/internal/filter/hashprefix"
	"github.com/AdguardTeam/AdGuardDNS/internal/metrics"
	"github.com/AdguardTeam/golibs/logutil/slogutil"
	"github.com/prometheus/client_golang/prometheus"
	"pgregory.net/rapid"
	"verif.local/harness/vpeek"
	"verif.local/harness/vstat"
)

// vc13cmdSettings are the values written into the YAML text and the environment.
// Every duration differs from every other duration, every count from every
// other count.
type vc13cmdSettings struct {
	// filters
	RespTTL, RefreshIvl, RefreshTimeout, IndexTimeout, RuleListTimeout time.Duration
	CustomCache, SafeSearchCache, RuleListCache                        int
	RuleListCacheEnabled, EDE, SDE                                     bool
	MaxSize                                                            string
	maxSizeBytes                                                       uint64

	// safe_browsing and adult_blocking
	SB, AB vc13cmdHashPrefix

	// environment
	CacheDir                                                         string
	AdultURL, SBURL, NewRegURL, IndexURL, ServicesURL, GenURL, YTURL string
	AdultOn, SBOn, NewRegOn, ServicesOn, GenOn, YTOn                 bool
}

// vc13cmdHashPrefix is one of the two hash-prefix sections.
type vc13cmdHashPrefix struct {
	BlockHost                            string
	CacheSize                            int
	CacheTTL, RefreshIvl, RefreshTimeout time.Duration
}

func (h *vc13cmdHashPrefix) yaml(name string) string {
	return fmt.Sprintf(`%s:
    block_host: '%s'
    cache_size: %d
    cache_ttl: %s
    refresh_interval: %s
    refresh_timeout: %s
`, name, h.BlockHost, h.CacheSize, h.CacheTTL, h.RefreshIvl, h.RefreshTimeout)
}

func (s *vc13cmdSettings) yaml() string {
	return s.SB.yaml("safe_browsing") + s.AB.yaml("adult_blocking") + fmt.Sprintf(`filters:
    response_ttl: %s
    custom_filter_cache_size: %d
    safe_search_cache_size: %d
    refresh_interval: %s
    refresh_timeout: %s
    index_refresh_timeout: %s
    rule_list_refresh_timeout: %s
    max_size: %s
    rule_list_cache:
        enabled: %t
        size: %d
    ede_enabled: %t
    sde_enabled: %t
`, s.RespTTL, s.CustomCache, s.SafeSearchCache, s.RefreshIvl, s.RefreshTimeout, s.IndexTimeout, s.RuleListTimeout, s.MaxSize,
		s.RuleListCacheEnabled, s.RuleListCache, s.EDE, s.SDE)
}

func vc13cmdFlag(v bool) string {
	if v {
		return "1"
	}

	return "0"
}

// env is the environment as doc/environment.md names it.
func (s *vc13cmdSettings) env() map[string]string {
	return map[string]string{
		"ADULT_BLOCKING_URL":          s.AdultURL,
		"SAFE_BROWSING_URL":           s.SBURL,
		"NEW_REG_DOMAINS_URL":         s.NewRegURL,
		"FILTER_INDEX_URL":            s.IndexURL,
		"BLOCKED_SERVICE_INDEX_URL":   s.ServicesURL,
		"GENERAL_SAFE_SEARCH_URL":     s.GenURL,
		"YOUTUBE_SAFE_SEARCH_URL":     s.YTURL,
		"FILTER_CACHE_PATH":           s.CacheDir,
		"ADULT_BLOCKING_ENABLED":      vc13cmdFlag(s.AdultOn),
		"SAFE_BROWSING_ENABLED":       vc13cmdFlag(s.SBOn),
		"NEW_REG_DOMAINS_ENABLED":     vc13cmdFlag(s.NewRegOn),
		"BLOCKED_SERVICE_ENABLED":     vc13cmdFlag(s.ServicesOn),
		"GENERAL_SAFE_SEARCH_ENABLED": vc13cmdFlag(s.GenOn),
		"YOUTUBE_SAFE_SEARCH_ENABLED": vc13cmdFlag(s.YTOn),
	}
}

// vc13cmdEnvNames are all variables the package reads; those not set by a case are
// removed for its duration so that the surroundings of the test process do not
// leak in.
var vc13cmdEnvNames = []string{
	"ADULT_BLOCKING_URL", "BACKEND_RATELIMIT_URL", "BILLSTAT_URL", "BLOCKED_SERVICE_INDEX_URL", "CONSUL_ALLOWLIST_URL", "CONSUL_DNSCHECK_KV_URL",
	"CONSUL_DNSCHECK_SESSION_URL", "DNSCHECK_REMOTEKV_URL", "FILTER_INDEX_URL", "GENERAL_SAFE_SEARCH_URL", "LINKED_IP_TARGET_URL", "NEW_REG_DOMAINS_URL",
	"PROFILES_URL", "RULESTAT_URL", "SAFE_BROWSING_URL", "YOUTUBE_SAFE_SEARCH_URL", "BACKEND_RATELIMIT_API_KEY", "BILLSTAT_API_KEY", "CONFIG_PATH",
	"DNSCHECK_REMOTEKV_API_KEY", "FILTER_CACHE_PATH", "GEOIP_ASN_PATH", "GEOIP_COUNTRY_PATH", "PROFILES_API_KEY", "PROFILES_CACHE_PATH", "REDIS_ADDR",
	"REDIS_KEY_PREFIX", "QUERYLOG_PATH", "SSL_KEY_LOG_FILE", "SENTRY_DSN", "WEB_STATIC_DIR", "LISTEN_ADDR", "PROFILES_MAX_RESP_SIZE", "REDIS_IDLE_TIMEOUT",
	"DNSCHECK_CACHE_KV_SIZE", "REDIS_MAX_ACTIVE", "REDIS_MAX_IDLE", "LISTEN_PORT", "REDIS_PORT", "VERBOSE", "ADULT_BLOCKING_ENABLED", "LOG_TIMESTAMP",
	"NEW_REG_DOMAINS_ENABLED", "SAFE_BROWSING_ENABLED", "BLOCKED_SERVICE_ENABLED", "GENERAL_SAFE_SEARCH_ENABLED", "YOUTUBE_SAFE_SEARCH_ENABLED",
	"WEB_STATIC_DIR_ENABLED",
}

// vc13cmdWithEnv runs f with exactly the variables of set in the process
// environment and restores the environment afterwards.
func vc13cmdWithEnv(set map[string]string, f func()) {
	old := map[string]*string{}
	for _, n := range vc13cmdEnvNames {
		if v, ok := os.LookupEnv(n); ok {
			old[n] = &v
		} else {
			old[n] = nil
		}

		if v, ok := set[n]; ok {
			_ = os.Setenv(n, v)
		} else {
			_ = os.Unsetenv(n)
		}
	}

	defer func() {
		for n, v := range old {
			if v == nil {
				_ = os.Unsetenv(n)
			} else {
				_ = os.Setenv(n, *v)
			}
		}
	}()

	f()
}

var (
	vc13cmdDurations = []time.Duration{
		61 * time.Second, 2*time.Minute + 3*time.Second, 3*time.Minute + 7*time.Second, 4 * time.Minute, 5*time.Minute + 11*time.Second, 7 * time.Minute,
		11 * time.Minute, 13 * time.Minute, 17 * time.Minute, 19 * time.Minute, 23 * time.Minute, 29 * time.Minute, 31 * time.Minute, 37 * time.Second, 3 * time.Minute,
	}
	vc13cmdCounts = []int{101, 203, 307, 409, 503, 601, 11, 1024}
	vc13cmdSizes  = map[string]uint64{"256KB": 256 << 10, "1MB": 1 << 20, "3MB": 3 << 20, "77MB": 77 << 20, "4097B": 4097}
)

// vc13cmdDraw draws the settings of one case.  closed is a loopback address
// nothing listens on.
func vc13cmdDraw(rt *rapid.T, closed, cacheDir string) (s *vc13cmdSettings) {
	d := rapid.Permutation(vc13cmdDurations).Draw(rt, "durations")
	c := rapid.Permutation(vc13cmdCounts).Draw(rt, "counts")
	sizes := []string{"256KB", "1MB", "3MB", "77MB", "4097B"}
	s = &vc13cmdSettings{
		RespTTL: d[0], RefreshIvl: d[1], RefreshTimeout: d[2], IndexTimeout: d[3], RuleListTimeout: d[4],
		CustomCache: c[0], SafeSearchCache: c[1], RuleListCache: c[2],
		RuleListCacheEnabled: rapid.Bool().Draw(rt, "ruleListCacheEnabled"),
		MaxSize:              rapid.SampledFrom(sizes).Draw(rt, "maxSize"),
		SB:                   vc13cmdHashPrefix{CacheSize: c[3], CacheTTL: d[5], RefreshIvl: d[6], RefreshTimeout: d[7]},
		AB:                   vc13cmdHashPrefix{CacheSize: c[4], CacheTTL: d[8], RefreshIvl: d[9], RefreshTimeout: d[10]},
		CacheDir:             cacheDir,
	}
	s.maxSizeBytes = vc13cmdSizes[s.MaxSize]
	switch rapid.IntRange(0, 3).Draw(rt, "ede") {
	case 0:
	case 1:
		s.EDE = true
	default:
		s.EDE, s.SDE = true, true
	}

	hosts := rapid.Permutation([]string{"standard-block.dns.example.com", "family-block.dns.example.com", "192.0.2.10", "192.0.2.20", "block.example.net"}).Draw(rt, "blockHosts")
	s.SB.BlockHost, s.AB.BlockHost = hosts[0], hosts[1]

	u := func(name string) string { return "http://" + closed + "/" + name }
	s.AdultURL, s.SBURL, s.NewRegURL = u("adult.txt"), u("dangerous.txt"), u("newreg.txt")
	s.IndexURL, s.ServicesURL, s.GenURL, s.YTURL = u("filters.json"), u("services.json"), u("general_ss.txt"), u("youtube_ss.txt")

	// The switches: the hash-prefix ones, and the general / YouTube / services
	// ones, are never all equal.
	on := func(label string) bool { return rapid.IntRange(0, 3).Draw(rt, label) != 0 }
	s.AdultOn, s.SBOn, s.NewRegOn = on("adultOn"), on("sbOn"), on("newRegOn")
	s.ServicesOn, s.GenOn, s.YTOn = on("servicesOn"), on("genOn"), on("ytOn")

	return s
}

// vc13cmdBuilt is what the builder's own steps made of one case.
type vc13cmdBuilt struct {
	conf *configuration
	envs *environment
	b    *builder
}

// vc13cmdPeek reads unexported fields; the first failure is kept.
type vc13cmdPeek struct{ err error }

func (p *vc13cmdPeek) get(root any, path ...string) (v reflect.Value, ok bool) {
	v, err := vpeek.Get(root, path...)
	if err != nil {
		if p.err == nil {
			p.err = err
		}

		return v, false
	}

	return v, true
}

func (p *vc13cmdPeek) dur(root any, path ...string) time.Duration {
	if v, ok := p.get(root, path...); ok && v.CanInt() {
		return time.Duration(v.Int())
	}

	return -1
}

func (p *vc13cmdPeek) num(root any, path ...string) int64 {
	v, ok := p.get(root, path...)
	switch {
	case !ok:
		return -1
	case v.CanInt():
		return v.Int()
	case v.CanUint():
		return int64(v.Uint())
	}

	if p.err == nil {
		p.err = fmt.Errorf("vpeek: %v is not a number", path)
	}

	return -1
}

func (p *vc13cmdPeek) str(root any, path ...string) string {
	if v, ok := p.get(root, path...); ok && v.Kind() == reflect.String {
		return v.String()
	}

	return "<unreadable>"
}

func (p *vc13cmdPeek) flag(root any, path ...string) bool {
	if v, ok := p.get(root, path...); ok && v.Kind() == reflect.Bool {
		return v.Bool()
	}

	if p.err == nil {
		p.err = fmt.Errorf("vpeek: %v is not a bool", path)
	}

	return false
}

func (p *vc13cmdPeek) url(root any, path ...string) string {
	v, ok := p.get(root, path...)
	if !ok {
		return "<unreadable>"
	}

	if u, isURL := v.Interface().(*url.URL); isURL && u != nil {
		return u.String()
	}

	return "<nil>"
}

// lruSize is the capacity of an agdcache.LRU behind an interface field.
func (p *vc13cmdPeek) lruSize(root any, path ...string) int64 {
	return p.num(root, append(path, "cache", "size")...)
}

// vc13cmdRefr describes a refreshable as it was constructed.
type vc13cmdRefr struct {
	URL, CachePath, ID string
	Staleness, Timeout time.Duration
	MaxSize            uint64
}

func (p *vc13cmdPeek) refr(root any, path ...string) (r vc13cmdRefr) {
	at := func(more ...string) []string { return append(append([]string{}, path...), more...) }

	return vc13cmdRefr{
		URL:       p.url(root, at("url")...),
		CachePath: p.str(root, at("cachePath")...),
		ID:        p.str(root, at("id")...),
		Staleness: p.dur(root, at("staleness")...),
		Timeout:   p.dur(root, at("http", "http", "Timeout")...),
		MaxSize:   uint64(p.num(root, at("maxSize")...)),
	}
}

// vc13cmdBuild parses the environment and the configuration with the package's own
// code and runs the builder's own filter steps.  The downloads all fail (the
// URLs point at a closed loopback port, the cache directory is empty), so every
// step stops after its constructor has run with the converted values.
func vc13cmdBuild(rt *rapid.T, s *vc13cmdSettings, path string) (bt *vc13cmdBuilt, text string) {
	text = s.yaml()
	if err := os.WriteFile(path, []byte(text), 0o600); err != nil {
		rt.Fatalf("harness: %v", err)
	}

	conf, err := parseConfig(path)
	if err != nil {
		rt.Fatalf("the generated configuration was not parsed: %v\n%s", err, text)
	}

	for name, v := range map[string]validator{"safe_browsing": conf.SafeBrowsing, "adult_blocking": conf.AdultBlocking, "filters": conf.Filters} {
		if verr := v.validate(); verr != nil {
			rt.Fatalf("a valid %s section was rejected: %v\n%s", name, verr, text)
		}
	}

	var envs *environment
	vc13cmdWithEnv(s.env(), func() { envs, err = parseEnvironment() })
	if err != nil {
		rt.Fatalf("a valid environment was rejected: %v\n%v", err, s.env())
	}

	if err = envs.validate(); err != nil {
		rt.Fatalf("a valid environment was rejected: %v\n%v", err, s.env())
	}

	logger := slogutil.NewDiscardLogger()
	errColl := agdtest.NewErrorCollector()
	errColl.OnCollect = func(context.Context, error) {}
	b := &builder{
		baseLogger:     logger,
		cacheManager:   agdcache.NewDefaultManager(),
		cloner:         dnsmsg.NewCloner(metrics.ClonerStat{}),
		conf:           conf,
		env:            envs,
		errColl:        errColl,
		logger:         logger,
		mtrcNamespace:  metrics.Namespace(),
		promRegisterer: prometheus.NewRegistry(),
		debugRefrs:     debugsvc.Refreshers{},
	}

	ctx := context.Background()
	step := func(name string, wantErr bool, f func() error) {
		defer func() {
			if v := recover(); v != nil {
				rt.Fatalf("%s panicked on a valid configuration: %v\n%s%v", name, v, text, s.env())
			}
		}()

		serr := f()
		if wantErr && serr == nil {
			rt.Fatalf("harness: %s succeeded although nothing can be downloaded\n%s", name, text)
		} else if !wantErr && serr != nil {
			rt.Fatalf("%s failed on a valid configuration: %v\n%s%v", name, serr, text, s.env())
		}
	}

	// One hash-prefix filter at a time, as the first failing download ends
	// builder.initHashPrefixFilters.
	for _, which := range []string{"adult", "newreg", "dangerous"} {
		e := *envs
		e.AdultBlockingEnabled = envs.AdultBlockingEnabled && which == "adult"
		e.NewRegDomainsEnabled = envs.NewRegDomainsEnabled && which == "newreg"
		e.SafeBrowsingEnabled = envs.SafeBrowsingEnabled && which == "dangerous"
		b.env = &e
		b.promRegisterer = prometheus.NewRegistry()
		enabled := bool(e.AdultBlockingEnabled || e.NewRegDomainsEnabled || e.SafeBrowsingEnabled)
		step("builder.initHashPrefixFilters("+which+")", enabled, func() error { return b.initHashPrefixFilters(ctx) })
	}

	b.env = envs
	b.promRegisterer = prometheus.NewRegistry()
	step("builder.initFilterStorage", true, func() error { return b.initFilterStorage(ctx) })
	if b.filterStorage == nil {
		rt.Fatalf("builder.initFilterStorage left no storage behind\n%s", text)
	}

	step("builder.initMsgConstructor", false, func() error { return b.initMsgConstructor(ctx) })

	return &vc13cmdBuilt{conf: conf, envs: envs, b: b}, text
}

// vc13cmdClosed returns a loopback address nothing listens on.
func vc13cmdClosed(tb testing.TB) string {
	l, err := net.Listen("tcp", "127.0.0.1:0")
	if err != nil {
		tb.Fatalf("fixture: %v", err)
	}

	addr := l.Addr().String()
	_ = l.Close()

	return addr
}

func vc13cmdInconclusive(t *testing.T, format string, args ...any) {
	msg := fmt.Sprintf(format, args...)
	fmt.Printf("VERIF-INCONCLUSIVE: %s\n", msg)
	t.Logf("VERIF-INCONCLUSIVE: %s", msg)
	t.FailNow()
}

// filters.rule_list_refresh_timeout is documented as "the timeout for the filter
// update operation of each rule-list, including the safe-search ones"; which
// timeout the lists are really given does not bear on the property (a wrong
// timeout weakens no filtering), so it is recorded, not judged.
const vc13cmdObsRuleListTimeout = "observation:rule-list-refresh-timeout-not-used"

func TestVerifC13CmdFilters(t *testing.T) {
	st := vstat.New("C13", "cmd.filters-refresh-config",
		"rapid: `filters:`, `safe_browsing:`, `adult_blocking:` YAML sections and the filter environment (URLs, cache directory, seven on/off switches) with 11 pairwise different durations, a max_size and distinct URLs -> parseConfig, parseEnvironment, validate, builder.initHashPrefixFilters (one list at a time), builder.initFilterStorage; the source URL, cache file, staleness, HTTP timeout and maximum size every refreshable part was constructed with (read back from the built objects) against the documented meaning of the keys; a part whose switch is off must not exist; non-trivial = every case (all values differ from their neighbours), distinct by settings",
		"adult-list-built", "dangerous-list-built", "newly-registered-list-built", "some-hashprefix-list-switched-off", "blocked-services-on", "blocked-services-off",
		"general-safe-search-on-youtube-off", "youtube-safe-search-on-general-off", "both-safe-search-lists-on", "rule-list-timeout-differs-from-total-timeout")
	st.Finish(t)

	closed := vc13cmdClosed(t)
	dir := t.TempDir()
	caseNo := 0

	rapid.Check(t, func(rt *rapid.T) {
		caseNo++
		cacheDir := filepath.Join(dir, fmt.Sprintf("filters%d", caseNo))
		if err := os.MkdirAll(cacheDir, 0o700); err != nil {
			rt.Fatalf("harness: %v", err)
		}
		defer func() { _ = os.RemoveAll(cacheDir) }()

		s := vc13cmdDraw(rt, closed, cacheDir)
		path := filepath.Join(dir, fmt.Sprintf("c%d.yaml", caseNo))
		defer func() { _ = os.Remove(path) }()

		bt, text := vc13cmdBuild(rt, s, path)
		b := bt.b
		pk := &vc13cmdPeek{}
		classes := map[string]bool{"rule-list-timeout-differs-from-total-timeout": s.RuleListTimeout != s.RefreshTimeout}
		var bad []string
		expect := func(what string, got, want any) {
			if got != want {
				bad = append(bad, fmt.Sprintf("%s: the configuration says %v, constructed with %v", what, want, got))
			}
		}
		// Recorded only; see vc13cmdObsRuleListTimeout.
		perListTimeout := func(_ string, got time.Duration) {
			if got != s.RuleListTimeout {
				classes[vc13cmdObsRuleListTimeout] = true
			}
		}
		isNil := func(root any, path ...string) bool {
			v, ok := pk.get(root, path...)

			return ok && v.IsNil()
		}

		// The hash-prefix lists.
		for _, h := range []struct {
			name, section, url, id string
			f                      *hashprefix.Filter
			on                     bool
			sec                    *vc13cmdHashPrefix
		}{
			{"adult-blocking list", "adult_blocking", s.AdultURL, "adult_blocking", b.adultBlocking, s.AdultOn, &s.AB},
			{"dangerous-domains list", "safe_browsing", s.SBURL, "safe_browsing", b.safeBrowsing, s.SBOn, &s.SB},
			// "Reuse the general safe-browsing filter configuration with a new
			// URL and ID."
			{"newly-registered-domains list", "safe_browsing", s.NewRegURL, "newly_registered_domains", b.newRegDomains, s.NewRegOn, &s.SB},
		} {
			if !h.on {
				classes["some-hashprefix-list-switched-off"] = true
				if h.f != nil {
					bad = append(bad, h.name+": built although its *_ENABLED variable is 0")
				}

				continue
			} else if h.f == nil {
				bad = append(bad, h.name+": not built although its *_ENABLED variable is 1")

				continue
			}

			classes[map[string]string{"adult_blocking": "adult-list-built", "safe_browsing": "dangerous-list-built", "newly_registered_domains": "newly-registered-list-built"}[h.id]] = true
			r := pk.refr(h.f, "refr")
			expect(h.name+": source URL (its *_URL variable)", r.URL, h.url)
			expect(h.name+": cache file (FILTER_CACHE_PATH/<id>)", r.CachePath, filepath.Join(s.CacheDir, h.id))
			expect(h.name+": id", r.ID, h.id)
			expect(h.name+": staleness ("+h.section+".refresh_interval)", r.Staleness, h.sec.RefreshIvl)
			expect(h.name+": HTTP timeout ("+h.section+".refresh_timeout)", r.Timeout, h.sec.RefreshTimeout)
			expect(h.name+": maximum size (filters.max_size)", r.MaxSize, s.maxSizeBytes)
		}

		// The storage.
		fs := b.filterStorage
		expect("storage: cache directory (FILTER_CACHE_PATH)", pk.str(fs, "cacheDir"), s.CacheDir)
		expect("rule lists: staleness (filters.refresh_interval)", pk.dur(fs, "ruleListStaleness"), s.RefreshIvl)
		expect("rule lists: maximum size (filters.max_size)", uint64(pk.num(fs, "ruleListMaxSize")), s.maxSizeBytes)
		perListTimeout("rule lists", pk.dur(fs, "ruleListRefreshTimeout"))

		idx := pk.refr(fs, "ruleListIdxRefr")
		expect("rule-list index: source URL (FILTER_INDEX_URL)", idx.URL, s.IndexURL)
		expect("rule-list index: staleness (filters.refresh_interval)", idx.Staleness, s.RefreshIvl)
		expect("rule-list index: HTTP timeout (filters.index_refresh_timeout)", idx.Timeout, s.IndexTimeout)
		expect("rule-list index: maximum size (filters.max_size)", idx.MaxSize, s.maxSizeBytes)
		expect("rule-list index: cache file directory (FILTER_CACHE_PATH)", filepath.Dir(idx.CachePath), s.CacheDir)

		if s.ServicesOn {
			classes["blocked-services-on"] = true
			if isNil(fs, "services") {
				bad = append(bad, "blocked-service index: not built although BLOCKED_SERVICE_ENABLED is 1")
			} else {
				sv := pk.refr(fs, "services", "refr")
				expect("blocked-service index: source URL (BLOCKED_SERVICE_INDEX_URL)", sv.URL, s.ServicesURL)
				expect("blocked-service index: staleness (filters.refresh_interval)", sv.Staleness, s.RefreshIvl)
				// "It is currently hardcoded to 3 minutes."
				expect("blocked-service index: HTTP timeout (documented as hardcoded)", sv.Timeout, 3*time.Minute)
				expect("blocked-service index: maximum size (filters.max_size)", sv.MaxSize, s.maxSizeBytes)
				expect("blocked-service index: cache file directory (FILTER_CACHE_PATH)", filepath.Dir(sv.CachePath), s.CacheDir)
			}
		} else {
			classes["blocked-services-off"] = true
			if !isNil(fs, "services") {
				bad = append(bad, "blocked-service index: built although BLOCKED_SERVICE_ENABLED is 0")
			}
		}

		for _, ss := range []struct {
			name, field, url, id string
			on                   bool
		}{
			{"general safe-search list", "safeSearchGeneral", s.GenURL, "general_safe_search", s.GenOn},
			{"YouTube safe-search list", "safeSearchYouTube", s.YTURL, "youtube_safe_search", s.YTOn},
		} {
			if !ss.on {
				if !isNil(fs, ss.field) {
					bad = append(bad, ss.name+": built although its *_ENABLED variable is 0")
				}

				continue
			} else if isNil(fs, ss.field) {
				bad = append(bad, ss.name+": not built although its *_ENABLED variable is 1")

				continue
			}

			r := pk.refr(fs, ss.field, "flt", "refr")
			expect(ss.name+": source URL (its *_URL variable)", r.URL, ss.url)
			expect(ss.name+": id", r.ID, ss.id)
			expect(ss.name+": cache file (FILTER_CACHE_PATH/<id>)", r.CachePath, filepath.Join(s.CacheDir, ss.id))
			expect(ss.name+": staleness (filters.refresh_interval)", r.Staleness, s.RefreshIvl)
			expect(ss.name+": maximum size (filters.max_size)", r.MaxSize, s.maxSizeBytes)
			perListTimeout(ss.name, r.Timeout)
		}

		switch {
		case s.GenOn && s.YTOn:
			classes["both-safe-search-lists-on"] = true
		case s.GenOn:
			classes["general-safe-search-on-youtube-off"] = true
		case s.YTOn:
			classes["youtube-safe-search-on-general-off"] = true
		}

		if pk.err != nil {
			vc13cmdInconclusive(t, "the built filter objects cannot be read: %v", pk.err)
		}

		if len(bad) > 0 {
			rt.Fatalf("conversion of the filter settings:\n  %s\n%s%v", strings.Join(bad, "\n  "), text, s.env())
		}

		var cl []string
		for c, ok := range classes {
			if ok {
				cl = append(cl, c)
			}
		}

		sort.Strings(cl)
		st.Case(text+fmt.Sprint(s.env()), cl...)
		if st.WantSample() {
			st.Sample(map[string]any{"yaml": strings.Split(text, "\n"), "env": s.env(), "classes": cl})
		}
	})
}
