//go:build verif

package dnssvc_test

// C07 (b): N request streams of different clients and profiles go through the
// handlers of dnssvc.NewHandlers (production cloner, ECS cache, real rate-limit
// and main middlewares) at once; every response and every record left in the
// query log, billing, rule statistics and DNSDB is compared with what the same
// request gets when it is the only request a fresh stack ever sees.

import (
	"fmt"
	"net/netip"
	"reflect"
	"runtime"
	"slices"
	"sort"
	"strings"
	"sync"
	"testing"

	"github.com/AdguardTeam/AdGuardDNS/internal/agd"
	"github.com/AdguardTeam/AdGuardDNS/internal/dnssvc"
	"github.com/miekg/dns"
	"pgregory.net/rapid"
	"verif.local/harness/vdns"
	"verif.local/harness/vstat"
)

// ---------------------------------------------------------------------------
// Generation.

var vc07ClientPool = []vc07Client{
	{Via: "anon", Prof: 0, Remote: netip.MustParseAddr("203.0.113.5")},
	{Via: "anon", Prof: 0, Remote: netip.MustParseAddr("203.0.113.70")},
	{Via: "anon", Prof: 0, Remote: netip.MustParseAddr("2001:db8:c1::5"), ECS: "192.0.2.0", ECSBits: 24},
	{Via: "anon", Prof: 0, Remote: netip.MustParseAddr("198.51.100.200")},
	{Via: "sni", Prof: 1, Dev: 0, Remote: netip.MustParseAddr("203.0.113.6")},
	{Via: "cpe", Prof: 1, Dev: 0, Remote: netip.MustParseAddr("203.0.113.71"), ECS: "2001:db8:e1::", ECSBits: 48},
	{Via: "linked", Prof: 1, Dev: 1, Remote: netip.MustParseAddr("203.0.113.77")},
	{Via: "sni", Prof: 2, Dev: 0, Remote: netip.MustParseAddr("203.0.113.5")},
	{Via: "cpe", Prof: 2, Dev: 0, Remote: netip.MustParseAddr("2001:db8:c2::9"), ECS: "0.0.0.0", ECSBits: 0},
	{Via: "linked", Prof: 3, Dev: 0, Remote: netip.MustParseAddr("2001:db8:c2::77")},
	{Via: "sni", Prof: 3, Dev: 0, Remote: netip.MustParseAddr("203.0.113.8")},
	{Via: "sni", Prof: 4, Dev: 0, Remote: netip.MustParseAddr("203.0.113.72"), ECS: "192.0.2.64", ECSBits: 26},
	{Via: "cpe", Prof: 4, Dev: 0, Remote: netip.MustParseAddr("203.0.113.9")},
	// a device with filtering switched off in a profile that filters
	{Via: "cpe", Prof: 4, Dev: 1, Remote: netip.MustParseAddr("203.0.113.12")},
	// a device whose address has no location at all
	{Via: "sni", Prof: 2, Dev: 0, Remote: netip.MustParseAddr("198.51.100.201")},
	// subnets that end inside an octet, and one that no location covers
	{Via: "anon", Prof: 0, Remote: netip.MustParseAddr("203.0.113.10"), ECS: "192.0.2.128", ECSBits: 25},
	{Via: "cpe", Prof: 1, Dev: 0, Remote: netip.MustParseAddr("2001:db8:c1::6"), ECS: "2001:db8:e1:80::", ECSBits: 57},
	// two client-subnet options
	{Via: "anon", Prof: 0, Remote: netip.MustParseAddr("203.0.113.11"), ECS: "192.0.2.0", ECSBits: 24, ECS2: "203.0.113.0"},
	{Via: "sni", Prof: 4, Dev: 0, Remote: netip.MustParseAddr("203.0.113.73"), ECS: "2001:db8:e1::", ECSBits: 48, ECS2: "192.0.2.0"},
}

// vc07DrawName draws a name k<kind>t<ttl>.<cat>.<scope>.test.
func vc07DrawName(t *rapid.T) string {
	// Minimal names: the root and a one-letter top-level name.
	if rapid.IntRange(0, 11).Draw(t, "plainName") == 0 {
		return rapid.SampledFrom([]string{".", "a."}).Draw(t, "plain")
	}

	kind := rapid.SampledFrom([]vdns.Kind{vdns.KA, vdns.KA, vdns.KA, vdns.KAMixed, vdns.KCNAME, vdns.KNodataSOA, vdns.KNX, vdns.KServfail, vdns.KRefused, vdns.KTTL0}).Draw(t, "kind")
	ttlIdx := rapid.SampledFrom([]int{6, 6, 5, 4, 0}).Draw(t, "ttlIdx")
	cat := rapid.SampledFrom(vc07CatList).Draw(t, "cat")
	scope := rapid.SampledFrom([]string{"u", "u", "s"}).Draw(t, "scope")

	return vdns.Name(kind, ttlIdx, cat+"."+scope+".test.")
}

type vc07Case struct {
	// Burst: every stream repeats one request many times on one shared name.
	Burst bool
	Conf  vc07StackConf
	Reqs  []*vc07Req
	// Streams lists the requests of every stream, in order.
	Streams [][]*vc07Req
}

func vc07DrawCase(t *rapid.T, st *vstat.Stats, maxStreams, maxPerStream int) (c *vc07Case) {
	c = &vc07Case{}
	c.Conf.known = st.Known
	c.Conf.OverrideTTL = rapid.Bool().Draw(t, "overrideTTL")
	// The ECS cache, the simple cache, or no cache at all (every answer is then
	// the upstream's decoded message).
	c.Conf.CacheType = rapid.SampledFrom([]dnssvc.CacheType{dnssvc.CacheTypeECS, dnssvc.CacheTypeECS, dnssvc.CacheTypeECS, dnssvc.CacheTypeSimple, dnssvc.CacheTypeSimple, dnssvc.CacheTypeNone}).Draw(t, "cacheType")

	// One case in three runs on the real filter storage (shared rule lists with
	// result caches, per-profile custom rules) and the real profile database.
	c.Conf.Real = rapid.IntRange(0, 2).Draw(t, "real") == 0
	c.Burst = c.Conf.Real && maxStreams > 5 && rapid.Bool().Draw(t, "burst")

	names := make([]string, rapid.IntRange(1, 4).Draw(t, "nNames"))
	for i := range names {
		if c.Conf.Real && (i == 0 || rapid.Bool().Draw(t, "mlName")) {
			// A name that several rules of the shared list, a second list and
			// custom rules match; with a CNAME answer the response stage matches
			// as well.
			kind := rapid.SampledFrom([]vdns.Kind{vdns.KA, vdns.KA, vdns.KCNAME, vdns.KAMixed}).Draw(t, "mlKind")
			names[i] = vdns.Name(kind, 6, "ml."+rapid.SampledFrom([]string{"u", "u", "s"}).Draw(t, "mlScope")+".test.")
		} else if c.Conf.Real && rapid.Bool().Draw(t, "cnameName") {
			// Passes the request stage; the CNAME target of the answer is
			// matched at the response stage (rule lists first, then custom).
			names[i] = vdns.Name(vdns.KCNAME, 6, "ok."+rapid.SampledFrom([]string{"u", "s"}).Draw(t, "cnScope")+".test.")
		} else {
			names[i] = vc07DrawName(t)
		}
	}

	if c.Burst && rapid.Bool().Draw(t, "burstOnResponseStage") {
		names[0] = vdns.Name(vdns.KCNAME, 6, "ok.u.test.")
	}

	burstQType := rapid.SampledFrom([]uint16{dns.TypeA, dns.TypeA, dns.TypeAAAA}).Draw(t, "burstQType")
	nStreams := rapid.IntRange(2, maxStreams).Draw(t, "nStreams")
	if c.Burst {
		nStreams = rapid.IntRange(4, maxStreams).Draw(t, "nBurstStreams")
	}

	n := 0
	for s := 0; s < nStreams; s++ {
		cl := rapid.SampledFrom(vc07ClientPool).Draw(t, "client")
		k := rapid.IntRange(1, maxPerStream).Draw(t, "nReqs")
		repeats := 0
		if c.Burst {
			k, repeats = 1, rapid.IntRange(6, 20).Draw(t, "repeats")
		}

		var stream []*vc07Req
		for i := 0; i < k; i++ {
			n++
			r := &vc07Req{
				Name:   vdns.MixCase(t, rapid.SampledFrom(names).Draw(t, "name")),
				QType:  rapid.SampledFrom([]uint16{dns.TypeA, dns.TypeA, dns.TypeA, dns.TypeAAAA, dns.TypeHTTPS, dns.TypeTXT}).Draw(t, "qtype"),
				Debug:  rapid.IntRange(0, 5).Draw(t, "debug") == 0,
				DO:     rapid.IntRange(0, 3).Draw(t, "do") == 0,
				AD:     rapid.IntRange(0, 3).Draw(t, "ad") == 0,
				CD:     rapid.IntRange(0, 5).Draw(t, "cd") == 0,
				RD:     rapid.IntRange(0, 5).Draw(t, "rd") != 0,
				EDNS:   rapid.Bool().Draw(t, "edns"),
				Cookie: rapid.IntRange(0, 3).Draw(t, "cookie") == 0,
			}
			if rapid.IntRange(0, 5).Draw(t, "zbits") == 0 {
				r.Z = uint16(rapid.IntRange(1, 0x7fff).Draw(t, "z"))
			}

			// A near miss: an earlier request of the case again, with exactly one
			// component changed (or only the client, if the stream's differs).
			if len(c.Reqs) > 0 && rapid.IntRange(0, 2).Draw(t, "nearMiss") == 0 {
				r0 := c.Reqs[rapid.IntRange(0, len(c.Reqs)-1).Draw(t, "nearMissOf")]
				*r = *r0
				r.NearMissOf = r0.N
				r.Changed = rapid.SampledFrom([]string{"do", "ad", "cd", "rd", "edns", "case", "qtype", "debug", "cookie", "z", "nothing"}).Draw(t, "change")
				switch r.Changed {
				case "do":
					r.DO = !r.DO
				case "ad":
					r.AD = !r.AD
				case "cd":
					r.CD = !r.CD
				case "rd":
					r.RD = !r.RD
				case "edns":
					r.EDNS = !r.EDNS
				case "case":
					b := []byte(r.Name)
					for i := range b {
						if b[i] >= 'a' && b[i] <= 'z' {
							b[i] -= 32

							break
						} else if b[i] >= 'A' && b[i] <= 'Z' {
							b[i] += 32

							break
						}
					}

					r.Name = string(b)
				case "qtype":
					r.QType = map[uint16]uint16{dns.TypeA: dns.TypeAAAA, dns.TypeAAAA: dns.TypeA, dns.TypeHTTPS: dns.TypeA, dns.TypeTXT: dns.TypeA}[r.QType]
				case "debug":
					r.Debug = !r.Debug
				case "cookie":
					r.Cookie = !r.Cookie
				case "z":
					r.Z ^= 1
				}
			}

			r.N, r.Stream, r.Client, r.Real, r.CookieSeed = n, s, cl, c.Conf.Real, n
			if c.Burst {
				r.Name, r.QType, r.NearMissOf, r.Changed = names[0], burstQType, 0, ""
			}
			r.MsgID = rapid.SampledFrom([]uint16{uint16(1000 + n), uint16(1000 + n), 0, 65535, 1}).Draw(t, "msgID")
			r.Cancel = rapid.IntRange(0, 14).Draw(t, "cancel") == 0
			r.Yield = rapid.IntRange(0, 3).Draw(t, "yield")
			if c.Burst {
				r.Cancel = false
			}

			r.build()
			stream = append(stream, r)
			c.Reqs = append(c.Reqs, r)
			// The same request again and again: only the request ID differs.
			for j := 0; j < repeats; j++ {
				n++
				rep := *r
				rep.N, rep.Yield = n, 0
				rep.build()
				stream = append(stream, &rep)
				c.Reqs = append(c.Reqs, &rep)
			}
		}

		c.Streams = append(c.Streams, stream)
	}

	return c
}

func (c *vc07Case) expect() map[agd.RequestID]*vc07Req {
	m := map[agd.RequestID]*vc07Req{}
	for _, r := range c.Reqs {
		m[r.ID] = r
	}

	return m
}

func (c *vc07Case) String() string {
	var b strings.Builder
	fmt.Fprintf(&b, "stack %s\n", c.Conf)
	for _, r := range c.Reqs {
		fmt.Fprintf(&b, "    %s\n", r)
	}

	return b.String()
}

// ---------------------------------------------------------------------------
// Comparison.

// vc07Render renders a decoded message with owner names lower-cased (RFC 4343)
// and, if maskTTL, the TTLs of ordinary records zeroed.
func vc07Render(wire []byte, maskTTL, dropOPT bool) (s string, ttls []uint32, m *dns.Msg) {
	if wire == nil {
		return "<no response>", nil, nil
	}

	m = &dns.Msg{}
	if err := m.Unpack(wire); err != nil {
		return fmt.Sprintf("<undecodable: %v>", err), nil, nil
	}

	if dropOPT {
		m.Extra = slices.DeleteFunc(m.Extra, func(rr dns.RR) bool { return rr.Header().Rrtype == dns.TypeOPT })
	}

	for _, sec := range [][]dns.RR{m.Answer, m.Ns, m.Extra} {
		for _, rr := range sec {
			h := rr.Header()
			h.Name = strings.ToLower(h.Name)
			h.Rdlength = 0
			if _, ok := rr.(*dns.OPT); ok {
				continue
			}

			ttls = append(ttls, h.Ttl)
			if maskTTL {
				h.Ttl = 0
			}
		}
	}

	return vc07Dump(m), ttls, m
}

// vc07Dump renders everything reachable from v.
func vc07Dump(v any) string {
	var b strings.Builder
	vc07DumpVal(&b, reflect.ValueOf(v))

	return b.String()
}

func vc07DumpVal(b *strings.Builder, v reflect.Value) {
	switch v.Kind() {
	case reflect.Ptr, reflect.Interface:
		if v.IsNil() {
			b.WriteString("nil")

			return
		}

		if v.Kind() == reflect.Interface {
			b.WriteString(v.Elem().Type().String())
		}

		vc07DumpVal(b, v.Elem())
	case reflect.Struct:
		b.WriteByte('{')
		for i := 0; i < v.NumField(); i++ {
			b.WriteString(v.Type().Field(i).Name)
			b.WriteByte(':')
			vc07DumpVal(b, v.Field(i))
			b.WriteByte(' ')
		}

		b.WriteByte('}')
	case reflect.Slice:
		if v.Type().Elem().Kind() == reflect.Uint8 {
			fmt.Fprintf(b, "x'%x'", v.Bytes())

			return
		}

		b.WriteByte('[')
		for i := 0; i < v.Len(); i++ {
			vc07DumpVal(b, v.Index(i))
			b.WriteByte(',')
		}

		b.WriteByte(']')
	case reflect.String:
		fmt.Fprintf(b, "%q", v.String())
	case reflect.Bool:
		fmt.Fprintf(b, "%t", v.Bool())
	case reflect.Int, reflect.Int8, reflect.Int16, reflect.Int32, reflect.Int64:
		fmt.Fprintf(b, "%d", v.Int())
	case reflect.Uint, reflect.Uint8, reflect.Uint16, reflect.Uint32, reflect.Uint64:
		fmt.Fprintf(b, "%d", v.Uint())
	default:
		panic(fmt.Errorf("vc07Dump: unsupported kind %s", v.Kind()))
	}
}

// vc07Verdict tells what the request's own profile does with it.
func vc07Verdict(r *vc07Req) string {
	if d := r.Client.device(); d != nil && d.NoFilter {
		return "pass"
	}

	if r.Real {
		// The real rule lists decide; the harness has no model of them.
		if vc07Profiles[r.Client.Prof].Filtering {
			return "real"
		}

		return "pass"
	}

	return vc07Decide(r.Client.Prof, r.Name, r.QType)
}

// vc07Signature identifies everything of a request that its outcome alone on
// a fresh stack can depend on.
func vc07Signature(r *vc07Req) string {
	return fmt.Sprintf("%s|%q|%d|%d|%t%t%t%t%t%t|%d|%t|%d|%t", r.Client, r.Name, r.QType, r.MsgID, r.Debug, r.DO, r.AD, r.CD, r.RD, r.EDNS, r.Z, r.Cookie, r.CookieSeed, r.Cancel)
}

func vc07EventsString(evs []vc07Event) string {
	ss := make([]string, 0, len(evs))
	for _, e := range evs {
		ss = append(ss, e.Kind+": "+e.Data)
	}

	sort.Strings(ss)

	return strings.Join(ss, "\n        ")
}

// vc07Compare checks one outcome of a shared run against the outcome the same
// request has alone, and against what the request itself says.
func vc07Compare(r *vc07Req, got, alone vc07Outcome, simpleCache bool) (problems []string) {
	bad := func(format string, args ...any) { problems = append(problems, fmt.Sprintf(format, args...)) }
	if got.Err != "" {
		bad("%s", got.Err)
	}

	if got.Writes != alone.Writes {
		bad("%d responses written, %d when alone", got.Writes, alone.Writes)
	}

	verdict := vc07Verdict(r)
	if verdict == "real" {
		// Blocked by a rule (no rewrites are configured): the records are the
		// server's own.
		for _, e := range alone.Events {
			if e.Kind == "rulestat" && strings.Contains(e.Data, "||") && !strings.Contains(e.Data, "@@") {
				verdict = "blocked"
			}
		}
	}

	// A hit of the simple cache carries no OPT record at all (the cache leaves
	// it to the socket server's normalisation, which is outside the handlers),
	// while a miss passes the upstream's on: for answers that come from the
	// upstream the OPT record is then not part of the comparison.
	dropOPT := simpleCache && (verdict == "pass" || verdict == "allowed" || verdict == "cname" || verdict == "real")
	gs, gTTL, gm := vc07Render(got.Wire, true, dropOPT)
	as, aTTL, _ := vc07Render(alone.Wire, true, dropOPT)
	if gs != as {
		bad("response differs from the one the request gets alone:\n        got   %s\n        alone %s", gs, as)
	} else {
		for i := range gTTL {
			// Records built by the server for this request carry the profile's
			// TTL exactly; records that may come from the cache may only be
			// older.
			exact := verdict == "blocked" || verdict == "resp-blocked" || verdict == "rewritten" || verdict == "safe-browsing" || (verdict == "cname" && i == 0)
			if gTTL[i] > aTTL[i] || (exact && gTTL[i] != aTTL[i]) {
				bad("TTL of record %d is %d, alone %d (verdict %s)", i, gTTL[i], aTTL[i], verdict)
			}
		}
	}

	if ge, ae := vc07EventsString(got.Events), vc07EventsString(alone.Events); ge != ae {
		bad("recorded events differ:\n      got\n        %s\n      alone\n        %s", ge, ae)
	}

	// Direct identity checks on the shared-run response (with its real TTLs).
	if gm != nil {
		_, _, gm = vc07Render(got.Wire, false, false)
	}

	if gm != nil {
		qc := uint16(dns.ClassINET)
		if r.Debug {
			qc = dns.ClassCHAOS
		}

		if gm.Id != r.MsgID || len(gm.Question) != 1 || gm.Question[0] != (dns.Question{Name: r.Name, Qtype: r.QType, Qclass: qc}) {
			bad("response id %d question %v do not belong to the request", gm.Id, gm.Question)
		}

		if r.Debug {
			problems = append(problems, vc07CheckDebug(r, gm)...)
		}

		problems = append(problems, vc07CheckShape(r, gm)...)
	}

	problems = append(problems, vc07CheckEvents(r, got.Events)...)

	return problems
}

// vc07CheckDebug checks the CHAOS TXT records of a debug response against the
// identity of the client that asked.
func vc07CheckDebug(r *vc07Req, m *dns.Msg) (problems []string) {
	vals := map[string]string{}
	for _, rr := range m.Extra {
		txt, ok := rr.(*dns.TXT)
		if !ok || txt.Hdr.Class != dns.ClassCHAOS {
			continue
		}

		key := strings.TrimSuffix(txt.Hdr.Name, ".adguard-dns.com.")
		vals[key] = strings.Join(txt.Txt, "")
	}

	p := vc07Profiles[r.Client.Prof]
	want := map[string]string{"client-ip": r.Client.Remote.String(), "server-ip": vc07DNSAddr.Addr().String()}
	// doc/debugdns.md: the result type, with the prefix of the stage that
	// decided.
	switch v := vc07Verdict(r); v {
	case "real":
		// decided by the real rule lists
	case "pass":
		want["resp.res-type"] = "normal"
	case "blocked":
		want["req.res-type"], want["req.rule-list-id"] = "blocked", "vc07_"+p.ID
	case "resp-blocked":
		want["resp.res-type"], want["resp.rule-list-id"] = "blocked", "vc07_"+p.ID
	case "allowed":
		want["req.res-type"], want["req.rule-list-id"] = "allowed", "vc07_"+p.ID
	case "safe-browsing":
		want["req.res-type"] = "modified"
	default:
		want["req.res-type"], want["req.rule-list-id"] = "modified", "vc07_"+p.ID
	}

	// doc/debugdns.md: the TTL of the debug records is the configured
	// filters.response_ttl (the default constructor's), whoever asks.
	for _, rr := range m.Extra {
		if txt, ok := rr.(*dns.TXT); ok && txt.Hdr.Class == dns.ClassCHAOS && txt.Hdr.Ttl != uint32(vc07Profiles[0].TTL.Seconds()) {
			problems = append(problems, fmt.Sprintf("debug record %s has TTL %d, want %d", txt.Hdr.Name, txt.Hdr.Ttl, uint32(vc07Profiles[0].TTL.Seconds())))
		}
	}
	if d := r.Client.device(); d != nil {
		want["device-id"], want["profile-id"] = d.ID, p.ID
	}

	if l := vc07Location(r.Client.Remote); l != nil {
		want["country"], want["asn"] = string(l.Country), fmt.Sprint(l.ASN)
	}

	for k, w := range want {
		if vals[k] != w {
			problems = append(problems, fmt.Sprintf("debug record %s is %q, the client's is %q (all: %v)", k, vals[k], w, vals))
		}
	}

	if r.Client.device() == nil && (vals["device-id"] != "" || vals["profile-id"] != "") {
		problems = append(problems, fmt.Sprintf("anonymous client got debug identity %v", vals))
	}

	for k, v := range vals {
		if strings.HasSuffix(k, "rule") && !vc07RuleMayApply(r, v) {
			problems = append(problems, fmt.Sprintf("debug record %s names rule %q of another profile", k, v))
		}
	}

	return problems
}

// vc07CheckShape checks a filtered response against the blocking mode, the
// TTL and the rewrite targets of the asker's own profile (doc/configuration.md,
// blocking modes), independently of any run of the stack.
func vc07CheckShape(r *vc07Req, m *dns.Msg) (problems []string) {
	p := vc07Profiles[r.Client.Prof]
	ttl := uint32(p.TTL.Seconds())
	bad := func(format string, args ...any) {
		problems = append(problems, fmt.Sprintf("verdict %s, profile %q (%s, ttl %d): ", vc07Verdict(r), p.ID, p.Mode, ttl)+fmt.Sprintf(format, args...))
	}

	// oneIP checks that the answer is exactly one address record.
	oneIP := func(want string) {
		if m.Rcode != dns.RcodeSuccess || len(m.Answer) != 1 {
			bad("rcode %d with %d answers, want NOERROR with one", m.Rcode, len(m.Answer))

			return
		}

		got := ""
		switch a := m.Answer[0].(type) {
		case *dns.A:
			got = a.A.String()
		case *dns.AAAA:
			got = a.AAAA.String()
		}

		if got != want || m.Answer[0].Header().Ttl != ttl {
			bad("answer %s, want address %s with the profile's TTL", m.Answer[0], want)
		}
	}

	isA, isAAAA := r.QType == dns.TypeA, r.QType == dns.TypeAAAA
	switch vc07Verdict(r) {
	case "blocked", "resp-blocked":
		switch {
		case p.Mode == "nxdomain" || p.Mode == "refused":
			want := map[string]int{"nxdomain": dns.RcodeNameError, "refused": dns.RcodeRefused}[p.Mode]
			if m.Rcode != want || len(m.Answer) != 0 {
				bad("rcode %d with %d answers, want rcode %d and none", m.Rcode, len(m.Answer), want)
			}
		case p.Mode == "nullip" && isA:
			oneIP("0.0.0.0")
		case p.Mode == "nullip" && isAAAA:
			oneIP("::")
		case p.Mode == "customip" && isA:
			oneIP(vc07CustomV4[0].String())
		case p.Mode == "customip" && isAAAA:
			oneIP(vc07CustomV6[0].String())
		default:
			if m.Rcode != dns.RcodeSuccess || len(m.Answer) != 0 {
				bad("rcode %d with %d answers, want NODATA", m.Rcode, len(m.Answer))
			}

			for _, rr := range m.Ns {
				if rr.Header().Ttl != ttl {
					bad("authority record %s does not carry the profile's TTL", rr)
				}
			}
		}
	case "rewritten":
		oneIP(vc07RwIP(r.Client.Prof, r.QType).String())
	case "safe-browsing":
		if isA {
			oneIP(vc07SbIP.String())
		}
	case "cname":
		if len(m.Answer) == 0 {
			bad("no answers")

			break
		}

		cn, ok := m.Answer[0].(*dns.CNAME)
		if !ok || cn.Target != vc07CnTarget(r.Client.Prof) || cn.Hdr.Ttl != ttl || !strings.EqualFold(cn.Hdr.Name, r.Name) {
			bad("first answer %s, want a CNAME to %s with the profile's TTL", m.Answer[0], vc07CnTarget(r.Client.Prof))
		}
	}

	return problems
}

// vc07RuleMayApply reports whether text, which names a rule (and possibly a
// list), can be the asker's: rules carry the profile or the device they were
// written for, lists belong to some profiles only.
func vc07RuleMayApply(r *vc07Req, text string) bool {
	p := vc07Profiles[r.Client.Prof]
	if !r.Real {
		i := strings.Index(text, "$client=")

		return i < 0 || strings.HasSuffix(text, "$client="+p.ID) || strings.Contains(text, "$client="+p.ID+" ")
	}

	if i := strings.Index(text, "client=name-"); i >= 0 {
		d := r.Client.device()
		if d == nil || !strings.HasPrefix(text[i+len("client="):], "name-"+d.ID) {
			return false
		}
	}

	for _, id := range []string{"vc07_l1", "vc07_l2", "vc07_l3"} {
		if !strings.Contains(text, id) {
			continue
		}

		mine := false
		for _, own := range vc07RealProfileLists[r.Client.Prof] {
			mine = mine || string(own) == id
		}

		if !mine {
			return false
		}
	}

	return true
}

// vc07CheckEvents checks what the request left in the recorders against the
// request itself.
func vc07CheckEvents(r *vc07Req, evs []vc07Event) (problems []string) {
	p := vc07Profiles[r.Client.Prof]
	count := map[string]int{}
	for _, e := range evs {
		count[e.Kind]++
		switch e.Kind {
		case "querylog":
			dev := r.Client.device()
			if dev == nil || !p.QueryLog {
				problems = append(problems, "query log entry for a client that is not logged: "+e.Data)

				break
			}

			remote := ""
			if p.IPLog {
				remote = r.Client.Remote.String()
			}

			ctry, asn := "", 0
			if l := vc07Location(r.Client.Remote); l != nil {
				ctry, asn = string(l.Country), int(l.ASN)
			}

			want := fmt.Sprintf("prof=%s dev=%s name=%s qt=%d ", p.ID, dev.ID, r.Name, r.QType)
			want2 := fmt.Sprintf(" cctry=%s casn=%d ", ctry, asn)
			want3 := fmt.Sprintf(" remote=%s ", remote)
			if !strings.HasPrefix(e.Data, want) || !strings.Contains(e.Data, want2) || !strings.Contains(e.Data, want3) {
				problems = append(problems, fmt.Sprintf("query log entry %q does not describe the request (want %q, %q, %q)", e.Data, want, want2, want3))
			}

			for _, f := range strings.Fields(e.Data) {
				if (strings.HasPrefix(f, "req=") || strings.HasPrefix(f, "resp=")) && !vc07RuleMayApply(r, f) {
					problems = append(problems, "query log entry names a rule of another profile or device: "+e.Data)
				}
			}
		case "bill":
			dev := r.Client.device()
			if dev == nil || !strings.HasPrefix(e.Data, "dev="+dev.ID+" ") {
				problems = append(problems, "billing record does not belong to the client's device: "+e.Data)
			}
		case "rulestat":
			if !vc07RuleMayApply(r, e.Data) {
				problems = append(problems, "rule statistics name a rule or a list of another profile or device: "+e.Data)
			}
		}
	}

	for _, k := range []string{"querylog", "bill", "rulestat", "dnsdb"} {
		if count[k] > 1 {
			problems = append(problems, fmt.Sprintf("%d %s records for one request", count[k], k))
		}
	}

	return problems
}

// ---------------------------------------------------------------------------
// Runs.

// vc07Alone serves every request on its own fresh stack.
func vc07Alone(c *vc07Case) (outs map[int]vc07Outcome, fails []string) {
	outs = map[int]vc07Outcome{}
	exp := c.expect()
	memo := map[string]vc07Outcome{}
	for _, r := range c.Reqs {
		sig := vc07Signature(r)
		if out, ok := memo[sig]; ok {
			outs[r.N] = out

			continue
		}

		st := vc07NewStack(c.Conf, exp)
		outs[r.N] = st.serve(r)
		memo[sig] = outs[r.N]
		fails = append(fails, st.fails...)
	}

	return outs, fails
}

// vc07Classify returns the classes and the non-triviality of a case.
func vc07Classify(c *vc07Case, upstreamCalls int64, alone map[int]vc07Outcome) (classes []string, nontrivial bool) {
	set := map[string]bool{}
	profsByName := map[string]map[int]bool{}
	verdictsByName := map[string]map[string]bool{}
	mlAskers, mlCustom := map[string]map[string]bool{}, map[string]bool{}
	for _, r := range c.Reqs {
		key := fmt.Sprintf("%s|%d", strings.ToLower(r.Name), r.QType)
		if profsByName[key] == nil {
			profsByName[key], verdictsByName[key] = map[int]bool{}, map[string]bool{}
		}

		profsByName[key][r.Client.Prof] = true
		v := vc07Verdict(r)
		verdictsByName[key][v] = true
		set["verdict-"+v] = true
		set["via-"+r.Client.Via] = true
		if r.Debug {
			set["debug-query"] = true
		}

		if r.Client.ECS != "" {
			set["ecs-client"] = true
		}

		if r.QType == dns.TypeHTTPS {
			set["https-question"] = true
		}

		if r.NearMissOf > 0 {
			set["near-miss"] = true
			set["near-miss-"+r.Changed] = true
		}

		if r.Cancel {
			set["cancelled-context"] = true
		}

		if d := r.Client.device(); d != nil && d.NoFilter {
			set["device-filtering-off"] = true
		}

		if r.Real {
			set["real-filters-and-profiledb"] = true
			for _, e := range alone[r.N].Events {
				if e.Kind != "rulestat" || !strings.Contains(e.Data, " ") || strings.HasSuffix(e.Data, " ") {
					continue
				}

				switch {
				case strings.Contains(e.Data, "client="):
					set["real-rule-client"] = true
				case strings.Contains(e.Data, "@@"):
					set["real-rule-exception"] = true
				case strings.Contains(e.Data, "important"):
					set["real-rule-important"] = true
				default:
					set["real-rule-block"] = true
				}

				if strings.Contains(e.Data, "target") {
					set["real-rule-response-stage"] = true
				}
			}
			kind := vdns.Kind(-1)
			if vc07InScheme(r.Name) {
				kind, _ = vdns.KindOf(r.Name)
			}

			if cat, _ := vc07CatOf(r.Name); cat == "ml" || (cat == "ok" && kind == vdns.KCNAME && r.QType != dns.TypeHTTPS) {
				set["real-multi-rule-name"] = true
				mk := fmt.Sprintf("%s|%d", strings.ToLower(r.Name), r.QType)
				if mlAskers[mk] == nil {
					mlAskers[mk] = map[string]bool{}
				}

				mlAskers[mk][fmt.Sprintf("%d/%d", r.Client.Prof, r.Client.Dev)] = true
				mlCustom[mk] = mlCustom[mk] || len(vc07RealProfileLists[r.Client.Prof]) > 1
			}
		}

		if r.Client.ECS2 != "" {
			set["two-ecs-options"] = true
		}

		if r.MsgID == 0 {
			set["msg-id-zero"] = true
		}

		if !vc07InScheme(r.Name) {
			set["minimal-name"] = true
		} else if cat, _ := vc07CatOf(r.Name); cat == "err" {
			set["upstream-error"] = true
		} else if strings.Contains(cat, "-") {
			set["combined-categories"] = true
		}
	}

	for key, ps := range profsByName {
		if len(ps) >= 2 {
			nontrivial = true
			set["overlap-different-profiles"] = true
			if len(verdictsByName[key]) >= 2 {
				set["same-name-different-verdicts"] = true
			}
		}
	}

	if upstreamCalls < int64(len(c.Reqs)) {
		set["cache-hits"] = true
	}

	// A name matched by several rules of the shared cached list, by a second
	// list and by custom rules, asked by clients whose additional rules differ.
	for mk, askers := range mlAskers {
		if len(askers) >= 2 && mlCustom[mk] {
			set["same-name-multi-rule-list-plus-custom"] = true
			if c.Burst {
				set["same-name-multi-rule-list-plus-custom-burst"] = true
			}
		}
	}

	for k := range set {
		classes = append(classes, k)
	}

	return classes, nontrivial
}

// vc07Adjacent classifies consecutive requests of a single-goroutine history
// by the kind of requester: a pooled object released by one is most likely
// handed to the next.
func vc07Adjacent(order []*vc07Req) (classes []string) {
	set := map[string]bool{}
	hasOPT := func(r *vc07Req) bool {
		return r.EDNS || r.DO || r.Cookie || r.Client.ECS != "" || r.Client.Via == "cpe"
	}

	for i := 1; i < len(order); i++ {
		a, b := order[i-1], order[i]
		pa, pb := vc07Profiles[a.Client.Prof], vc07Profiles[b.Client.Prof]
		switch {
		case a.Client.Prof != 0 && b.Client.Prof == 0:
			set["adjacent-anon-after-profile"] = true
		case a.Client.Prof == 0 && b.Client.Prof != 0:
			set["adjacent-profile-after-anon"] = true
		case a.Client.Prof != b.Client.Prof:
			set["adjacent-other-profile"] = true
		}

		if pa.QueryLog && !pb.QueryLog {
			set["adjacent-unlogged-after-logged"] = true
		}

		if pa.IPLog && pb.QueryLog && !pb.IPLog {
			set["adjacent-noiplog-after-iplog"] = true
		}

		if hasOPT(a) && !hasOPT(b) {
			set["adjacent-noedns-after-edns"] = true
		}

		if a.Client.ECS != "" && b.Client.ECS == "" {
			set["adjacent-noecs-after-ecs"] = true
		}

		if a.Client.Via == "sni" && b.Client.Via != "sni" {
			set["adjacent-plain-after-dot"] = true
		}

		if a.QType == dns.TypeHTTPS && b.QType != dns.TypeHTTPS {
			set["adjacent-small-after-https"] = true
		}

		if a.Debug && !b.Debug {
			set["adjacent-normal-after-debug"] = true
		}

		if (a.Cancel || strings.Contains(strings.ToLower(a.Name), ".err.")) && !b.Cancel {
			set["adjacent-after-failed-request"] = true
		}
	}

	for k := range set {
		classes = append(classes, k)
	}

	return classes
}

// vc07SimpleHitAfterPooled classifies a simple-cache case: in the given order
// (nil: any order), an upstream answer is cached, then some response is built
// from the cloner's pools (a blocked or rewritten answer), then the cached
// question is asked again.
func vc07SimpleHitAfterPooled(c *vc07Case, order []*vc07Req) (classes []string) {
	if c.Conf.CacheType != dnssvc.CacheTypeSimple {
		return nil
	}

	classes = []string{"cache-simple"}
	reqs, ordered := order, order != nil
	if !ordered {
		reqs = c.Reqs
	}

	state := map[string]int{}
	pooled, repeat := false, false
	for _, r := range reqs {
		if r.Cancel {
			continue
		}

		cat, _ := vc07CatOf(r.Name)
		v := vc07Verdict(r)
		constructed := v == "blocked" || v == "resp-blocked" || v == "rewritten" || v == "safe-browsing" || v == "cname" || (v == "real" && cat == "ml")
		if constructed {
			pooled = true
			for k, st := range state {
				if st == 1 {
					state[k] = 2
				}
			}
		}

		if cat == "err" || (constructed && v != "resp-blocked" && v != "cname") {
			continue
		}

		if vc07InScheme(r.Name) {
			kind, ttl := vdns.KindOf(r.Name)
			if ok, _ := vdns.Cacheable(kind, r.QType, ttl); !ok && r.QType != dns.TypeHTTPS {
				continue
			}
		}

		key := fmt.Sprintf("%s|%d|%t", strings.ToLower(r.Name), r.QType, r.DO)
		switch state[key] {
		case 0:
			state[key] = 1
		case 1:
			repeat = true
		case 2:
			classes = append(classes, "simple-cache-hit-after-pooled-response")
		}
	}

	if !ordered && pooled && (repeat || len(classes) > 1) {
		classes = append(classes[:1], "simple-cache-repeat-with-pooled-response")
	}

	return classes
}

func vc07Report(t *rapid.T, c *vc07Case, what string, problems []string) {
	if len(problems) == 0 {
		return
	}

	t.Fatalf("%s:\n  %s\n  request set:\n    %s", what, strings.Join(problems, "\n  "), c)
}

// TestVerifC07StackSequential serves the streams interleaved in a drawn order
// on one stack from one goroutine: a sequential history is one of the
// interleavings, and it is reproducible and shrinkable.
func TestVerifC07StackSequential(t *testing.T) {
	st := vstat.New("C07", "stack.sequential",
		"rapid: 2..5 streams of 1..4 requests from a pool of 13 clients (anonymous, DoT device by server name, plain-DNS device by CPE-ID option or linked address; 4 profiles with different policies, blocking modes, TTLs and logging flags) over 1..4 shared names (7 filtering categories x answer kinds x ECS-scoped or not), qtypes A/AAAA/HTTPS/TXT, debug (CHAOS) queries, DO/AD/CD/RD/EDNS/Z/cookie/ECS variations; served interleaved in a drawn order by one goroutine on one stack from dnssvc.NewHandlers; every response and recorder entry compared with the same request alone on a fresh stack; non-trivial = two streams of different profiles ask the same (name, type); distinct by the request set",
		"overlap-different-profiles", "same-name-different-verdicts", "cache-hits", "debug-query", "verdict-blocked", "verdict-rewritten", "verdict-cname", "verdict-resp-blocked", "via-sni", "via-cpe", "via-linked", "via-anon", "ecs-client", "https-question",
		"near-miss", "near-miss-do", "near-miss-case", "near-miss-qtype", "near-miss-nothing", "combined-categories", "upstream-error", "cancelled-context", "two-ecs-options", "minimal-name", "msg-id-zero",
		"adjacent-anon-after-profile", "adjacent-other-profile", "adjacent-unlogged-after-logged", "adjacent-noiplog-after-iplog", "adjacent-noedns-after-edns", "adjacent-plain-after-dot", "adjacent-after-failed-request",
		"real-filters-and-profiledb", "same-name-multi-rule-list-plus-custom", "real-rule-block", "real-rule-exception", "real-rule-important", "real-rule-client", "real-rule-response-stage", "device-filtering-off",
		"cache-simple", "simple-cache-hit-after-pooled-response")
	st.Finish(t)

	rapid.Check(t, func(t *rapid.T) {
		c := vc07DrawCase(t, st, 5, 4)
		// The order: repeatedly pick a stream that still has requests.
		var order []*vc07Req
		next := make([]int, len(c.Streams))
		for len(order) < len(c.Reqs) {
			var avail []int
			for s := range c.Streams {
				if next[s] < len(c.Streams[s]) {
					avail = append(avail, s)
				}
			}

			s := avail[rapid.IntRange(0, len(avail)-1).Draw(t, "pick")]
			order = append(order, c.Streams[s][next[s]])
			next[s]++
		}

		alone, aloneFails := vc07Alone(c)
		vc07Report(t, c, "a request alone on a fresh stack is inconsistent with itself", aloneFails)

		shared := vc07NewStack(c.Conf, c.expect())
		var problems []string
		for _, r := range order {
			out := shared.serve(r)
			for _, p := range vc07Compare(r, out, alone[r.N], c.Conf.CacheType == dnssvc.CacheTypeSimple) {
				problems = append(problems, fmt.Sprintf("request %s: %s", r, p))
			}
		}

		problems = append(problems, shared.fails...)
		classes, nt := vc07Classify(c, shared.up.calls.Load(), alone)
		classes = append(classes, vc07Adjacent(order)...)
		classes = append(classes, vc07SimpleHitAfterPooled(c, order)...)
		key := ""
		if nt {
			key = c.String()
		}

		st.Case(key, classes...)
		if st.WantSample() && nt {
			st.Sample(strings.Split(c.String(), "\n"))
		}

		var ord []int
		for _, r := range order {
			ord = append(ord, r.N)
		}

		vc07Report(t, c, fmt.Sprintf("sequential history %v", ord), problems)
	})
}

// TestVerifC07StackConcurrent runs every stream in its own goroutine on one
// stack.  Schedules are sampled; a failure is a real execution.
func TestVerifC07StackConcurrent(t *testing.T) {
	st := vstat.New("C07", "stack.concurrent",
		"the same request sets, 2..8 streams of 1..5 requests, every stream in its own goroutine on one stack (start together, drawn scheduler yields before each request), two repetitions on fresh stacks; responses and recorder entries compared with the same request alone on a fresh stack; under the race detector when built with -race; non-trivial = two streams of different profiles ask the same (name, type)",
		"overlap-different-profiles", "same-name-different-verdicts", "cache-hits", "debug-query", "verdict-blocked", "verdict-cname", "near-miss", "combined-categories", "upstream-error", "cancelled-context",
		"same-name-multi-rule-list-plus-custom", "same-name-multi-rule-list-plus-custom-burst", "real-rule-client", "real-rule-response-stage",
		"cache-simple", "simple-cache-repeat-with-pooled-response")
	st.Finish(t)

	reps := vstat.Scale(2, 3)
	rapid.Check(t, func(t *rapid.T) {
		c := vc07DrawCase(t, st, 8, 5)
		alone, aloneFails := vc07Alone(c)
		vc07Report(t, c, "a request alone on a fresh stack is inconsistent with itself", aloneFails)

		var problems []string
		var calls int64
		for rep := 0; rep < reps; rep++ {
			shared := vc07NewStack(c.Conf, c.expect())
			outs := make([][]vc07Outcome, len(c.Streams))
			start := make(chan struct{})
			wg := &sync.WaitGroup{}
			for s, stream := range c.Streams {
				outs[s] = make([]vc07Outcome, len(stream))
				wg.Add(1)
				go func() {
					defer wg.Done()
					<-start
					for i, r := range stream {
						for y := 0; y < r.Yield+rep; y++ {
							runtime.Gosched()
						}

						outs[s][i] = shared.serve(r)
					}
				}()
			}

			close(start)
			wg.Wait()

			for s, stream := range c.Streams {
				for i, r := range stream {
					for _, p := range vc07Compare(r, outs[s][i], alone[r.N], c.Conf.CacheType == dnssvc.CacheTypeSimple) {
						problems = append(problems, fmt.Sprintf("repetition %d request %s: %s", rep, r, p))
					}
				}
			}

			problems = append(problems, shared.fails...)
			calls = shared.up.calls.Load()
		}

		classes, nt := vc07Classify(c, calls, alone)
		classes = append(classes, vc07SimpleHitAfterPooled(c, nil)...)
		key := ""
		if nt {
			key = c.String()
		}

		st.Case(key, classes...)
		vc07Report(t, c, "concurrent run", problems)
	})
}
