//go:build verif

package dnssvc_test

// C07, encrypted transport: a real DoT server (dnsserver.ServerTLS on
// loopback) whose Disposer is the production dnsmsg.Cloner, in front of the
// real ratelimit middleware and the real ECS cache using the same cloner (which
// clones every request it forwards).  Two to four clients send queries whose
// EDNS padding option is filled with a marker octet of their own, interleaved
// or at the same time, over several rounds.  Every response must be the
// client's own (ID, question, answer), and its padding must be what the client
// gets when it is alone with a fresh server: zero octets (RFC 7830, section 3;
// dnsserver pads from a zero buffer), never anybody's marker.

import (
	"context"
	"crypto/tls"
	"encoding/binary"
	"fmt"
	"io"
	"net"
	"net/netip"
	"strings"
	"sync"
	"sync/atomic"
	"testing"
	"time"

	"github.com/AdguardTeam/AdGuardDNS/internal/agd"
	"github.com/AdguardTeam/AdGuardDNS/internal/agdcache"
	"github.com/AdguardTeam/AdGuardDNS/internal/agdtest"
	"github.com/AdguardTeam/AdGuardDNS/internal/dnsmsg"
	"github.com/AdguardTeam/AdGuardDNS/internal/dnsserver"
	"github.com/AdguardTeam/AdGuardDNS/internal/dnsserver/dnsservertest"
	"github.com/AdguardTeam/AdGuardDNS/internal/dnssvc/internal/ratelimitmw"
	"github.com/AdguardTeam/AdGuardDNS/internal/ecscache"
	"github.com/AdguardTeam/AdGuardDNS/internal/geoip"
	"github.com/AdguardTeam/golibs/logutil/slogutil"
	"github.com/AdguardTeam/golibs/netutil"
	"github.com/miekg/dns"
	"pgregory.net/rapid"
	"verif.local/harness/vdns"
	"verif.local/harness/vstat"
)

// vc07dAnswer is the upstream's address for a name.
func vc07dAnswer(name string) net.IP {
	h := vdns.Hash(strings.ToLower(name))

	return net.IP{10, byte(h >> 16), byte(h >> 8), byte(h)}
}

// vc07dUpstream answers every A question with an address derived from the
// name, through the wire like a forwarder.
func vc07dUpstream() dnsserver.Handler {
	return dnsserver.HandlerFunc(func(ctx context.Context, rw dnsserver.ResponseWriter, req *dns.Msg) error {
		if _, err := req.Copy().Pack(); err != nil {
			return fmt.Errorf("vc07d upstream: request does not pack: %w", err)
		}

		q := req.Question[0]
		resp := (&dns.Msg{}).SetReply(req)
		resp.RecursionAvailable = true
		resp.Answer = []dns.RR{&dns.A{Hdr: dns.RR_Header{Name: q.Name, Rrtype: dns.TypeA, Class: dns.ClassINET, Ttl: 300}, A: vc07dAnswer(q.Name)}}
		if opt := req.IsEdns0(); opt != nil {
			resp.SetEdns0(1232, opt.Do())
		}

		wire, err := resp.Pack()
		if err != nil {
			return fmt.Errorf("vc07d upstream: answer does not pack: %w", err)
		}

		decoded := &dns.Msg{}
		if err = decoded.Unpack(wire); err != nil {
			return fmt.Errorf("vc07d upstream: answer does not decode: %w", err)
		}

		return rw.WriteMsg(ctx, req, decoded)
	})
}

// vc07dServer is one DoT server with its handler chain; cloner is shared by
// the ECS cache, the constructor and the server's Disposer, as in cmd.
type vc07dServer struct {
	srv    *dnsserver.ServerTLS
	cloner *dnsmsg.Cloner
	tls    *tls.Config
}

func vc07dStart(tb testing.TB) (s *vc07dServer) {
	s = &vc07dServer{
		cloner: dnsmsg.NewCloner(dnsmsg.EmptyClonerStat{}),
		tls:    &tls.Config{InsecureSkipVerify: true, ServerName: "verif.test"},
	}

	geo := agdtest.NewGeoIP()
	geo.OnData = func(string, netip.Addr) (*geoip.Location, error) { return nil, nil }
	geo.OnSubnetByLocation = func(_ *geoip.Location, fam netutil.AddrFamily) (netip.Prefix, error) {
		return netutil.ZeroPrefix(fam), nil
	}

	messages, err := dnsmsg.NewConstructor(&dnsmsg.ConstructorConfig{
		Cloner:              s.cloner,
		BlockingMode:        &dnsmsg.BlockingModeNullIP{},
		StructuredErrors:    agdtest.NewSDEConfig(true),
		FilteredResponseTTL: 10 * time.Second,
		EDEEnabled:          true,
	})
	if err != nil {
		fmt.Println("VERIF-INCONCLUSIVE: constructor:", err)
		tb.FailNow()
	}

	cacheMw := ecscache.NewMiddleware(&ecscache.MiddlewareConfig{
		Cloner:       s.cloner,
		Logger:       slogutil.NewDiscardLogger(),
		CacheManager: agdcache.EmptyManager{},
		GeoIP:        geo,
		NoECSCount:   10000,
		ECSCount:     10000,
	})
	rlMw := ratelimitmw.New(&ratelimitmw.Config{
		Logger:           slogutil.NewDiscardLogger(),
		Messages:         messages,
		FilteringGroup:   &agd.FilteringGroup{},
		ServerGroup:      &agd.ServerGroup{},
		Server:           &agd.Server{Protocol: agd.ProtoDoT},
		StructuredErrors: agdtest.NewSDEConfig(true),
		AccessManager: &agdtest.AccessManager{
			OnIsBlockedHost: func(string, uint16) bool { return false },
			OnIsBlockedIP:   func(netip.Addr) bool { return false },
		},
		DeviceFinder: &agdtest.DeviceFinder{
			OnFind: func(context.Context, *dns.Msg, netip.AddrPort, netip.AddrPort) agd.DeviceResult { return nil },
		},
		ErrColl:    agdtest.NewErrorCollector(),
		GeoIP:      geo,
		Metrics:    ratelimitmw.EmptyMetrics{},
		Limiter:    agdtest.NewRateLimit(),
		Protocols:  []agd.Protocol{agd.ProtoDNS},
		EDEEnabled: true,
	})

	h := rlMw.Wrap(cacheMw.Wrap(vc07dUpstream()))
	tlsConf := dnsservertest.CreateServerTLSConfig("verif.test")
	for i := 0; i < 30 && s.srv == nil; i++ {
		srv := dnsserver.NewServerTLS(dnsserver.ConfigTLS{
			TLSConfig: tlsConf,
			ConfigDNS: dnsserver.ConfigDNS{
				ConfigBase: dnsserver.ConfigBase{Name: "verif-c07-dot", Addr: "127.0.0.1:0", Handler: h, Disposer: s.cloner},
			},
		})
		if err = srv.Start(context.Background()); err == nil {
			s.srv = srv
		}
	}

	if s.srv == nil {
		fmt.Println("VERIF-INCONCLUSIVE: cannot start the loopback DoT server:", err)
		tb.FailNow()
	}

	return s
}

// vc07dClient is one DoT client.
type vc07dClient struct {
	N      int
	Marker byte
	// PadLens are the padding lengths of its queries, one per round; -1: the
	// query has EDNS but no padding option, -2: no EDNS at all.
	PadLens []int
	// Repeat: the query of the round repeats the name of the previous round
	// (a cache hit) instead of a fresh one.
	Repeat []bool
	Yield  []int
}

func (c *vc07dClient) String() string {
	return fmt.Sprintf("{client %d marker %#02x pad %v repeat %v}", c.N, c.Marker, c.PadLens, c.Repeat)
}

var vc07dMarkers = []byte{0xA1, 0xB2, 0xC3, 0xD4}

// vc07dErrTimeout marks an exchange that did not complete in time.
type vc07dTimeout struct{ err error }

func (e vc07dTimeout) Error() string { return "timeout: " + e.err.Error() }

// exchange sends one query over its own DoT connection.
func (s *vc07dServer) exchange(req *dns.Msg) (resp *dns.Msg, err error) {
	const wait = 20 * time.Second

	b, err := req.Pack()
	if err != nil {
		panic(fmt.Errorf("VERIF-INCONCLUSIVE: packing query: %v", err))
	}

	conn, err := tls.DialWithDialer(&net.Dialer{Timeout: wait}, "tcp", s.srv.LocalTCPAddr().String(), s.tls)
	if err != nil {
		return nil, vc07dTimeout{err}
	}
	defer conn.Close()

	frame := binary.BigEndian.AppendUint16(nil, uint16(len(b)))
	if _, err = conn.Write(append(frame, b...)); err != nil {
		return nil, vc07dTimeout{err}
	}

	_ = conn.SetReadDeadline(time.Now().Add(wait))
	var hdr [2]byte
	if _, err = io.ReadFull(conn, hdr[:]); err != nil {
		if ne, ok := err.(net.Error); ok && ne.Timeout() {
			return nil, vc07dTimeout{err}
		}

		return nil, fmt.Errorf("no response: %w", err)
	}

	rb := make([]byte, binary.BigEndian.Uint16(hdr[:]))
	if _, err = io.ReadFull(conn, rb); err != nil {
		return nil, fmt.Errorf("short response: %w", err)
	}

	resp = &dns.Msg{}
	if err = resp.Unpack(rb); err != nil {
		return nil, fmt.Errorf("undecodable response %x: %w", rb, err)
	}

	return resp, nil
}

// vc07dQuery builds the query of client c in round r of case caseN.
func vc07dQuery(caseN int64, c *vc07dClient, r int) (req *dns.Msg) {
	nameRound := r
	for nameRound > 0 && c.Repeat[nameRound] {
		nameRound--
	}

	req = (&dns.Msg{}).SetQuestion(fmt.Sprintf("c%d-r%d.case%d.dot.verif.test.", c.N, nameRound, caseN), dns.TypeA)
	req.Id = uint16(c.N<<12 | r<<4 | int(caseN&0xf))
	if c.PadLens[r] == -2 {
		return req
	}

	req.SetEdns0(1232, r%2 == 0)
	if n := c.PadLens[r]; n >= 0 {
		pad := make([]byte, n)
		for i := range pad {
			pad[i] = c.Marker
		}

		opt := req.IsEdns0()
		opt.Option = append(opt.Option, &dns.EDNS0_PADDING{Padding: pad})
	}

	return req
}

// vc07dJudge checks one response against the client's own query.
func vc07dJudge(c *vc07dClient, req, resp *dns.Msg) (problems []string, padded bool) {
	bad := func(format string, args ...any) {
		problems = append(problems, fmt.Sprintf("client %d query %s id %d: ", c.N, req.Question[0].Name, req.Id)+fmt.Sprintf(format, args...))
	}

	if resp.Id != req.Id || len(resp.Question) != 1 || resp.Question[0] != req.Question[0] {
		bad("answered with id %d question %v", resp.Id, resp.Question)

		return problems, false
	}

	if len(resp.Answer) != 1 {
		bad("rcode %d with %d answers", resp.Rcode, len(resp.Answer))
	} else if a, ok := resp.Answer[0].(*dns.A); !ok || !a.A.Equal(vc07dAnswer(req.Question[0].Name)) || !strings.EqualFold(a.Hdr.Name, req.Question[0].Name) {
		bad("answer %s is not the one of its name (want %s)", resp.Answer[0], vc07dAnswer(req.Question[0].Name))
	}

	reqOpt, respOpt := req.IsEdns0(), resp.IsEdns0()
	if reqOpt == nil {
		return problems, false
	}

	if respOpt == nil {
		bad("EDNS query answered without an OPT record")

		return problems, false
	}

	for _, o := range respOpt.Option {
		p, ok := o.(*dns.EDNS0_PADDING)
		if !ok {
			continue
		}

		padded = true
		for _, b := range p.Padding {
			if b == 0 {
				continue
			}

			whose := "nobody's marker"
			for i, m := range vc07dMarkers {
				if b == m {
					whose = fmt.Sprintf("the marker of client %d", i+1)
				}
			}

			bad("response padding %x is not zero octets: %#02x is %s", p.Padding, b, whose)

			break
		}
	}

	return problems, padded
}

func TestVerifC07DoTPadding(t *testing.T) {
	st := vstat.New("C07", "stack.dot-padding",
		"rapid: 2..4 clients x 3..8 rounds against one real ServerTLS on loopback (Disposer = the production cloner that the ECS cache behind the real ratelimit middleware also clones requests with); every query goes over its own TLS connection and carries a padding option of 1..31 octets (sometimes 0, 40 or 128, none, or no EDNS) filled with the client's marker octet, fresh names and repeats (cache hits); clients take turns in a drawn order or run at once; every response must carry the client's own ID, question and answer and a padding of zero octets only; non-trivial = a padded response arrives after another client's marked padding was processed; distinct by the client programs",
		"padded-response-after-another-clients-marked-padding", "concurrent-clients", "interleaved-clients", "short-marked-padding", "cache-hit-round")
	st.Finish(t)

	s := vc07dStart(t)
	defer func() { _ = s.srv.Shutdown(context.Background()) }()

	var caseN atomic.Int64
	rapid.Check(t, func(t *rapid.T) {
		cn := caseN.Add(1)
		nClients := rapid.IntRange(2, 4).Draw(t, "clients")
		rounds := rapid.IntRange(3, 8).Draw(t, "rounds")
		concurrent := rapid.Bool().Draw(t, "concurrent")
		clients := make([]*vc07dClient, nClients)
		for i := range clients {
			c := &vc07dClient{N: i + 1, Marker: vc07dMarkers[i]}
			for r := 0; r < rounds; r++ {
				c.PadLens = append(c.PadLens, rapid.SampledFrom([]int{1, 1, 2, 3, 4, 7, 8, 15, 16, 24, 31, 0, 40, 128, -1, -2}).Draw(t, "padLen"))
				c.Repeat = append(c.Repeat, r > 0 && rapid.IntRange(0, 3).Draw(t, "repeat") == 0)
				c.Yield = append(c.Yield, rapid.IntRange(0, 2).Draw(t, "yield"))
			}

			clients[i] = c
		}

		// The order of turns when the clients do not run at once.
		var turns []int
		left := make([]int, nClients)
		for len(turns) < nClients*rounds {
			var avail []int
			for i := range left {
				if left[i] < rounds {
					avail = append(avail, i)
				}
			}

			i := avail[rapid.IntRange(0, len(avail)-1).Draw(t, "turn")]
			turns = append(turns, i)
			left[i]++
		}

		var mu sync.Mutex
		var problems []string
		var timeouts []string
		// markedDone[i]: client i+1 has had a query with a non-empty marked
		// padding answered.
		markedDone := make([]bool, nClients)
		classes := map[string]bool{}
		one := func(ci, r int) {
			c := clients[ci]
			req := vc07dQuery(cn, c, r)
			mu.Lock()
			afterOther := false
			for j, d := range markedDone {
				afterOther = afterOther || (d && j != ci)
			}
			mu.Unlock()

			resp, err := s.exchange(req)
			mu.Lock()
			defer mu.Unlock()

			if err != nil {
				if _, ok := err.(vc07dTimeout); ok {
					timeouts = append(timeouts, err.Error())
				} else {
					problems = append(problems, fmt.Sprintf("client %d round %d: %v", c.N, r, err))
				}

				return
			}

			ps, padded := vc07dJudge(c, req, resp)
			problems = append(problems, ps...)
			if padded && afterOther {
				classes["padded-response-after-another-clients-marked-padding"] = true
			}

			if n := c.PadLens[r]; n > 0 {
				markedDone[ci] = true
				if n <= 31 {
					classes["short-marked-padding"] = true
				}
			}

			if c.Repeat[r] {
				classes["cache-hit-round"] = true
			}
		}

		if concurrent {
			classes["concurrent-clients"] = true
			start := make(chan struct{})
			wg := &sync.WaitGroup{}
			for ci := range clients {
				wg.Add(1)
				go func() {
					defer wg.Done()
					<-start
					for r := 0; r < rounds; r++ {
						for y := 0; y < clients[ci].Yield[r]; y++ {
							time.Sleep(50 * time.Microsecond)
						}

						one(ci, r)
					}
				}()
			}

			close(start)
			wg.Wait()
		} else {
			classes["interleaved-clients"] = true
			next := make([]int, nClients)
			for _, ci := range turns {
				one(ci, next[ci])
				next[ci]++
			}
		}

		cls := make([]string, 0, len(classes))
		for k := range classes {
			cls = append(cls, k)
		}

		key := ""
		if classes["padded-response-after-another-clients-marked-padding"] {
			key = fmt.Sprintf("%v|%v|%t", clients, turns, concurrent)
		}

		st.Case(key, cls...)
		if st.WantSample() && key != "" {
			st.Sample(map[string]any{"clients": fmt.Sprint(clients), "concurrent": concurrent, "turns": turns})
		}

		if len(problems) > 0 {
			t.Fatalf("%d DoT clients, %d rounds, concurrent=%t, turns %v:\n  %s\n  clients:\n    %v", nClients, rounds, concurrent, turns, strings.Join(problems[:min(len(problems), 10)], "\n  "), clients)
		}

		if len(timeouts) > 0 {
			// A time-out on loopback is not a verdict.
			fmt.Println("VERIF-INCONCLUSIVE: DoT exchange timed out:", timeouts[0])
			t.FailNow()
		}
	})
}
