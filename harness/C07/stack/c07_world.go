//go:build verif

package dnssvc_test

// C07 (b): the world of the full-stack check: profiles with different
// policies, blocking modes and TTLs, devices, clients, the deterministic
// per-profile filter, the reference upstream, and a stack built with
// dnssvc.NewHandlers around them.  See /verif/DESIGN.md, section 3, C07.

import (
	"context"
	"encoding/hex"
	"errors"
	"fmt"
	"log/slog"
	"net"
	"net/netip"
	"net/url"
	"os"
	"path/filepath"
	"reflect"
	"strings"
	"sync"
	"sync/atomic"
	"time"

	"github.com/AdguardTeam/AdGuardDNS/internal/access"
	"github.com/AdguardTeam/AdGuardDNS/internal/agd"
	"github.com/AdguardTeam/AdGuardDNS/internal/agdcache"
	"github.com/AdguardTeam/AdGuardDNS/internal/agdnet"
	"github.com/AdguardTeam/AdGuardDNS/internal/agdpasswd"
	"github.com/AdguardTeam/AdGuardDNS/internal/agdtest"
	"github.com/AdguardTeam/AdGuardDNS/internal/agdtime"
	"github.com/AdguardTeam/AdGuardDNS/internal/dnsmsg"
	"github.com/AdguardTeam/AdGuardDNS/internal/dnsserver"
	"github.com/AdguardTeam/AdGuardDNS/internal/dnssvc"
	"github.com/AdguardTeam/AdGuardDNS/internal/filter"
	"github.com/AdguardTeam/AdGuardDNS/internal/filter/filterstorage"
	"github.com/AdguardTeam/AdGuardDNS/internal/filter/hashprefix"
	"github.com/AdguardTeam/AdGuardDNS/internal/geoip"
	"github.com/AdguardTeam/AdGuardDNS/internal/profiledb"
	"github.com/AdguardTeam/AdGuardDNS/internal/querylog"
	"github.com/AdguardTeam/golibs/netutil"
	"github.com/miekg/dns"
	"github.com/prometheus/client_golang/prometheus"
	"verif.local/harness/vdns"
)

// ---------------------------------------------------------------------------
// Categories and policies.

// Filtering categories; the second label of a generated name is the category.
const (
	vc07CatAds = 1 << iota // request blocked
	vc07CatTrk             // request blocked
	vc07CatRw              // rewritten to an address of the profile
	vc07CatCn              // CNAME-rewritten to a target of the profile
	vc07CatAl              // allowlisted
	vc07CatRb              // response blocked
	vc07CatSb              // safe browsing: the real hashprefix filter with its result cache
)

var vc07CatNames = map[string]int{"ads": vc07CatAds, "trk": vc07CatTrk, "rw": vc07CatRw, "cn": vc07CatCn, "al": vc07CatAl, "rb": vc07CatRb, "sb": vc07CatSb, "ok": 0}

// vc07CatList are the category labels of generated names.  A label may join
// several categories with "-": one name then triggers a request-stage and a
// response-stage rule (or an allow and a block rule) of the same profile.
// "err" names make the upstream fail.
var vc07CatList = []string{"ads", "trk", "rw", "cn", "al", "rb", "sb", "ok", "al-rb", "cn-rb", "rw-rb", "al-ads", "sb-rb", "err"}

// vc07CatBits returns the categories of a label.
func vc07CatBits(label string) (bits int) {
	for _, c := range strings.Split(label, "-") {
		bits |= vc07CatNames[c]
	}

	return bits
}

// vc07InScheme reports whether name is a generated k<kind>t<ttl>.<cat>.<scope>.test. name; other
// names (the root, one-letter names) are plain names without a category.
func vc07InScheme(name string) bool {
	var k, ti int
	n, _ := fmt.Sscanf(strings.ToLower(name), "k%dt%d.", &k, &ti)

	return n == 2 && len(strings.Split(name, ".")) >= 5
}

// vc07Decide is the world's rule table: what profile pi does with a question.
// Request stage, in this order: allow, block, rewrite to an address, CNAME
// rewrite, safe browsing; if none applies, the response stage may block.
func vc07Decide(pi int, name string, qt uint16) (verdict string) {
	p := vc07Profiles[pi]
	if !p.Filtering {
		return "pass"
	}

	cat, _ := vc07CatOf(name)
	bits := vc07CatBits(cat) & p.Policy
	isIP := qt == dns.TypeA || qt == dns.TypeAAAA
	switch {
	case bits&vc07CatAl != 0:
		return "allowed"
	case bits&(vc07CatAds|vc07CatTrk) != 0:
		return "blocked"
	case bits&vc07CatRw != 0 && isIP:
		return "rewritten"
	case bits&vc07CatCn != 0:
		return "cname"
	case bits&vc07CatSb != 0 && (isIP || qt == dns.TypeHTTPS):
		return "safe-browsing"
	case bits&vc07CatRb != 0:
		return "resp-blocked"
	default:
		return "pass"
	}
}

// vc07Profile describes a profile (index 0 is the anonymous filtering group).
type vc07Profile struct {
	ID        string
	Policy    int
	Mode      string
	TTL       time.Duration
	QueryLog  bool
	IPLog     bool
	Filtering bool
	Devices   []vc07Device
}

type vc07Device struct {
	ID       string
	LinkedIP netip.Addr
	// NoFilter: filtering is disabled for the device although it is enabled
	// for its profile.
	NoFilter bool
}

// vc07SbIP is the replacement address of the safe-browsing filter.
var vc07SbIP = netip.MustParseAddr("198.51.100.99")

var vc07CustomV4 = []netip.Addr{netip.MustParseAddr("198.51.100.4")}
var vc07CustomV6 = []netip.Addr{netip.MustParseAddr("2001:db8:b10c::6")}

func (p *vc07Profile) blockingMode() dnsmsg.BlockingMode {
	switch p.Mode {
	case "nullip":
		return &dnsmsg.BlockingModeNullIP{}
	case "nxdomain":
		return &dnsmsg.BlockingModeNXDOMAIN{}
	case "refused":
		return &dnsmsg.BlockingModeREFUSED{}
	default:
		return &dnsmsg.BlockingModeCustomIP{IPv4: vc07CustomV4, IPv6: vc07CustomV6}
	}
}

// vc07Profiles is the fixed set of profiles.  Policies, modes and TTLs differ
// pairwise, so an answer built for the wrong profile shows.
var vc07Profiles = []*vc07Profile{
	{ID: "", Policy: vc07CatAds | vc07CatRw | vc07CatSb, Mode: "nullip", TTL: 10 * time.Second, Filtering: true},
	{ID: "prof1", Policy: vc07CatAds | vc07CatTrk | vc07CatCn | vc07CatRb, Mode: "nxdomain", TTL: 60 * time.Second, QueryLog: true, IPLog: true, Filtering: true,
		Devices: []vc07Device{{ID: "dev1a"}, {ID: "dev1b", LinkedIP: netip.MustParseAddr("203.0.113.77")}}},
	{ID: "prof2", Policy: vc07CatTrk | vc07CatRw | vc07CatAl | vc07CatSb, Mode: "customip", TTL: 3600 * time.Second, QueryLog: true, Filtering: true,
		Devices: []vc07Device{{ID: "dev2a"}}},
	{ID: "prof3", Policy: vc07CatAds | vc07CatTrk | vc07CatRw | vc07CatCn | vc07CatRb, Mode: "refused", TTL: 5 * time.Second, Filtering: false,
		Devices: []vc07Device{{ID: "dev3a", LinkedIP: netip.MustParseAddr("2001:db8:c2::77")}}},
	{ID: "prof4", Policy: vc07CatAds | vc07CatTrk | vc07CatRw | vc07CatCn | vc07CatRb | vc07CatSb, Mode: "refused", TTL: 5 * time.Second, QueryLog: true, IPLog: true, Filtering: true,
		Devices: []vc07Device{{ID: "dev4a"}, {ID: "dev4b", NoFilter: true}}},
}

// vc07CatOf returns the category of a generated name k<kind>t<ttl>.<cat>.<scope>.test.
func vc07CatOf(name string) (cat string, scoped bool) {
	if !vc07InScheme(name) {
		return "ok", false
	}

	parts := strings.Split(strings.ToLower(name), ".")

	return parts[1], parts[2] == "s"
}

func vc07RuleText(cat, profID string) filter.RuleText {
	return filter.RuleText(fmt.Sprintf("||%s^$client=%s", cat, profID))
}

// vc07RwIP is the address profile pi rewrites "rw" names to.
func vc07RwIP(pi int, qt uint16) netip.Addr {
	if qt == dns.TypeAAAA {
		return netip.AddrFrom16([16]byte{0x20, 1, 0xd, 0xb8, 0xee, 0, 0, 0, 0, 0, 0, 0, 0, 0, 0, byte(100 + pi)})
	}

	return netip.AddrFrom4([4]byte{198, 51, 100, byte(100 + pi)})
}

// vc07CnTarget is the name profile pi rewrites "cn" names to.
func vc07CnTarget(pi int) string {
	return fmt.Sprintf("k0t6.tgt%d.u.test.", pi)
}

// ---------------------------------------------------------------------------
// Real rule lists (stack configuration Real).

// Rule lists of the real filter storage.  vc07_l1 is shared by everybody and
// matches every "ml" name, and the CNAME target of the upstream's CNAME
// answers, with rules of different kinds each (domain, wildcard, regular
// expressions with and without a literal part): the cached per-name result then
// holds three (ml.u, target) or five (ml.s) rules gathered from several of
// urlfilter's lookup tables.  vc07_l2 and vc07_l3 match
// the same names with an exception and with an $important rule; which of them a
// profile has differs.
var vc07RealLists = map[string]string{
	"vc07_l1": "||ml.u.test^\n*.ml.*.test\n/^[a-z0-9]+\\.ml\\.u\\.test$/\n" +
		"||ml.s.test^\n*.ml.s.test\n/^[a-z0-9]+\\.ml\\.s\\.test$/\n/^k[0-9]t[0-9]\\.ml\\.s\\.tes[t]$/\n" +
		"||target.test^\n/^[a-z]+\\.test$/\n/^targe[t]\\.test$/\n",
	"vc07_l2": "@@||ml.u.test^\n@@||ml.s.test^\n||l2only.u.test^\n",
	"vc07_l3": "||ml.u.test^$important\n||ml.s.test^$important\n||target.test^$important\n",
}

// vc07RealProfileLists are the rule lists of every profile (index 0: the
// default group) in the Real configuration.
var vc07RealProfileLists = [][]filter.ID{
	{"vc07_l1"},
	{"vc07_l1", "vc07_l2"},
	{"vc07_l1", "vc07_l3"},
	{"vc07_l1", "vc07_l2", "vc07_l3"},
	{"vc07_l1", "vc07_l2", "vc07_l3"},
}

// vc07RealCustom are the custom rules of every profile in the Real
// configuration: $client, $dnstype and exception rules that differ per profile
// and per device.
var vc07RealCustom = [][]filter.RuleText{
	nil,
	{"@@||target.test^$client=name-dev1a", "||target.test^$important,client=name-dev1b", "||ml.u.test^$dnstype=AAAA,important,client=name-dev1b"},
	{"@@||ml.u.test^$dnstype=HTTPS", "||ml.s.test^$dnstype=A,important"},
	nil,
	{"@@||target.test^", "||ml.u.test^$client=name-dev4a,important"},
}

var (
	vc07RealDirOnce sync.Once
	vc07RealDir     string
)

// vc07RealListsDir returns a cache directory holding the index and the rule
// lists; the storage's initial refresh accepts the files there as they are and
// never asks the network.
func vc07RealListsDir() string {
	vc07RealDirOnce.Do(func() {
		dir, err := os.MkdirTemp(os.Getenv("VERIF_WORK"), "vc07-lists-")
		if err != nil {
			panic(fmt.Errorf("VERIF-INCONCLUSIVE: list directory: %v", err))
		}

		idx := `{"filters":[`
		ids := []string{"vc07_l1", "vc07_l2", "vc07_l3"}
		for i, id := range ids {
			if i > 0 {
				idx += ","
			}

			idx += fmt.Sprintf(`{"downloadUrl":"http://127.0.0.1:1/%s","filterKey":"%s"}`, id, id)
			if err = os.WriteFile(filepath.Join(dir, id), []byte(vc07RealLists[id]), 0o644); err != nil {
				panic(fmt.Errorf("VERIF-INCONCLUSIVE: writing list: %v", err))
			}
		}

		if err = os.WriteFile(filepath.Join(dir, "filters.json"), []byte(idx+"]}"), 0o644); err != nil {
			panic(fmt.Errorf("VERIF-INCONCLUSIVE: writing index: %v", err))
		}

		vc07RealDir = dir
	})

	return vc07RealDir
}

func vc07NewRealStorage(st *vc07Stack) *filterstorage.Default {
	logger := slog.New(slog.NewTextHandler(vc07Discard{}, &slog.HandlerOptions{Level: slog.LevelError + 4}))
	none := &filterstorage.ConfigSafeSearch{URL: &url.URL{Scheme: "http", Host: "127.0.0.1:1"}, ID: filter.IDGeneralSafeSearch}
	idxURL := &url.URL{Scheme: "http", Host: "127.0.0.1:1", Path: "/filters.json"}
	strg, err := filterstorage.New(&filterstorage.Config{
		BaseLogger:      logger,
		Logger:          logger,
		BlockedServices: &filterstorage.ConfigBlockedServices{IndexURL: idxURL},
		Custom:          &filterstorage.ConfigCustom{CacheCount: 100},
		HashPrefix:      &filterstorage.ConfigHashPrefix{},
		RuleLists: &filterstorage.ConfigRuleLists{
			IndexURL:            idxURL,
			IndexMaxSize:        1 << 20,
			MaxSize:             1 << 20,
			IndexRefreshTimeout: time.Second,
			IndexStaleness:      time.Hour,
			RefreshTimeout:      time.Second,
			Staleness:           time.Hour,
			ResultCacheCount:    100,
			ResultCacheEnabled:  true,
		},
		SafeSearchGeneral: none,
		SafeSearchYouTube: none,
		CacheManager:      agdcache.EmptyManager{},
		Clock:             agdtime.SystemClock{},
		ErrColl: &agdtest.ErrorCollector{OnCollect: func(ctx context.Context, err error) {
			st.fail(ctx, "filter storage reported %v", err)
		}},
		Metrics:  filter.EmptyMetrics{},
		CacheDir: vc07RealListsDir(),
	})
	if err != nil {
		panic(fmt.Errorf("VERIF-INCONCLUSIVE: filter storage: %v", err))
	}

	if err = strg.RefreshInitial(context.Background()); err != nil {
		panic(fmt.Errorf("VERIF-INCONCLUSIVE: filter storage initial refresh: %v", err))
	}

	for id := range vc07RealLists {
		if !strg.HasListID(filter.ID(id)) {
			panic(fmt.Errorf("VERIF-INCONCLUSIVE: rule list %s was not loaded", id))
		}
	}

	return strg
}

// ---------------------------------------------------------------------------
// GeoIP model.

var vc07Pools = []struct {
	pfx  netip.Prefix
	ctry geoip.Country
	asn  geoip.ASN
}{
	{netip.MustParsePrefix("203.0.113.0/26"), "US", 1},
	{netip.MustParsePrefix("203.0.113.64/26"), "DE", 2},
	{netip.MustParsePrefix("2001:db8:c1::/48"), "US", 1},
	{netip.MustParsePrefix("2001:db8:c2::/48"), "DE", 2},
	{netip.MustParsePrefix("192.0.2.0/25"), "FR", 3},
	{netip.MustParsePrefix("2001:db8:e1::/48"), "FR", 3},
}

func vc07Location(ip netip.Addr) *geoip.Location {
	for _, p := range vc07Pools {
		if p.pfx.Contains(ip) {
			return &geoip.Location{Country: p.ctry, ASN: p.asn, Continent: geoip.ContinentEU}
		}
	}

	return nil
}

func vc07NewGeo() *agdtest.GeoIP {
	g := agdtest.NewGeoIP()
	g.OnData = func(_ string, ip netip.Addr) (*geoip.Location, error) {
		return vc07Location(ip), nil
	}
	g.OnSubnetByLocation = func(l *geoip.Location, fam netutil.AddrFamily) (netip.Prefix, error) {
		if l.Country == geoip.CountryNone {
			return netutil.ZeroPrefix(fam), nil
		}

		c := byte(l.ASN)
		if fam == netutil.AddrFamilyIPv4 {
			return netip.PrefixFrom(netip.AddrFrom4([4]byte{198, 18, c, 0}), 24), nil
		}

		return netip.PrefixFrom(netip.AddrFrom16([16]byte{0x20, 1, 0xd, 0xb8, 0xa0, c}), 48), nil
	}

	return g
}

// ---------------------------------------------------------------------------
// Clients and requests.

// vc07Client is one source of requests.
type vc07Client struct {
	// Via is how the client reaches its profile: "anon" (plain DNS, no
	// profile), "sni" (DoT, device in the TLS server name), "cpe" (plain DNS,
	// device in the EDNS CPE-ID option), "linked" (plain DNS, linked address).
	Via     string
	Prof    int
	Dev     int
	Remote  netip.Addr
	ECS     string
	ECSBits int
	// ECS2, if set, is a second client-subnet option after the first (/24).
	ECS2 string
}

func (c vc07Client) String() string {
	return fmt.Sprintf("{%s p%d/d%d %s ecs=%s/%d ecs2=%s}", c.Via, c.Prof, c.Dev, c.Remote, c.ECS, c.ECSBits, c.ECS2)
}

func (c vc07Client) device() *vc07Device {
	if c.Prof == 0 {
		return nil
	}

	return &vc07Profiles[c.Prof].Devices[c.Dev]
}

// vc07Req is one request of one stream.
type vc07Req struct {
	N      int
	Stream int
	Client vc07Client
	Name   string
	QType  uint16
	Debug  bool
	DO     bool
	AD     bool
	CD     bool
	RD     bool
	EDNS   bool
	Z      uint16
	Cookie bool
	// MsgID is the DNS message ID (0 and 65535 included).
	MsgID uint16
	// Cancel: the caller's context is already cancelled when the request is
	// served.
	Cancel bool
	// Real: the case runs on the real filter storage and profile database.
	Real bool
	// CookieSeed makes the client cookie; repeats of one request share it.
	CookieSeed int
	// NearMissOf is the number of the request this one copies with one
	// component changed, and what was changed.
	NearMissOf int
	Changed    string
	// Yield is the number of scheduler yields before the request is sent in
	// the concurrent run.
	Yield int

	ID   agd.RequestID
	wire []byte
}

func (r *vc07Req) String() string {
	near := ""
	if r.NearMissOf > 0 {
		near = fmt.Sprintf(" near-miss-of=#%d(%s)", r.NearMissOf, r.Changed)
	}

	return fmt.Sprintf("#%d s%d %s %q %s id=%d dbg=%t do=%t ad=%t cd=%t rd=%t edns=%t z=%#x cookie=%t cancel=%t yield=%d%s",
		r.N, r.Stream, r.Client, r.Name, dns.Type(r.QType), r.MsgID, r.Debug, r.DO, r.AD, r.CD, r.RD, r.EDNS, r.Z, r.Cookie, r.Cancel, r.Yield, near)
}

// build renders the request through the wire, as the server receives it.
func (r *vc07Req) build() {
	m := &dns.Msg{}
	m.Id = r.MsgID
	m.RecursionDesired = r.RD
	m.AuthenticatedData = r.AD
	m.CheckingDisabled = r.CD
	qc := uint16(dns.ClassINET)
	if r.Debug {
		qc = dns.ClassCHAOS
	}

	m.Question = []dns.Question{{Name: r.Name, Qtype: r.QType, Qclass: qc}}
	c := r.Client
	if r.EDNS || r.DO || c.ECS != "" || c.Via == "cpe" || r.Cookie {
		m.SetEdns0(1232, r.DO)
		opt := m.IsEdns0()
		opt.SetZ(r.Z)
		opt.SetDo(r.DO)
		if r.Cookie {
			opt.Option = append(opt.Option, &dns.EDNS0_COOKIE{Code: dns.EDNS0COOKIE, Cookie: fmt.Sprintf("%016x", 0xc00c1e0000+r.CookieSeed)})
		}

		if c.Via == "cpe" {
			opt.Option = append(opt.Option, &dns.EDNS0_LOCAL{Code: 65074, Data: []byte(c.device().ID)})
		}

		if c.ECS != "" {
			a := netip.MustParseAddr(c.ECS)
			fam := uint16(1)
			if a.Is6() {
				fam = 2
			}

			opt.Option = append(opt.Option, &dns.EDNS0_SUBNET{Code: dns.EDNS0SUBNET, Family: fam, SourceNetmask: uint8(c.ECSBits), Address: a.AsSlice()})
			if c.ECS2 != "" {
				opt.Option = append(opt.Option, &dns.EDNS0_SUBNET{Code: dns.EDNS0SUBNET, Family: 1, SourceNetmask: 24, Address: netip.MustParseAddr(c.ECS2).AsSlice()})
			}
		}
	}

	var err error
	r.wire, err = m.Pack()
	if err != nil {
		panic(fmt.Errorf("VERIF-INCONCLUSIVE: packing request %s: %v", r, err))
	}

	r.ID = agd.RequestID{}
	copy(r.ID[:], fmt.Sprintf("c07-%08d", r.N))
}

func (r *vc07Req) msg() *dns.Msg {
	m := &dns.Msg{}
	if err := m.Unpack(r.wire); err != nil {
		panic(fmt.Errorf("VERIF-INCONCLUSIVE: decoding request %s: %v", r, err))
	}

	return m
}

// ---------------------------------------------------------------------------
// Reference upstream.

type vc07Upstream struct {
	st    *vc07Stack
	calls atomic.Int64
}

// ServeDNS answers as a pure function of what it is asked (question, DO bit and,
// for scoped names, the subnet it is sent), through the wire like a forwarder.
func (u *vc07Upstream) ServeDNS(ctx context.Context, rw dnsserver.ResponseWriter, req *dns.Msg) (err error) {
	u.calls.Add(1)
	u.st.checkCtx(ctx, "upstream", req)

	// A forwarder has to put the request on the wire first.  A request that
	// does not pack is the doing of the code in front of the upstream: the
	// asker gets an error, which is judged like any other outcome.
	if _, perr := req.Copy().Pack(); perr != nil {
		return fmt.Errorf("vc07 upstream: request does not pack: %w", perr)
	}

	q := req.Question[0]
	cat, scoped := vc07CatOf(q.Name)
	if u.st.conf.CacheType == dnssvc.CacheTypeSimple {
		// The simple cache is keyed by the question only; it is for upstreams
		// whose answers do not depend on the client's subnet.
		scoped = false
	}

	if cat == "err" {
		// A processing fault in the middle of other requests.
		return errors.New("vc07 upstream: connection reset")
	}

	e := vdns.ECSOpt(req)
	tag := ""
	if scoped {
		tag = vdns.ECSPrefix(e)
	}

	var resp *dns.Msg
	switch {
	case q.Qtype == dns.TypeHTTPS:
		resp = vc07HTTPSAnswer(req, tag, u.st.conf.known)
	case !vc07InScheme(q.Name):
		resp = vc07PlainAnswer(req)
	default:
		resp = vdns.Answer(req, tag, true)
	}

	// Failures come with an extended error, as resolvers send them.
	if opt := resp.IsEdns0(); opt != nil && resp.Rcode == dns.RcodeServerFailure && !u.st.conf.known(vc07KnownHitOPT) {
		opt.Option = append(opt.Option, &dns.EDNS0_EDE{InfoCode: dns.ExtendedErrorCodeNoReachableAuthority, ExtraText: "upstream says so"})
	}

	if e != nil {
		opt := resp.IsEdns0()
		scope := uint8(0)
		if scoped {
			scope = max(e.SourceNetmask, 1)
		}

		opt.Option = append(opt.Option, &dns.EDNS0_SUBNET{Code: dns.EDNS0SUBNET, Family: e.Family, SourceNetmask: e.SourceNetmask, SourceScope: scope, Address: append(net.IP(nil), e.Address...)})
	}

	// The answer echoes parts of the request (client-subnet option); if that
	// makes it unpackable or undecodable, the request was malformed in a way
	// Pack did not see, and the asker gets an error as well.
	wire, err := resp.Pack()
	if err != nil {
		return fmt.Errorf("vc07 upstream: answer to %v does not pack: %w", q, err)
	}

	decoded := &dns.Msg{}
	if err = decoded.Unpack(wire); err != nil {
		return fmt.Errorf("vc07 upstream: answer to %v does not decode: %w", q, err)
	}

	return rw.WriteMsg(ctx, req, decoded)
}

// vc07PlainAnswer is the upstream's answer for names outside the generated
// scheme (the root, one-letter names).
func vc07PlainAnswer(req *dns.Msg) (resp *dns.Msg) {
	q := req.Question[0]
	resp = (&dns.Msg{}).SetReply(req)
	resp.RecursionAvailable = true
	hdr := dns.RR_Header{Name: q.Name, Rrtype: q.Qtype, Class: dns.ClassINET, Ttl: 300}
	switch q.Qtype {
	case dns.TypeA:
		resp.Answer = []dns.RR{&dns.A{Hdr: hdr, A: net.IP{10, 1, 1, byte(len(q.Name))}}}
	case dns.TypeAAAA:
		resp.Answer = []dns.RR{&dns.AAAA{Hdr: hdr, AAAA: net.ParseIP("2001:db8:1::1")}}
	default:
		resp.Answer = []dns.RR{&dns.TXT{Hdr: hdr, Txt: []string{"plain", strings.ToLower(q.Name)}}}
	}

	if opt := req.IsEdns0(); opt != nil {
		resp.SetEdns0(1232, opt.Do())
	}

	return resp
}

// vc07HTTPSAnswer is the upstream's answer to an HTTPS question: a service
// record with hints derived from the name (and the subnet, for scoped names).
func vc07HTTPSAnswer(req *dns.Msg, tag string, known func(string) bool) (resp *dns.Msg) {
	q := req.Question[0]
	kind, ttl := vdns.KA, uint32(300)
	if vc07InScheme(q.Name) {
		kind, ttl = vdns.KindOf(q.Name)
	}

	h := vdns.Hash(vdns.QKey(q, false) + "|" + tag)
	resp = (&dns.Msg{}).SetReply(req)
	resp.RecursionAvailable = true
	resp.AuthenticatedData = vdns.Hash(strings.ToLower(q.Name))&1 == 1
	if kind == vdns.KNX {
		resp.Rcode = dns.RcodeNameError
		resp.Ns = []dns.RR{&dns.SOA{Hdr: dns.RR_Header{Name: "test.", Rrtype: dns.TypeSOA, Class: dns.ClassINET, Ttl: ttl}, Ns: "ns.test.", Mbox: "m.test.", Serial: h, Minttl: ttl + 20}}
	} else {
		rr := &dns.HTTPS{SVCB: dns.SVCB{Hdr: dns.RR_Header{Name: q.Name, Rrtype: dns.TypeHTTPS, Class: dns.ClassINET, Ttl: ttl}, Priority: 1, Target: "."}}
		rr.Value = append(rr.Value, &dns.SVCBAlpn{Alpn: []string{"h2", "h3"}})
		v4 := &dns.SVCBIPv4Hint{}
		n4 := 1 + int(h%6)
		if n4 > 4 && known(vc07KnownHintOverlap) {
			n4 = 4
		}

		for i := 0; i < n4; i++ {
			v4.Hint = append(v4.Hint, net.IP{10, byte(h >> 8), byte(h), byte(i)})
		}

		rr.Value = append(rr.Value, v4)
		v6 := &dns.SVCBIPv6Hint{}
		for i := 0; i < 1+int(h>>4%3); i++ {
			v6.Hint = append(v6.Hint, net.IP{0x20, 1, 0xd, 0xb8, byte(h >> 24), byte(h >> 16), byte(h >> 8), byte(h), 0, 0, 0, 0, 0, 0, 0, byte(i)})
		}

		rr.Value = append(rr.Value, v6)
		resp.Answer = []dns.RR{rr}
	}

	if opt := req.IsEdns0(); opt != nil {
		resp.SetEdns0(1232, opt.Do())
	}

	return resp
}

// ---------------------------------------------------------------------------
// Deterministic per-profile filter.

type vc07Filter struct {
	st *vc07Stack
	pi int
}

func (f *vc07Filter) FilterRequest(ctx context.Context, req *filter.Request) (r filter.Result, err error) {
	st, p := f.st, vc07Profiles[f.pi]
	exp := st.checkCtx(ctx, "filter-request", req.DNS)
	q := req.DNS.Question[0]
	// (The class is not compared: for a debug query the middleware rewrites
	// the class of the message to IN while the request information keeps CH.)
	if req.Host != agdnet.NormalizeDomain(q.Name) || req.QType != q.Qtype {
		st.fail(ctx, "filter request fields (%q, %d) do not describe its message %v", req.Host, req.QType, q)
	}

	if exp != nil {
		wantName := ""
		if d := exp.Client.device(); d != nil {
			wantName = "name-" + d.ID
		}

		if exp.Client.Prof != f.pi || req.RemoteIP != exp.Client.Remote || req.ClientName != wantName {
			st.fail(ctx, "request %s filtered as profile %d client %q from %s", exp, f.pi, req.ClientName, req.RemoteIP)
		}
	}

	cat, _ := vc07CatOf(q.Name)
	list, rule := filter.ID("vc07_"+p.ID), vc07RuleText(cat, p.ID)
	switch vc07Decide(f.pi, q.Name, q.Qtype) {
	case "safe-browsing":
		// The real hash-prefix filter with its result cache, shared by every
		// profile that enables it.
		return st.hashFlt.FilterRequest(ctx, req)
	case "blocked":
		return &filter.ResultBlocked{List: list, Rule: rule}, nil
	case "allowed":
		return &filter.ResultAllowed{List: list, Rule: rule}, nil
	case "rewritten":
		resp, rerr := req.Messages.NewRespIP(req.DNS, vc07RwIP(f.pi, q.Qtype))
		if rerr != nil {
			return nil, rerr
		}

		return &filter.ResultModifiedResponse{Msg: resp, List: list, Rule: rule}, nil
	case "cname":
		mod := dnsmsg.Clone(req.DNS)
		mod.Question[0].Name = vc07CnTarget(f.pi)

		return &filter.ResultModifiedRequest{Msg: mod, List: list, Rule: rule}, nil
	default:
		return nil, nil
	}
}

func (f *vc07Filter) FilterResponse(ctx context.Context, resp *filter.Response) (r filter.Result, err error) {
	st, p := f.st, vc07Profiles[f.pi]
	exp := st.checkCtx(ctx, "filter-response", nil)
	q := resp.DNS.Question[0]
	if exp != nil {
		wantName := ""
		if d := exp.Client.device(); d != nil {
			wantName = "name-" + d.ID
		}

		if exp.Client.Prof != f.pi || resp.RemoteIP != exp.Client.Remote || resp.ClientName != wantName || !strings.EqualFold(q.Name, exp.Name) {
			st.fail(ctx, "response for %v from %s (client %q) filtered as profile %d for request %s", q, resp.RemoteIP, resp.ClientName, f.pi, exp)
		}
	}

	cat, _ := vc07CatOf(q.Name)
	if vc07Decide(f.pi, q.Name, q.Qtype) == "resp-blocked" {
		return &filter.ResultBlocked{List: filter.ID("vc07_" + p.ID), Rule: vc07RuleText(cat, p.ID)}, nil
	}

	return nil, nil
}

// ---------------------------------------------------------------------------
// Stack.

// vc07Event is something a request left behind in a recorder.
type vc07Event struct {
	Kind string
	Data string
}

// vc07Stack is one instance of the handlers with everything behind them.
type vc07Stack struct {
	conf     vc07StackConf
	cloner   *dnsmsg.Cloner
	handlers map[string]dnsserver.Handler
	up       *vc07Upstream
	hashFlt  *hashprefix.Filter

	// expect maps request IDs to the requests of the case.
	expect map[agd.RequestID]*vc07Req

	mu     sync.Mutex
	events map[agd.RequestID][]vc07Event
	fails  []string

	profs   []*agd.Profile
	devs    map[string]*agd.Device
	devProf map[string]int
	confs   map[filter.Config]int
}

func (st *vc07Stack) fail(ctx context.Context, format string, args ...any) {
	id, _ := agd.RequestIDFromContext(ctx)
	st.mu.Lock()
	defer st.mu.Unlock()

	st.fails = append(st.fails, fmt.Sprintf("[req %s] ", strings.TrimRight(string(id[:]), "\x00"))+fmt.Sprintf(format, args...))
}

func (st *vc07Stack) record(ctx context.Context, kind, format string, args ...any) {
	id, ok := agd.RequestIDFromContext(ctx)
	if !ok {
		st.fail(ctx, "%s recorded without a request id", kind)
	}

	st.mu.Lock()
	defer st.mu.Unlock()

	st.events[id] = append(st.events[id], vc07Event{Kind: kind, Data: fmt.Sprintf(format, args...)})
}

// checkCtx verifies that the request information in ctx is the one of the
// request whose ID the context carries.
func (st *vc07Stack) checkCtx(ctx context.Context, where string, msg *dns.Msg) (exp *vc07Req) {
	id, ok := agd.RequestIDFromContext(ctx)
	if !ok {
		st.fail(ctx, "%s: no request id in context", where)

		return nil
	}

	exp = st.expect[id]
	if exp == nil {
		st.fail(ctx, "%s: unknown request id", where)

		return nil
	}

	ri, ok := agd.RequestInfoFromContext(ctx)
	if !ok {
		st.fail(ctx, "%s: no request info", where)

		return exp
	}

	prof, dev := ri.DeviceData()
	gotProf, gotDev := "", ""
	if prof != nil {
		gotProf, gotDev = string(prof.ID), string(dev.ID)
	}

	wantDev := ""
	if d := exp.Client.device(); d != nil {
		wantDev = d.ID
	}

	if ri.ID != id || ri.RemoteIP != exp.Client.Remote || gotProf != vc07Profiles[exp.Client.Prof].ID || gotDev != wantDev {
		st.fail(ctx, "%s: request info {id %q remote %s profile %q device %q} does not belong to request %s", where, ri.ID, ri.RemoteIP, gotProf, gotDev, exp)
	}

	wantECS := netip.Prefix{}
	if exp.Client.ECS != "" {
		wantECS = netip.PrefixFrom(netip.MustParseAddr(exp.Client.ECS), exp.Client.ECSBits)
	}

	gotECS := netip.Prefix{}
	if ri.ECS != nil {
		gotECS = ri.ECS.Subnet
	}

	if gotECS != wantECS {
		st.fail(ctx, "%s: request info has client subnet %s, request %s", where, gotECS, exp)
	}

	wantLoc, gotLoc := vc07Location(exp.Client.Remote), ri.Location
	if (wantLoc == nil) != (gotLoc == nil) || (wantLoc != nil && (wantLoc.Country != gotLoc.Country || wantLoc.ASN != gotLoc.ASN)) {
		st.fail(ctx, "%s: request info has location %v, request %s", where, gotLoc, exp)
	}

	if msg != nil && len(msg.Question) == 1 {
		// The message is the client's (possibly with the question rewritten by
		// the client's own profile).
		name := msg.Question[0].Name
		if !strings.EqualFold(name, exp.Name) && name != vc07CnTarget(exp.Client.Prof) {
			st.fail(ctx, "%s: message asks %q, request %s", where, name, exp)
		}
	}

	return exp
}

const (
	vc07SrvDNS = "srv_dns"
	vc07SrvDoT = "srv_dot"

	vc07DeviceDomain = "d.dns.test"
)

var (
	vc07DNSAddr = netip.MustParseAddrPort("192.0.2.200:53")
	vc07DoTAddr = netip.MustParseAddrPort("192.0.2.200:853")
)

var vc07StackSeq atomic.Int64

// Finding identifiers (see the report of C07).
const (
	// vc07KnownHintOverlap: releasing a decoded upstream answer whose ipv4hint
	// has five or more addresses puts overlapping 16-byte windows of one array
	// into the cloner's address pool; later clones overwrite each other.
	vc07KnownHintOverlap = "cloner-ipv4hint-overlapping-pool-arrays"
	// vc07KnownHitOPT: the ECS cache keeps the upstream's OPT record in a
	// cached answer when it carries an EDE option.  A hit writes the remaining
	// TTL into its header, i.e. into the EDNS version and flag bits; and the DO
	// bit it was stored with is the echo of the first asker's upstream query.
	vc07KnownHitOPT = "ecscache-caches-upstream-opt-flags"
)

// vc07StackConf are the case-level settings of the stacks.
type vc07StackConf struct {
	OverrideTTL bool
	CacheType   dnssvc.CacheType
	// Real: the filters come from a real filterstorage.Default (shared rule
	// lists with result caches, per-profile custom rules) and the profiles from
	// a real profiledb.Default, instead of the harness's models.
	Real bool

	// known reports whether a finding is recorded; the upstream then stays
	// clear of its trigger (and the occurrence is counted as excluded).
	known func(id string) bool
}

func (c vc07StackConf) String() string {
	return fmt.Sprintf("{overrideTTL=%t cache=%d real=%t}", c.OverrideTTL, c.CacheType, c.Real)
}

func vc07NewStack(conf vc07StackConf, expect map[agd.RequestID]*vc07Req) (st *vc07Stack) {
	st = &vc07Stack{
		conf:    conf,
		cloner:  dnsmsg.NewCloner(dnsmsg.EmptyClonerStat{}),
		expect:  expect,
		events:  map[agd.RequestID][]vc07Event{},
		devs:    map[string]*agd.Device{},
		devProf: map[string]int{},
		confs:   map[filter.Config]int{},
	}
	st.up = &vc07Upstream{st: st}

	hashes, err := hashprefix.NewStorage("sb.u.test\nsb.s.test\nsb-rb.u.test\nsb-rb.s.test\n")
	if err != nil {
		panic(fmt.Errorf("VERIF-INCONCLUSIVE: hashprefix storage: %v", err))
	}

	st.hashFlt, err = hashprefix.NewFilter(&hashprefix.FilterConfig{
		Logger:          slog.New(slog.NewTextHandler(vc07Discard{}, &slog.HandlerOptions{Level: slog.LevelError + 4})),
		Cloner:          st.cloner,
		CacheManager:    agdcache.EmptyManager{},
		Hashes:          hashes,
		URL:             &url.URL{Scheme: "file", Path: "/nonexistent/vc07-list"},
		ErrColl:         agdtest.NewErrorCollector(),
		Metrics:         filter.EmptyMetrics{},
		ID:              filter.IDSafeBrowsing,
		CachePath:       "/nonexistent/vc07-cache",
		ReplacementHost: vc07SbIP.String(),
		Staleness:       time.Hour,
		CacheTTL:        time.Hour,
		RefreshTimeout:  time.Second,
		CacheCount:      100,
		MaxSize:         1 << 20,
	})
	if err != nil {
		panic(fmt.Errorf("VERIF-INCONCLUSIVE: hashprefix filter: %v", err))
	}

	sde := agdtest.NewSDEConfig(true)
	var messages *dnsmsg.Constructor
	messages, err = dnsmsg.NewConstructor(&dnsmsg.ConstructorConfig{
		Cloner:              st.cloner,
		BlockingMode:        vc07Profiles[0].blockingMode(),
		StructuredErrors:    sde,
		FilteredResponseTTL: vc07Profiles[0].TTL,
		EDEEnabled:          true,
	})
	if err != nil {
		panic(fmt.Errorf("VERIF-INCONCLUSIVE: constructor: %v", err))
	}

	linked := map[netip.Addr]string{}
	st.profs = make([]*agd.Profile, len(vc07Profiles))
	for pi, p := range vc07Profiles {
		if pi == 0 {
			continue
		}

		fc := &filter.ConfigClient{
			Custom:       &filter.ConfigCustom{},
			Parental:     &filter.ConfigParental{},
			RuleList:     &filter.ConfigRuleList{Enabled: true},
			SafeBrowsing: &filter.ConfigSafeBrowsing{},
		}
		if conf.Real {
			fc.RuleList.IDs = vc07RealProfileLists[pi]
			fc.Custom = &filter.ConfigCustom{ID: p.ID, UpdateTime: time.Unix(1700000000, 0), Rules: vc07RealCustom[pi], Enabled: len(vc07RealCustom[pi]) > 0}
		}

		st.confs[fc] = pi
		ap := &agd.Profile{
			FilterConfig:        fc,
			Access:              access.EmptyProfile{},
			BlockingMode:        p.blockingMode(),
			Ratelimiter:         agd.GlobalRatelimiter{},
			ID:                  agd.ProfileID(p.ID),
			FilteredResponseTTL: p.TTL,
			FilteringEnabled:    p.Filtering,
			QueryLogEnabled:     p.QueryLog,
			IPLogEnabled:        p.IPLog,
		}
		for _, d := range p.Devices {
			ap.DeviceIDs = append(ap.DeviceIDs, agd.DeviceID(d.ID))
			st.devs[d.ID] = &agd.Device{
				Auth:             &agd.AuthSettings{Enabled: false, PasswordHash: agdpasswd.AllowAuthenticator{}},
				ID:               agd.DeviceID(d.ID),
				LinkedIP:         d.LinkedIP,
				Name:             agd.DeviceName("name-" + d.ID),
				FilteringEnabled: !d.NoFilter,
			}
			st.devProf[d.ID] = pi
			if d.LinkedIP.IsValid() {
				linked[d.LinkedIP] = d.ID
			}
		}

		st.profs[pi] = ap
	}

	notFound := fmt.Errorf("vc07: %w", profiledb.ErrDeviceNotFound)
	db := agdtest.NewProfileDB()
	db.OnProfileByDeviceID = func(_ context.Context, id agd.DeviceID) (*agd.Profile, *agd.Device, error) {
		if d, ok := st.devs[string(id)]; ok {
			return st.profs[st.devProf[string(id)]], d, nil
		}

		return nil, nil, notFound
	}
	db.OnProfileByLinkedIP = func(_ context.Context, ip netip.Addr) (*agd.Profile, *agd.Device, error) {
		if id, ok := linked[ip]; ok {
			return st.profs[st.devProf[id]], st.devs[id], nil
		}

		return nil, nil, notFound
	}
	db.OnProfileByDedicatedIP = func(_ context.Context, _ netip.Addr) (*agd.Profile, *agd.Device, error) {
		return nil, nil, notFound
	}

	var profDB profiledb.Interface = db
	if conf.Real {
		profDB = vc07NewRealProfileDB(st)
	}

	grpConf := &filter.ConfigGroup{
		Parental:     &filter.ConfigParental{},
		RuleList:     &filter.ConfigRuleList{Enabled: true},
		SafeBrowsing: &filter.ConfigSafeBrowsing{},
	}
	if conf.Real {
		grpConf.RuleList.IDs = vc07RealProfileLists[0]
	}

	st.confs[grpConf] = 0
	var realStrg *filterstorage.Default
	if conf.Real {
		realStrg = vc07NewRealStorage(st)
	}
	fltGrp := &agd.FilteringGroup{FilterConfig: grpConf, ID: "vc07_grp"}

	filters := make([]*vc07Filter, len(vc07Profiles))
	for pi := range vc07Profiles {
		filters[pi] = &vc07Filter{st: st, pi: pi}
	}

	fltStrg := &agdtest.FilterStorage{
		OnForConfig: func(ctx context.Context, c filter.Config) (f filter.Interface) {
			exp := st.checkCtx(ctx, "filter-storage", nil)
			if c == nil || reflect.ValueOf(c).IsNil() {
				if exp != nil && vc07Profiles[exp.Client.Prof].Filtering && !(exp.Client.device() != nil && exp.Client.device().NoFilter) {
					st.fail(ctx, "no filter configuration used for request %s", exp)
				}

				return filter.Empty{}
			}

			pi, ok := st.confs[c]
			if cc, isClient := c.(*filter.ConfigClient); !ok && isClient && conf.Real {
				// The real profile database may hand out its own copies.
				for i, p := range vc07Profiles {
					if i > 0 && cc.Custom != nil && cc.Custom.ID == p.ID {
						pi, ok = i, true
					}
				}
			}

			if !ok {
				st.fail(ctx, "unknown filter configuration %p", c)

				return filter.Empty{}
			}

			if exp != nil && exp.Client.Prof != pi {
				st.fail(ctx, "filter configuration of profile %d used for request %s", pi, exp)
			}

			if conf.Real {
				return realStrg.ForConfig(ctx, c)
			}

			return filters[pi]
		},
		OnHasListID: func(_ filter.ID) (ok bool) { return true },
	}

	srvDNS := vc07NewServer(vc07SrvDNS, agd.ProtoDNS, vc07DNSAddr)
	srvDNS.LinkedIPEnabled = true
	srvDoT := vc07NewServer(vc07SrvDoT, agd.ProtoDoT, vc07DoTAddr)
	srvGrp := &agd.ServerGroup{
		DDR:             &agd.DDR{},
		DeviceDomains:   []string{vc07DeviceDomain},
		Name:            "vc07_srvgrp",
		FilteringGroup:  fltGrp.ID,
		Servers:         []*agd.Server{srvDNS, srvDoT},
		ProfilesEnabled: true,
	}

	rl := &vc07Limiter{counts: map[netip.Addr]int{}}

	hc := &dnssvc.HandlersConfig{
		BaseLogger: slog.New(slog.NewTextHandler(vc07Discard{}, &slog.HandlerOptions{Level: slog.LevelError + 4})),
		Cloner:     st.cloner,
		Cache: &dnssvc.CacheConfig{
			MinTTL:           20 * time.Second,
			ECSCount:         1000,
			NoECSCount:       1000,
			Type:             conf.CacheType,
			OverrideCacheTTL: conf.OverrideTTL,
		},
		HumanIDParser:    agd.NewHumanIDParser(),
		Messages:         messages,
		StructuredErrors: sde,
		AccessManager: &agdtest.AccessManager{
			OnIsBlockedHost: func(string, uint16) bool { return false },
			OnIsBlockedIP:   func(netip.Addr) bool { return false },
		},
		BillStat: &agdtest.BillStatRecorder{
			OnRecord: func(ctx context.Context, id agd.DeviceID, ctry geoip.Country, asn geoip.ASN, _ time.Time, proto agd.Protocol) {
				st.record(ctx, "bill", "dev=%s ctry=%s asn=%d proto=%s", id, ctry, asn, proto)
			},
		},
		CacheManager: agdcache.EmptyManager{},
		DNSCheck: &agdtest.DNSCheck{
			OnCheck: func(ctx context.Context, req *dns.Msg, _ *agd.RequestInfo) (*dns.Msg, error) {
				st.checkCtx(ctx, "dnscheck", req)

				return nil, nil
			},
		},
		DNSDB: &agdtest.DNSDB{
			OnRecord: func(ctx context.Context, resp *dns.Msg, ri *agd.RequestInfo) {
				st.checkCtx(ctx, "dnsdb", nil)
				name := ""
				if resp != nil && len(resp.Question) == 1 {
					name = strings.ToLower(resp.Question[0].Name)
				}

				st.record(ctx, "dnsdb", "host=%s q=%s", ri.Host, name)
			},
		},
		ErrColl: &agdtest.ErrorCollector{
			OnCollect: func(ctx context.Context, err error) {
				st.record(ctx, "error", "%v", err)
			},
		},
		FilterStorage: fltStrg,
		GeoIP:         vc07NewGeo(),
		Handler:       st.up,
		HashMatcher: &agdtest.HashMatcher{
			OnMatchByPrefix: func(context.Context, string) ([]string, bool, error) { return nil, false, nil },
		},
		ProfileDB:            profDB,
		PrometheusRegisterer: agdtest.NewTestPrometheusRegisterer(),
		QueryLog: &agdtest.QueryLog{
			OnWrite: func(ctx context.Context, e *querylog.Entry) (err error) {
				ctxID, _ := agd.RequestIDFromContext(ctx)
				if e.RequestID != ctxID {
					st.fail(ctx, "query log entry carries request id %q", e.RequestID)
				}

				reqRule, respRule := "", ""
				if e.RequestResult != nil {
					_, r := e.RequestResult.MatchedRule()
					reqRule = fmt.Sprintf("%T:%s", e.RequestResult, r)
				}

				if e.ResponseResult != nil {
					_, r := e.ResponseResult.MatchedRule()
					respRule = fmt.Sprintf("%T:%s", e.ResponseResult, r)
				}

				remote := ""
				if e.RemoteIP.IsValid() {
					remote = e.RemoteIP.String()
				}

				st.record(ctx, "querylog", "prof=%s dev=%s name=%s qt=%d rcode=%d cctry=%s casn=%d rctry=%s proto=%s dnssec=%t remote=%s req=%s resp=%s",
					e.ProfileID, e.DeviceID, e.DomainFQDN, e.RequestType, e.ResponseCode, e.ClientCountry, e.ClientASN, e.ResponseCountry, e.Protocol, e.DNSSEC, remote, reqRule, respRule)

				return nil
			},
		},
		RateLimit: rl,
		RuleStat: &agdtest.RuleStat{
			OnCollect: func(ctx context.Context, id filter.ID, text filter.RuleText) {
				st.record(ctx, "rulestat", "%s %s", id, text)
			},
		},
		MetricsNamespace: fmt.Sprintf("vc07_%d", vc07StackSeq.Add(1)),
		FilteringGroups:  map[agd.FilteringGroupID]*agd.FilteringGroup{fltGrp.ID: fltGrp},
		ServerGroups:     []*agd.ServerGroup{srvGrp},
		EDEEnabled:       true,
	}

	if conf.CacheType == dnssvc.CacheTypeSimple {
		// The simple cache registers its collectors with the default
		// registerer; every stack gets a registry of its own.  (Stacks are
		// built by the test goroutine only.)
		oldReg := prometheus.DefaultRegisterer
		prometheus.DefaultRegisterer = prometheus.NewRegistry()
		defer func() { prometheus.DefaultRegisterer = oldReg }()
	}

	handlers, err := dnssvc.NewHandlers(context.Background(), hc)
	if err != nil {
		panic(fmt.Errorf("VERIF-INCONCLUSIVE: NewHandlers: %v", err))
	}

	st.handlers = map[string]dnsserver.Handler{}
	for k, h := range handlers {
		st.handlers[string(k.Server.Name)] = h
	}

	return st
}

// vc07NewRealProfileDB returns a real profile database synchronised once from
// a storage that serves the profiles and devices of st.
func vc07NewRealProfileDB(st *vc07Stack) *profiledb.Default {
	strg := &agdtest.ProfileStorage{
		OnCreateAutoDevice: func(context.Context, *profiledb.StorageCreateAutoDeviceRequest) (*profiledb.StorageCreateAutoDeviceResponse, error) {
			return nil, errors.New("vc07: no automatic devices")
		},
		OnProfiles: func(context.Context, *profiledb.StorageProfilesRequest) (*profiledb.StorageProfilesResponse, error) {
			resp := &profiledb.StorageProfilesResponse{SyncTime: time.Unix(1700000000, 0)}
			for pi, p := range vc07Profiles {
				if pi == 0 {
					continue
				}

				resp.Profiles = append(resp.Profiles, st.profs[pi])
				for _, d := range p.Devices {
					resp.Devices = append(resp.Devices, st.devs[d.ID])
				}
			}

			return resp, nil
		},
	}

	db, err := profiledb.New(&profiledb.Config{
		Logger:               slog.New(slog.NewTextHandler(vc07Discard{}, &slog.HandlerOptions{Level: slog.LevelError + 4})),
		Storage:              strg,
		ErrColl:              agdtest.NewErrorCollector(),
		Metrics:              profiledb.EmptyMetrics{},
		CacheFilePath:        "none",
		FullSyncIvl:          time.Hour,
		FullSyncRetryIvl:     time.Hour,
		ResponseSizeEstimate: 1,
	})
	if err != nil {
		panic(fmt.Errorf("VERIF-INCONCLUSIVE: profile database: %v", err))
	}

	if err = db.Refresh(context.Background()); err != nil {
		panic(fmt.Errorf("VERIF-INCONCLUSIVE: profile database refresh: %v", err))
	}

	return db
}

func vc07NewServer(name agd.ServerName, proto agd.Protocol, addr netip.AddrPort) *agd.Server {
	srv := &agd.Server{Name: name, Protocol: proto, ReadTimeout: time.Second, WriteTimeout: time.Second}
	srv.SetBindData([]*agd.ServerBindData{{AddrPort: addr}})

	return srv
}

type vc07Discard struct{}

func (vc07Discard) Write(p []byte) (int, error) { return len(p), nil }

// vc07Limiter is a rate limiter that counts and never limits; 203.0.113.64/26
// is allowlisted.
type vc07Limiter struct {
	mu     sync.Mutex
	counts map[netip.Addr]int
}

var vc07Allowlisted = netip.MustParsePrefix("203.0.113.64/26")

func (l *vc07Limiter) IsRateLimited(_ context.Context, _ *dns.Msg, ip netip.Addr) (shouldDrop, isAllowlisted bool, err error) {
	l.mu.Lock()
	defer l.mu.Unlock()

	l.counts[ip]++

	return false, vc07Allowlisted.Contains(ip), nil
}

func (l *vc07Limiter) CountResponses(_ context.Context, _ *dns.Msg, ip netip.Addr) {
	l.mu.Lock()
	defer l.mu.Unlock()

	l.counts[ip]++
}

// ---------------------------------------------------------------------------
// Serving one request the way ServerBase does for UDP and TCP.

type vc07RW struct {
	local, remote net.Addr
	resp          *dns.Msg
	wire          []byte
	writes        int
	err           string
}

func (rw *vc07RW) LocalAddr() net.Addr  { return rw.local }
func (rw *vc07RW) RemoteAddr() net.Addr { return rw.remote }

// WriteMsg packs the message, as the UDP and TCP writers do.
func (rw *vc07RW) WriteMsg(_ context.Context, _, resp *dns.Msg) (err error) {
	rw.writes++
	rw.resp = resp
	rw.wire, err = resp.Pack()
	if err != nil {
		rw.err = fmt.Sprintf("response does not pack: %v: %v", err, resp)
	}

	return err
}

// vc07Outcome is what a client observes, plus what the request left in the
// recorders.
type vc07Outcome struct {
	Wire   []byte
	Writes int
	Err    string
	Events []vc07Event
}

// serve passes r through the handlers of st and then does what
// ServerBase.serveDNSMsg does for UDP and TCP connections: the written message
// is released to the cloner.
func (st *vc07Stack) serve(r *vc07Req) (out vc07Outcome) {
	c := r.Client
	srvName, laddr, sni := vc07SrvDNS, vc07DNSAddr, ""
	if c.Via == "sni" {
		srvName, laddr, sni = vc07SrvDoT, vc07DoTAddr, c.device().ID+"."+vc07DeviceDomain
	}

	ctx := context.Background()
	ctx = dnsserver.ContextWithServerInfo(ctx, &dnsserver.ServerInfo{Name: srvName, Addr: laddr.String(), Proto: map[string]dnsserver.Protocol{vc07SrvDNS: dnsserver.ProtoDNS, vc07SrvDoT: dnsserver.ProtoDoT}[srvName]})
	ctx = dnsserver.ContextWithRequestInfo(ctx, &dnsserver.RequestInfo{StartTime: time.Now(), TLSServerName: sni})
	ctx = agd.WithRequestID(ctx, r.ID)
	if r.Cancel {
		var cancel context.CancelFunc
		ctx, cancel = context.WithCancel(ctx)
		cancel()
	}

	rw := &vc07RW{
		local:  net.TCPAddrFromAddrPort(laddr),
		remote: net.TCPAddrFromAddrPort(netip.AddrPortFrom(c.Remote, uint16(20000+r.N))),
	}

	func() {
		defer func() {
			if p := recover(); p != nil {
				if s := fmt.Sprint(p); strings.Contains(s, "VERIF-INCONCLUSIVE") {
					panic(p)
				}

				rw.err = fmt.Sprintf("panic in handler: %v", p)
			}
		}()

		if err := st.handlers[srvName].ServeDNS(ctx, rw, r.msg()); err != nil {
			st.record(ctx, "handler-error", "%v", err)
		}
	}()

	if rw.resp != nil && rw.err == "" {
		// Nothing may have written to the message since it went out.
		again, err := rw.resp.Pack()
		if err != nil || string(again) != string(rw.wire) {
			rw.err = fmt.Sprintf("written message changed before the server released it (err %v): sent %s now %s", err, hex.EncodeToString(rw.wire), hex.EncodeToString(again))
		}

		st.cloner.Dispose(rw.resp)
	}

	st.mu.Lock()
	evs := append([]vc07Event(nil), st.events[r.ID]...)
	st.mu.Unlock()

	return vc07Outcome{Wire: rw.wire, Writes: rw.writes, Err: rw.err, Events: evs}
}
