//go:build verif

package dnsmsg_test

// C07 (a): generators and the structural snapshot used by the Cloner state
// machine.  See /verif/DESIGN.md, section 3, C07.

import (
	"encoding/hex"
	"fmt"
	"net"
	"reflect"
	"sort"
	"strings"

	"github.com/miekg/dns"
	"pgregory.net/rapid"
)

// ---------------------------------------------------------------------------
// Structural snapshot.

// vc07Dump renders everything reachable from v (pointers and interfaces are
// followed, nil and empty slices are the same thing, only the first len
// elements of a slice are looked at).  RR_Header.Rdlength is skipped: it is set
// by the wire decoder, ignored by the encoder and not part of a message.
func vc07Dump(v any) string {
	var b strings.Builder
	vc07DumpVal(&b, reflect.ValueOf(v))

	return b.String()
}

func vc07DumpVal(b *strings.Builder, v reflect.Value) {
	switch v.Kind() {
	case reflect.Invalid:
		b.WriteString("nil")
	case reflect.Ptr:
		if v.IsNil() {
			b.WriteString("nil")

			return
		}

		b.WriteByte('&')
		vc07DumpVal(b, v.Elem())
	case reflect.Interface:
		if v.IsNil() {
			b.WriteString("nil")

			return
		}

		b.WriteString(v.Elem().Type().String())
		vc07DumpVal(b, v.Elem())
	case reflect.Struct:
		b.WriteByte('{')
		t := v.Type()
		for i := 0; i < v.NumField(); i++ {
			if t.Field(i).Name == "Rdlength" {
				continue
			}

			b.WriteString(t.Field(i).Name)
			b.WriteByte(':')
			vc07DumpVal(b, v.Field(i))
			b.WriteByte(' ')
		}

		b.WriteByte('}')
	case reflect.Slice:
		if v.Type().Elem().Kind() == reflect.Uint8 {
			b.WriteString("x'")
			b.WriteString(hex.EncodeToString(v.Bytes()))
			b.WriteByte('\'')

			return
		}

		b.WriteByte('[')
		for i := 0; i < v.Len(); i++ {
			vc07DumpVal(b, v.Index(i))
			b.WriteByte(',')
		}

		b.WriteByte(']')
	case reflect.String:
		fmt.Fprintf(b, "%q", v.String())
	case reflect.Bool:
		fmt.Fprintf(b, "%t", v.Bool())
	case reflect.Int, reflect.Int8, reflect.Int16, reflect.Int32, reflect.Int64:
		fmt.Fprintf(b, "%d", v.Int())
	case reflect.Uint, reflect.Uint8, reflect.Uint16, reflect.Uint32, reflect.Uint64:
		fmt.Fprintf(b, "%d", v.Uint())
	default:
		panic(fmt.Errorf("vc07Dump: unsupported kind %s", v.Kind()))
	}
}

// vc07FirstDiff points at the first difference of two dumps.
func vc07FirstDiff(a, b string) string {
	n := min(len(a), len(b))
	i := 0
	for i < n && a[i] == b[i] {
		i++
	}

	from := max(0, i-120)

	return fmt.Sprintf("at byte %d:\n   want ...%s\n   got  ...%s", i, a[from:min(len(a), i+80)], b[from:min(len(b), i+80)])
}

// ---------------------------------------------------------------------------
// In-place mutation sites.

// vc07Site is one place of a message that a holder of the message may write
// to.
type vc07Site struct {
	// v is the addressable value: a scalar leaf, a byte of a byte slice, or a
	// slice (for append / truncate).
	v    reflect.Value
	path string
}

// vc07Sites lists the writable places reachable from m: every scalar field,
// every element of every slice, and every slice itself.
func vc07Sites(m *dns.Msg) (sites []vc07Site) {
	vc07Walk(reflect.ValueOf(m).Elem(), "msg", &sites)

	return sites
}

func vc07Walk(v reflect.Value, path string, out *[]vc07Site) {
	switch v.Kind() {
	case reflect.Ptr, reflect.Interface:
		if !v.IsNil() {
			vc07Walk(v.Elem(), path, out)
		}
	case reflect.Struct:
		t := v.Type()
		for i := 0; i < v.NumField(); i++ {
			if t.Field(i).Name == "Rdlength" {
				continue
			}

			vc07Walk(v.Field(i), path+"."+t.Field(i).Name, out)
		}
	case reflect.Slice:
		if v.CanSet() {
			*out = append(*out, vc07Site{v: v, path: path + "[]"})
		}

		for i := 0; i < v.Len(); i++ {
			vc07Walk(v.Index(i), fmt.Sprintf("%s[%d]", path, i), out)
		}
	case reflect.String, reflect.Bool,
		reflect.Int, reflect.Int8, reflect.Int16, reflect.Int32, reflect.Int64,
		reflect.Uint, reflect.Uint8, reflect.Uint16, reflect.Uint32, reflect.Uint64:
		if v.CanSet() {
			*out = append(*out, vc07Site{v: v, path: path})
		}
	}
}

var (
	vc07TypeRR   = reflect.TypeOf((*dns.RR)(nil)).Elem()
	vc07TypeOpt  = reflect.TypeOf((*dns.EDNS0)(nil)).Elem()
	vc07TypeSVCB = reflect.TypeOf((*dns.SVCBKeyValue)(nil)).Elem()
)

// vc07NewElem returns a brand-new element for a slice of type t, not shared
// with anything.
func vc07NewElem(t reflect.Type, salt int) reflect.Value {
	switch t {
	case vc07TypeRR:
		var rr dns.RR = &dns.TXT{
			Hdr: dns.RR_Header{Name: "added.test.", Rrtype: dns.TypeTXT, Class: dns.ClassCHAOS, Ttl: uint32(salt)},
			Txt: []string{fmt.Sprintf("added-%d", salt)},
		}

		return reflect.ValueOf(&rr).Elem()
	case vc07TypeOpt:
		var o dns.EDNS0 = &dns.EDNS0_PADDING{Padding: []byte{byte(salt), 1, 2}}
		if salt%2 == 0 {
			o = &dns.EDNS0_EDE{InfoCode: uint16(salt), ExtraText: "added"}
		}

		return reflect.ValueOf(&o).Elem()
	case vc07TypeSVCB:
		var kv dns.SVCBKeyValue = &dns.SVCBLocal{KeyCode: dns.SVCBKey(65000 + salt%100), Data: []byte{byte(salt)}}

		return reflect.ValueOf(&kv).Elem()
	}

	e := reflect.New(t).Elem()
	switch t.Kind() {
	case reflect.String:
		e.SetString(fmt.Sprintf("s%d", salt))
	case reflect.Uint8, reflect.Uint16, reflect.Uint32:
		e.SetUint(uint64(salt) & 0xff)
	case reflect.Slice:
		// net.IP inside []net.IP
		if t.Elem().Kind() == reflect.Uint8 {
			e.SetBytes([]byte{10, 7, byte(salt >> 8), byte(salt)})
		}
	case reflect.Struct:
		// dns.Question
		if q, ok := e.Addr().Interface().(*dns.Question); ok {
			*q = dns.Question{Name: fmt.Sprintf("q%d.test.", salt), Qtype: dns.TypeA, Qclass: dns.ClassINET}
		}
	}

	return e
}

// vc07MutateSite writes to the site the way a holder of the message may: a
// scalar is changed, a slice is appended to (inside its capacity if there is
// room, as append does) or loses its last element (which is cleared, as
// slices.Delete does).
func vc07MutateSite(s vc07Site, salt int) (what string) {
	v := s.v
	switch v.Kind() {
	case reflect.String:
		v.SetString(v.String() + fmt.Sprintf("m%d.", salt%10))

		return "string"
	case reflect.Bool:
		v.SetBool(!v.Bool())

		return "bool"
	case reflect.Int, reflect.Int8, reflect.Int16, reflect.Int32, reflect.Int64:
		v.SetInt(v.Int() ^ 1)

		return "int"
	case reflect.Uint, reflect.Uint8, reflect.Uint16, reflect.Uint32, reflect.Uint64:
		v.SetUint(v.Uint() ^ uint64(1+salt%7))

		return "uint"
	case reflect.Slice:
		if salt%3 == 0 && v.Len() > 0 {
			last := v.Index(v.Len() - 1)
			last.Set(reflect.Zero(last.Type()))
			v.SetLen(v.Len() - 1)

			return "slice-truncate"
		}

		// v.Set(reflect.Append(v, e)) writes into the existing array when
		// cap > len, exactly like the append built-in.
		inCap := v.Cap() > v.Len()
		v.Set(reflect.Append(v, vc07NewElem(v.Type().Elem(), salt)))
		if inCap {
			return "slice-append-incap"
		}

		return "slice-append"
	}

	return ""
}

// ---------------------------------------------------------------------------
// Shared storage.

// vc07Store is a piece of writable storage reachable from a message: a struct
// behind a pointer or the array behind a slice.
type vc07Store struct {
	path string
	v    reflect.Value
}

// vc07Stores maps the address of every piece of writable storage reachable
// from m to where it was found.  Zero-size objects (empty structs, slices
// without capacity) carry no state and are left out; strings are immutable.
func vc07Stores(m *dns.Msg) (stores map[uintptr]vc07Store) {
	stores = map[uintptr]vc07Store{}
	vc07WalkStores(reflect.ValueOf(m), "msg", stores)

	return stores
}

func vc07WalkStores(v reflect.Value, path string, out map[uintptr]vc07Store) {
	switch v.Kind() {
	case reflect.Ptr:
		if v.IsNil() {
			return
		}

		if v.Elem().Type().Size() > 0 {
			out[v.Pointer()] = vc07Store{path: path, v: v}
		}

		vc07WalkStores(v.Elem(), path, out)
	case reflect.Interface:
		if !v.IsNil() {
			vc07WalkStores(v.Elem(), path, out)
		}
	case reflect.Struct:
		t := v.Type()
		for i := 0; i < v.NumField(); i++ {
			vc07WalkStores(v.Field(i), path+"."+t.Field(i).Name, out)
		}
	case reflect.Slice:
		if v.Cap() > 0 && v.Type().Elem().Size() > 0 {
			out[v.Pointer()] = vc07Store{path: path + "[]", v: v}
		}

		if k := v.Type().Elem().Kind(); k == reflect.Ptr || k == reflect.Interface || k == reflect.Slice || k == reflect.Struct {
			for i := 0; i < v.Len(); i++ {
				vc07WalkStores(v.Index(i), fmt.Sprintf("%s[%d]", path, i), out)
			}
		}
	}
}

// vc07SharedStores lists the storage that a and b both reach.
func vc07SharedStores(a, b *dns.Msg) (shared []string) {
	sa, sb := vc07Stores(a), vc07Stores(b)
	for p, st := range sa {
		if o, ok := sb[p]; ok {
			shared = append(shared, st.path+" = "+o.path)
		}
	}

	sort.Strings(shared)

	return shared
}

// ---------------------------------------------------------------------------
// Message generator.

// Names include the minimal ones (the root, a one-letter name) and a label of
// the maximal length.
var vc07Names = []string{"a.test.", "b.test.", "www.a.test.", "WwW.Mixed.Test.", "x-1.y.z.test.", ".", "a.", strings.Repeat("l", 63) + ".test."}

func vc07Name(t *rapid.T, l string) string {
	return rapid.SampledFrom(vc07Names).Draw(t, l)
}

func vc07Hdr(t *rapid.T, rrtype uint16) dns.RR_Header {
	return dns.RR_Header{
		Name:   vc07Name(t, "owner"),
		Rrtype: rrtype,
		Class:  dns.ClassINET,
		Ttl:    rapid.SampledFrom([]uint32{0, 1, 10, 300, 86400}).Draw(t, "ttl"),
	}
}

func vc07IP4(t *rapid.T) net.IP {
	return net.IP{192, 0, 2, byte(rapid.IntRange(0, 255).Draw(t, "ip4"))}
}

func vc07IP6(t *rapid.T) net.IP {
	ip := net.ParseIP("2001:db8::")
	ip[15] = byte(rapid.IntRange(0, 255).Draw(t, "ip6"))
	ip[8] = 0x77

	return ip
}

func vc07SVCBValues(t *rapid.T) (vals []dns.SVCBKeyValue) {
	// Keys must be unique; the encoder sorts them.
	if rapid.IntRange(0, 3).Draw(t, "mandatory") == 0 {
		vals = append(vals, &dns.SVCBMandatory{Code: []dns.SVCBKey{dns.SVCB_ALPN, dns.SVCB_PORT}[:rapid.IntRange(1, 2).Draw(t, "nMand")]})
	}

	if rapid.Bool().Draw(t, "alpn") {
		vals = append(vals, &dns.SVCBAlpn{Alpn: rapid.SliceOfN(rapid.SampledFrom([]string{"h2", "h3", "http/1.1", "dot"}), 1, 3).Draw(t, "alpnIDs")})
	}

	if rapid.IntRange(0, 3).Draw(t, "nodefault") == 0 {
		vals = append(vals, &dns.SVCBNoDefaultAlpn{})
	}

	if rapid.IntRange(0, 2).Draw(t, "port") == 0 {
		vals = append(vals, &dns.SVCBPort{Port: uint16(rapid.IntRange(1, 65535).Draw(t, "portN"))})
	}

	if rapid.Bool().Draw(t, "v4hint") {
		n := rapid.SampledFrom([]int{1, 2, 2, 3, 4, 5, 6, 8}).Draw(t, "nV4")
		h := &dns.SVCBIPv4Hint{}
		for i := 0; i < n; i++ {
			h.Hint = append(h.Hint, vc07IP4(t))
		}

		vals = append(vals, h)
	}

	if rapid.IntRange(0, 2).Draw(t, "ech") == 0 {
		vals = append(vals, &dns.SVCBECHConfig{ECH: rapid.SliceOfN(rapid.Byte(), 1, 24).Draw(t, "echBytes")})
	}

	if rapid.Bool().Draw(t, "v6hint") {
		n := rapid.IntRange(1, 4).Draw(t, "nV6")
		h := &dns.SVCBIPv6Hint{}
		for i := 0; i < n; i++ {
			h.Hint = append(h.Hint, vc07IP6(t))
		}

		vals = append(vals, h)
	}

	if rapid.IntRange(0, 3).Draw(t, "dohpath") == 0 {
		vals = append(vals, &dns.SVCBDoHPath{Template: "/dns-query{?dns}"})
	}

	if rapid.IntRange(0, 3).Draw(t, "ohttp") == 0 {
		vals = append(vals, &dns.SVCBOhttp{})
	}

	if rapid.IntRange(0, 3).Draw(t, "local") == 0 {
		vals = append(vals, &dns.SVCBLocal{KeyCode: dns.SVCBKey(65280 + rapid.IntRange(0, 3).Draw(t, "localKey")), Data: rapid.SliceOfN(rapid.Byte(), 0, 8).Draw(t, "localData")})
	}

	return vals
}

// vc07AnswerRR draws a record for the answer section: mostly the types the
// cloner special-cases, sometimes types it leaves to dns.Copy.
func vc07AnswerRR(t *rapid.T) dns.RR {
	switch k := rapid.IntRange(0, 13).Draw(t, "rrKind"); k {
	case 0:
		return &dns.A{Hdr: vc07Hdr(t, dns.TypeA), A: vc07IP4(t)}
	case 1:
		return &dns.AAAA{Hdr: vc07Hdr(t, dns.TypeAAAA), AAAA: vc07IP6(t)}
	case 2:
		return &dns.CNAME{Hdr: vc07Hdr(t, dns.TypeCNAME), Target: vc07Name(t, "target")}
	case 3:
		return &dns.MX{Hdr: vc07Hdr(t, dns.TypeMX), Mx: vc07Name(t, "mx"), Preference: uint16(rapid.IntRange(0, 100).Draw(t, "pref"))}
	case 4:
		return &dns.PTR{Hdr: vc07Hdr(t, dns.TypePTR), Ptr: vc07Name(t, "ptr")}
	case 5:
		return &dns.SRV{Hdr: vc07Hdr(t, dns.TypeSRV), Target: vc07Name(t, "srv"), Priority: 1, Weight: uint16(rapid.IntRange(0, 9).Draw(t, "weight")), Port: 853}
	case 6:
		return &dns.TXT{Hdr: vc07Hdr(t, dns.TypeTXT), Txt: rapid.SliceOfN(rapid.OneOf(rapid.StringMatching(`[a-z0-9=]{0,20}`), rapid.SampledFrom([]string{"", strings.Repeat("t", 255)})), 1, 4).Draw(t, "txt")}
	case 7, 8, 9:
		return &dns.HTTPS{SVCB: dns.SVCB{Hdr: vc07Hdr(t, dns.TypeHTTPS), Priority: uint16(rapid.IntRange(0, 3).Draw(t, "prio")), Target: vc07Name(t, "svcTarget"), Value: vc07SVCBValues(t)}}
	case 10:
		return &dns.NS{Hdr: vc07Hdr(t, dns.TypeNS), Ns: vc07Name(t, "ns")}
	case 11:
		return &dns.SVCB{Hdr: vc07Hdr(t, dns.TypeSVCB), Priority: 1, Target: vc07Name(t, "svcTarget"), Value: vc07SVCBValues(t)}
	case 12:
		return &dns.DS{Hdr: vc07Hdr(t, dns.TypeDS), KeyTag: 7, Algorithm: 13, DigestType: 2, Digest: "aabbccdd"}
	default:
		return vc07SOA(t)
	}
}

func vc07SOA(t *rapid.T) dns.RR {
	return &dns.SOA{Hdr: vc07Hdr(t, dns.TypeSOA), Ns: "ns.test.", Mbox: "m.test.", Serial: uint32(rapid.IntRange(0, 9).Draw(t, "serial")), Refresh: 1, Retry: 2, Expire: 3, Minttl: uint32(rapid.IntRange(0, 600).Draw(t, "minttl"))}
}

func vc07OPT(t *rapid.T) *dns.OPT {
	opt := &dns.OPT{Hdr: dns.RR_Header{Name: ".", Rrtype: dns.TypeOPT}}
	opt.SetUDPSize(rapid.SampledFrom([]uint16{0, 512, 1232, 4096, 65535}).Draw(t, "udp"))
	// EDNS version and flag bits: mostly zero with DO, sometimes anything (a
	// client may send any of them).
	switch rapid.IntRange(0, 3).Draw(t, "optFlags") {
	case 0:
		opt.SetDo()
	case 1:
		opt.SetVersion(uint8(rapid.IntRange(0, 3).Draw(t, "ednsVer")))
		opt.SetZ(uint16(rapid.IntRange(0, 0x7fff).Draw(t, "ednsZ")))
		opt.SetDo(rapid.Bool().Draw(t, "do"))
	}

	nOpts := rapid.IntRange(0, 4).Draw(t, "nOpts")
	for i := 0; i < nOpts; i++ {
		switch rapid.IntRange(0, 9).Draw(t, "optKind") {
		case 0, 1:
			opt.Option = append(opt.Option, &dns.EDNS0_COOKIE{Code: dns.EDNS0COOKIE, Cookie: hex.EncodeToString(rapid.SliceOfN(rapid.Byte(), 8, 8).Draw(t, "cookie"))})
		case 2, 3:
			opt.Option = append(opt.Option, &dns.EDNS0_EDE{InfoCode: uint16(rapid.IntRange(0, 30).Draw(t, "ede")), ExtraText: rapid.SampledFrom([]string{"", "blocked", "stale"}).Draw(t, "edeText")})
		case 4, 5:
			bits := rapid.SampledFrom([]uint8{0, 8, 20, 24, 32}).Draw(t, "ecs4Bits")
			opt.Option = append(opt.Option, &dns.EDNS0_SUBNET{Code: dns.EDNS0SUBNET, Family: 1, SourceNetmask: bits, SourceScope: uint8(rapid.IntRange(0, int(bits)).Draw(t, "scope")), Address: vc07IP4(t).Mask(net.CIDRMask(int(bits), 32))})
		case 6:
			bits := rapid.SampledFrom([]uint8{0, 32, 48, 56, 128}).Draw(t, "ecs6Bits")
			opt.Option = append(opt.Option, &dns.EDNS0_SUBNET{Code: dns.EDNS0SUBNET, Family: 2, SourceNetmask: bits, Address: vc07IP6(t).Mask(net.CIDRMask(int(bits), 128))})
		case 7:
			opt.Option = append(opt.Option, &dns.EDNS0_NSID{Code: dns.EDNS0NSID, Nsid: "abcd"})
		case 8:
			if rapid.Bool().Draw(t, "dau") {
				opt.Option = append(opt.Option, &dns.EDNS0_DAU{Code: dns.EDNS0DAU, AlgCode: []uint8{8, 13, 15}})
			} else {
				opt.Option = append(opt.Option, &dns.EDNS0_PADDING{Padding: make([]byte, rapid.IntRange(0, 12).Draw(t, "pad"))})
			}
		default:
			opt.Option = append(opt.Option, &dns.EDNS0_LOCAL{Code: 65074, Data: []byte("dev" + fmt.Sprint(i))})
		}
	}

	return opt
}

// vc07DrawWire draws a message and returns its wire image; live messages are
// always decoded from such an image, the way every message enters the server.
func vc07DrawWire(t *rapid.T) (wire []byte) {
	m := &dns.Msg{}
	m.Id = uint16(rapid.IntRange(0, 65535).Draw(t, "id"))
	m.Response = rapid.Bool().Draw(t, "qr")
	m.RecursionDesired = rapid.Bool().Draw(t, "rd")
	m.RecursionAvailable = rapid.Bool().Draw(t, "ra")
	m.AuthenticatedData = rapid.Bool().Draw(t, "ad")
	m.CheckingDisabled = rapid.Bool().Draw(t, "cd")
	m.Rcode = rapid.SampledFrom([]int{0, 0, 0, 2, 3, 5}).Draw(t, "rcode")

	nQ := rapid.SampledFrom([]int{1, 1, 1, 1, 1, 0, 2}).Draw(t, "nQ")
	for i := 0; i < nQ; i++ {
		m.Question = append(m.Question, dns.Question{
			Name:   vc07Name(t, "qname"),
			Qtype:  rapid.SampledFrom([]uint16{dns.TypeA, dns.TypeAAAA, dns.TypeTXT, dns.TypeHTTPS, dns.TypeMX}).Draw(t, "qtype"),
			Qclass: rapid.SampledFrom([]uint16{dns.ClassINET, dns.ClassINET, dns.ClassCHAOS}).Draw(t, "qclass"),
		})
	}

	for i, n := 0, rapid.IntRange(0, 5).Draw(t, "nAns"); i < n; i++ {
		m.Answer = append(m.Answer, vc07AnswerRR(t))
	}

	for i, n := 0, rapid.IntRange(0, 2).Draw(t, "nNs"); i < n; i++ {
		if rapid.Bool().Draw(t, "nsIsSOA") {
			m.Ns = append(m.Ns, vc07SOA(t))
		} else {
			m.Ns = append(m.Ns, &dns.NS{Hdr: vc07Hdr(t, dns.TypeNS), Ns: vc07Name(t, "ns")})
		}
	}

	for i, n := 0, rapid.IntRange(0, 2).Draw(t, "nExtra"); i < n; i++ {
		if rapid.Bool().Draw(t, "extraIsA") {
			m.Extra = append(m.Extra, &dns.A{Hdr: vc07Hdr(t, dns.TypeA), A: vc07IP4(t)})
		} else {
			m.Extra = append(m.Extra, &dns.TXT{Hdr: vc07Hdr(t, dns.TypeTXT), Txt: []string{"extra"}})
		}
	}

	if rapid.IntRange(0, 2).Draw(t, "edns") > 0 {
		m.Extra = append(m.Extra, vc07OPT(t))
	}

	m.Compress = rapid.Bool().Draw(t, "compress")
	wire, err := m.Pack()
	if err != nil {
		// A generator fault, not a verdict about the code under test.
		panic(fmt.Errorf("VERIF-INCONCLUSIVE: generator built an unpackable message: %v: %v", err, m))
	}

	return wire
}

// vc07Unpack decodes wire into a message that shares nothing with any other.
func vc07Unpack(wire []byte) *dns.Msg {
	m := &dns.Msg{}
	if err := m.Unpack(wire); err != nil {
		panic(fmt.Errorf("VERIF-INCONCLUSIVE: generator wire image does not decode: %v", err))
	}

	return m
}
