//go:build verif

package dnsmsg_test

// C07 (a): state machine over dnsmsg.Cloner (and the dnsmsg.Constructor that
// allocates from the same pools).  Messages enter the way they do in the
// server: decoded from a wire image, cloned from a live message, or built by a
// constructor.  They are written to the way middlewares write to messages they
// own, and released with Cloner.Dispose (which the server applies to clones,
// to constructed responses and to decoded upstream responses alike).  After
// every step every live message must still be exactly what its holder made it.

import (
	"fmt"
	"net"
	"net/netip"
	"reflect"
	"regexp"
	"strings"
	"sync"
	"sync/atomic"
	"testing"
	"time"
	"unsafe"

	"github.com/AdguardTeam/AdGuardDNS/internal/agdtest"
	"github.com/AdguardTeam/AdGuardDNS/internal/dnsmsg"
	"github.com/miekg/dns"
	"pgregory.net/rapid"
	"verif.local/harness/vstat"
)

// Finding identifiers (see the report of C07).
const (
	// vc07KnownHintOverlap: Dispose of a decoded message whose ipv4hint has
	// five or more addresses puts overlapping 16-byte windows of one array into
	// the address pool.
	vc07KnownHintOverlap = "cloner-ipv4hint-overlapping-pool-arrays"
	// vc07KnownOPTStale: an OPT record taken from the pool by the constructor
	// keeps the EDNS version and Z bits of whatever message it came from.
	vc07KnownOPTStale = "constructor-pooled-opt-stale-flags"
	// vc07KnownOPTShallow: an OPT record with an option the cloner does not
	// special-case is handed to dns.Copy, which shares the address bytes of
	// a client-subnet option (and the list of a DAU option) with the original.
	vc07KnownOPTShallow = "cloner-opt-fallback-shares-ecs-address"
)

// Operation kinds.
const (
	vc07OpFresh = iota
	vc07OpClone
	vc07OpCloneShared
	vc07OpMutate
	vc07OpMiddleware
	vc07OpDispose
	vc07OpConstruct
	vc07OpKinds
)

var vc07OpNames = [...]string{"fresh", "clone", "clone-shared", "mutate", "middleware", "dispose", "construct"}

// vc07Op is one pre-drawn operation; A, B, C select operands modulo what is
// available when it runs.
type vc07Op struct {
	Kind    int
	A, B, C int
}

func (o vc07Op) String() string {
	return fmt.Sprintf("%s(%d,%d,%d)", vc07OpNames[o.Kind], o.A, o.B, o.C)
}

type vc07Live struct {
	msg  *dns.Msg
	snap string
	n    int
	from string
}

// vc07Shared is what the goroutines of one case have in common.
type vc07Shared struct {
	cloner *dnsmsg.Cloner
	ctors  []*dnsmsg.Constructor
	// ctorConf rebuilds constructor i over another cloner.
	ctorConf []dnsmsg.ConstructorConfig
	wires    [][]byte
	// library are decoded messages nobody writes to; every goroutine clones
	// from them at will, as requests do with a cache entry.
	library     []*dns.Msg
	librarySnap []string

	st *vstat.Stats

	fullClones, partialClones atomic.Int64
}

// OnClone implements dnsmsg.ClonerStat.
func (s *vc07Shared) OnClone(isFull bool) {
	if isFull {
		s.fullClones.Add(1)
	} else {
		s.partialClones.Add(1)
	}
}

func vc07NewShared(st *vstat.Stats, wires [][]byte, nLibrary int) (s *vc07Shared) {
	s = &vc07Shared{st: st, wires: wires}
	s.cloner = dnsmsg.NewCloner(s)
	v4 := []netip.Addr{netip.MustParseAddr("198.51.100.1"), netip.MustParseAddr("198.51.100.2")}
	v6 := []netip.Addr{netip.MustParseAddr("2001:db8:b10c::1")}
	s.ctorConf = []dnsmsg.ConstructorConfig{
		{BlockingMode: &dnsmsg.BlockingModeNullIP{}, FilteredResponseTTL: 10 * time.Second},
		{BlockingMode: &dnsmsg.BlockingModeNXDOMAIN{}, FilteredResponseTTL: 3600 * time.Second},
		{BlockingMode: &dnsmsg.BlockingModeREFUSED{}, FilteredResponseTTL: 0},
		{BlockingMode: &dnsmsg.BlockingModeCustomIP{IPv4: v4, IPv6: v6}, FilteredResponseTTL: 77 * time.Second},
		{BlockingMode: &dnsmsg.BlockingModeCustomIP{IPv4: v4}, FilteredResponseTTL: 5 * time.Second},
	}
	for i := range s.ctorConf {
		s.ctorConf[i].StructuredErrors = agdtest.NewSDEConfig(true)
		s.ctorConf[i].EDEEnabled = true
		s.ctors = append(s.ctors, vc07NewCtor(s.ctorConf[i], s.cloner))
	}

	for i := 0; i < nLibrary && i < len(wires); i++ {
		m := vc07Unpack(wires[i])
		s.library = append(s.library, m)
		s.librarySnap = append(s.librarySnap, vc07Dump(m))
	}

	return s
}

func vc07NewCtor(conf dnsmsg.ConstructorConfig, c *dnsmsg.Cloner) *dnsmsg.Constructor {
	conf.Cloner = c
	ctor, err := dnsmsg.NewConstructor(&conf)
	if err != nil {
		panic(fmt.Errorf("VERIF-INCONCLUSIVE: constructor: %v", err))
	}

	return ctor
}

// vc07Machine is one holder of messages: it owns its live set.
type vc07Machine struct {
	sh      *vc07Shared
	name    string
	live    []*vc07Live
	hist    []string
	counter int

	// disposed remembers the addresses of released message headers and
	// records, to see recycling happen.
	disposed map[unsafe.Pointer]bool

	classes map[string]int
	// reuseWithSiblings: a recycled object was handed out while at least one
	// other message was live.
	reuseWithSiblings bool
	excluded          bool
}

func vc07NewMachine(sh *vc07Shared, name string) *vc07Machine {
	return &vc07Machine{sh: sh, name: name, disposed: map[unsafe.Pointer]bool{}, classes: map[string]int{}}
}

func (m *vc07Machine) add(msg *dns.Msg, from string) *vc07Live {
	m.counter++
	l := &vc07Live{msg: msg, snap: vc07Dump(msg), n: m.counter, from: from}
	m.live = append(m.live, l)

	return l
}

func (m *vc07Machine) errf(format string, args ...any) error {
	return fmt.Errorf("[%s] %s\n  history: %s", m.name, fmt.Sprintf(format, args...), strings.Join(m.hist, " ; "))
}

// check compares every live message with what its holder last made it.
func (m *vc07Machine) check(after string) error {
	for _, l := range m.live {
		if got := vc07Dump(l.msg); got != l.snap {
			return m.errf("after %s: live message #%d (%s) changed although nobody wrote to it, %s", after, l.n, l.from, vc07FirstDiff(l.snap, got))
		}
	}

	return nil
}

// rrPointers lists the addresses of the message and of its records.
func vc07Pointers(msg *dns.Msg) (ps []unsafe.Pointer) {
	ps = append(ps, unsafe.Pointer(msg))
	for _, sec := range [][]dns.RR{msg.Answer, msg.Ns, msg.Extra} {
		for _, rr := range sec {
			if rr != nil {
				ps = append(ps, unsafe.Pointer(rr.Header()))
			}
		}
	}

	return ps
}

func (m *vc07Machine) noteReuse(msg *dns.Msg) {
	for _, p := range vc07Pointers(msg) {
		if m.disposed[p] {
			delete(m.disposed, p)
			m.classes["recycled-object-handed-out"]++
			if len(m.live) > 0 {
				m.reuseWithSiblings = true
				m.classes["recycled-while-others-live"]++
			}
		}
	}
}

// vc07HintWindowsOverlap reports whether Dispose of msg would put overlapping
// memory into the address pool: two hint addresses with capacity >= 16 whose
// 16-byte windows intersect.
func vc07HintWindowsOverlap(msg *dns.Msg) bool {
	var starts []uintptr
	for _, rr := range msg.Answer {
		h, ok := rr.(*dns.HTTPS)
		if !ok {
			continue
		}

		for _, kv := range h.Value {
			var ips []net.IP
			switch kv := kv.(type) {
			case *dns.SVCBIPv4Hint:
				ips = kv.Hint
			case *dns.SVCBIPv6Hint:
				ips = kv.Hint
			}

			for _, ip := range ips {
				if cap(ip) >= 16 {
					starts = append(starts, uintptr(unsafe.Pointer(unsafe.SliceData(ip))))
				}
			}
		}
	}

	for i := range starts {
		for j := i + 1; j < len(starts); j++ {
			d := int64(starts[i]) - int64(starts[j])
			if d > -16 && d < 16 {
				return true
			}
		}
	}

	return false
}

func (m *vc07Machine) step(op vc07Op) (err error) {
	m.hist = append(m.hist, op.String())
	sh := m.sh
	pick := func(i int) *vc07Live { return m.live[i%len(m.live)] }

	switch op.Kind {
	case vc07OpFresh:
		m.add(vc07Unpack(sh.wires[op.A%len(sh.wires)]), "decoded")
	case vc07OpClone, vc07OpCloneShared:
		var src *dns.Msg
		var srcSnap, from string
		if op.Kind == vc07OpCloneShared && len(sh.library) > 0 {
			i := op.A % len(sh.library)
			src, srcSnap, from = sh.library[i], sh.librarySnap[i], fmt.Sprintf("clone of shared %d", i)
		} else if len(m.live) > 0 {
			l := pick(op.A)
			src, srcSnap, from = l.msg, l.snap, fmt.Sprintf("clone of #%d", l.n)
		} else {
			return nil
		}

		c := sh.cloner.Clone(src)
		m.noteReuse(c)
		if err = m.checkUnshared(src, srcSnap, c, from); err != nil {
			return err
		}

		l := m.add(c, from)
		if l.snap != srcSnap {
			return m.errf("%s differs from its source, %s", from, vc07FirstDiff(srcSnap, l.snap))
		}

		// Pack writes the extended RCODE into the OPT record, so it is applied
		// to copies made by miekg/dns.
		if op.Kind == vc07OpClone {
			if sw, errS := src.Copy().Pack(); errS == nil {
				cw, errC := c.Copy().Pack()
				if errC != nil || string(cw) != string(sw) {
					return m.errf("%s packs differently from its source (err %v)", from, errC)
				}
			}
		}

		if len(c.Answer) > 0 {
			for _, rr := range c.Answer {
				if h, ok := rr.(*dns.HTTPS); ok && len(h.Value) > 0 {
					m.classes["clone-https-values"]++
				}
			}
		}

		if opt := c.IsEdns0(); opt != nil && len(opt.Option) > 0 {
			m.classes["clone-opt-options"]++
		}
	case vc07OpMutate:
		if len(m.live) == 0 {
			return nil
		}

		l := pick(op.A)
		sites := vc07Sites(l.msg)
		if len(sites) == 0 {
			return nil
		}

		s := sites[op.B%len(sites)]
		what := vc07MutateSite(s, op.C)
		m.hist[len(m.hist)-1] += fmt.Sprintf("=#%d %s %s", l.n, s.path, what)
		l.snap = vc07Dump(l.msg)
		m.classes["mutate-"+what]++
		if len(m.live) > 1 {
			m.classes["mutate-with-others-live"]++
		}
	case vc07OpMiddleware:
		if len(m.live) == 0 {
			return nil
		}

		l := pick(op.A)
		what := vc07MiddlewareWrite(l.msg, op.B, op.C)
		m.hist[len(m.hist)-1] += fmt.Sprintf("=#%d %s", l.n, what)
		l.snap = vc07Dump(l.msg)
		m.classes["mw-"+what]++
	case vc07OpDispose:
		if len(m.live) == 0 {
			return nil
		}

		i := op.A % len(m.live)
		l := m.live[i]
		m.live = append(m.live[:i:i], m.live[i+1:]...)
		m.hist[len(m.hist)-1] += fmt.Sprintf("=#%d", l.n)
		if vc07HintWindowsOverlap(l.msg) {
			m.classes["dispose-overlapping-hint-windows"]++
			if sh.st.Known(vc07KnownHintOverlap) {
				// Recorded finding: drop the message without releasing it, so
				// that the pools stay sound and the search goes on behind it.
				return nil
			}
		}

		for _, p := range vc07Pointers(l.msg) {
			m.disposed[p] = true
		}

		sh.cloner.Dispose(l.msg)
		m.classes["dispose-"+strings.SplitN(l.from, " ", 2)[0]]++
	case vc07OpConstruct:
		return m.construct(op)
	}

	return m.check(op.String())
}

// vc07ShallowOptPayload matches the storage that dns.Copy of an OPT record
// shares between the copy and the original.
var vc07ShallowOptPayload = regexp.MustCompile(`^msg\.Extra\[\d+\]\.Option\[\d+\]\.(Address|AlgCode)\[\] = msg\.Extra\[\d+\]\.Option\[\d+\]\.(Address|AlgCode)\[\]$`)

// checkUnshared verifies that made (a clone of, or a response to, src) reaches
// no writable storage that src reaches.  Sharing is shown by a real write
// where the storage is a byte slice.
func (m *vc07Machine) checkUnshared(src *dns.Msg, srcSnap string, made *dns.Msg, from string) error {
	shared := vc07SharedStores(src, made)
	if len(shared) == 0 {
		return nil
	}

	onlyOpt := true
	for _, s := range shared {
		onlyOpt = onlyOpt && vc07ShallowOptPayload.MatchString(s)
	}

	if onlyOpt {
		m.classes["clone-shares-opt-payload"]++
		if m.sh.st.Known(vc07KnownOPTShallow) {
			// Recorded finding: give the clone its own payloads and go on.
			m.excluded = true
			for _, rr := range made.Extra {
				if opt, ok := rr.(*dns.OPT); ok {
					for _, o := range opt.Option {
						switch o := o.(type) {
						case *dns.EDNS0_SUBNET:
							o.Address = append(net.IP(nil), o.Address...)
						case *dns.EDNS0_DAU:
							o.AlgCode = append([]uint8(nil), o.AlgCode...)
						}
					}
				}
			}

			return nil
		}
	}

	// Show it with a write through the new message.
	demo := ""
	for p, st := range vc07Stores(made) {
		if _, ok := vc07Stores(src)[p]; !ok || st.v.Kind() != reflect.Slice || st.v.Type().Elem().Kind() != reflect.Uint8 || st.v.Len() == 0 {
			continue
		}

		b := st.v.Bytes()
		b[0] ^= 0xff
		after := vc07Dump(src)
		b[0] ^= 0xff
		if after != srcSnap {
			demo = fmt.Sprintf("; writing %s of the new message changed the source, %s", st.path, vc07FirstDiff(srcSnap, after))

			break
		}
	}

	return m.errf("%s shares writable storage with its source: %v%s", from, shared, demo)
}

// vc07MiddlewareWrite applies one of the writes the middlewares make to a
// message they hold.
func vc07MiddlewareWrite(msg *dns.Msg, kind, salt int) string {
	switch kind % 6 {
	case 0:
		// ecscache.fromCacheItem: every TTL.
		for _, sec := range [][]dns.RR{msg.Answer, msg.Ns, msg.Extra} {
			for _, rr := range sec {
				if _, ok := rr.(*dns.OPT); !ok {
					rr.Header().Ttl = uint32(salt)
				}
			}
		}

		return "set-ttls"
	case 1:
		// ecscache.setECS.
		ip := net.IP{203, 0, 113, byte(salt)}
		opt := msg.IsEdns0()
		if opt == nil {
			msg.SetEdns0(4096, salt%2 == 0)

			opt = msg.IsEdns0()
		}

		opt.SetUDPSize(4096)
		for _, o := range opt.Option {
			if e, ok := o.(*dns.EDNS0_SUBNET); ok {
				e.SourceNetmask, e.SourceScope = 24, 24
				if salt%2 == 0 {
					e.Address = ip
					e.Family = 1
				} else {
					// a write into the address bytes
					for i := range e.Address {
						e.Address[i] ^= 0x5a
					}
				}

				return "set-ecs-existing"
			}
		}

		opt.Option = append(opt.Option, &dns.EDNS0_SUBNET{Code: dns.EDNS0SUBNET, Family: 1, SourceNetmask: 24, SourceScope: 24, Address: ip})

		return "set-ecs-append"
	case 2:
		// mainmw.filterResponse after a CNAME rewrite: a record is inserted in
		// front and identity fields are rewritten.
		var rr dns.RR = &dns.CNAME{Hdr: dns.RR_Header{Name: "orig.test.", Rrtype: dns.TypeCNAME, Class: dns.ClassINET, Ttl: 10}, Target: fmt.Sprintf("t%d.test.", salt)}
		msg.Answer = append([]dns.RR{rr}, msg.Answer...)
		msg.Id = uint16(salt)
		if len(msg.Question) > 0 {
			msg.Question[0] = dns.Question{Name: "orig.test.", Qtype: dns.TypeA, Qclass: dns.ClassINET}
		}

		return "insert-cname"
	case 3:
		// ecscache.rmHopToHopRRs: filter in place, clear the tail.
		for _, sec := range []*[]dns.RR{&msg.Answer, &msg.Extra} {
			rrs := *sec
			kept := rrs[:0:len(rrs)]
			for i, rr := range rrs {
				if (i+salt)%2 == 0 {
					kept = append(kept, rr)
				}
			}

			clear(rrs[len(kept):])
			*sec = kept
		}

		return "filter-rrs"
	case 4:
		// hint and text edits in place.
		n := 0
		for _, rr := range msg.Answer {
			switch rr := rr.(type) {
			case *dns.HTTPS:
				for _, kv := range rr.Value {
					switch kv := kv.(type) {
					case *dns.SVCBIPv4Hint:
						for _, ip := range kv.Hint {
							if len(ip) > 0 {
								ip[len(ip)-1] ^= byte(1 + salt)
								n++
							}
						}
					case *dns.SVCBIPv6Hint:
						for _, ip := range kv.Hint {
							if len(ip) > 0 {
								ip[0] ^= byte(1 + salt)
								ip[len(ip)-1] ^= byte(1 + salt)
								n++
							}
						}
					case *dns.SVCBAlpn:
						if len(kv.Alpn) > 0 {
							kv.Alpn[0] = fmt.Sprintf("x%d", salt)
							n++
						}
					}
				}
			case *dns.TXT:
				if len(rr.Txt) > 0 {
					rr.Txt[len(rr.Txt)-1] = fmt.Sprintf("edited-%d", salt)
					n++
				}
			case *dns.A:
				if len(rr.A) > 0 {
					rr.A[len(rr.A)-1] ^= byte(1 + salt)
					n++
				}
			}
		}

		if n == 0 {
			return "edit-none"
		}

		return "edit-hints-text"
	default:
		// resp.SetRcode(req, rc) as the cache does for a hit.
		msg.Response = true
		msg.Rcode = salt % 4
		msg.Id = uint16(salt * 7)

		return "set-reply"
	}
}

// construct builds a response with a constructor that allocates from the
// shared pools and compares it with the same call on a constructor whose pools
// have never been used.
func (m *vc07Machine) construct(op vc07Op) error {
	sh := m.sh
	var reqs []*vc07Live
	for _, l := range m.live {
		if len(l.msg.Question) >= 1 {
			reqs = append(reqs, l)
		}
	}

	if len(reqs) == 0 {
		return nil
	}

	reqL := reqs[op.A%len(reqs)]
	req := reqL.msg
	ci := op.B % len(sh.ctors)
	ctor := sh.ctors[ci]
	ref := vc07NewCtor(sh.ctorConf[ci], dnsmsg.NewCloner(dnsmsg.EmptyClonerStat{}))

	qt := req.Question[0].Qtype
	method := op.C % 6
	build := func(c *dnsmsg.Constructor) (resp *dns.Msg, err error) {
		switch method {
		case 0, 1:
			return c.NewBlockedResp(req)
		case 2:
			switch qt {
			case dns.TypeA:
				return c.NewBlockedRespIP(req, netip.MustParseAddr("192.0.2.77"), netip.MustParseAddr("192.0.2.78"))
			case dns.TypeAAAA:
				return c.NewRespIP(req, netip.MustParseAddr("2001:db8::77"))
			case dns.TypeTXT:
				return c.NewRespTXT(req, "one", fmt.Sprintf("two-%d", op.C))
			default:
				return c.NewBlockedNullIPResp(req)
			}
		case 3:
			resp = c.NewRespRCode(req, dns.RcodeSuccess)
			c.AddEDE(req, resp, dns.ExtendedErrorCodeFiltered)

			return resp, nil
		case 4:
			resp = c.NewResp(req)
			resp.Answer = append(resp.Answer, c.NewAnswerCNAME(req, "cname.target.test"), c.NewAnswerPTR(req, "ptr.target.test"))
			c.AddEDE(req, resp, dns.ExtendedErrorCodeBlocked)

			return resp, nil
		default:
			resp = c.NewBlockedRespRCode(req, dns.RcodeRefused)
			// A second AddEDE must not add a second option.
			c.AddEDE(req, resp, dns.ExtendedErrorCodeCensored)

			return resp, nil
		}
	}

	got, errG := build(ctor)
	want, errW := build(ref)
	m.hist[len(m.hist)-1] += fmt.Sprintf("=req#%d ctor%d m%d", reqL.n, ci, method)
	if (errG == nil) != (errW == nil) {
		return m.errf("constructor error mismatch: pooled %v, fresh %v", errG, errW)
	}

	if errG != nil {
		m.classes["construct-error"]++

		return m.check(op.String())
	}

	m.noteReuse(got)
	if err := m.checkUnshared(req, reqL.snap, got, fmt.Sprintf("response constructed for #%d", reqL.n)); err != nil {
		return err
	}

	if opt := got.IsEdns0(); opt != nil {
		m.classes["construct-with-opt"]++
	}

	g, w := vc07Dump(got), vc07Dump(want)
	if g != w {
		// Is the only difference the flag word of the OPT record?
		gOpt, wOpt := got.IsEdns0(), want.IsEdns0()
		if gOpt != nil && wOpt != nil && gOpt.Hdr.Ttl != wOpt.Hdr.Ttl {
			stale := gOpt.Hdr.Ttl
			gOpt.Hdr.Ttl = wOpt.Hdr.Ttl
			if vc07Dump(got) == w && sh.st.Known(vc07KnownOPTStale) {
				m.excluded = true
				m.classes["known-opt-stale-flags"]++
			} else {
				gOpt.Hdr.Ttl = stale

				return m.errf("response built from recycled parts differs from the one built from new parts (OPT flag word %#08x, want %#08x): request %s, %s", stale, wOpt.Hdr.Ttl, reqL.snap, vc07FirstDiff(w, g))
			}
		} else {
			return m.errf("response built from recycled parts differs from the one built from new parts: request %s, %s", reqL.snap, vc07FirstDiff(w, g))
		}
	}

	m.add(got, fmt.Sprintf("constructed for #%d", reqL.n))
	m.classes["construct-ok"]++

	return m.check(op.String())
}

func vc07DrawProgram(t *rapid.T, n int, label string) (ops []vc07Op) {
	// Weighted towards clone / dispose / clone again.
	kinds := []int{
		vc07OpFresh, vc07OpFresh,
		vc07OpClone, vc07OpClone, vc07OpClone, vc07OpCloneShared, vc07OpCloneShared,
		vc07OpMutate, vc07OpMutate, vc07OpMiddleware, vc07OpMiddleware,
		vc07OpDispose, vc07OpDispose, vc07OpDispose,
		vc07OpConstruct, vc07OpConstruct,
	}
	for i := 0; i < n; i++ {
		ops = append(ops, vc07Op{
			Kind: rapid.SampledFrom(kinds).Draw(t, label+"op"),
			A:    rapid.IntRange(0, 63).Draw(t, label+"a"),
			B:    rapid.IntRange(0, 4095).Draw(t, label+"b"),
			C:    rapid.IntRange(0, 255).Draw(t, label+"c"),
		})
	}

	return ops
}

func vc07DrawWires(t *rapid.T, lo, hi int) (wires [][]byte) {
	n := rapid.IntRange(lo, hi).Draw(t, "nWires")
	for i := 0; i < n; i++ {
		wires = append(wires, vc07DrawWire(t))
	}

	return wires
}

func vc07Record(st *vstat.Stats, key string, ms ...*vc07Machine) {
	merged := map[string]int{}
	nt := false
	for _, m := range ms {
		for c, n := range m.classes {
			merged[c] += n
		}

		nt = nt || m.reuseWithSiblings
	}

	cls := make([]string, 0, len(merged))
	for c := range merged {
		cls = append(cls, c)
	}

	if !nt {
		key = ""
	}

	st.Case(key, cls...)
}

func TestVerifC07Cloner(t *testing.T) {
	st := vstat.New("C07", "cloner.sequential",
		"rapid programs of 5..60 operations (decode a drawn wire image / clone a live or shared message / write to a message at a random place or the way a middleware does / Dispose / build a response with a constructor on the same pools) on one production Cloner; after every step every live message is compared with its holder's snapshot, every clone with its source, every constructed response with one built on unused pools; non-trivial = a recycled object was handed out while other messages were live; distinct by (wire images, program)",
		"recycled-while-others-live", "mutate-with-others-live", "clone-https-values", "clone-opt-options", "construct-with-opt", "mutate-slice-append-incap", "dispose-clone", "dispose-decoded", "dispose-constructed")
	st.Finish(t)

	rapid.Check(t, func(t *rapid.T) {
		wires := vc07DrawWires(t, 2, 6)
		ops := vc07DrawProgram(t, rapid.IntRange(5, 60).Draw(t, "nOps"), "")
		sh := vc07NewShared(st, wires, 2)
		m := vc07NewMachine(sh, "g0")
		var err error
		for _, op := range ops {
			if err = m.step(op); err != nil {
				break
			}
		}

		if err == nil {
			for i, l := range sh.library {
				if got := vc07Dump(l); got != sh.librarySnap[i] {
					err = m.errf("shared source %d changed, %s", i, vc07FirstDiff(sh.librarySnap[i], got))
				}
			}
		}

		vc07Record(st, fmt.Sprintf("%x|%v", wires, ops), m)
		if st.WantSample() && m.reuseWithSiblings {
			st.Sample(map[string]any{"history": m.hist, "full_clones": sh.fullClones.Load(), "partial_clones": sh.partialClones.Load()})
		}

		if err != nil {
			t.Fatalf("%v\n  wire images: %x", err, wires)
		}
	})
}

func TestVerifC07ClonerConcurrent(t *testing.T) {
	st := vstat.New("C07", "cloner.concurrent",
		"the same machine run by 8 goroutines at once, each with its own live set and program, on one Cloner and one set of constructors, all cloning from shared never-written sources; under the race detector; schedules are sampled; non-trivial = a recycled object was handed out while other messages were live",
		"recycled-while-others-live", "mutate-with-others-live", "construct-with-opt")
	st.Finish(t)

	const workers = 8
	rapid.Check(t, func(t *rapid.T) {
		wires := vc07DrawWires(t, 3, 8)
		progs := make([][]vc07Op, workers)
		nOps := rapid.IntRange(10, 50).Draw(t, "nOps")
		for i := range progs {
			progs[i] = vc07DrawProgram(t, nOps, fmt.Sprintf("g%d.", i))
		}

		sh := vc07NewShared(st, wires, 3)
		ms := make([]*vc07Machine, workers)
		errs := make([]error, workers)
		start := make(chan struct{})
		wg := &sync.WaitGroup{}
		for i := range ms {
			ms[i] = vc07NewMachine(sh, fmt.Sprintf("g%d", i))
			wg.Add(1)
			go func() {
				defer wg.Done()
				defer func() {
					if p := recover(); p != nil {
						errs[i] = ms[i].errf("panic: %v", p)
					}
				}()

				<-start
				for _, op := range progs[i] {
					if errs[i] = ms[i].step(op); errs[i] != nil {
						return
					}
				}
			}()
		}

		close(start)
		wg.Wait()

		var err error
		for _, e := range errs {
			if e != nil {
				err = e

				break
			}
		}

		if err == nil {
			for i, l := range sh.library {
				if got := vc07Dump(l); got != sh.librarySnap[i] {
					err = fmt.Errorf("shared source %d changed, %s", i, vc07FirstDiff(sh.librarySnap[i], got))
				}
			}
		}

		vc07Record(st, fmt.Sprintf("%x|%v", wires, progs), ms...)
		if err != nil {
			t.Fatalf("%v\n  wire images: %x\n  programs: %v", err, wires, progs)
		}
	})
}
