//go:build verif

package dnsserver

// C07, real plain-DNS server on loopback sockets: simultaneous clients over UDP
// and TCP each get the answer to their own query.  The handler echoes a digest
// of the request exactly as the server decoded it, so a receive buffer that is
// recycled while a query is still in use shows as a foreign ID, question or
// digest.

import (
	"context"
	"crypto/sha256"
	"encoding/binary"
	"encoding/hex"
	"fmt"
	"io"
	"net"
	"sync"
	"testing"
	"time"

	"github.com/miekg/dns"
	"pgregory.net/rapid"
	"verif.local/harness/vstat"
)

func vc07Digest(m *dns.Msg) string {
	sum := sha256.Sum256([]byte(fmt.Sprintf("%d|%v|%v", m.Id, m.Question, m.Extra)))

	return hex.EncodeToString(sum[:])
}

func vc07EchoHandler(delay func()) Handler {
	return HandlerFunc(func(ctx context.Context, rw ResponseWriter, req *dns.Msg) error {
		d := vc07Digest(req)
		delay()
		resp := (&dns.Msg{}).SetReply(req)
		resp.Answer = []dns.RR{&dns.TXT{
			Hdr: dns.RR_Header{Name: req.Question[0].Name, Rrtype: dns.TypeTXT, Class: dns.ClassINET, Ttl: 1},
			Txt: []string{d},
		}}

		return rw.WriteMsg(ctx, req, resp)
	})
}

type vc07Outcome struct {
	sent, ok, missing int
	bad               []string
}

func vc07Judge(req, resp *dns.Msg, who string, o *vc07Outcome) {
	switch {
	case resp.Id != req.Id:
		// a late answer to an earlier query of this client is not foreign; it
		// is matched by the caller, which only passes same-ID pairs here.
		o.bad = append(o.bad, fmt.Sprintf("%s: id %d for query id %d", who, resp.Id, req.Id))
	case len(resp.Question) != 1 || resp.Question[0] != req.Question[0]:
		o.bad = append(o.bad, fmt.Sprintf("%s: query %v answered with question %v", who, req.Question, resp.Question))
	case len(resp.Answer) != 1:
		o.bad = append(o.bad, fmt.Sprintf("%s: query %v answered with %d records (rcode %d)", who, req.Question, len(resp.Answer), resp.Rcode))
	default:
		txt, ok := resp.Answer[0].(*dns.TXT)
		if !ok || len(txt.Txt) != 1 || txt.Txt[0] != vc07Digest(req) {
			o.bad = append(o.bad, fmt.Sprintf("%s: query %v id %d: the server processed a different message than was sent", who, req.Question, req.Id))

			return
		}

		o.ok++
	}
}

func vc07Query(client, i int, big bool) *dns.Msg {
	m := (&dns.Msg{}).SetQuestion(fmt.Sprintf("c%d-q%d.clients.verif.test.", client, i), dns.TypeA)
	m.Id = uint16(client<<10 | i&0x3ff)
	if big {
		m.SetEdns0(1232, i%2 == 0)
		m.Extra[0].(*dns.OPT).Option = append(m.Extra[0].(*dns.OPT).Option, &dns.EDNS0_PADDING{Padding: make([]byte, 20+7*(i%9))})
	}

	return m
}

func vc07UDPClient(addr net.Addr, client, n int, burst int, o *vc07Outcome) {
	c, err := net.Dial("udp", addr.String())
	if err != nil {
		o.bad = append(o.bad, "dial: "+err.Error())

		return
	}
	defer c.Close()

	pending := map[uint16]*dns.Msg{}
	ever := map[uint16]*dns.Msg{}
	buf := make([]byte, 65536)
	read := func(deadline time.Duration) {
		_ = c.SetReadDeadline(time.Now().Add(deadline))
		for len(pending) > 0 {
			k, rerr := c.Read(buf)
			if rerr != nil {
				return
			}

			resp := &dns.Msg{}
			if resp.Unpack(buf[:k]) != nil {
				o.bad = append(o.bad, fmt.Sprintf("udp client %d: undecodable response", client))

				continue
			}

			req, ok := pending[resp.Id]
			if !ok {
				// A late answer to an earlier burst is this client's own; it is
				// still judged for content but is not a foreign response.
				if req, ok = ever[resp.Id]; !ok {
					o.bad = append(o.bad, fmt.Sprintf("udp client %d: response with id %d (question %v) that this client never sent", client, resp.Id, resp.Question))

					continue
				}

				late := &vc07Outcome{}
				vc07Judge(req, resp, fmt.Sprintf("udp client %d (late answer)", client), late)
				o.bad = append(o.bad, late.bad...)

				continue
			}

			delete(pending, resp.Id)
			vc07Judge(req, resp, fmt.Sprintf("udp client %d", client), o)
		}
	}

	for i := 0; i < n; {
		for j := 0; j < burst && i < n; j, i = j+1, i+1 {
			m := vc07Query(client, i, i%3 == 0)
			b, _ := m.Pack()
			pending[m.Id] = m
			ever[m.Id] = m
			o.sent++
			_, _ = c.Write(b)
		}

		read(2 * time.Second)
		// Unanswered queries of this burst are counted, not judged here: UDP
		// may drop under load; the caller decides with the totals.
		o.missing += len(pending)
		pending = map[uint16]*dns.Msg{}
	}
}

func vc07TCPClient(addr net.Addr, client, n int, o *vc07Outcome) {
	c, err := net.Dial("tcp", addr.String())
	if err != nil {
		o.bad = append(o.bad, "dial: "+err.Error())

		return
	}
	defer c.Close()

	pending := map[uint16]*dns.Msg{}
	var out []byte
	for i := 0; i < n; i++ {
		m := vc07Query(client, i, i%2 == 0)
		b, _ := m.Pack()
		out = binary.BigEndian.AppendUint16(out, uint16(len(b)))
		out = append(out, b...)
		pending[m.Id] = m
		o.sent++
	}

	if _, err = c.Write(out); err != nil {
		o.bad = append(o.bad, "write: "+err.Error())

		return
	}

	_ = c.SetReadDeadline(time.Now().Add(10 * time.Second))
	for len(pending) > 0 {
		var l uint16
		if binary.Read(c, binary.BigEndian, &l) != nil {
			break
		}

		b := make([]byte, l)
		if _, err = io.ReadFull(c, b); err != nil {
			break
		}

		resp := &dns.Msg{}
		if resp.Unpack(b) != nil {
			o.bad = append(o.bad, fmt.Sprintf("tcp client %d: undecodable response", client))

			continue
		}

		req, ok := pending[resp.Id]
		if !ok {
			o.bad = append(o.bad, fmt.Sprintf("tcp client %d: response with id %d (question %v) that this client never sent or already got", client, resp.Id, resp.Question))

			continue
		}

		delete(pending, resp.Id)
		vc07Judge(req, resp, fmt.Sprintf("tcp client %d", client), o)
	}

	o.missing += len(pending)
}

func TestVerifC07Sockets(t *testing.T) {
	st := vstat.New("C07", "dnsserver.concurrent-sockets",
		"rapid (K UDP clients sending bursts, K TCP clients pipelining, handler delay pattern) against one real ServerDNS on loopback whose handler echoes a digest of the decoded request; every response must carry its own client's ID and question and the digest of exactly the message that client sent; schedules are sampled; non-trivial = at least two clients had queries in flight at once (always, by the start barrier); distinct by (clients, burst, queries)",
		"udp-bursts", "tcp-pipelined", "all-answered")
	st.Finish(t)

	var srv *ServerDNS
	var startErr error
	var mu sync.Mutex
	slow := 0
	delay := func() {
		mu.Lock()
		slow++
		s := slow
		mu.Unlock()
		if s%7 == 0 {
			time.Sleep(200 * time.Microsecond)
		}
	}
	for i := 0; i < 30; i++ {
		srv = NewServerDNS(ConfigDNS{ConfigBase: ConfigBase{Name: "verif-c07", Addr: "127.0.0.1:0", Handler: vc07EchoHandler(delay)}})
		if startErr = srv.Start(context.Background()); startErr == nil {
			break
		}
	}

	if startErr != nil {
		fmt.Println("VERIF-INCONCLUSIVE: cannot start loopback server:", startErr)
		t.FailNow()
	}
	defer func() { _ = srv.Shutdown(context.Background()) }()

	udpAddr, tcpAddr := srv.LocalUDPAddr(), srv.LocalTCPAddr()
	rapid.Check(t, func(t *rapid.T) {
		ku := rapid.IntRange(2, 6).Draw(t, "udpClients")
		kt := rapid.IntRange(0, 3).Draw(t, "tcpClients")
		n := rapid.IntRange(8, 40).Draw(t, "queriesPerClient")
		burst := rapid.IntRange(2, 10).Draw(t, "burst")

		outs := make([]*vc07Outcome, ku+kt)
		var wg sync.WaitGroup
		start := make(chan struct{})
		for i := range outs {
			outs[i] = &vc07Outcome{}
			wg.Add(1)
			go func(i int) {
				defer wg.Done()
				<-start
				if i < ku {
					vc07UDPClient(udpAddr, i+1, n, burst, outs[i])
				} else {
					vc07TCPClient(tcpAddr, i+1, n, outs[i])
				}
			}(i)
		}

		close(start)
		wg.Wait()

		sent, ok, missing := 0, 0, 0
		var bad []string
		for _, o := range outs {
			sent, ok, missing = sent+o.sent, ok+o.ok, missing+o.missing
			bad = append(bad, o.bad...)
		}

		classes := []string{"udp-bursts"}
		if kt > 0 {
			classes = append(classes, "tcp-pipelined")
		}

		if missing == 0 {
			classes = append(classes, "all-answered")
		} else {
			classes = append(classes, "some-unanswered")
		}

		st.Case(fmt.Sprintf("%d/%d/%d/%d", ku, kt, n, burst), classes...)
		if st.WantSample() {
			st.Sample(map[string]any{"udp_clients": ku, "tcp_clients": kt, "queries_per_client": n, "burst": burst, "sent": sent, "answered_correctly": ok, "unanswered": missing})
		}

		if len(bad) > 0 {
			t.Fatalf("%d UDP and %d TCP clients, %d queries each, bursts of %d: sent %d, correct %d, unanswered %d; foreign or mangled responses:\n%v", ku, kt, n, burst, sent, ok, missing, bad[:min(len(bad), 8)])
		}

		// A query that is never answered is only a verdict when it is
		// systematic: more than half of a round lost on loopback cannot be
		// packet loss, the server dropped them.
		if missing*2 > sent {
			t.Fatalf("%d UDP and %d TCP clients: %d of %d queries were never answered", ku, kt, missing, sent)
		}
	})
}
