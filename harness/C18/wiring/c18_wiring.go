//go:build verif

package dnssvc_test

// C18 (d): the limit holds across all stream listeners of the service, however
// a server is bound.  A real dnssvc.Service is built through dnssvc.New and
// the default dnssvc.NewListener, with one connection limiter, for four
// servers: plain DNS and DoT bound by address (bind_addresses), and plain DNS
// and DoT whose bind data carries its own netext.ListenConfig, the way servers
// with bind_interfaces do.  The own listen configurations are counting fakes
// over the default one, so for those servers pending accepts plus accepted,
// not yet closed connections are known exactly; for the servers bound by
// address the number of connections that have a query parked inside the
// handler is a lower bound of their open connections (one query per
// connection; a server closes a connection only after its queries are done).
// The sum of the two may never exceed stop.

import (
	"context"
	"crypto/tls"
	"encoding/binary"
	"fmt"
	"io"
	"net"
	"net/http"
	"net/netip"
	"os"
	"strconv"
	"strings"
	"sync"
	"testing"
	"time"

	"github.com/AdguardTeam/AdGuardDNS/internal/agd"
	"github.com/AdguardTeam/AdGuardDNS/internal/agdnet"
	"github.com/AdguardTeam/AdGuardDNS/internal/agdtest"
	"github.com/AdguardTeam/AdGuardDNS/internal/connlimiter"
	"github.com/AdguardTeam/AdGuardDNS/internal/dnsserver"
	"github.com/AdguardTeam/AdGuardDNS/internal/dnsserver/dnsservertest"
	"github.com/AdguardTeam/AdGuardDNS/internal/dnsserver/netext"
	"github.com/AdguardTeam/AdGuardDNS/internal/dnssvc"
	"github.com/AdguardTeam/AdGuardDNS/internal/dnssvc/internal/dnssvctest"
	"github.com/AdguardTeam/golibs/logutil/slogutil"
	"github.com/miekg/dns"
	"pgregory.net/rapid"
	"verif.local/harness/vstat"
)

const (
	vc18wTLSName = "c18-wiring.example"
	vc18wWait    = 30 * time.Second

	// The four servers of every service.
	vc18wPlainDNS = 0
	vc18wPlainDoT = 1
	vc18wOwnDNS   = 2
	vc18wOwnDoT   = 3
	vc18wServers  = 4
)

var vc18wNames = [vc18wServers]string{"addr-dns", "addr-dot", "ownlc-dns", "ownlc-dot"}

// vc18wWorld is the harness' view of one service.
type vc18wWorld struct {
	stop, resume int
	addrs        [vc18wServers]string
	svc          *dnssvc.Service

	mu          sync.Mutex
	liveOwn     int // pending accepts + open connections under the own listen configs
	insideAddr  int // connections to address-bound servers with a query in the handler
	insideOwn   int // the same for the servers with their own listen config
	overshoot   string
	maxTotal    int
	bothAtStop  bool
	ownAccepted int
	clients     map[int]*vc18wClient
	twice       string
}

// note records the bound after a change; the caller holds w.mu.
func (w *vc18wWorld) note(where string) {
	total := w.insideAddr + w.liveOwn
	w.maxTotal = max(w.maxTotal, total)
	if total > w.stop && w.overshoot == "" {
		w.overshoot = fmt.Sprintf("%s: %d connections to address-bound servers are being served and %d connections and pending accepts are open on servers with their own listen configuration: %d > stop = %d",
			where, w.insideAddr, w.liveOwn, total, w.stop)
	}

	if total == w.stop && w.insideAddr > 0 && w.insideOwn > 0 {
		w.bothAtStop = true
	}
}

// vc18wLC is the counting listen configuration of a server that brings its
// own, as package bindtodevice does.
type vc18wLC struct {
	netext.ListenConfig
	w *vc18wWorld
}

func (lc *vc18wLC) Listen(ctx context.Context, network, address string) (l net.Listener, err error) {
	l, err = lc.ListenConfig.Listen(ctx, network, address)
	if err != nil {
		return nil, err
	}

	return &vc18wLn{Listener: l, w: lc.w}, nil
}

type vc18wLn struct {
	net.Listener
	w *vc18wWorld
}

func (l *vc18wLn) Accept() (c net.Conn, err error) {
	w := l.w
	w.mu.Lock()
	w.liveOwn++
	w.note("entering Accept of " + l.Addr().String())
	w.mu.Unlock()

	c, err = l.Listener.Accept()

	w.mu.Lock()
	defer w.mu.Unlock()

	if err != nil {
		w.liveOwn--

		return nil, err
	}

	w.ownAccepted++

	return &vc18wConn{Conn: c, w: w}, nil
}

type vc18wConn struct {
	net.Conn
	w      *vc18wWorld
	closes int
}

func (c *vc18wConn) Close() (err error) {
	c.w.mu.Lock()
	c.closes++
	switch c.closes {
	case 1:
		c.w.liveOwn--
	case 2:
		c.w.twice = fmt.Sprintf("connection from %s was closed twice under the limiter", c.RemoteAddr())
	}
	c.w.mu.Unlock()

	return c.Conn.Close()
}

// vc18wClient is one client connection with one query.
type vc18wClient struct {
	id      int
	srv     int
	raw     net.Conn
	release chan struct{}
	done    chan struct{}

	// under world.mu
	entered  bool
	answered bool
}

// ServeDNS parks the query until its client is let go.
func (w *vc18wWorld) ServeDNS(ctx context.Context, rw dnsserver.ResponseWriter, req *dns.Msg) (err error) {
	resp := (&dns.Msg{}).SetReply(req)

	var c *vc18wClient
	if len(req.Question) == 1 {
		labels := dns.SplitDomainName(req.Question[0].Name)
		if len(labels) == 4 && strings.HasPrefix(labels[1], "w") {
			if id, convErr := strconv.Atoi(labels[1][1:]); convErr == nil {
				w.mu.Lock()
				c = w.clients[id]
				w.mu.Unlock()
			}
		}
	}

	if c == nil {
		return rw.WriteMsg(ctx, req, resp)
	}

	own := c.srv == vc18wOwnDNS || c.srv == vc18wOwnDoT

	w.mu.Lock()
	c.entered = true
	if own {
		w.insideOwn++
	} else {
		w.insideAddr++
	}
	w.note("query of a connection to " + vc18wNames[c.srv] + " entering the handler")
	w.mu.Unlock()

	<-c.release

	w.mu.Lock()
	if own {
		w.insideOwn--
	} else {
		w.insideAddr--
	}
	w.mu.Unlock()

	return rw.WriteMsg(ctx, req, resp)
}

var vc18wSeq int

// vc18wNewWorld builds and starts a service.
func vc18wNewWorld(stop, resume int, tlsConf *tls.Config) (w *vc18wWorld, err error) {
	lim, err := connlimiter.New(&connlimiter.Config{Logger: slogutil.NewDiscardLogger(), Stop: uint64(stop), Resume: uint64(resume)})
	if err != nil {
		return nil, err
	}

	w = &vc18wWorld{stop: stop, resume: resume, clients: map[int]*vc18wClient{}}

	ownBind := func(proto agd.Protocol) *agd.ServerBindData {
		inner := netext.DefaultListenConfig(nil)
		if proto == agd.ProtoDNS {
			inner = netext.DefaultListenConfigWithOOB(nil)
		}

		return &agd.ServerBindData{
			ListenConfig: &vc18wLC{ListenConfig: inner, w: w},
			PrefixAddr:   &agdnet.PrefixNetAddr{Prefix: netip.MustParsePrefix("127.0.0.1/32"), Net: "", Port: 0},
		}
	}
	addrBind := func() *agd.ServerBindData {
		return &agd.ServerBindData{AddrPort: netip.MustParseAddrPort("127.0.0.1:0")}
	}

	srvs := []*agd.Server{
		dnssvctest.NewServer("vc18w_addr_dns", agd.ProtoDNS, addrBind()),
		dnssvctest.NewServer("vc18w_addr_dot", agd.ProtoDoT, addrBind()),
		dnssvctest.NewServer("vc18w_ownlc_dns", agd.ProtoDNS, ownBind(agd.ProtoDNS)),
		dnssvctest.NewServer("vc18w_ownlc_dot", agd.ProtoDoT, ownBind(agd.ProtoDoT)),
	}
	grp := &agd.ServerGroup{Name: dnssvctest.ServerGroupName, Servers: srvs}

	handlers := dnssvc.Handlers{}
	for _, srv := range srvs {
		srv.ReadTimeout = 5 * time.Minute
		srv.WriteTimeout = time.Minute
		srv.TCPConf.IdleTimeout = 5 * time.Minute
		srv.TCPConf.MaxPipelineEnabled = true
		srv.TCPConf.MaxPipelineCount = 4
		if srv.Protocol == agd.ProtoDoT {
			srv.TLS = &agd.TLSConfig{Default: tlsConf}
		}

		handlers[dnssvc.HandlerKey{Server: srv, ServerGroup: grp}] = w
	}

	var lmu sync.Mutex
	lsnrs := map[agd.ServerName]dnssvc.Listener{}

	vc18wSeq++
	conf := &dnssvc.Config{
		Handlers: handlers,
		// The default constructor; the listeners are only remembered to learn
		// their addresses.
		NewListener: func(s *agd.Server, baseConf dnsserver.ConfigBase, nonDNS http.Handler) (l dnssvc.Listener, err error) {
			l, err = dnssvc.NewListener(s, baseConf, nonDNS)
			if err != nil {
				return nil, err
			}

			lmu.Lock()
			defer lmu.Unlock()

			lsnrs[s.Name] = l

			return l, nil
		},
		Cloner:           agdtest.NewCloner(),
		ConnLimiter:      lim,
		ErrColl:          &agdtest.ErrorCollector{OnCollect: func(_ context.Context, _ error) {}},
		NonDNS:           http.NotFoundHandler(),
		MetricsNamespace: fmt.Sprintf("vc18w_%d_%d", os.Getpid(), vc18wSeq),
		ServerGroups:     []*agd.ServerGroup{grp},
		HandleTimeout:    5 * time.Minute,
	}

	w.svc, err = dnssvc.New(conf)
	if err != nil {
		return nil, err
	}

	ctx, cancel := context.WithTimeout(context.Background(), vc18wWait)
	defer cancel()

	// Start panics if a listener cannot be started.  A plain-DNS server
	// listens on UDP port 0 and then on the same TCP port, which another
	// process of this busy machine may hold: that is the environment's
	// fault and is retried by the caller.
	err = func() (err error) {
		defer func() {
			if v := recover(); v != nil {
				err = fmt.Errorf("starting: %v", v)
				sctx, scancel := context.WithTimeout(context.Background(), 5*time.Second)
				defer scancel()
				defer func() { _ = recover() }()

				_ = w.svc.Shutdown(sctx)
			}
		}()

		return w.svc.Start(ctx)
	}()
	if err != nil {
		return nil, err
	}

	for i, srv := range srvs {
		l := lsnrs[srv.Name]
		if l == nil || l.LocalTCPAddr() == nil {
			return nil, fmt.Errorf("no stream listener for %s", srv.Name)
		}

		w.addrs[i] = l.LocalTCPAddr().String()
	}

	return w, nil
}

func vc18wInconclusive(t interface {
	Logf(string, ...any)
	FailNow()
}, format string, args ...any) {
	msg := fmt.Sprintf(format, args...)
	fmt.Printf("VERIF-INCONCLUSIVE: %s\n", msg)
	t.Logf("VERIF-INCONCLUSIVE: %s", msg)
	t.FailNow()
}

func TestVerifC18Wiring(t *testing.T) {
	st := vstat.New("C18", "wiring.service",
		"rapid client schedules (open a connection with one parked query to one of four servers, let one go) against real dnssvc.Service instances built by dnssvc.New + dnssvc.NewListener with one connection limiter (stop 5..8, resume above the number of listeners): plain DNS and DoT bound by address and plain DNS and DoT that bring their own listen configuration (counting fake, as bind_interfaces servers do); oracle: connections being served on address-bound servers + exact open and pending under the own listen configurations <= stop at every Accept entry and handler entry; non-trivial = the limit was reached with connections of both kinds; distinct by (stop, resume, schedule)",
		"server-with-own-listen-config", "limit-reached-across-both-kinds", "client-waiting-at-limit", "own-listen-config-dot", "address-bound-dot")
	st.Finish(t)

	tlsConf := dnsservertest.CreateServerTLSConfig(vc18wTLSName)
	worlds := map[[2]int]*vc18wWorld{}
	t.Cleanup(func() {
		for _, w := range worlds {
			ctx, cancel := context.WithTimeout(context.Background(), 10*time.Second)
			_ = w.svc.Shutdown(ctx)
			cancel()
		}
	})

	nextID := 0
	rapid.Check(t, func(t *rapid.T) {
		// resume must be above the number of listeners, see
		// doc/configuration.md: pending accepts count as connections.
		sr := rapid.SampledFrom([][2]int{{5, 5}, {6, 5}, {7, 6}, {8, 5}}).Draw(t, "stopResume")
		w := worlds[sr]
		if w == nil {
			var err error
			for attempt := 0; attempt < 8; attempt++ {
				w, err = vc18wNewWorld(sr[0], sr[1], tlsConf)
				if err == nil {
					break
				}
			}

			if err != nil {
				vc18wInconclusive(t, "starting the service: %v", err)
			}

			worlds[sr] = w
		}

		vc18wCase(t, st, w, tlsConf, &nextID)
	})
}

func vc18wCase(t *rapid.T, st *vstat.Stats, w *vc18wWorld, tlsConf *tls.Config, nextID *int) {
	nOps := rapid.IntRange(w.stop, 3*w.stop).Draw(t, "nOps")

	w.mu.Lock()
	w.maxTotal, w.bothAtStop, w.ownAccepted = 0, false, 0
	w.mu.Unlock()

	var clients []*vc18wClient
	var trace []string
	classes := map[string]bool{}

	finish := func(c *vc18wClient) {
		select {
		case <-c.release:
		default:
			close(c.release)
		}
	}

	defer func() {
		for _, c := range clients {
			finish(c)
			_ = c.raw.Close()
		}

		for _, c := range clients {
			<-c.done
		}

		// Leave the shared service as it was found: nothing being served and
		// nothing but the pending accepts under the own listen configs.
		end := time.Now().Add(vc18wWait)
		for {
			w.mu.Lock()
			clean := w.insideAddr == 0 && w.insideOwn == 0 && w.liveOwn <= 2
			w.mu.Unlock()

			if clean {
				break
			}

			if time.Now().After(end) {
				vc18wInconclusive(t, "service did not drain within %s", vc18wWait)
			}

			time.Sleep(200 * time.Microsecond)
		}

		w.mu.Lock()
		for _, c := range clients {
			delete(w.clients, c.id)
		}
		w.mu.Unlock()
	}()

	look := func() {
		w.mu.Lock()
		overshoot, twice := w.overshoot, w.twice
		w.overshoot, w.twice = "", ""
		w.mu.Unlock()

		if overshoot != "" {
			t.Fatalf("stop=%d resume=%d\ntrace: %s\n%s", w.stop, w.resume, strings.Join(trace, "; "), overshoot)
		}

		if twice != "" {
			t.Fatalf("stop=%d resume=%d\ntrace: %s\n%s", w.stop, w.resume, strings.Join(trace, "; "), twice)
		}
	}

	soft := func(d time.Duration, cond func() bool) (ok bool) {
		end := time.Now().Add(d)
		for {
			w.mu.Lock()
			ok = cond()
			w.mu.Unlock()

			if ok || time.Now().After(end) {
				return ok
			}

			time.Sleep(200 * time.Microsecond)
		}
	}

	var waiting []*vc18wClient
	for i := 0; i < nOps; i++ {
		var open []int
		for ci, c := range clients {
			select {
			case <-c.release:
			default:
				open = append(open, ci)
			}
		}

		doOpen := len(clients) < w.stop+4 && (len(open) == 0 || rapid.IntRange(0, 3).Draw(t, "open") != 0)
		if !doOpen && len(open) == 0 {
			break
		}

		if doOpen {
			srv := rapid.IntRange(0, vc18wServers-1).Draw(t, "server")
			trace = append(trace, "open("+vc18wNames[srv]+")")

			raw, err := net.DialTimeout("tcp", w.addrs[srv], vc18wWait)
			if err != nil {
				vc18wInconclusive(t, "dial %s: %v", w.addrs[srv], err)
			}

			*nextID++
			c := &vc18wClient{id: *nextID, srv: srv, raw: raw, release: make(chan struct{}), done: make(chan struct{})}
			w.mu.Lock()
			w.clients[c.id] = c
			w.mu.Unlock()
			clients = append(clients, c)

			go func() {
				defer close(c.done)

				conn := raw
				if srv == vc18wPlainDoT || srv == vc18wOwnDoT {
					conn = tls.Client(raw, tlsConf)
				}

				m := (&dns.Msg{}).SetQuestion(fmt.Sprintf("q.w%d.c18.test.", c.id), dns.TypeA)
				b, _ := m.Pack()
				wire := binary.BigEndian.AppendUint16(nil, uint16(len(b)))
				if _, werr := conn.Write(append(wire, b...)); werr != nil {
					return
				}

				var l uint16
				if binary.Read(conn, binary.BigEndian, &l) != nil {
					return
				}

				if _, rerr := io.CopyN(io.Discard, conn, int64(l)); rerr != nil {
					return
				}

				w.mu.Lock()
				c.answered = true
				w.mu.Unlock()
			}()

			if soft(6*time.Millisecond, func() bool { return c.entered }) {
				switch srv {
				case vc18wOwnDNS:
					classes["server-with-own-listen-config"] = true
				case vc18wOwnDoT:
					classes["server-with-own-listen-config"] = true
					classes["own-listen-config-dot"] = true
				case vc18wPlainDoT:
					classes["address-bound-dot"] = true
				}
			} else {
				waiting = append(waiting, c)
			}
		} else {
			ci := open[rapid.IntRange(0, len(open)-1).Draw(t, "which")]
			c := clients[ci]
			trace = append(trace, fmt.Sprintf("finish(%s #%d)", vc18wNames[c.srv], ci))
			finish(c)
			soft(3*time.Millisecond, func() bool { return c.answered })
			_ = c.raw.Close()
		}

		look()

		w.mu.Lock()
		atStop := w.insideAddr+w.liveOwn >= w.stop
		w.mu.Unlock()
		if atStop && len(waiting) > 0 {
			classes["client-waiting-at-limit"] = true
		}

		for _, c := range waiting {
			w.mu.Lock()
			served := c.entered
			w.mu.Unlock()
			if served {
				classes["waiting-client-served-later"] = true
			}
		}
	}

	look()

	w.mu.Lock()
	both, maxTotal := w.bothAtStop, w.maxTotal
	w.mu.Unlock()

	if both {
		classes["limit-reached-across-both-kinds"] = true
	}

	classes[fmt.Sprintf("stop=%d", w.stop)] = true

	var cl []string
	for c := range classes {
		cl = append(cl, c)
	}

	nt := ""
	if both {
		nt = fmt.Sprintf("%d/%d/%s", w.stop, w.resume, strings.Join(trace, ";"))
	}

	st.Case(nt, cl...)
	if both && st.WantSample() {
		st.Sample(map[string]any{"stop": w.stop, "resume": w.resume, "max_total": maxTotal, "trace": strings.Join(trace, "; ")})
	}
}
