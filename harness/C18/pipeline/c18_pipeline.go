//go:build verif

package dnsserver_test

// C18 (b): with pipeline limiting enabled, no more than MaxPipelineCount
// queries of one TCP or TLS connection are inside the handler at the same
// time, and all of them are answered once the handler lets them go.
//
// Real ServerDNS (TCP only) and ServerTLS instances on loopback, one per
// (transport, limit); the handler parks every query on a harness channel.  See
// /verif/DESIGN.md, section 3, C18.

import (
	"context"
	"crypto/tls"
	"encoding/binary"
	"fmt"
	"io"
	"net"
	"runtime"
	"sort"
	"strconv"
	"strings"
	"sync"
	"testing"
	"time"

	"github.com/AdguardTeam/AdGuardDNS/internal/connlimiter"
	"github.com/AdguardTeam/AdGuardDNS/internal/dnsserver"
	"github.com/AdguardTeam/AdGuardDNS/internal/dnsserver/dnsservertest"
	"github.com/AdguardTeam/AdGuardDNS/internal/dnsserver/netext"
	"github.com/AdguardTeam/golibs/logutil/slogutil"
	"github.com/miekg/dns"
	"pgregory.net/rapid"
	"verif.local/harness/vstat"
)

const (
	// vc18pWait bounds every wait for an arrival the reference predicts.
	// Hitting it is inconclusive unless the goroutine dump proves a deadlock.
	vc18pWait = 30 * time.Second

	vc18pTLSName = "c18.example"
)

// vc18pConn is the harness' view of one client connection.
type vc18pConn struct {
	id      int
	limit   int
	release chan struct{}
	drain   chan struct{}

	// shape is how the handler treats the queries of this connection:
	// vc18pBlockThenWrite parks before it answers, vc18pWriteThenBlock answers
	// first and keeps working (parked on the same gate) afterwards, the way
	// the real handler chain records the query after the response is out;
	// vc18pMixed alternates by query ID.
	shape int

	mu       sync.Mutex
	inflight int
	max      int
	entered  int
	left     int
	// afterWrite is the number of queries that are inside the handler with
	// their response already written; maxAfterWriteFull is the largest such
	// number seen while the pipeline was full.
	afterWrite        int
	maxAfterWriteFull int
	remotes           map[string]bool
	changed           chan struct{}
}

const (
	vc18pBlockThenWrite = iota
	vc18pWriteThenBlock
	vc18pMixed
)

var vc18pShapeNames = []string{"block-then-write", "write-then-block", "mixed"}

func (c *vc18pConn) bump() {
	select {
	case c.changed <- struct{}{}:
	default:
	}
}

// vc18pH is the blocking handler shared by all servers of the test.
type vc18pH struct {
	mu    sync.Mutex
	conns map[int]*vc18pConn
}

func (h *vc18pH) ServeDNS(ctx context.Context, rw dnsserver.ResponseWriter, req *dns.Msg) (err error) {
	resp := (&dns.Msg{}).SetReply(req)

	var c *vc18pConn
	if len(req.Question) == 1 {
		// q<i>.c<case>.c18.test.
		labels := dns.SplitDomainName(req.Question[0].Name)
		if len(labels) == 4 && strings.HasPrefix(labels[1], "c") {
			id, convErr := strconv.Atoi(labels[1][1:])
			if convErr == nil {
				h.mu.Lock()
				c = h.conns[id]
				h.mu.Unlock()
			}
		}
	}

	if c == nil {
		return rw.WriteMsg(ctx, req, resp)
	}

	c.mu.Lock()
	c.inflight++
	c.entered++
	c.max = max(c.max, c.inflight)
	c.remotes[rw.RemoteAddr().String()] = true
	c.mu.Unlock()
	c.bump()

	// A query is in work from the entry of the handler to its return, whenever
	// the response is written in between.
	writeFirst := c.shape == vc18pWriteThenBlock || (c.shape == vc18pMixed && req.Id%2 == 1)
	if writeFirst {
		err = rw.WriteMsg(ctx, req, resp)

		c.mu.Lock()
		c.afterWrite++
		if c.inflight >= c.limit {
			c.maxAfterWriteFull = max(c.maxAfterWriteFull, c.afterWrite)
		}
		c.mu.Unlock()
		c.bump()
	}

	select {
	case <-c.release:
	case <-c.drain:
	}

	if !writeFirst {
		err = rw.WriteMsg(ctx, req, resp)
	}

	c.mu.Lock()
	c.inflight--
	c.left++
	if writeFirst {
		c.afterWrite--
	}
	c.mu.Unlock()
	c.bump()

	return err
}

type vc18pSrv struct {
	addr string
	tls  bool
}

type vc18pEnv struct {
	h       *vc18pH
	tlsConf *tls.Config
	mu      sync.Mutex
	srvs    map[string]*vc18pSrv
	stops   []func()
	nextID  int
}

// server returns the running server for (transport, limit), starting it on
// first use.
func (e *vc18pEnv) server(useTLS bool, limit int, deadline time.Duration) (s *vc18pSrv, err error) {
	return e.serverLimited(useTLS, limit, deadline, false)
}

// serverLimited is like server; if limited, a connection limiter with stop 1
// and resume 1 is put in front of the listener, so that the next connection is
// only accepted once the previous one has been released.
func (e *vc18pEnv) serverLimited(useTLS bool, limit int, deadline time.Duration, limited bool) (s *vc18pSrv, err error) {
	key := fmt.Sprintf("%t/%d/%s/%t", useTLS, limit, deadline, limited)
	if s = e.srvs[key]; s != nil {
		return s, nil
	}

	conf := dnsserver.ConfigDNS{
		ConfigBase: dnsserver.ConfigBase{
			Name:    "vc18-" + key,
			Addr:    "127.0.0.1:0",
			Handler: e.h,
			Network: dnsserver.NetworkTCP,
		},
		ReadTimeout:        2 * time.Minute,
		WriteTimeout:       2 * time.Minute,
		TCPIdleTimeout:     10 * time.Minute,
		MaxPipelineCount:   uint(limit),
		MaxPipelineEnabled: true,
	}
	if limited {
		lim, limErr := connlimiter.New(&connlimiter.Config{Logger: slogutil.NewDiscardLogger(), Stop: 1, Resume: 1})
		if limErr != nil {
			return nil, limErr
		}

		conf.ListenConfig = connlimiter.NewListenConfig(netext.DefaultListenConfig(nil), lim)
	}

	if deadline > 0 {
		// As the production servers are configured: every request context
		// carries a deadline.
		conf.RequestContext = dnsserver.NewTimeoutContextConstructor(deadline)
	}

	var srv dnsserver.Server
	if useTLS {
		srv = dnsserver.NewServerTLS(dnsserver.ConfigTLS{TLSConfig: e.tlsConf, ConfigDNS: conf})
	} else {
		srv = dnsserver.NewServerDNS(conf)
	}

	if err = srv.Start(context.Background()); err != nil {
		return nil, err
	}

	e.stops = append(e.stops, func() {
		ctx, cancel := context.WithTimeout(context.Background(), 10*time.Second)
		defer cancel()

		_ = srv.Shutdown(ctx)
	})

	s = &vc18pSrv{addr: srv.LocalTCPAddr().String(), tls: useTLS}
	e.srvs[key] = s

	return s, nil
}

// stopAll shuts all servers down at the same time, so that servers that cannot
// finish (which the checks report before) cost one bounded wait, not one each.
func (e *vc18pEnv) stopAll() {
	var wg sync.WaitGroup
	for _, stop := range e.stops {
		wg.Add(1)
		go func() {
			defer wg.Done()

			stop()
		}()
	}

	wg.Wait()
}

// vc18pDeadlocked reports whether the goroutine dump proves that a slot of a
// pipeline semaphore can never be given back: a connection reader is blocked
// acquiring while no query of any connection is being served.  The dump is
// taken with the world stopped, so it is one consistent state.
func vc18pDeadlocked() (proof string, ok bool) {
	buf := make([]byte, 8<<20)
	buf = buf[:runtime.Stack(buf, true)]
	readers, workers := 0, 0
	var sample string
	for _, g := range strings.Split(string(buf), "\n\n") {
		switch {
		case strings.Contains(g, ".serveTCPMessage(") || strings.Contains(g, ".acceptTCPMsg.func"):
			workers++
		case strings.Contains(g, ".acceptTCPMsg(") && strings.Contains(g, "Acquire"):
			readers++
			sample = g
		}
	}

	if readers > 0 && workers == 0 {
		return fmt.Sprintf("%d connection reader(s) blocked acquiring the pipeline semaphore while no query is being served, e.g.\n%s", readers, sample), true
	}

	return "", false
}

func vc18pInconclusive(t *rapid.T, format string, args ...any) {
	msg := fmt.Sprintf(format, args...)
	fmt.Printf("VERIF-INCONCLUSIVE: %s\n", msg)
	t.Logf("VERIF-INCONCLUSIVE: %s", msg)
	t.FailNow()
}

func TestVerifC18Pipeline(t *testing.T) {
	st := vstat.New("C18", "pipeline.bursts",
		"rapid bursts of 1..20 pipelined queries on one connection to a real ServerDNS (TCP) or ServerTLS with MaxPipelineCount 1..4 and a handler parked on a harness channel (before it answers, or after it has answered and while it is still running, or alternating; a query is in work from handler entry to handler return), released in drawn batches; written in one piece, per message or in odd chunks; optional client close in mid-burst; non-trivial = burst larger than the limit; distinct by (transport, limit, burst, write mode, release plan)",
		"burst>limit", "burst<=limit", "burst=limit", "burst=limit+1", "tcp", "tls", "saturated-with-backlog", "early-close", "early-reset",
		"second-connection-full-while-first-full", "handler-still-running-after-its-response-was-written-with-pipeline-full")
	st.Finish(t)

	env := &vc18pEnv{
		h:       &vc18pH{conns: map[int]*vc18pConn{}},
		tlsConf: dnsservertest.CreateServerTLSConfig(vc18pTLSName),
		srvs:    map[string]*vc18pSrv{},
	}
	t.Cleanup(env.stopAll)

	grace := time.Duration(vstat.Scale(2, 4)) * time.Millisecond

	rapid.Check(t, func(t *rapid.T) { vc18pCase(t, st, env, grace) })
}

func vc18pCase(t *rapid.T, st *vstat.Stats, env *vc18pEnv, grace time.Duration) {
	useTLS := rapid.Bool().Draw(t, "tls")
	limit := rapid.IntRange(1, 4).Draw(t, "limit")
	burst := rapid.OneOf(
		rapid.IntRange(1, limit),
		rapid.IntRange(limit+1, limit+3),
		rapid.IntRange(limit+1, 20),
	).Draw(t, "burst")
	writeMode := rapid.SampledFrom([]string{"one-write", "per-message", "chunks"}).Draw(t, "writeMode")
	earlyClose := rapid.IntRange(0, 7).Draw(t, "earlyClose") == 0
	reset := rapid.Bool().Draw(t, "reset")
	companion := rapid.IntRange(0, 3).Draw(t, "companion") == 0
	shape := rapid.IntRange(0, 2).Draw(t, "handlerShape")

	srv, err := env.server(useTLS, limit, 0)
	if err != nil {
		vc18pInconclusive(t, "starting server: %v", err)
	}

	env.mu.Lock()
	env.nextID++
	id := env.nextID
	env.mu.Unlock()

	c := &vc18pConn{
		id:      id,
		limit:   limit,
		shape:   shape,
		release: make(chan struct{}, burst),
		drain:   make(chan struct{}),
		remotes: map[string]bool{},
		changed: make(chan struct{}, 1),
	}

	env.h.mu.Lock()
	env.h.conns[id] = c
	env.h.mu.Unlock()

	var plan []int
	desc := func() string {
		return fmt.Sprintf("tls=%t limit=%d burst=%d write=%s handler=%s earlyClose=%t releases=%v", useTLS, limit, burst, writeMode, vc18pShapeNames[shape], earlyClose, plan)
	}

	// Connect.
	var conn net.Conn
	d := &net.Dialer{Timeout: vc18pWait}
	if useTLS {
		conn, err = tls.DialWithDialer(d, "tcp", srv.addr, env.tlsConf)
	} else {
		conn, err = d.Dial("tcp", srv.addr)
	}

	if err != nil {
		vc18pInconclusive(t, "dial %s: %v", srv.addr, err)
	}

	drained := false
	drainAll := func() {
		if !drained {
			drained = true
			close(c.drain)
		}
	}

	var readerWG sync.WaitGroup
	defer func() {
		drainAll()
		_ = conn.Close()
		readerWG.Wait()

		env.h.mu.Lock()
		delete(env.h.conns, id)
		env.h.mu.Unlock()
	}()

	// Reader: collects response IDs.
	var gotMu sync.Mutex
	got := map[uint16]int{}
	var readErr error
	readDone := make(chan struct{})
	readerWG.Add(1)
	go func() {
		defer readerWG.Done()
		defer close(readDone)

		for i := 0; i < burst; i++ {
			var l uint16
			if rerr := binary.Read(conn, binary.BigEndian, &l); rerr != nil {
				gotMu.Lock()
				readErr = rerr
				gotMu.Unlock()

				return
			}

			b := make([]byte, l)
			if _, rerr := io.ReadFull(conn, b); rerr != nil {
				gotMu.Lock()
				readErr = rerr
				gotMu.Unlock()

				return
			}

			m := &dns.Msg{}
			if rerr := m.Unpack(b); rerr != nil {
				gotMu.Lock()
				readErr = fmt.Errorf("unpacking response: %w", rerr)
				gotMu.Unlock()

				return
			}

			gotMu.Lock()
			got[m.Id]++
			gotMu.Unlock()
		}
	}()

	// Burst.
	var wire []byte
	var bounds []int
	for i := 1; i <= burst; i++ {
		m := (&dns.Msg{}).SetQuestion(fmt.Sprintf("q%d.c%d.c18.test.", i, id), dns.TypeA)
		m.Id = uint16(i)
		b, perr := m.Pack()
		if perr != nil {
			t.Fatalf("harness: packing: %v", perr)
		}

		wire = binary.BigEndian.AppendUint16(wire, uint16(len(b)))
		wire = append(wire, b...)
		bounds = append(bounds, len(wire))
	}

	var cuts []int
	switch writeMode {
	case "one-write":
		cuts = []int{len(wire)}
	case "per-message":
		cuts = bounds
	default:
		n := rapid.IntRange(1, 6).Draw(t, "nCuts")
		for i := 0; i < n; i++ {
			cuts = append(cuts, rapid.IntRange(1, len(wire)-1).Draw(t, "cut"))
		}

		cuts = append(cuts, len(wire))
		sort.Ints(cuts)
	}

	prevCut := 0
	for _, cut := range cuts {
		if cut <= prevCut {
			continue
		}

		_ = conn.SetWriteDeadline(time.Now().Add(vc18pWait))
		if _, werr := conn.Write(wire[prevCut:cut]); werr != nil {
			vc18pInconclusive(t, "%s: writing the burst: %v", desc(), werr)
		}

		prevCut = cut
	}

	// state returns a consistent view and fails on the bound.
	state := func() (entered, inflight, left int) {
		c.mu.Lock()
		defer c.mu.Unlock()

		if c.max > limit {
			t.Fatalf("%s: %d queries of one connection were inside the handler at the same time, limit %d", desc(), c.max, limit)
		}

		if len(c.remotes) > 1 {
			t.Fatalf("harness: queries of one connection seen from several remote addresses: %v", c.remotes)
		}

		return c.entered, c.inflight, c.left
	}

	// waitEntered waits until want queries have entered the handler.  A
	// time-out is inconclusive.  The only verdict reached from here is a
	// proven deadlock: when nothing has moved for a while, every parked query
	// is let go (which cannot hurt a correct server), and if then all entered
	// queries have left the handler, a connection reader is still blocked
	// acquiring a slot and no query is being served anywhere, the rest of the
	// burst can never be served.
	stallDrained := false
	waitEntered := func(want int, what string) {
		deadline := time.NewTimer(vc18pWait)
		defer deadline.Stop()

		lastChange := time.Now()
		lastEntered := -1
		for {
			entered, inflight, left := state()
			if entered >= want {
				return
			}

			if entered != lastEntered {
				lastEntered, lastChange = entered, time.Now()
			}

			select {
			case <-c.changed:
			case <-time.After(100 * time.Millisecond):
				if time.Since(lastChange) < 3*time.Second {
					continue
				}

				if !drained {
					stallDrained = true
					drainAll()

					continue
				}

				if inflight == 0 && left == entered {
					if proof, ok := vc18pDeadlocked(); ok {
						if e2, _, _ := state(); e2 == entered {
							t.Fatalf("%s: %s: %d of %d queries entered the handler and all of them have returned, the rest is never served: %s",
								desc(), what, entered, burst, proof)
						}
					}
				}
			case <-deadline.C:
				vc18pInconclusive(t, "%s: %s: only %d of %d expected queries entered the handler within %s (in flight %d)", desc(), what, entered, want, vc18pWait, inflight)
			}
		}
	}

	// window gives an over-admitted query time to show up.  It only widens
	// the observation; the verdict is the bound in state.
	window := func() {
		time.Sleep(grace)
		state()
	}

	released := 0
	waitEntered(min(burst, limit), "initial fill")
	window()

	classes := []string{}
	if useTLS {
		classes = append(classes, "tls")
	} else {
		classes = append(classes, "tcp")
	}

	if burst > limit {
		classes = append(classes, "burst>limit", "saturated-with-backlog")
		if burst >= 2*limit+1 {
			classes = append(classes, "burst>2*limit")
		}
	} else {
		classes = append(classes, "burst<=limit")
	}

	switch burst {
	case limit - 1:
		classes = append(classes, "burst=limit-1")
	case limit:
		classes = append(classes, "burst=limit")
	case limit + 1:
		classes = append(classes, "burst=limit+1")
	}

	classes = append(classes, "write:"+writeMode, fmt.Sprintf("limit=%d", limit))

	// A second client of the same server while the first one is parked: the
	// limit is per connection, so each connection is bounded on its own.
	if companion {
		classes = append(classes, vc18pCompanion(t, env, srv, limit, burst > limit, grace, desc)...)
		state()
	}

	if earlyClose {
		classes = append(classes, "early-close")
		if tc, ok := conn.(*net.TCPConn); ok && reset {
			// Abort instead of closing: the server sees a reset.
			classes = append(classes, "early-reset")
			_ = tc.SetLinger(0)
		}

		_ = conn.Close()
		drainAll()
		window()
		state()
	} else {
		for released < burst {
			entered, _, _ := state()
			avail := entered - released
			if avail <= 0 {
				t.Fatalf("harness: nothing to release (entered %d, released %d)", entered, released)
			}

			r := rapid.OneOf(rapid.Just(1), rapid.Just(avail), rapid.IntRange(1, avail)).Draw(t, "release")
			plan = append(plan, r)
			for i := 0; i < r; i++ {
				c.release <- struct{}{}
			}

			released += r
			waitEntered(min(burst, released+limit), fmt.Sprintf("after releasing %d", released))
			if released < burst {
				window()
			}
		}

		// All are answered.
		select {
		case <-readDone:
		case <-time.After(vc18pWait):
			vc18pInconclusive(t, "%s: responses not read within %s", desc(), vc18pWait)
		}

		gotMu.Lock()
		rerr, ids := readErr, len(got)
		var bad []string
		for i := 1; i <= burst; i++ {
			if got[uint16(i)] != 1 {
				bad = append(bad, fmt.Sprintf("id %d answered %d times", i, got[uint16(i)]))
			}
		}
		gotMu.Unlock()

		if rerr != nil || ids != burst || len(bad) > 0 {
			t.Fatalf("%s: not every query was answered exactly once after release: read error %v, %d distinct ids, %v", desc(), rerr, ids, bad)
		}

		// With a handler that answers first, the responses are all there
		// before the handlers have returned; they have all been let go, so
		// wait for them.
		for end := time.Now().Add(vc18pWait); ; {
			_, _, left := state()
			if left >= burst {
				break
			}

			if time.Now().After(end) {
				vc18pInconclusive(t, "%s: only %d of %d released queries left the handler within %s", desc(), left, burst, vc18pWait)
			}

			select {
			case <-c.changed:
			case <-time.After(time.Millisecond):
			}
		}

		entered, inflight, left := state()
		if entered != burst || inflight != 0 || left != burst {
			t.Fatalf("%s: %d queries entered the handler, %d left, %d in flight; sent %d", desc(), entered, left, inflight, burst)
		}
	}

	if stallDrained {
		classes = append(classes, "stalled-then-drained")
	}

	classes = append(classes, "handler:"+vc18pShapeNames[shape])
	c.mu.Lock()
	afterWriteFull := c.maxAfterWriteFull
	c.mu.Unlock()
	if afterWriteFull > 0 && burst > limit {
		classes = append(classes, "handler-still-running-after-its-response-was-written-with-pipeline-full")
		if afterWriteFull >= limit {
			classes = append(classes, "all-slots-held-by-answered-queries")
		}
	}

	nt := ""
	if burst > limit {
		nt = desc()
	}

	st.Case(nt, classes...)
	if burst > limit && st.WantSample() {
		st.Sample(map[string]any{"tls": useTLS, "limit": limit, "burst": burst, "write": writeMode, "early_close": earlyClose, "releases": plan})
	}
}

// vc18pCompanion opens another connection to srv, sends a few queries that the
// handler parks as well, checks the bound on that connection and lets them go.
// Whether the second connection is served while the first is saturated is
// recorded, not judged.
func vc18pCompanion(
	t *rapid.T,
	env *vc18pEnv,
	srv *vc18pSrv,
	limit int,
	firstFull bool,
	grace time.Duration,
	desc func() string,
) (classes []string) {
	n := rapid.IntRange(1, limit+3).Draw(t, "companionBurst")
	shape := rapid.IntRange(0, 2).Draw(t, "companionShape")

	env.mu.Lock()
	env.nextID++
	id := env.nextID
	env.mu.Unlock()

	c := &vc18pConn{
		id:      id,
		limit:   limit,
		shape:   shape,
		release: make(chan struct{}, n),
		drain:   make(chan struct{}),
		remotes: map[string]bool{},
		changed: make(chan struct{}, 1),
	}

	env.h.mu.Lock()
	env.h.conns[id] = c
	env.h.mu.Unlock()

	var conn net.Conn
	var err error
	d := &net.Dialer{Timeout: vc18pWait}
	if srv.tls {
		conn, err = tls.DialWithDialer(d, "tcp", srv.addr, env.tlsConf)
	} else {
		conn, err = d.Dial("tcp", srv.addr)
	}

	if err != nil {
		vc18pInconclusive(t, "companion dial %s: %v", srv.addr, err)
	}

	defer func() {
		close(c.drain)
		_ = conn.Close()

		env.h.mu.Lock()
		delete(env.h.conns, id)
		env.h.mu.Unlock()
	}()

	var wire []byte
	for i := 1; i <= n; i++ {
		m := (&dns.Msg{}).SetQuestion(fmt.Sprintf("q%d.c%d.c18.test.", i, id), dns.TypeA)
		m.Id = uint16(i)
		b, perr := m.Pack()
		if perr != nil {
			t.Fatalf("harness: packing: %v", perr)
		}

		wire = binary.BigEndian.AppendUint16(wire, uint16(len(b)))
		wire = append(wire, b...)
	}

	_ = conn.SetWriteDeadline(time.Now().Add(vc18pWait))
	if _, werr := conn.Write(wire); werr != nil {
		vc18pInconclusive(t, "%s: companion: writing: %v", desc(), werr)
	}

	state := func() (entered int) {
		c.mu.Lock()
		defer c.mu.Unlock()

		if c.max > limit {
			t.Fatalf("%s: second connection with %d queries: %d of them were inside the handler at the same time, limit %d", desc(), n, c.max, limit)
		}

		return c.entered
	}

	want := min(n, limit)
	end := time.Now().Add(2 * time.Second)
	for state() < want && time.Now().Before(end) {
		select {
		case <-c.changed:
		case <-time.After(2 * time.Millisecond):
		}
	}

	time.Sleep(grace)
	classes = append(classes, "second-connection")
	switch {
	case state() < want:
		classes = append(classes, "second-connection-not-served-in-2s")
	case firstFull:
		classes = append(classes, "second-connection-full-while-first-full")
	}

	return classes
}
