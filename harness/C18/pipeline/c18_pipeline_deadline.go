//go:build verif

package dnsserver_test

// C18 (b), request contexts with a deadline: the servers are configured as in
// production (RequestContext = TimeoutContextConstructor), and the handler,
// which does not look at the context, keeps the pipeline of one connection
// full for longer than that deadline while further queries arrive on the same
// connection in one or two waves.  The invariant is the same: never more than
// MaxPipelineCount queries of the connection inside the handler, and nothing
// is answered twice.  Whether a query whose context expired is answered at
// all, and how, is not judged.

import (
	"crypto/tls"
	"encoding/binary"
	"fmt"
	"io"
	"net"
	"runtime"
	"strings"
	"sync"
	"testing"
	"time"

	"github.com/AdguardTeam/AdGuardDNS/internal/dnsserver/dnsservertest"
	"github.com/miekg/dns"
	"pgregory.net/rapid"
	"verif.local/harness/vstat"
)

func TestVerifC18PipelineDeadline(t *testing.T) {
	st := vstat.New("C18", "pipeline.deadline",
		"rapid cases on one connection to a real ServerDNS (TCP) or ServerTLS with MaxPipelineCount 1..4 and a request-context deadline of 30/50/80 ms: a first wave of 1..limit+4 queries, an optional second wave of 1..4 queries sent a drawn fraction of the deadline later, a context-ignoring handler that holds every query either briefly or for 1.3-2.5 deadlines, before it answers or after it has answered while it is still running (in work = handler entry to handler return); in a third of the cases a connection limiter (stop 1) is in front and a second client waits for the slot; after everything is let go the server must either serve all queries sent or, having given one up at its deadline, close the connection (bound 10 s; a still-open connection is a violation only if the goroutine dump shows its serving goroutine parked on the connection's wait group with no query being served, otherwise inconclusive), after which the waiting client is accepted; non-trivial = the pipeline was full with a backlog for longer than the deadline; distinct by (transport, limit, deadline, waves, gap, hold)",
		"pipeline-full-beyond-request-deadline", "second-wave-while-full", "released-before-deadline", "tcp", "tls",
		"handler-still-running-after-its-response-was-written-with-pipeline-full",
		"pipelined-message-given-up-at-deadline-then-connection-closed", "behind-connection-limiter", "waiting-accept-proceeded-after-release")
	st.Finish(t)

	env := &vc18pEnv{
		h:       &vc18pH{conns: map[int]*vc18pConn{}},
		tlsConf: dnsservertest.CreateServerTLSConfig(vc18pTLSName),
		srvs:    map[string]*vc18pSrv{},
	}
	t.Cleanup(env.stopAll)

	rapid.Check(t, func(t *rapid.T) { vc18pDeadlineCase(t, st, env) })
}

func vc18pDeadlineCase(t *rapid.T, st *vstat.Stats, env *vc18pEnv) {
	useTLS := rapid.Bool().Draw(t, "tls")
	limit := rapid.IntRange(1, 4).Draw(t, "limit")
	deadline := time.Duration(rapid.SampledFrom([]int{30, 50, 80}).Draw(t, "deadlineMs")) * time.Millisecond
	wave1 := rapid.OneOf(rapid.IntRange(limit+1, limit+4), rapid.IntRange(1, limit+4)).Draw(t, "wave1")
	wave2 := rapid.SampledFrom([]int{0, 1, 1, 2, 3, 4}).Draw(t, "wave2")
	gapPct := rapid.SampledFrom([]int{20, 40, 50, 60, 80}).Draw(t, "gapPct")
	// holdPct is how long the handler keeps the first arrivals, in percent of
	// the deadline, counted from the moment the pipeline is full.
	holdPct := rapid.SampledFrom([]int{0, 0, 130, 160, 200, 250}).Draw(t, "holdPct")
	shape := rapid.IntRange(0, 2).Draw(t, "handlerShape")
	total := wave1 + wave2

	desc := fmt.Sprintf("tls=%t limit=%d deadline=%s wave1=%d wave2=%d gap=%d%% hold=%d%% handler=%s", useTLS, limit, deadline, wave1, wave2, gapPct, holdPct, vc18pShapeNames[shape])

	limited := rapid.IntRange(0, 2).Draw(t, "connLimiter") == 0
	srv, err := env.serverLimited(useTLS, limit, deadline, limited)
	if err != nil {
		vc18pInconclusive(t, "starting server: %v", err)
	}

	env.mu.Lock()
	env.nextID++
	id := env.nextID
	env.mu.Unlock()

	c := &vc18pConn{
		id:      id,
		limit:   limit,
		shape:   shape,
		release: make(chan struct{}, total),
		drain:   make(chan struct{}),
		remotes: map[string]bool{},
		changed: make(chan struct{}, 1),
	}

	env.h.mu.Lock()
	env.h.conns[id] = c
	env.h.mu.Unlock()

	var conn net.Conn
	d := &net.Dialer{Timeout: vc18pWait}
	if useTLS {
		conn, err = tls.DialWithDialer(d, "tcp", srv.addr, env.tlsConf)
	} else {
		conn, err = d.Dial("tcp", srv.addr)
	}

	if err != nil {
		vc18pInconclusive(t, "dial %s: %v", srv.addr, err)
	}

	drained := false
	drainAll := func() {
		if !drained {
			drained = true
			close(c.drain)
		}
	}

	var readerWG sync.WaitGroup
	defer func() {
		drainAll()
		_ = conn.Close()
		readerWG.Wait()

		env.h.mu.Lock()
		delete(env.h.conns, id)
		env.h.mu.Unlock()
	}()

	// Reader: collects the IDs of whatever is answered until the connection
	// ends.
	var gotMu sync.Mutex
	got := map[uint16]int{}
	readDone := make(chan struct{})
	readerWG.Add(1)
	go func() {
		defer readerWG.Done()
		defer close(readDone)

		for {
			var l uint16
			if binary.Read(conn, binary.BigEndian, &l) != nil {
				return
			}

			b := make([]byte, l)
			if _, rerr := io.ReadFull(conn, b); rerr != nil {
				return
			}

			m := &dns.Msg{}
			if m.Unpack(b) != nil {
				gotMu.Lock()
				got[0] += 2 // an undecodable answer is reported below
				gotMu.Unlock()

				return
			}

			gotMu.Lock()
			got[m.Id]++
			gotMu.Unlock()
		}
	}()

	sent := 0
	send := func(from, n int) {
		var wire []byte
		for i := from; i < from+n; i++ {
			m := (&dns.Msg{}).SetQuestion(fmt.Sprintf("q%d.c%d.c18.test.", i, id), dns.TypeA)
			m.Id = uint16(i)
			b, perr := m.Pack()
			if perr != nil {
				t.Fatalf("harness: packing: %v", perr)
			}

			wire = binary.BigEndian.AppendUint16(wire, uint16(len(b)))
			wire = append(wire, b...)
		}

		// The server may already have wound the connection down; that is
		// not judged.
		_ = conn.SetWriteDeadline(time.Now().Add(vc18pWait))
		if _, werr := conn.Write(wire); werr == nil {
			sent += n
		}
	}

	// state fails on the bound; it is the only verdict besides duplicates.
	state3 := func() (entered, inflight, left int) {
		c.mu.Lock()
		defer c.mu.Unlock()

		if c.max > limit {
			t.Fatalf("%s: %d queries of one connection were inside the handler at the same time, limit %d", desc, c.max, limit)
		}

		if len(c.remotes) > 1 {
			t.Fatalf("harness: queries of one connection seen from several remote addresses: %v", c.remotes)
		}

		return c.entered, c.inflight, c.left
	}

	state := func() (entered, inflight int) {
		e, i, _ := state3()

		return e, i
	}

	// watch observes for d; waiting never decides anything by itself.
	watch := func(d time.Duration) {
		end := time.Now().Add(d)
		for {
			state()
			left := time.Until(end)
			if left <= 0 {
				return
			}

			select {
			case <-c.changed:
			case <-time.After(min(left, 2*time.Millisecond)):
			}
		}
	}

	// softWait waits until want queries have entered, at most for d.
	softWait := func(want int, d time.Duration) (ok bool) {
		end := time.Now().Add(d)
		for {
			entered, _ := state()
			if entered >= want {
				return true
			}

			left := time.Until(end)
			if left <= 0 {
				return false
			}

			select {
			case <-c.changed:
			case <-time.After(min(left, 2*time.Millisecond)):
			}
		}
	}

	classes := []string{fmt.Sprintf("limit=%d", limit), "deadline=" + deadline.String()}
	if useTLS {
		classes = append(classes, "tls")
	} else {
		classes = append(classes, "tcp")
	}

	nonTrivial := false
	send(1, wave1)
	filled := softWait(min(wave1, limit), 2*time.Second)
	fullAt := time.Now()

	// Behind a connection limiter with stop 1 another client can only be
	// accepted once this connection has been released.
	var probeRaw net.Conn
	probeDone := make(chan bool, 1)
	if limited {
		classes = append(classes, "behind-connection-limiter")
		probeRaw, err = d.Dial("tcp", srv.addr)
		if err != nil {
			vc18pInconclusive(t, "%s: probe dial: %v", desc, err)
		}

		defer func() { _ = probeRaw.Close() }()

		go func() {
			pc := probeRaw
			if useTLS {
				pc = tls.Client(probeRaw, env.tlsConf)
			}

			m := (&dns.Msg{}).SetQuestion(fmt.Sprintf("probe.p%d.c18.test.", id), dns.TypeA)
			b, _ := m.Pack()
			wire := binary.BigEndian.AppendUint16(nil, uint16(len(b)))
			if _, werr := pc.Write(append(wire, b...)); werr != nil {
				probeDone <- false

				return
			}

			var l uint16
			if binary.Read(pc, binary.BigEndian, &l) != nil {
				probeDone <- false

				return
			}

			_, rerr := io.CopyN(io.Discard, pc, int64(l))
			probeDone <- rerr == nil
		}()
	}

	if holdPct == 0 {
		// Everything is let go at once; with luck nothing expires.
		classes = append(classes, "released-before-deadline")
		drainAll()
		if wave2 > 0 {
			watch(deadline * time.Duration(gapPct) / 100)
			send(wave1+1, wave2)
		}

		softWait(total, 2*deadline)
	} else {
		hold := deadline * time.Duration(holdPct) / 100
		gap := deadline * time.Duration(gapPct) / 100
		if wave2 > 0 {
			watch(gap)
			send(wave1+1, wave2)
			if filled && wave1 >= limit {
				classes = append(classes, "second-wave-while-full")
			}
		}

		watch(hold - time.Since(fullAt))

		// The second wave's contexts expire one gap later than the first's;
		// keep the handler closed across that too.
		if wave2 > 0 {
			watch(gap + deadline/4)
		}

		if filled && total > limit && time.Since(fullAt) > deadline {
			nonTrivial = true
			classes = append(classes, "pipeline-full-beyond-request-deadline")
			if wave1 > limit && wave2 > 0 {
				classes = append(classes, "backlog-in-both-waves")
			}
		}

		drainAll()
		watch(10 * time.Millisecond)
	}

	// Everything has been let go.  Either the server gets through all
	// queries that were sent, or it has given one up at its deadline while the
	// pipeline was full; then it must end the connection as soon as the
	// running queries are done, which they are.
	const bound = 10 * time.Second
	outcome := ""
	for end := time.Now().Add(bound); outcome == ""; {
		entered, _, left := state3()
		switch {
		case entered >= sent && left >= sent:
			outcome = "all-served"
		case time.Now().After(end):
			outcome = "stuck"
		default:
			select {
			case <-readDone:
				outcome = "server-closed"
			case <-c.changed:
			case <-time.After(2 * time.Millisecond):
			}
		}
	}

	entered, inflight, left := state3()
	switch outcome {
	case "server-closed":
		classes = append(classes, "server-ended-connection")
		if entered < sent && left == entered {
			classes = append(classes, "pipelined-message-given-up-at-deadline-then-connection-closed")
		}
	case "all-served":
		// Collect the answers, briefly.
		select {
		case <-readDone:
			classes = append(classes, "server-ended-connection")
		case <-time.After(15 * time.Millisecond):
		}
	default:
		if inflight != 0 || left != entered {
			vc18pInconclusive(t, "%s: %d of %d entered queries still in the handler %s after they were let go", desc, entered-left, entered, bound)
		}

		// Every handler of the connection has returned, the deadline of the
		// queries that were not served passed long ago, and the connection
		// is still open.  Proof that it stays so: its serving goroutine waits
		// for the connection's wait group while no query is being served.
		if proof, ok := vc18pConnNeverClosed(); ok {
			t.Fatalf("%s: connection never released after a pipelined message was given up at its deadline: %d of %d queries sent entered the handler and all of them returned, %s later the server has neither served the rest nor closed the connection: %s",
				desc, entered, sent, bound, proof)
		}

		vc18pInconclusive(t, "%s: %d of %d queries served, connection still open after %s, no proof of a stuck connection in the goroutine dump", desc, entered, sent, bound)
	}

	state()
	_ = conn.Close()
	<-readDone
	state()

	// The connection has been released, so the accept that waited for its
	// slot proceeds and the probe is answered.
	if limited {
		select {
		case ok := <-probeDone:
			if ok {
				classes = append(classes, "waiting-accept-proceeded-after-release")
			} else {
				classes = append(classes, "probe-failed")
			}
		case <-time.After(bound):
			if proof, ok := vc18pAcceptNeverProceeds(); ok {
				t.Fatalf("%s: the connection was closed by both sides, but the accept waiting for its slot in the connection limiter does not proceed %s later: %s", desc, bound, proof)
			}

			vc18pInconclusive(t, "%s: probe not answered %s after the connection was closed", desc, bound)
		}
	}

	gotMu.Lock()
	answered := 0
	var bad []string
	for rid, n := range got {
		if n > 1 || rid < 1 || int(rid) > total {
			bad = append(bad, fmt.Sprintf("id %d answered %d times", rid, n))
		}

		answered += n
	}
	gotMu.Unlock()

	if len(bad) > 0 {
		t.Fatalf("%s: answers that were never asked for or given twice: %v", desc, bad)
	}

	classes = append(classes, "handler:"+vc18pShapeNames[shape])
	c.mu.Lock()
	afterWriteFull := c.maxAfterWriteFull
	c.mu.Unlock()
	if afterWriteFull > 0 && total > limit {
		classes = append(classes, "handler-still-running-after-its-response-was-written-with-pipeline-full")
	}

	switch {
	case answered == total:
		classes = append(classes, "all-answered")
	case answered == 0:
		classes = append(classes, "none-answered")
	default:
		classes = append(classes, "some-answered")
	}

	nt := ""
	if nonTrivial {
		nt = desc
	}

	st.Case(nt, classes...)
	if nonTrivial && st.WantSample() {
		st.Sample(map[string]any{"tls": useTLS, "limit": limit, "deadline_ms": deadline.Milliseconds(), "wave1": wave1, "wave2": wave2,
			"gap_pct": gapPct, "hold_pct": holdPct, "answered": answered})
	}
}

// vc18pConnNeverClosed reports whether the goroutine dump proves that a TCP
// connection of a server can never be closed: its serving goroutine is parked
// in the wait for the connection's queries while no query of any connection is
// being served.  The test runs one case at a time and every handler of the
// case has returned, so nothing is left that could end that wait.
func vc18pConnNeverClosed() (proof string, ok bool) {
	buf := make([]byte, 8<<20)
	buf = buf[:runtime.Stack(buf, true)]
	stuck, workers := 0, 0
	var sample string
	for _, g := range strings.Split(string(buf), "\n\n") {
		switch {
		case strings.Contains(g, ".serveTCPMessage(") || strings.Contains(g, ".acceptTCPMsg.func"):
			workers++
		case strings.Contains(g, ".serveTCPConn") && strings.Contains(g, "sync.(*WaitGroup).Wait"):
			stuck++
			sample = g
		}
	}

	if stuck > 0 && workers == 0 {
		return fmt.Sprintf("%d connection(s) whose serving goroutine waits for queries that do not exist, e.g.\n%s", stuck, sample), true
	}

	return "", false
}

// vc18pAcceptNeverProceeds reports whether the goroutine dump proves that an
// accept is parked in the connection limiter while no connection is being
// served or closed any more.
func vc18pAcceptNeverProceeds() (proof string, ok bool) {
	buf := make([]byte, 8<<20)
	buf = buf[:runtime.Stack(buf, true)]
	parked, busy := 0, 0
	var sample string
	for _, g := range strings.Split(string(buf), "\n\n") {
		switch {
		case strings.Contains(g, ".serveTCPConn") || strings.Contains(g, "connlimiter.(*limitConn)"):
			busy++
		case strings.Contains(g, "connlimiter.(*limitListener)") && strings.Contains(g, "sync.(*Cond).Wait"):
			parked++
			sample = g
		}
	}

	if parked > 0 && busy == 0 {
		return fmt.Sprintf("%d accept(s) parked in the limiter with no connection open, e.g.\n%s", parked, sample), true
	}

	return "", false
}
