//go:build verif

package connlimiter

// C18 (a): stream connections never exceed the configured limits.
//
// One Limiter wraps 1-4 fake listeners.  The harness owns the order of
// start-accept / deliver-conn / close-conn / close-listener operations and,
// after every operation, waits for *quiescence*, which is decided from state
// and not from the clock: every accept goroutine is either finished, blocked
// inside the fake listener, or parked in sync.Cond.Wait without a pending
// notification (read from the condition variable's ticket counters while its
// locker is held).  At quiescence the real counter is compared with a
// hysteresis reference.  See /verif/DESIGN.md, section 3, C18.

import (
	"errors"
	"fmt"
	"net"
	"reflect"
	"runtime"
	"strings"
	"sync"
	"sync/atomic"
	"syscall"
	"testing"
	"time"

	"github.com/AdguardTeam/AdGuardDNS/internal/dnsserver"
	"github.com/AdguardTeam/golibs/logutil/slogutil"
	"pgregory.net/rapid"
	"verif.local/harness/vstat"
)

// Finding identities (see /verif/known_findings.json).
const (
	// vc18KnownLostWakeup: limitListener.decrement wakes one waiter (Signal)
	// per released connection, so after the counter has fallen to resume and
	// more than one slot is free, all but one waiting Accept stay parked.
	vc18KnownLostWakeup = "limiter-signal-lost-wakeup"

	// vc18KnownClosedLeak: limitListener.increment takes a slot from the
	// counter before it looks at isClosed; Accept on a closed listener then
	// returns net.ErrClosed without giving the slot back.
	vc18KnownClosedLeak = "limiter-closed-accept-leaks-slot"
)

// vc18SettleTimeout is the generous bound on reaching quiescence.  Hitting it
// is reported as inconclusive, never as a violation.
const vc18SettleTimeout = 30 * time.Second

// ---------------------------------------------------------------------------
// reference model of the hysteresis counter (from the property statement)

type vc18Ref struct {
	cur, stop, resume int
	acc               bool
}

// inc is one admitted connection or pending accept.  It is only legal while
// the counter is accepting.
func (r *vc18Ref) inc() (ok bool) {
	if !r.acc || r.cur >= r.stop {
		return false
	}

	r.cur++
	if r.cur >= r.stop {
		r.acc = false
	}

	return true
}

// dec is one released connection or failed pending accept.
func (r *vc18Ref) dec() (ok bool) {
	if r.cur <= 0 {
		return false
	}

	r.cur--
	if r.cur <= r.resume {
		r.acc = true
	}

	return true
}

// vc18Feasible returns the set of values of the accepting flag that the
// reference can have after decs releases and incs admissions in any legal
// order starting from r.  An empty result means no legal order exists, i.e.
// some connection was admitted while the counter had to refuse it.
func vc18Feasible(r vc18Ref, decs, incs int) (accs map[bool]bool) {
	accs = map[bool]bool{}
	seen := map[[4]int]bool{}
	var walk func(r vc18Ref, decs, incs int)
	walk = func(r vc18Ref, decs, incs int) {
		a := 0
		if r.acc {
			a = 1
		}

		k := [4]int{r.cur, a, decs, incs}
		if seen[k] {
			return
		}

		seen[k] = true
		if decs == 0 && incs == 0 {
			accs[r.acc] = true

			return
		}

		if decs > 0 {
			n := r
			if n.dec() {
				walk(n, decs-1, incs)
			}
		}

		if incs > 0 {
			n := r
			if n.inc() {
				walk(n, decs, incs-1)
			}
		}
	}
	walk(r, decs, incs)

	return accs
}

// ---------------------------------------------------------------------------
// fakes

type vc18Addr string

func (a vc18Addr) Network() string { return "tcp" }
func (a vc18Addr) String() string  { return string(a) }

// vc18Conn is a fake stream connection that counts how often the underlying
// Close is called.
type vc18Conn struct {
	h      *vc18H
	id     int
	closes int // under h.mu

	// closeErr is what the underlying Close reports, if not nil.
	closeErr error
}

func (c *vc18Conn) Read(b []byte) (n int, err error)   { return 0, net.ErrClosed }
func (c *vc18Conn) Write(b []byte) (n int, err error)  { return len(b), nil }
func (c *vc18Conn) LocalAddr() net.Addr                { return vc18Addr("192.0.2.1:853") }
func (c *vc18Conn) RemoteAddr() net.Addr               { return vc18Addr(fmt.Sprintf("192.0.2.2:%d", 10000+c.id)) }
func (c *vc18Conn) SetDeadline(t time.Time) error      { return nil }
func (c *vc18Conn) SetReadDeadline(t time.Time) error  { return nil }
func (c *vc18Conn) SetWriteDeadline(t time.Time) error { return nil }

func (c *vc18Conn) Close() (err error) {
	// Give concurrent closers of the wrapping connection a chance to run
	// while this one is between its guard and its release.
	for i := 0; i < 4; i++ {
		runtime.Gosched()
	}

	c.h.mu.Lock()
	defer c.h.mu.Unlock()

	c.closes++
	if c.closes == 1 {
		c.h.live--
		c.h.connDecs++
	}

	return c.closeErr
}

// vc18Ln is a fake listener whose Accept blocks until the harness delivers a
// connection or closes the listener.
type vc18Ln struct {
	h      *vc18H
	idx    int
	connCh chan net.Conn
	failCh chan error
	done   chan struct{}

	// closeErr is what the underlying Close reports, if not nil.
	closeErr error

	// under h.mu
	blocked int // goroutines waiting inside Accept
	entries int // calls of Accept
	errRets int // calls of Accept that return (or will return) an error
	closed  bool
	closes  int
}

func (l *vc18Ln) Accept() (c net.Conn, err error) {
	h := l.h
	h.mu.Lock()
	l.entries++
	h.entries++
	h.live++
	if h.live > h.stop && h.overshoot == "" {
		h.overshoot = fmt.Sprintf("open connections + pending accepts = %d > stop = %d on entry of Accept on listener %d", h.live, h.stop, l.idx)
	}

	if l.closed {
		l.errRets++
		h.errRets++
		h.live--
		h.mu.Unlock()

		return nil, net.ErrClosed
	}

	l.blocked++
	h.mu.Unlock()

	select {
	case c = <-l.connCh:
		return c, nil
	case err = <-l.failCh:
		return nil, err
	case <-l.done:
		return nil, net.ErrClosed
	}
}

func (l *vc18Ln) Close() (err error) {
	h := l.h
	h.mu.Lock()
	defer h.mu.Unlock()

	l.closes++
	if !l.closed {
		l.closed = true
		l.errRets += l.blocked
		h.errRets += l.blocked
		h.live -= l.blocked
		l.blocked = 0
		close(l.done)
	}

	return l.closeErr
}

func (l *vc18Ln) Addr() net.Addr { return vc18Addr(fmt.Sprintf("192.0.2.1:%d", 853+l.idx)) }

// ---------------------------------------------------------------------------
// harness

// vc18Acc is one call of limitListener.Accept made by the harness.
type vc18Acc struct {
	ln   int
	done bool
	conn net.Conn
	err  error
	seen bool // result consumed by the checker
}

// vc18Open is a connection handed out by Accept.
type vc18Open struct {
	conn   net.Conn
	fake   *vc18Conn
	ln     int
	closed bool
}

type vc18H struct {
	lim  *Limiter
	lims []net.Listener
	lns  []*vc18Ln
	// lnClosed[i] is true once the harness has closed limited listener i.
	lnClosed []bool

	wg sync.WaitGroup

	mu        sync.Mutex
	stop      int
	live      int // pending underlying accepts + delivered, not yet closed conns
	overshoot string
	entries   int // calls of the underlying Accept
	errRets   int // failed calls of the underlying Accept
	connDecs  int // first closes of underlying connections
	accs      []*vc18Acc
	started   []int // per listener
	returned  []int // per listener
	nconns    int
	panicked  string
}

// vc18Snap is the state at quiescence.
type vc18Snap struct {
	cur      int
	acc      bool
	live     int
	parked   []int // per listener: inside limitListener.increment
	blocked  []int // per listener: inside the underlying Accept
	nParked  int
	entries  int
	errRets  int
	connDecs int
}

// vc18CondCounters reads the ticket counters of c.  The caller holds c.L, so
// neither changes concurrently (Wait takes its ticket before unlocking and
// this package only calls Signal and Broadcast with the locker held).
func vc18CondCounters(c *sync.Cond) (wait, notify uint32, ok bool) {
	defer func() {
		if recover() != nil {
			ok = false
		}
	}()

	nl := reflect.ValueOf(c).Elem().FieldByName("notify")
	w, n := nl.FieldByName("wait"), nl.FieldByName("notify")
	if !w.IsValid() || !n.IsValid() {
		return 0, 0, false
	}

	return uint32(w.Uint()), uint32(n.Uint()), true
}

// vc18CondSelfTest checks that the ticket counters behave as this harness
// assumes on the running toolchain.
func vc18CondSelfTest() (err error) {
	c := sync.NewCond(&sync.Mutex{})
	parkedNow := func() (n int, ok bool) {
		c.L.Lock()
		defer c.L.Unlock()

		w, nt, ok := vc18CondCounters(c)

		return int(w - nt), ok
	}

	waitFor := func(want int) (err error) {
		deadline := time.Now().Add(vc18SettleTimeout)
		for {
			n, ok := parkedNow()
			if !ok {
				return errors.New("sync.Cond has no notify.wait/notify.notify counters")
			}

			if n == want {
				return nil
			}

			if time.Now().After(deadline) {
				return fmt.Errorf("sync.Cond self-test: %d parked, want %d", n, want)
			}

			time.Sleep(100 * time.Microsecond)
		}
	}

	var wg sync.WaitGroup
	release := false
	for i := 0; i < 3; i++ {
		wg.Add(1)
		go func() {
			defer wg.Done()

			c.L.Lock()
			for !release {
				c.Wait()
			}
			c.L.Unlock()
		}()
	}

	defer func() {
		c.L.Lock()
		release = true
		c.Broadcast()
		c.L.Unlock()
		wg.Wait()
	}()

	if err = waitFor(3); err != nil {
		return err
	}

	c.L.Lock()
	c.Signal()
	n1w, n1n, _ := vc18CondCounters(c)
	c.L.Unlock()
	if n1w-n1n != 2 {
		return fmt.Errorf("sync.Cond self-test: after Signal %d un-notified, want 2", n1w-n1n)
	}

	// The signalled goroutine re-parks because release is still false.
	return waitFor(3)
}

func vc18Inconclusive(t interface {
	Logf(string, ...any)
	FailNow()
}, format string, args ...any) {
	msg := fmt.Sprintf(format, args...)
	fmt.Printf("VERIF-INCONCLUSIVE: %s\n", msg)
	t.Logf("VERIF-INCONCLUSIVE: %s", msg)
	t.FailNow()
}

func vc18NewH(stop, resume int) (h *vc18H, err error) {
	lim, err := New(&Config{Logger: slogutil.NewDiscardLogger(), Stop: uint64(stop), Resume: uint64(resume)})
	if err != nil {
		return nil, err
	}

	return &vc18H{lim: lim, stop: stop}, nil
}

func (h *vc18H) addListener() (idx int) {
	idx = len(h.lns)
	ln := &vc18Ln{h: h, idx: idx, connCh: make(chan net.Conn), failCh: make(chan error), done: make(chan struct{})}
	if idx%3 == 2 {
		ln.closeErr = errors.New("vc18: underlying listener close failed")
	}

	info := &dnsserver.ServerInfo{
		Name: fmt.Sprintf("vc18_srv_%d", idx),
		Addr: ln.Addr().String(),
		// Listeners of different transports share one limiter in production.
		Proto: []dnsserver.Protocol{dnsserver.ProtoDoT, dnsserver.ProtoDNS, dnsserver.ProtoDoH}[idx%3],
	}

	h.mu.Lock()
	h.lns = append(h.lns, ln)
	h.started = append(h.started, 0)
	h.returned = append(h.returned, 0)
	h.mu.Unlock()

	h.lnClosed = append(h.lnClosed, false)
	h.lims = append(h.lims, h.lim.Limit(ln, info))

	return idx
}

// startAccept calls Accept of limited listener li on a new goroutine.
func (h *vc18H) startAccept(li int) {
	a := &vc18Acc{ln: li}
	h.mu.Lock()
	h.accs = append(h.accs, a)
	h.started[li]++
	h.mu.Unlock()

	lim := h.lims[li]
	h.wg.Add(1)
	go func() {
		defer h.wg.Done()

		var c net.Conn
		var err error
		defer func() {
			v := recover()

			h.mu.Lock()
			defer h.mu.Unlock()

			if v != nil {
				h.panicked = fmt.Sprint(v)
				err = fmt.Errorf("panic: %v", v)
			}

			a.done, a.conn, a.err = true, c, err
			h.returned[li]++
		}()

		c, err = lim.Accept()
	}()
}

// deliver hands a new fake connection to one Accept blocked in fake listener
// li.  The caller guarantees that there is one.
func (h *vc18H) deliver(li int) (fc *vc18Conn) {
	h.mu.Lock()
	fc = &vc18Conn{h: h, id: h.nconns}
	if h.nconns%4 == 3 {
		fc.closeErr = errors.New("vc18: underlying connection close failed")
	}
	h.nconns++
	h.lns[li].blocked--
	h.mu.Unlock()

	h.lns[li].connCh <- fc

	return fc
}

// vc18ErrTransient and vc18ErrAborted are what the underlying Accept reports
// when the harness fails a pending accept without closing the listener, the
// way a kernel reports a connection reset while it sat in the accept queue.
var (
	vc18ErrTransient = errors.New("vc18: transient accept failure")
	vc18ErrAborted   = &net.OpError{Op: "accept", Net: "tcp", Err: syscall.ECONNABORTED}
)

// failPending makes one Accept blocked in fake listener li return err.  The
// caller guarantees that there is one.
func (h *vc18H) failPending(li int, err error) {
	h.mu.Lock()
	ln := h.lns[li]
	ln.blocked--
	ln.errRets++
	h.errRets++
	h.live--
	h.mu.Unlock()

	ln.failCh <- err
}

// settle waits for quiescence and returns the state then.
func (h *vc18H) settle() (s vc18Snap, why string) {
	cond := h.lim.counterCond
	deadline := time.Now().Add(vc18SettleTimeout)
	for i := 0; ; i++ {
		cond.L.Lock()
		h.mu.Lock()

		w, n, ok := vc18CondCounters(cond)
		parked := int(w - n)
		blocked, outstanding := 0, 0
		for li, ln := range h.lns {
			blocked += ln.blocked
			outstanding += h.started[li] - h.returned[li]
		}

		quiet := ok && outstanding == parked+blocked
		if quiet {
			s = vc18Snap{
				cur:      int(h.lim.counter.current),
				acc:      h.lim.counter.isAccepting,
				live:     h.live,
				nParked:  parked,
				entries:  h.entries,
				errRets:  h.errRets,
				connDecs: h.connDecs,
			}
			for li, ln := range h.lns {
				s.blocked = append(s.blocked, ln.blocked)
				s.parked = append(s.parked, h.started[li]-h.returned[li]-ln.blocked)
			}
		}

		why = fmt.Sprintf("outstanding accepts %d, parked without notification %d, inside underlying Accept %d, counters readable %t",
			outstanding, parked, blocked, ok)

		h.mu.Unlock()
		cond.L.Unlock()

		if quiet {
			return s, ""
		}

		if !ok || time.Now().After(deadline) {
			return s, why
		}

		if i < 200 {
			runtime.Gosched()
		} else {
			time.Sleep(50 * time.Microsecond)
		}
	}
}

// shutdown releases everything the case started.  It is used on all paths,
// including failure, so that no goroutine outlives the case.
func (h *vc18H) shutdown(opens []*vc18Open) {
	for _, l := range h.lims {
		_ = l.Close()
	}

	// Should the limiter not have closed the underlying listeners, do it here
	// so that blocked fakes return.
	for _, ln := range h.lns {
		_ = ln.Close()
	}

	for _, o := range opens {
		_ = o.conn.Close()
	}

	h.mu.Lock()
	var late []net.Conn
	for _, a := range h.accs {
		if a.done && a.conn != nil && !a.seen {
			late = append(late, a.conn)
		}
	}
	h.mu.Unlock()

	for _, c := range late {
		_ = c.Close()
	}
}

// reap waits for the accept goroutines of the case after shutdown.  A limiter
// that fails to wake the waiters of a closed listener (which the checks report
// before this runs) must not hang the harness, so the waiters are woken from
// here; goroutines that still do not return are abandoned after a bounded wait.
func (h *vc18H) reap() {
	done := make(chan struct{})
	go func() {
		h.wg.Wait()
		close(done)
	}()

	deadline := time.After(10 * time.Second)
	for {
		select {
		case <-done:
			return
		case <-deadline:
			return
		case <-time.After(200 * time.Microsecond):
			h.lim.counterCond.L.Lock()
			h.lim.counterCond.Broadcast()
			h.lim.counterCond.L.Unlock()
		}
	}
}

// ---------------------------------------------------------------------------
// the property

type vc18Op struct {
	kind string
	arg  int
}

const (
	vc18OpAccept     = "accept"
	vc18OpDeliver    = "deliver"
	vc18OpCloseConn  = "close-conn"
	vc18OpReclose    = "reclose-conn"
	vc18OpConcClose  = "concurrent-close-conn"
	vc18OpCloseLn    = "close-listener"
	vc18OpRecloseLn  = "reclose-listener"
	vc18OpAddLn      = "add-listener"
	vc18OpAcceptDead = "accept-on-closed-listener"
	vc18OpShutdown   = "shutdown"
	vc18OpFailAccept = "fail-pending-accept"
	vc18OpBatch      = "concurrent-batch"
)

func TestVerifC18Limiter(t *testing.T) {
	if err := vc18CondSelfTest(); err != nil {
		vc18Inconclusive(t, "cannot observe parked goroutines on this toolchain: %v", err)
	}

	st := vstat.New("C18", "limiter.sequences",
		"rapid operation sequences (start-accept, deliver-conn, close-conn once/again/concurrently, close-listener once/again, add-listener, accept on a closed listener, failure of a pending underlying Accept, 2-4 accepts/closes in flight at once) over 1-4 fake listeners of mixed transports sharing one Limiter, some underlying Close calls reporting errors, stop in 1..6, resume in 0..stop; state compared with a hysteresis reference at state-decided quiescence after every operation; non-trivial = the counter reached stop and later fell to resume while >=2 accepts were waiting; distinct by (stop, resume, operation trace)",
		"reached-stop", "resumed-with-2+-waiters", "listener-closed-with-waiters", "listener-closed-with-pending",
		"conn-closed-again", "conn-closed-concurrently", "waiters-on-2+-listeners", "resume<stop-1", "resume=stop", "resume=0", "stop=1",
		"pending-accept-failed-with-waiters", "concurrent-batch", "conn-close-racing-listener-close")
	st.Finish(t)

	rapid.Check(t, func(t *rapid.T) { vc18Case(t, st) })
}

func vc18Case(t *rapid.T, st *vstat.Stats) {
	stop := rapid.IntRange(1, 6).Draw(t, "stop")
	resume := rapid.IntRange(0, stop).Draw(t, "resume")
	nLn := rapid.SampledFrom([]int{1, 1, 2, 2, 2, 3}).Draw(t, "listeners")
	deadAccepts := rapid.IntRange(0, 3).Draw(t, "acceptOnClosed") == 0
	nOps := rapid.IntRange(4, 60).Draw(t, "nOps")

	h, err := vc18NewH(stop, resume)
	if err != nil {
		t.Fatalf("New(stop=%d, resume=%d): %v", stop, resume, err)
	}

	for i := 0; i < nLn; i++ {
		h.addListener()
	}

	var opens []*vc18Open
	defer func() {
		h.shutdown(opens)
		h.reap()
	}()

	ref := vc18Ref{stop: stop, resume: resume, acc: true}
	var trace []string
	classes := map[string]bool{}
	prev := vc18Snap{acc: true, parked: make([]int, nLn), blocked: make([]int, nLn)}
	reachedStop, nonTrivial := false, false
	lostWakeup := false // recorded finding hit earlier in this case

	fail := func(format string, args ...any) {
		t.Fatalf("stop=%d resume=%d listeners=%d\ntrace: %s\n%s", stop, resume, len(h.lns), strings.Join(trace, "; "),
			fmt.Sprintf(format, args...))
	}

	switch {
	case resume == stop:
		classes["resume=stop"] = true
	case resume == stop-1:
		classes["resume=stop-1"] = true
	default:
		classes["resume<stop-1"] = true
	}

	if resume == 0 {
		classes["resume=0"] = true
	}

	if stop == 1 {
		classes["stop=1"] = true
	}

	// check runs after every operation.  delivered is the fake connection
	// handed out by this operation, if any.  It returns false when the case
	// ends early behind a recorded finding.
	check := func(op vc18Op, delivered *vc18Conn) (cont bool) {
		s, why := h.settle()
		if why != "" {
			// Let the deferred shutdown release everything first.
			vc18Inconclusive(t, "no quiescence within %s after %v (trace %s): %s", vc18SettleTimeout, op, strings.Join(trace, "; "), why)
		}

		h.mu.Lock()
		overshoot, panicked := h.overshoot, h.panicked
		var fresh []*vc18Acc
		for _, a := range h.accs {
			if a.done && !a.seen {
				a.seen = true
				fresh = append(fresh, a)
			}
		}
		h.mu.Unlock()

		if panicked != "" {
			fail("Accept panicked: %s", panicked)
		}

		// Safety: the bound itself, sampled whenever the number rises.
		if overshoot != "" {
			fail("after %v: %s", op, overshoot)
		}

		// Results of accepts that returned during this operation.
		errNoEntry := 0
		gotConn := 0
		injectedSeen := false
		for _, a := range fresh {
			switch {
			case a.err != nil:
				if a.conn != nil {
					fail("after %v: Accept on listener %d returned both a connection and error %v", op, a.ln, a.err)
				}

				if !h.lnClosed[a.ln] {
					if op.kind != vc18OpFailAccept || a.ln != op.arg || injectedSeen ||
						!(errors.Is(a.err, vc18ErrTransient) || errors.Is(a.err, syscall.ECONNABORTED)) {
						fail("after %v: Accept on open listener %d failed: %v", op, a.ln, a.err)
					}

					injectedSeen = true
					errNoEntry++

					continue
				}

				if !errors.Is(a.err, net.ErrClosed) {
					fail("after %v: Accept on closed listener %d returned %v, want net.ErrClosed", op, a.ln, a.err)
				}

				errNoEntry++
			case a.conn == nil:
				fail("after %v: Accept on listener %d returned nil, nil", op, a.ln)
			default:
				gotConn++
				if delivered == nil || op.kind != vc18OpDeliver || a.ln != op.arg ||
					a.conn.RemoteAddr().String() != delivered.RemoteAddr().String() {
					fail("after %v: Accept on listener %d returned unexpected connection %v", op, a.ln, a.conn.RemoteAddr())
				}

				opens = append(opens, &vc18Open{conn: a.conn, fake: delivered, ln: a.ln})
			}
		}

		if op.kind == vc18OpFailAccept && !injectedSeen {
			fail("after %v: the failure of the underlying Accept was not returned by any Accept", op)
		}

		errNoEntry -= s.errRets - prev.errRets
		if delivered != nil && gotConn != 1 {
			fail("after %v: delivered connection was returned by %d accepts", op, gotConn)
		}

		decs := (s.errRets - prev.errRets) + (s.connDecs - prev.connDecs)
		incs := s.entries - prev.entries

		// The counter is the number of open connections plus pending accepts.
		if s.cur != s.live {
			if d := s.cur - s.live; d >= 1 && d <= errNoEntry && st.Known(vc18KnownClosedLeak) {
				classes["known:closed-accept-leak"] = true

				return false
			}

			fail("after %v: counter.current = %d but open connections + pending accepts = %d (accepts that returned net.ErrClosed without reaching the underlying listener: %d)",
				op, s.cur, s.live, errNoEntry)
		}

		// Hysteresis: the admissions and releases of this operation must be
		// explainable by the reference in some order.
		want := ref
		feas := vc18Feasible(ref, decs, incs)
		if len(feas) == 0 {
			fail("after %v: %d admissions and %d releases from reference state %+v are impossible: a connection was admitted while the limiter had to refuse",
				op, incs, decs, ref)
		}

		if !feas[s.acc] {
			fail("after %v: counter.isAccepting = %t, reference allows %v (reference before: %+v, admissions %d, releases %d, counter.current %d)",
				op, s.acc, feas, ref, incs, decs, s.cur)
		}

		if len(feas) == 2 {
			classes["order-dependent-step"] = true
		}

		ref.cur, ref.acc = want.cur-decs+incs, s.acc
		if ref.cur != s.cur {
			fail("after %v: counter.current = %d, reference %d", op, s.cur, ref.cur)
		}

		// Closing a listener releases its waiters.
		for li := range h.lns {
			if h.lnClosed[li] && (s.parked[li] != 0 || s.blocked[li] != 0) {
				fail("after %v: listener %d is closed but %d accepts are still waiting in the limiter and %d in the underlying listener",
					op, li, s.parked[li], s.blocked[li])
			}
		}

		// Bounded liveness: nobody waits while the counter is accepting.
		waiting := 0
		for li := range h.lns {
			if !h.lnClosed[li] {
				waiting += s.parked[li]
			}
		}

		if s.acc && waiting > 0 && !lostWakeup {
			// The recorded finding: one wake-up per release.  It needs at
			// least two waiters before the operation and at least one
			// release, and the wake-up that was sent did admit somebody.
			signalLike := prev.nParked >= 2 && decs >= 1 && incs >= 1
			if signalLike && st.Known(vc18KnownLostWakeup) {
				lostWakeup = true
				classes["known:lost-wakeup"] = true
			} else {
				fail("after %v: the counter is accepting (current %d < stop %d) but %d accepts on open listeners stay parked with no wake-up pending (waiters before the operation: %d, releases %d, admissions %d)",
					op, s.cur, stop, waiting, prev.nParked, decs, incs)
			}
		}

		// Classes.
		if !s.acc && s.cur == stop {
			reachedStop = true
			classes["reached-stop"] = true
		}

		if s.nParked >= 2 {
			classes["2+-waiters"] = true
			n := 0
			for li := range h.lns {
				if s.parked[li] > 0 {
					n++
				}
			}

			if n >= 2 {
				classes["waiters-on-2+-listeners"] = true
			}
		}

		// Waiters before the operation on listeners that are still open.
		openWaiters := 0
		for li := range prev.parked {
			if !h.lnClosed[li] {
				openWaiters += prev.parked[li]
			}
		}

		// The counter resumed in this operation if it refused before and
		// either accepts now or has admitted somebody (and perhaps filled up
		// again at once, now that every waiter is woken).
		resumed := !prev.acc && (s.acc || incs > 0)
		if reachedStop && resumed && openWaiters >= 2 && op.kind != vc18OpShutdown {
			nonTrivial = true
			classes["resumed-with-2+-waiters"] = true
			if !s.acc {
				classes["resumed-and-refilled-at-once"] = true
			}

			if s.acc && s.nParked == 0 {
				classes["resumed-all-waiters-admitted"] = true
			}

			if op.kind == vc18OpCloseLn {
				classes["resumed-by-listener-close"] = true
			}
		}

		if !prev.acc && !s.acc && decs > 0 {
			classes["release-below-stop-still-refusing"] = true
		}

		prev = s

		return true
	}

	for i := 0; i < nOps; i++ {
		// Enabled operations with weights, by construction.
		var ops []vc18Op
		add := func(w int, kind string, arg int) {
			for j := 0; j < w; j++ {
				ops = append(ops, vc18Op{kind: kind, arg: arg})
			}
		}

		for li := range h.lns {
			switch {
			case h.lnClosed[li]:
				if deadAccepts {
					add(1, vc18OpAcceptDead, li)
				}

				add(1, vc18OpRecloseLn, li)
			default:
				switch {
				case prev.acc:
					add(6, vc18OpAccept, li)
				case prev.nParked < 2:
					add(8, vc18OpAccept, li)
				case prev.nParked < 5:
					add(2, vc18OpAccept, li)
				}

				if prev.blocked[li] > 0 {
					add(4, vc18OpDeliver, li)
					add(1, vc18OpFailAccept, li)
				}

				add(1, vc18OpCloseLn, li)
			}
		}

		for ci, o := range opens {
			if o.closed {
				add(1, vc18OpReclose, ci)

				continue
			}

			w := 2
			if !prev.acc && prev.nParked >= 2 {
				w = 8
			}

			add(w, vc18OpCloseConn, ci)
			add(1, vc18OpConcClose, ci)
		}

		if len(h.lns) < 4 {
			add(1, vc18OpAddLn, 0)
		}

		add(2, vc18OpBatch, 0)

		op := ops[rapid.IntRange(0, len(ops)-1).Draw(t, "op")]
		trace = append(trace, fmt.Sprintf("%s(%d)", op.kind, op.arg))

		var delivered *vc18Conn
		switch op.kind {
		case vc18OpAccept:
			h.startAccept(op.arg)
		case vc18OpAcceptDead:
			classes["accept-on-closed-listener"] = true
			if prev.acc {
				classes["accept-on-closed-listener-while-accepting"] = true
			}

			h.startAccept(op.arg)
		case vc18OpDeliver:
			delivered = h.deliver(op.arg)
		case vc18OpCloseConn:
			o := opens[op.arg]
			o.closed = true
			_ = o.conn.Close()
		case vc18OpReclose:
			classes["conn-closed-again"] = true
			_ = opens[op.arg].conn.Close()
		case vc18OpConcClose:
			classes["conn-closed-concurrently"] = true
			o := opens[op.arg]
			o.closed = true
			n := rapid.IntRange(2, 4).Draw(t, "closers")
			// A spin barrier lets the closers enter Close within nanoseconds
			// of each other on different processors.
			var cwg sync.WaitGroup
			var ready atomic.Int32
			for j := 0; j < n; j++ {
				cwg.Add(1)
				go func() {
					defer cwg.Done()

					ready.Add(1)
					for spins := 0; ready.Load() < int32(n); spins++ {
						if spins%1000 == 999 {
							runtime.Gosched()
						}
					}

					_ = o.conn.Close()
				}()
			}

			cwg.Wait()
		case vc18OpCloseLn:
			if prev.parked[op.arg] > 0 {
				classes["listener-closed-with-waiters"] = true
			}

			if prev.blocked[op.arg] > 0 {
				classes["listener-closed-with-pending"] = true
			}

			if prev.blocked[op.arg] >= 2 && prev.nParked-prev.parked[op.arg] >= 1 {
				classes["listener-closed-pending>=2-others-waiting"] = true
			}

			h.lnClosed[op.arg] = true
			_ = h.lims[op.arg].Close()
		case vc18OpRecloseLn:
			classes["listener-closed-again"] = true
			_ = h.lims[op.arg].Close()
		case vc18OpFailAccept:
			classes["pending-accept-failed"] = true
			if prev.nParked > 0 {
				classes["pending-accept-failed-with-waiters"] = true
			}

			ferr := error(vc18ErrTransient)
			if rapid.Bool().Draw(t, "aborted") {
				ferr = vc18ErrAborted
			}

			h.failPending(op.arg, ferr)
		case vc18OpBatch:
			// Two to four operations in flight at once: accepts, closes of
			// distinct open connections, closes of distinct open listeners.
			// The reference accepts every legal order of their effects.
			var subs []vc18Op
			for li := range h.lns {
				if !h.lnClosed[li] {
					subs = append(subs, vc18Op{vc18OpAccept, li}, vc18Op{vc18OpAccept, li}, vc18Op{vc18OpCloseLn, li})
				}
			}

			for ci, o := range opens {
				if !o.closed {
					subs = append(subs, vc18Op{vc18OpCloseConn, ci}, vc18Op{vc18OpCloseConn, ci})
				}
			}

			n := rapid.IntRange(2, 4).Draw(t, "batch")
			var batch []vc18Op
			closesLn, closesConn := false, false
			for j := 0; j < n && len(subs) > 0; j++ {
				k := rapid.IntRange(0, len(subs)-1).Draw(t, "sub")
				sub := subs[k]
				batch = append(batch, sub)
				// Accepts may repeat; a connection or a listener is closed
				// by one member of the batch only.
				kept := subs[:0:0]
				for _, o := range subs {
					if sub.kind == vc18OpAccept || o != sub {
						kept = append(kept, o)
					}
				}
				subs = kept
			}

			var parts []string
			for _, sub := range batch {
				parts = append(parts, fmt.Sprintf("%s(%d)", sub.kind, sub.arg))
				switch sub.kind {
				case vc18OpCloseLn:
					closesLn = true
					if prev.parked[sub.arg] > 0 {
						classes["listener-closed-with-waiters"] = true
					}

					if prev.blocked[sub.arg] > 0 {
						classes["listener-closed-with-pending"] = true
					}

					h.lnClosed[sub.arg] = true
				case vc18OpCloseConn:
					closesConn = true
					opens[sub.arg].closed = true
				}
			}

			trace[len(trace)-1] = "concurrent{" + strings.Join(parts, ", ") + "}"
			if len(batch) >= 2 {
				classes["concurrent-batch"] = true
				if closesLn && closesConn {
					classes["conn-close-racing-listener-close"] = true
				}
			}

			var bwg sync.WaitGroup
			var ready atomic.Int32
			for _, sub := range batch {
				bwg.Add(1)
				go func() {
					defer bwg.Done()

					ready.Add(1)
					for spins := 0; ready.Load() < int32(len(batch)); spins++ {
						if spins%1000 == 999 {
							runtime.Gosched()
						}
					}

					switch sub.kind {
					case vc18OpAccept:
						h.startAccept(sub.arg)
					case vc18OpCloseLn:
						_ = h.lims[sub.arg].Close()
					case vc18OpCloseConn:
						_ = opens[sub.arg].conn.Close()
					}
				}()
			}

			bwg.Wait()
		case vc18OpAddLn:
			classes["listener-added"] = true
			h.addListener()
			prev.parked = append(prev.parked, 0)
			prev.blocked = append(prev.blocked, 0)
		}

		if !check(op, delivered) {
			break
		}

		// Each underlying connection is closed exactly once however often
		// the handed-out connection is closed.
		for _, o := range opens {
			h.mu.Lock()
			n := o.fake.closes
			h.mu.Unlock()

			want := 0
			if o.closed {
				want = 1
			}

			if n != want {
				fail("after %v: underlying connection %d was closed %d times, want %d", op, o.fake.id, n, want)
			}
		}
	}

	// Tear everything down as one more operation: nothing open and nothing
	// pending afterwards, so the counter must be back at zero and accepting.
	if !classes["known:closed-accept-leak"] {
		for li := range h.lnClosed {
			h.lnClosed[li] = true
		}

		h.shutdown(opens)
		for _, o := range opens {
			o.closed = true
		}

		op := vc18Op{kind: vc18OpShutdown}
		trace = append(trace, op.kind)
		if check(op, nil) && (prev.cur != 0 || prev.live != 0 || !prev.acc) {
			fail("after shutdown: counter.current = %d, isAccepting = %t, open + pending = %d; want 0, true, 0", prev.cur, prev.acc, prev.live)
		}
	}

	if len(h.lns) >= 2 {
		classes["2+-listeners"] = true
	}

	var cl []string
	for c := range classes {
		cl = append(cl, c)
	}

	nt := ""
	if nonTrivial {
		nt = fmt.Sprintf("%d/%d/%s", stop, resume, strings.Join(trace, ";"))
	}

	st.Case(nt, cl...)
	if nonTrivial && st.WantSample() {
		st.Sample(map[string]any{"stop": stop, "resume": resume, "listeners": len(h.lns), "trace": strings.Join(trace, "; ")})
	}
}

// ---------------------------------------------------------------------------
// the counter alone

func TestVerifC18Counter(t *testing.T) {
	st := vstat.New("C18", "limiter.counter",
		"rapid sequences of increment/decrement on the bare counter for stop in 1..8, resume in 0..stop, against the hysteresis reference; non-trivial = reached stop and later resumed; distinct by (stop, resume, sequence)",
		"reached-stop", "refused-between-resume-and-stop", "resumed")
	st.Finish(t)

	rapid.Check(t, func(t *rapid.T) {
		stop := rapid.IntRange(1, 8).Draw(t, "stop")
		resume := rapid.IntRange(0, stop).Draw(t, "resume")
		c := &counter{stop: uint64(stop), resume: uint64(resume), isAccepting: true}
		ref := vc18Ref{stop: stop, resume: resume, acc: true}
		n := rapid.IntRange(1, 60).Draw(t, "n")
		var seq []byte
		classes := map[string]bool{}
		reached, resumed := false, false
		for i := 0; i < n; i++ {
			// Bias towards filling up while accepting and draining otherwise.
			p := 70
			if !ref.acc {
				p = 30
			}

			if ref.cur == 0 || rapid.IntRange(0, 99).Draw(t, "p") < p {
				seq = append(seq, '+')
				wasAcc := ref.acc
				want := ref.inc()
				got := c.increment()
				if got != want {
					t.Fatalf("stop=%d resume=%d seq=%s: increment() = %t, reference %t (reference %+v, counter %+v)", stop, resume, seq, got, want, ref, *c)
				}

				if !wasAcc && ref.cur < stop && ref.cur > resume {
					classes["refused-between-resume-and-stop"] = true
				}
			} else {
				seq = append(seq, '-')
				wasAcc := ref.acc
				ref.dec()
				c.decrement()
				if !wasAcc && ref.acc {
					resumed = reached
					classes["resumed"] = true
				}
			}

			if int(c.current) != ref.cur || c.isAccepting != ref.acc {
				t.Fatalf("stop=%d resume=%d seq=%s: counter %+v, reference %+v", stop, resume, seq, *c, ref)
			}

			if c.current > c.stop {
				t.Fatalf("stop=%d resume=%d seq=%s: current %d exceeds stop", stop, resume, seq, c.current)
			}

			if ref.cur == stop {
				reached = true
				classes["reached-stop"] = true
			}
		}

		var cl []string
		for k := range classes {
			cl = append(cl, k)
		}

		nt := ""
		if resumed {
			nt = fmt.Sprintf("%d/%d/%s", stop, resume, seq)
		}

		st.Case(nt, cl...)
	})
}
