//go:build verif

package connlimiter

// C18 (a): stream connections never exceed the configured limits.
//
// One Limiter wraps 1-4 fake listeners.  The harness owns the order of
// start-accept / deliver-conn / close-conn / close-listener operations and,
// after every operation, waits for *quiescence*, which is decided from state
// and not from the clock: in one stop-the-world goroutine dump every accept
// goroutine of the case is either finished, blocked inside the fake listener,
// or parked (sync.Cond.Wait, channel operation, select) somewhere
// else, i.e. waiting in the limiter, and the harness' own counters did not move
// around the dump.  Nothing of the limiter's internals is needed for that, so
// the check builds against refactored internals.  What is observed is the
// public behaviour: which accepts reach the underlying listener, which return
// and with what, and how many connections are open.  These are compared with a
// hysteresis reference.  If the limiter still has fields counter.current and
// counter.isAccepting they are read reflectively at quiescence and compared
// too; if not, that comparison is skipped.  See /verif/DESIGN.md, section 3,
// C18.

import (
	"errors"
	"fmt"
	"net"
	"os"
	"reflect"
	"runtime"
	"strconv"
	"strings"
	"sync"
	"sync/atomic"
	"syscall"
	"testing"
	"time"

	"github.com/AdguardTeam/AdGuardDNS/internal/dnsserver"
	"github.com/AdguardTeam/golibs/logutil/slogutil"
	"pgregory.net/rapid"
	"verif.local/harness/vstat"
)

// vc18SettleTimeout is the generous bound on reaching quiescence.  Hitting it
// is reported as inconclusive, never as a violation.
const vc18SettleTimeout = 30 * time.Second

// ---------------------------------------------------------------------------
// reference model of the hysteresis counter (from the property statement)

type vc18Ref struct {
	cur, stop, resume int
	acc               bool
}

// inc is one admitted connection or pending accept.  It is only legal while
// the counter is accepting.
func (r *vc18Ref) inc() (ok bool) {
	if !r.acc || r.cur >= r.stop {
		return false
	}

	r.cur++
	if r.cur >= r.stop {
		r.acc = false
	}

	return true
}

// dec is one released connection or failed pending accept.
func (r *vc18Ref) dec() (ok bool) {
	if r.cur <= 0 {
		return false
	}

	r.cur--
	if r.cur <= r.resume {
		r.acc = true
	}

	return true
}

// vc18Feasible returns the set of values of the accepting flag that the
// reference can have after decs releases and incs admissions in any legal
// order starting from r.  An empty result means no legal order exists, i.e.
// some connection was admitted while the counter had to refuse it.
func vc18Feasible(r vc18Ref, decs, incs int) (accs map[bool]bool) {
	accs = map[bool]bool{}
	seen := map[[4]int]bool{}
	var walk func(r vc18Ref, decs, incs int)
	walk = func(r vc18Ref, decs, incs int) {
		a := 0
		if r.acc {
			a = 1
		}

		k := [4]int{r.cur, a, decs, incs}
		if seen[k] {
			return
		}

		seen[k] = true
		if decs == 0 && incs == 0 {
			accs[r.acc] = true

			return
		}

		if decs > 0 {
			n := r
			if n.dec() {
				walk(n, decs-1, incs)
			}
		}

		if incs > 0 {
			n := r
			if n.inc() {
				walk(n, decs, incs-1)
			}
		}
	}
	walk(r, decs, incs)

	return accs
}

// ---------------------------------------------------------------------------
// fakes

type vc18Addr string

func (a vc18Addr) Network() string { return "tcp" }
func (a vc18Addr) String() string  { return string(a) }

// vc18Conn is a fake stream connection that counts how often the underlying
// Close is called.
type vc18Conn struct {
	h      *vc18H
	id     int
	closes int // under h.mu

	// closeErr is what the underlying Close reports, if not nil.
	closeErr error
}

func (c *vc18Conn) Read(b []byte) (n int, err error)   { return 0, net.ErrClosed }
func (c *vc18Conn) Write(b []byte) (n int, err error)  { return len(b), nil }
func (c *vc18Conn) LocalAddr() net.Addr                { return vc18Addr("192.0.2.1:853") }
func (c *vc18Conn) RemoteAddr() net.Addr               { return vc18Addr(fmt.Sprintf("192.0.2.2:%d", 10000+c.id)) }
func (c *vc18Conn) SetDeadline(t time.Time) error      { return nil }
func (c *vc18Conn) SetReadDeadline(t time.Time) error  { return nil }
func (c *vc18Conn) SetWriteDeadline(t time.Time) error { return nil }

func (c *vc18Conn) Close() (err error) {
	// Give concurrent closers of the wrapping connection a chance to run
	// while this one is between its guard and its release.
	for i := 0; i < 4; i++ {
		runtime.Gosched()
	}

	c.h.mu.Lock()
	defer c.h.mu.Unlock()

	c.closes++
	if c.closes == 1 {
		c.h.live--
		c.h.connDecs++
	}

	return c.closeErr
}

// vc18Ln is a fake listener whose Accept blocks until the harness delivers a
// connection or closes the listener.
type vc18Ln struct {
	h      *vc18H
	idx    int
	connCh chan net.Conn
	failCh chan error
	done   chan struct{}

	// closeErr is what the underlying Close reports, if not nil.
	closeErr error

	// under h.mu
	blocked int // goroutines waiting inside Accept
	entries int // calls of Accept
	errRets int // calls of Accept that return (or will return) an error
	closed  bool
	closes  int
}

func (l *vc18Ln) Accept() (c net.Conn, err error) {
	h := l.h
	h.mu.Lock()
	l.entries++
	h.entries++
	h.live++
	if h.live > h.stop && h.overshoot == "" {
		h.overshoot = fmt.Sprintf("open connections + pending accepts = %d > stop = %d on entry of Accept on listener %d", h.live, h.stop, l.idx)
	}

	if l.closed {
		l.errRets++
		h.errRets++
		h.live--
		h.mu.Unlock()

		return nil, net.ErrClosed
	}

	l.blocked++
	h.mu.Unlock()

	select {
	case c = <-l.connCh:
		return c, nil
	case err = <-l.failCh:
		return nil, err
	case <-l.done:
		return nil, net.ErrClosed
	}
}

func (l *vc18Ln) Close() (err error) {
	h := l.h
	h.mu.Lock()
	defer h.mu.Unlock()

	l.closes++
	if !l.closed {
		l.closed = true
		l.errRets += l.blocked
		h.errRets += l.blocked
		h.live -= l.blocked
		l.blocked = 0
		close(l.done)
	}

	return l.closeErr
}

func (l *vc18Ln) Addr() net.Addr { return vc18Addr(fmt.Sprintf("192.0.2.1:%d", 853+l.idx)) }

// ---------------------------------------------------------------------------
// harness

// vc18Acc is one call of limitListener.Accept made by the harness.
type vc18Acc struct {
	ln   int
	gid  uint64 // goroutine id, set by the goroutine itself; under h.mu
	done bool
	conn net.Conn
	err  error
	seen bool // result consumed by the checker
}

// vc18Open is a connection handed out by Accept.
type vc18Open struct {
	conn   net.Conn
	fake   *vc18Conn
	ln     int
	closed bool
}

type vc18H struct {
	lim  *Limiter
	lims []net.Listener
	lns  []*vc18Ln
	// lnClosed[i] is true once the harness has closed limited listener i.
	lnClosed []bool

	wg sync.WaitGroup

	mu        sync.Mutex
	stop      int
	live      int // pending underlying accepts + delivered, not yet closed conns
	overshoot string
	entries   int // calls of the underlying Accept
	errRets   int // failed calls of the underlying Accept
	connDecs  int // first closes of underlying connections
	accs      []*vc18Acc
	started   []int // per listener
	returned  []int // per listener
	nconns    int
	panicked  string

	debug, lastStates string
}

// vc18Snap is the state at quiescence.
type vc18Snap struct {
	// peeked tells whether the limiter's own counter could be read; cur and
	// isAcc are its values then.
	peeked bool
	cur    int
	isAcc  bool

	// acc is what the reference says after the check: false if the limiter
	// must be refusing, true if it accepts or may accept.
	acc      bool
	live     int
	parked   []int // per listener: inside limitListener.increment
	blocked  []int // per listener: inside the underlying Accept
	nParked  int
	entries  int
	errRets  int
	connDecs int
}

// vc18GoID returns the id of the calling goroutine.
func vc18GoID() (id uint64) {
	var buf [64]byte
	b := buf[:runtime.Stack(buf[:], false)]
	// "goroutine 123 [running]:"
	f := strings.Fields(string(b))
	if len(f) >= 2 {
		id, _ = strconv.ParseUint(f[1], 10, 64)
	}

	return id
}

// vc18DumpBuf is reused between dumps.
var (
	vc18DumpMu  sync.Mutex
	vc18DumpBuf = make([]byte, 256<<10)
)

// vc18GState is what a goroutine dump says about one goroutine.
type vc18GState struct {
	status string
	inFake bool
}

// vc18Dump takes a goroutine dump (the world is stopped while it is taken, so
// it is one consistent state) and returns the state of every goroutine.
func vc18Dump() (gs map[uint64]vc18GState) {
	vc18DumpMu.Lock()
	defer vc18DumpMu.Unlock()

	var buf []byte
	for {
		n := runtime.Stack(vc18DumpBuf, true)
		if n < len(vc18DumpBuf) {
			buf = vc18DumpBuf[:n]

			break
		}

		vc18DumpBuf = make([]byte, 2*len(vc18DumpBuf))
	}

	gs = map[uint64]vc18GState{}
	for _, g := range strings.Split(string(buf), "\n\n") {
		if !strings.HasPrefix(g, "goroutine ") {
			continue
		}

		hdr, _, _ := strings.Cut(g, "\n")
		f := strings.Fields(hdr)
		if len(f) < 3 {
			continue
		}

		id, err := strconv.ParseUint(f[1], 10, 64)
		if err != nil {
			continue
		}

		status := hdr[strings.Index(hdr, "[")+1:]
		status = strings.TrimSuffix(strings.TrimSpace(status), ":")
		status = strings.TrimSuffix(status, "]")
		status, _, _ = strings.Cut(status, ",")
		gs[id] = vc18GState{status: status, inFake: strings.Contains(g, "vc18Ln).Accept")}
	}

	return gs
}

// vc18Parked reports whether status is one in which a goroutine stays until
// somebody else acts: it is not running, not runnable and not merely waiting
// for a mutex.
func vc18Parked(status string) (ok bool) {
	switch status {
	// "semacquire" is deliberately not in the list: the runtime itself parks
	// goroutines that way for short internal waits.
	case "sync.Cond.Wait", "chan receive", "chan send", "select", "chan receive (nil chan)", "select (no cases)":
		return true
	default:
		return false
	}
}

// vc18Peek reads counter.current and counter.isAccepting of l reflectively, if
// the limiter still has them.  It is only called at quiescence, when no other
// goroutine can touch them.
func vc18Peek(l *Limiter) (cur int, acc, ok bool) {
	defer func() {
		if recover() != nil {
			ok = false
		}
	}()

	if os.Getenv("VERIF_C18_NOPEEK") != "" {
		// For testing the harness: behave as if the fields were gone.
		return 0, false, false
	}

	v := reflect.ValueOf(l).Elem().FieldByName("counter")
	if !v.IsValid() {
		return 0, false, false
	}

	if v.Kind() == reflect.Pointer {
		v = v.Elem()
	}

	c, a := v.FieldByName("current"), v.FieldByName("isAccepting")
	if !c.IsValid() || !a.IsValid() || a.Kind() != reflect.Bool {
		return 0, false, false
	}

	switch {
	case c.CanUint():
		cur = int(c.Uint())
	case c.CanInt():
		cur = int(c.Int())
	default:
		return 0, false, false
	}

	return cur, a.Bool(), true
}

func vc18Inconclusive(t interface {
	Logf(string, ...any)
	FailNow()
}, format string, args ...any) {
	msg := fmt.Sprintf(format, args...)
	fmt.Printf("VERIF-INCONCLUSIVE: %s\n", msg)
	t.Logf("VERIF-INCONCLUSIVE: %s", msg)
	t.FailNow()
}

func vc18NewH(stop, resume int) (h *vc18H, err error) {
	lim, err := New(&Config{Logger: slogutil.NewDiscardLogger(), Stop: uint64(stop), Resume: uint64(resume)})
	if err != nil {
		return nil, err
	}

	return &vc18H{lim: lim, stop: stop}, nil
}

func (h *vc18H) addListener() (idx int) {
	idx = len(h.lns)
	ln := &vc18Ln{h: h, idx: idx, connCh: make(chan net.Conn), failCh: make(chan error), done: make(chan struct{})}
	if idx%3 == 2 {
		ln.closeErr = errors.New("vc18: underlying listener close failed")
	}

	info := &dnsserver.ServerInfo{
		Name: fmt.Sprintf("vc18_srv_%d", idx),
		Addr: ln.Addr().String(),
		// Listeners of different transports share one limiter in production.
		Proto: []dnsserver.Protocol{dnsserver.ProtoDoT, dnsserver.ProtoDNS, dnsserver.ProtoDoH}[idx%3],
	}

	h.mu.Lock()
	h.lns = append(h.lns, ln)
	h.started = append(h.started, 0)
	h.returned = append(h.returned, 0)
	h.mu.Unlock()

	h.lnClosed = append(h.lnClosed, false)
	h.lims = append(h.lims, h.lim.Limit(ln, info))

	return idx
}

// startAccept calls Accept of limited listener li on a new goroutine.
func (h *vc18H) startAccept(li int) {
	a := &vc18Acc{ln: li}
	h.mu.Lock()
	h.accs = append(h.accs, a)
	h.started[li]++
	h.mu.Unlock()

	lim := h.lims[li]
	h.wg.Add(1)
	go func() {
		defer h.wg.Done()

		var c net.Conn
		var err error
		defer func() {
			v := recover()

			h.mu.Lock()
			defer h.mu.Unlock()

			if v != nil {
				h.panicked = fmt.Sprint(v)
				err = fmt.Errorf("panic: %v", v)
			}

			a.done, a.conn, a.err = true, c, err
			h.returned[li]++
		}()

		gid := vc18GoID()
		h.mu.Lock()
		a.gid = gid
		h.mu.Unlock()

		c, err = lim.Accept()
	}()
}

// deliver hands a new fake connection to one Accept blocked in fake listener
// li.  The caller guarantees that there is one.
func (h *vc18H) deliver(li int) (fc *vc18Conn) {
	h.mu.Lock()
	fc = &vc18Conn{h: h, id: h.nconns}
	if h.nconns%4 == 3 {
		fc.closeErr = errors.New("vc18: underlying connection close failed")
	}
	h.nconns++
	h.lns[li].blocked--
	h.mu.Unlock()

	h.lns[li].connCh <- fc

	return fc
}

// vc18ErrTransient and vc18ErrAborted are what the underlying Accept reports
// when the harness fails a pending accept without closing the listener, the
// way a kernel reports a connection reset while it sat in the accept queue.
var (
	vc18ErrTransient = errors.New("vc18: transient accept failure")
	vc18ErrAborted   = &net.OpError{Op: "accept", Net: "tcp", Err: syscall.ECONNABORTED}
)

// failPending makes one Accept blocked in fake listener li return err.  The
// caller guarantees that there is one.
func (h *vc18H) failPending(li int, err error) {
	h.mu.Lock()
	ln := h.lns[li]
	ln.blocked--
	ln.errRets++
	h.errRets++
	h.live--
	h.mu.Unlock()

	ln.failCh <- err
}

// vc18Counters is what the harness itself counts.
type vc18Counters struct {
	entries, errRets, connDecs, live int
	started, returned, blocked       [8]int
	outstanding                      int
}

func (h *vc18H) counters() (c vc18Counters, gids []uint64) {
	h.mu.Lock()
	defer h.mu.Unlock()

	c.entries, c.errRets, c.connDecs, c.live = h.entries, h.errRets, h.connDecs, h.live
	for li, ln := range h.lns {
		c.started[li], c.returned[li], c.blocked[li] = h.started[li], h.returned[li], ln.blocked
		c.outstanding += h.started[li] - h.returned[li]
	}

	for _, a := range h.accs {
		if !a.done {
			gids = append(gids, a.gid)
		}
	}

	return c, gids
}

// settle waits for quiescence and returns the state then.
func (h *vc18H) settle() (s vc18Snap, why string) {
	deadline := time.Now().Add(vc18SettleTimeout)
	for i := 0; ; i++ {
		c1, gids := h.counters()
		quiet := len(gids) == c1.outstanding
		inFake, parked, other := 0, 0, ""
		if quiet {
			gs := vc18Dump()
			h.lastStates = ""
			for _, gid := range gids {
				g, ok := gs[gid]
				h.lastStates += fmt.Sprintf("  at settle: gid %d %+v\n", gid, g)
				switch {
				case gid == 0 || !ok:
					quiet = false
					other = "an accept goroutine has not started yet"
				case g.inFake && g.status == "select":
					inFake++
				case !g.inFake && vc18Parked(g.status):
					parked++
				default:
					quiet = false
					other = fmt.Sprintf("an accept goroutine is %q (inside the underlying Accept: %t)", g.status, g.inFake)
				}
			}

			blocked := 0
			for _, b := range c1.blocked {
				blocked += b
			}

			c2, _ := h.counters()
			quiet = quiet && c1 == c2 && inFake == blocked
		}

		if quiet {
			s = vc18Snap{
				live:     c1.live,
				nParked:  parked,
				entries:  c1.entries,
				errRets:  c1.errRets,
				connDecs: c1.connDecs,
			}
			for li := range h.lns {
				s.blocked = append(s.blocked, c1.blocked[li])
				s.parked = append(s.parked, c1.started[li]-c1.returned[li]-c1.blocked[li])
			}

			s.cur, s.isAcc, s.peeked = vc18Peek(h.lim)
			if os.Getenv("VERIF_C18_DEBUG") != "" {
				gs := vc18Dump()
				h.debug = fmt.Sprintf("counters %+v gids %v", c1, gids)
				for _, gid := range gids {
					h.debug += fmt.Sprintf("\n  at settle+: gid %d %+v", gid, gs[gid])
				}
				h.debug += "\n" + h.lastStates
			}

			return s, ""
		}

		if time.Now().After(deadline) {
			return s, fmt.Sprintf("outstanding accepts %d, parked %d, inside the underlying Accept %d; %s", c1.outstanding, parked, inFake, other)
		}

		if i < 50 {
			runtime.Gosched()
		} else {
			time.Sleep(50 * time.Microsecond)
		}
	}
}

// shutdown releases everything the case started.  It is used on all paths,
// including failure, so that no goroutine outlives the case.
func (h *vc18H) shutdown(opens []*vc18Open) {
	for _, l := range h.lims {
		_ = l.Close()
	}

	// Should the limiter not have closed the underlying listeners, do it here
	// so that blocked fakes return.
	for _, ln := range h.lns {
		_ = ln.Close()
	}

	for _, o := range opens {
		_ = o.conn.Close()
	}

	h.mu.Lock()
	var late []net.Conn
	for _, a := range h.accs {
		if a.done && a.conn != nil && !a.seen {
			late = append(late, a.conn)
		}
	}
	h.mu.Unlock()

	for _, c := range late {
		_ = c.Close()
	}
}

// reap waits for the accept goroutines of the case after shutdown.  With a
// limiter that fails to release the waiters of a closed listener (which the
// checks report before this runs) they never return; they are abandoned after
// a bounded wait.  Later cases only look at their own goroutines.
func (h *vc18H) reap() {
	done := make(chan struct{})
	go func() {
		h.wg.Wait()
		close(done)
	}()

	select {
	case <-done:
	case <-time.After(2 * time.Second):
	}
}

// ---------------------------------------------------------------------------
// the property

type vc18Op struct {
	kind string
	arg  int
}

const (
	vc18OpAccept     = "accept"
	vc18OpDeliver    = "deliver"
	vc18OpCloseConn  = "close-conn"
	vc18OpReclose    = "reclose-conn"
	vc18OpConcClose  = "concurrent-close-conn"
	vc18OpCloseLn    = "close-listener"
	vc18OpRecloseLn  = "reclose-listener"
	vc18OpAddLn      = "add-listener"
	vc18OpAcceptDead = "accept-on-closed-listener"
	vc18OpShutdown   = "shutdown"
	vc18OpFailAccept = "fail-pending-accept"
	vc18OpBatch      = "concurrent-batch"
)

func TestVerifC18Limiter(t *testing.T) {
	st := vstat.New("C18", "limiter.sequences",
		"rapid operation sequences (start-accept, deliver-conn, close-conn once/again/concurrently, close-listener once/again, add-listener, accept on a closed listener, failure of a pending underlying Accept, 2-4 accepts/closes in flight at once) over 1-4 fake listeners of mixed transports sharing one Limiter, some underlying Close calls reporting errors, stop in 1..6, resume in 0..stop; after every operation the harness waits until one goroutine dump shows every accept goroutine finished, inside the fake listener or parked, and then compares which accepts were admitted, which returned and how many connections are open with a hysteresis reference (plus the limiter's own counter, read reflectively if it still exists); waiting-accepts-proceed rule: at that quiescence no operation is pending and every waiter is parked, so a waiter on an open listener while the reference must accept can never proceed and is a violation, decided from state, not from a time-out; non-trivial = the counter reached stop and later fell to resume while >=2 accepts were waiting; distinct by (stop, resume, operation trace)",
		"reached-stop", "resumed-with-2+-waiters", "listener-closed-with-waiters", "listener-closed-with-pending",
		"conn-closed-again", "conn-closed-concurrently", "waiters-on-2+-listeners", "resume<stop-1", "resume=stop", "resume=0", "stop=1",
		"pending-accept-failed-with-waiters", "concurrent-batch", "conn-close-racing-listener-close",
		"resumed-by-close-of-conn-from-other-listener", "resumed-only-other-listeners-waiting")
	st.Finish(t)

	rapid.Check(t, func(t *rapid.T) { vc18Case(t, st) })
}

func vc18Case(t *rapid.T, st *vstat.Stats) {
	stop := rapid.IntRange(1, 6).Draw(t, "stop")
	resume := rapid.IntRange(0, stop).Draw(t, "resume")
	nLn := rapid.SampledFrom([]int{1, 1, 2, 2, 2, 3}).Draw(t, "listeners")
	deadAccepts := rapid.IntRange(0, 3).Draw(t, "acceptOnClosed") == 0
	nOps := rapid.IntRange(4, 60).Draw(t, "nOps")

	h, err := vc18NewH(stop, resume)
	if err != nil {
		t.Fatalf("New(stop=%d, resume=%d): %v", stop, resume, err)
	}

	for i := 0; i < nLn; i++ {
		h.addListener()
	}

	var opens []*vc18Open
	defer func() {
		h.shutdown(opens)
		h.reap()
	}()

	// The reference: the number of open connections and pending accepts, and
	// the set of values its accepting flag can have (operations whose effects
	// can be ordered in several ways may leave both possible).
	ref := vc18Ref{stop: stop, resume: resume, acc: true}
	accSet := map[bool]bool{true: true}
	var trace []string
	classes := map[string]bool{}
	prev := vc18Snap{acc: true, parked: make([]int, nLn), blocked: make([]int, nLn)}
	reachedStop, nonTrivial := false, false

	fail := func(format string, args ...any) {
		if os.Getenv("VERIF_C18_DEBUG") != "" {
			fmt.Fprintf(os.Stderr, "DEBUGFAIL %s\n%s\n", fmt.Sprintf(format, args...), h.debug)
			_, gids := h.counters()
			buf := make([]byte, 1<<20)
			buf = buf[:runtime.Stack(buf, true)]
			for _, g := range strings.Split(string(buf), "\n\n") {
				for _, gid := range gids {
					if strings.HasPrefix(g, fmt.Sprintf("goroutine %d ", gid)) {
						fmt.Fprintf(os.Stderr, "DEBUG outstanding accept:\n%s\n", g)
					}
				}
			}
		}

		t.Fatalf("stop=%d resume=%d listeners=%d\ntrace: %s\n%s", stop, resume, len(h.lns), strings.Join(trace, "; "),
			fmt.Sprintf(format, args...))
	}

	switch {
	case resume == stop:
		classes["resume=stop"] = true
	case resume == stop-1:
		classes["resume=stop-1"] = true
	default:
		classes["resume<stop-1"] = true
	}

	if resume == 0 {
		classes["resume=0"] = true
	}

	if stop == 1 {
		classes["stop=1"] = true
	}

	// check runs after every operation.  delivered is the fake connection
	// handed out by this operation, if any.  It returns false when the case
	// ends early behind a recorded finding.
	check := func(op vc18Op, delivered *vc18Conn) (cont bool) {
		s, why := h.settle()
		if why != "" {
			// Let the deferred shutdown release everything first.
			vc18Inconclusive(t, "no quiescence within %s after %v (trace %s): %s", vc18SettleTimeout, op, strings.Join(trace, "; "), why)
		}

		h.mu.Lock()
		overshoot, panicked := h.overshoot, h.panicked
		var fresh []*vc18Acc
		for _, a := range h.accs {
			if a.done && !a.seen {
				a.seen = true
				fresh = append(fresh, a)
			}
		}
		h.mu.Unlock()

		if panicked != "" {
			fail("Accept panicked: %s", panicked)
		}

		// Safety: the bound itself, sampled whenever the number rises.
		if overshoot != "" {
			fail("after %v: %s", op, overshoot)
		}

		// Results of accepts that returned during this operation.
		errNoEntry := 0
		gotConn := 0
		injectedSeen := false
		for _, a := range fresh {
			switch {
			case a.err != nil:
				if a.conn != nil {
					fail("after %v: Accept on listener %d returned both a connection and error %v", op, a.ln, a.err)
				}

				if !h.lnClosed[a.ln] {
					if op.kind != vc18OpFailAccept || a.ln != op.arg || injectedSeen ||
						!(errors.Is(a.err, vc18ErrTransient) || errors.Is(a.err, syscall.ECONNABORTED)) {
						fail("after %v: Accept on open listener %d failed: %v", op, a.ln, a.err)
					}

					injectedSeen = true
					errNoEntry++

					continue
				}

				if !errors.Is(a.err, net.ErrClosed) {
					fail("after %v: Accept on closed listener %d returned %v, want net.ErrClosed", op, a.ln, a.err)
				}

				errNoEntry++
			case a.conn == nil:
				fail("after %v: Accept on listener %d returned nil, nil", op, a.ln)
			default:
				gotConn++
				if delivered == nil || op.kind != vc18OpDeliver || a.ln != op.arg ||
					a.conn.RemoteAddr().String() != delivered.RemoteAddr().String() {
					fail("after %v: Accept on listener %d returned unexpected connection %v", op, a.ln, a.conn.RemoteAddr())
				}

				opens = append(opens, &vc18Open{conn: a.conn, fake: delivered, ln: a.ln})
			}
		}

		if op.kind == vc18OpFailAccept && !injectedSeen {
			_, gids := h.counters()
			gs := vc18Dump()
			for _, gid := range gids {
				t.Logf("DEBUG gid %d: %+v", gid, gs[gid])
			}
			t.Logf("DEBUG snap %+v", s)
			fail("after %v: the failure of the underlying Accept was not returned by any Accept", op)
		}

		errNoEntry -= s.errRets - prev.errRets
		if delivered != nil && gotConn != 1 {
			fail("after %v: delivered connection was returned by %d accepts", op, gotConn)
		}

		decs := (s.errRets - prev.errRets) + (s.connDecs - prev.connDecs)
		incs := s.entries - prev.entries

		// Closing a listener releases its waiters.
		for li := range h.lns {
			if h.lnClosed[li] && (s.parked[li] != 0 || s.blocked[li] != 0) {
				fail("after %v: listener %d is closed but %d accepts are still waiting in the limiter and %d in the underlying listener",
					op, li, s.parked[li], s.blocked[li])
			}
		}

		waiting := 0
		for li := range h.lns {
			if !h.lnClosed[li] {
				waiting += s.parked[li]
			}
		}

		// Hysteresis: the admissions and releases of this operation must be
		// explainable by the reference in some order.
		all := map[bool]bool{}
		for a0 := range accSet {
			r := ref
			r.acc = a0
			for a1 := range vc18Feasible(r, decs, incs) {
				all[a1] = true
			}
		}

		if len(all) == 0 {
			fail("after %v: %d admissions and %d releases from reference state %+v (accepting: %v) are impossible: a connection was admitted while the limiter had to refuse",
				op, incs, decs, ref, accSet)
		}

		// Waiting accepts proceed: everything is parked and no operation is
		// pending, so whoever still waits on an open listener will wait for
		// good unless the limiter is refusing.
		if waiting > 0 && !all[false] {
			fail("after %v: %d open connections and pending accepts (stop %d, resume %d), the limiter must be accepting after %d releases and %d admissions from %d (accepting: %v), but %d accepts on open listeners are parked in it and nothing is left that could wake them (waiters before the operation: %d)",
				op, s.live, stop, resume, decs, incs, ref.cur, accSet, waiting, prev.nParked)
		}

		next := map[bool]bool{}
		for a1 := range all {
			if waiting == 0 || !a1 {
				next[a1] = true
			}
		}

		if len(all) == 2 {
			classes["order-dependent-step"] = true
		}

		ref.cur += incs - decs
		if ref.cur != s.live {
			fail("harness: reference count %d, open connections + pending accepts %d", ref.cur, s.live)
		}

		// The limiter's own counter, if it can still be read.
		if s.peeked {
			classes["counter-read"] = true
			if s.cur != s.live {
				fail("after %v: counter.current = %d but open connections + pending accepts = %d (accepts that returned net.ErrClosed without reaching the underlying listener: %d)",
					op, s.cur, s.live, errNoEntry)
			}

			if !next[s.isAcc] {
				fail("after %v: counter.isAccepting = %t, reference allows %v (reference before: %+v accepting %v, admissions %d, releases %d, waiting %d)",
					op, s.isAcc, next, ref, accSet, incs, decs, waiting)
			}

			next = map[bool]bool{s.isAcc: true}
		} else {
			classes["counter-not-readable"] = true
		}

		accSet = next
		s.acc = accSet[true]
		_ = errNoEntry

		// Classes.
		if !s.acc && s.live == stop {
			reachedStop = true
			classes["reached-stop"] = true
		}

		if s.nParked >= 2 {
			classes["2+-waiters"] = true
			n := 0
			for li := range h.lns {
				if s.parked[li] > 0 {
					n++
				}
			}

			if n >= 2 {
				classes["waiters-on-2+-listeners"] = true
			}
		}

		// Waiters before the operation on listeners that are still open.
		openWaiters := 0
		for li := range prev.parked {
			if !h.lnClosed[li] {
				openWaiters += prev.parked[li]
			}
		}

		// The counter resumed in this operation if it refused before and
		// either accepts now or has admitted somebody (and perhaps filled up
		// again at once, now that every waiter is woken).
		resumed := !prev.acc && (s.acc || incs > 0)
		if reachedStop && resumed && openWaiters >= 2 && op.kind != vc18OpShutdown {
			nonTrivial = true
			classes["resumed-with-2+-waiters"] = true
			if !s.acc {
				classes["resumed-and-refilled-at-once"] = true
			}

			if s.acc && s.nParked == 0 {
				classes["resumed-all-waiters-admitted"] = true
			}

			if op.kind == vc18OpCloseLn {
				classes["resumed-by-listener-close"] = true
			}
		}

		if resumed && (op.kind == vc18OpCloseConn || op.kind == vc18OpConcClose) {
			// The released connection came in through one listener; was
			// somebody waiting on another one?
			via := opens[op.arg].ln
			for li := range prev.parked {
				if li != via && !h.lnClosed[li] && prev.parked[li] > 0 {
					classes["resumed-by-close-of-conn-from-other-listener"] = true
					if prev.parked[via] == 0 {
						classes["resumed-only-other-listeners-waiting"] = true
					}
				}
			}
		}

		if !prev.acc && !s.acc && decs > 0 {
			classes["release-below-stop-still-refusing"] = true
		}

		prev = s

		return true
	}

	for i := 0; i < nOps; i++ {
		// Enabled operations with weights, by construction.
		var ops []vc18Op
		add := func(w int, kind string, arg int) {
			for j := 0; j < w; j++ {
				ops = append(ops, vc18Op{kind: kind, arg: arg})
			}
		}

		for li := range h.lns {
			switch {
			case h.lnClosed[li]:
				if deadAccepts {
					add(1, vc18OpAcceptDead, li)
				}

				add(1, vc18OpRecloseLn, li)
			default:
				switch {
				case prev.acc:
					add(6, vc18OpAccept, li)
				case prev.nParked < 2:
					add(8, vc18OpAccept, li)
				case prev.nParked < 5:
					add(2, vc18OpAccept, li)
				}

				if prev.blocked[li] > 0 {
					add(4, vc18OpDeliver, li)
					add(1, vc18OpFailAccept, li)
				}

				add(1, vc18OpCloseLn, li)
			}
		}

		for ci, o := range opens {
			if o.closed {
				add(1, vc18OpReclose, ci)

				continue
			}

			w := 2
			if !prev.acc && prev.nParked >= 2 {
				w = 8
			}

			add(w, vc18OpCloseConn, ci)
			add(1, vc18OpConcClose, ci)
		}

		if len(h.lns) < 4 {
			add(1, vc18OpAddLn, 0)
		}

		add(2, vc18OpBatch, 0)

		op := ops[rapid.IntRange(0, len(ops)-1).Draw(t, "op")]
		trace = append(trace, fmt.Sprintf("%s(%d)", op.kind, op.arg))

		var delivered *vc18Conn
		switch op.kind {
		case vc18OpAccept:
			h.startAccept(op.arg)
		case vc18OpAcceptDead:
			classes["accept-on-closed-listener"] = true
			if prev.acc {
				classes["accept-on-closed-listener-while-accepting"] = true
			}

			h.startAccept(op.arg)
		case vc18OpDeliver:
			delivered = h.deliver(op.arg)
		case vc18OpCloseConn:
			o := opens[op.arg]
			o.closed = true
			_ = o.conn.Close()
		case vc18OpReclose:
			classes["conn-closed-again"] = true
			_ = opens[op.arg].conn.Close()
		case vc18OpConcClose:
			classes["conn-closed-concurrently"] = true
			o := opens[op.arg]
			o.closed = true
			n := rapid.IntRange(2, 4).Draw(t, "closers")
			// A spin barrier lets the closers enter Close within nanoseconds
			// of each other on different processors.
			var cwg sync.WaitGroup
			var ready atomic.Int32
			for j := 0; j < n; j++ {
				cwg.Add(1)
				go func() {
					defer cwg.Done()

					ready.Add(1)
					for spins := 0; ready.Load() < int32(n); spins++ {
						if spins%1000 == 999 {
							runtime.Gosched()
						}
					}

					_ = o.conn.Close()
				}()
			}

			cwg.Wait()
		case vc18OpCloseLn:
			if prev.parked[op.arg] > 0 {
				classes["listener-closed-with-waiters"] = true
			}

			if prev.blocked[op.arg] > 0 {
				classes["listener-closed-with-pending"] = true
			}

			if prev.blocked[op.arg] >= 2 && prev.nParked-prev.parked[op.arg] >= 1 {
				classes["listener-closed-pending>=2-others-waiting"] = true
			}

			h.lnClosed[op.arg] = true
			_ = h.lims[op.arg].Close()
		case vc18OpRecloseLn:
			classes["listener-closed-again"] = true
			_ = h.lims[op.arg].Close()
		case vc18OpFailAccept:
			classes["pending-accept-failed"] = true
			if prev.nParked > 0 {
				classes["pending-accept-failed-with-waiters"] = true
			}

			ferr := error(vc18ErrTransient)
			if rapid.Bool().Draw(t, "aborted") {
				ferr = vc18ErrAborted
			}

			h.failPending(op.arg, ferr)
		case vc18OpBatch:
			// Two to four operations in flight at once: accepts, closes of
			// distinct open connections, closes of distinct open listeners.
			// The reference accepts every legal order of their effects.
			var subs []vc18Op
			for li := range h.lns {
				if !h.lnClosed[li] {
					subs = append(subs, vc18Op{vc18OpAccept, li}, vc18Op{vc18OpAccept, li}, vc18Op{vc18OpCloseLn, li})
				}
			}

			for ci, o := range opens {
				if !o.closed {
					subs = append(subs, vc18Op{vc18OpCloseConn, ci}, vc18Op{vc18OpCloseConn, ci})
				}
			}

			n := rapid.IntRange(2, 4).Draw(t, "batch")
			var batch []vc18Op
			closesLn, closesConn := false, false
			for j := 0; j < n && len(subs) > 0; j++ {
				k := rapid.IntRange(0, len(subs)-1).Draw(t, "sub")
				sub := subs[k]
				batch = append(batch, sub)
				// Accepts may repeat; a connection or a listener is closed
				// by one member of the batch only.
				kept := subs[:0:0]
				for _, o := range subs {
					if sub.kind == vc18OpAccept || o != sub {
						kept = append(kept, o)
					}
				}
				subs = kept
			}

			var parts []string
			for _, sub := range batch {
				parts = append(parts, fmt.Sprintf("%s(%d)", sub.kind, sub.arg))
				switch sub.kind {
				case vc18OpCloseLn:
					closesLn = true
					if prev.parked[sub.arg] > 0 {
						classes["listener-closed-with-waiters"] = true
					}

					if prev.blocked[sub.arg] > 0 {
						classes["listener-closed-with-pending"] = true
					}

					h.lnClosed[sub.arg] = true
				case vc18OpCloseConn:
					closesConn = true
					opens[sub.arg].closed = true
				}
			}

			trace[len(trace)-1] = "concurrent{" + strings.Join(parts, ", ") + "}"
			if len(batch) >= 2 {
				classes["concurrent-batch"] = true
				if closesLn && closesConn {
					classes["conn-close-racing-listener-close"] = true
				}
			}

			var bwg sync.WaitGroup
			var ready atomic.Int32
			for _, sub := range batch {
				bwg.Add(1)
				go func() {
					defer bwg.Done()

					ready.Add(1)
					for spins := 0; ready.Load() < int32(len(batch)); spins++ {
						if spins%1000 == 999 {
							runtime.Gosched()
						}
					}

					switch sub.kind {
					case vc18OpAccept:
						h.startAccept(sub.arg)
					case vc18OpCloseLn:
						_ = h.lims[sub.arg].Close()
					case vc18OpCloseConn:
						_ = opens[sub.arg].conn.Close()
					}
				}()
			}

			bwg.Wait()
		case vc18OpAddLn:
			classes["listener-added"] = true
			h.addListener()
			prev.parked = append(prev.parked, 0)
			prev.blocked = append(prev.blocked, 0)
		}

		if !check(op, delivered) {
			break
		}

		// Each underlying connection is closed exactly once however often
		// the handed-out connection is closed.
		for _, o := range opens {
			h.mu.Lock()
			n := o.fake.closes
			h.mu.Unlock()

			want := 0
			if o.closed {
				want = 1
			}

			if n != want {
				fail("after %v: underlying connection %d was closed %d times, want %d", op, o.fake.id, n, want)
			}
		}
	}

	// Tear everything down as one more operation: nothing open and nothing
	// pending afterwards, so the counter must be back at zero and accepting.
	{
		for li := range h.lnClosed {
			h.lnClosed[li] = true
		}

		h.shutdown(opens)
		for _, o := range opens {
			o.closed = true
		}

		op := vc18Op{kind: vc18OpShutdown}
		trace = append(trace, op.kind)
		if check(op, nil) && (prev.live != 0 || accSet[false] || (prev.peeked && prev.cur != 0)) {
			fail("after shutdown: open + pending = %d, reference accepting %v, counter.current = %d (read: %t); want 0, accepting, 0", prev.live, accSet, prev.cur, prev.peeked)
		}
	}

	if len(h.lns) >= 2 {
		classes["2+-listeners"] = true
	}

	var cl []string
	for c := range classes {
		cl = append(cl, c)
	}

	nt := ""
	if nonTrivial {
		nt = fmt.Sprintf("%d/%d/%s", stop, resume, strings.Join(trace, ";"))
	}

	st.Case(nt, cl...)
	if nonTrivial && st.WantSample() {
		st.Sample(map[string]any{"stop": stop, "resume": resume, "listeners": len(h.lns), "trace": strings.Join(trace, "; ")})
	}
}
