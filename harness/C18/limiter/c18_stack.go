//go:build verif

package connlimiter

// C18 (c): the limiter in the real stack.  A plain-DNS server (TCP only) and a
// DoT server share one Limiter through NewListenConfig, with pipeline limiting
// and, in some cases, a short idle timeout.  Real loopback clients connect,
// send queries that the handler parks, get answered or not (an unanswered
// query makes the server close the connection from the worker and then again
// from the connection loop), close, reset or simply go idle.
//
// A counting net.Listener sits UNDER the limiter, so the number of pending
// accepts plus accepted, not yet closed connections is known exactly and
// independently of the limiter: it must never exceed stop when Accept is
// entered, no accepted connection may be closed twice under the limiter, and after
// both servers are shut down the limiter's counter must equal the number of
// connections that really are still open (a connection the server itself never
// closes is recorded, not judged).

import (
	"context"
	"crypto/tls"
	"encoding/binary"
	"fmt"
	"io"
	"net"
	"runtime"
	"strconv"
	"strings"
	"sync"
	"testing"
	"time"

	"github.com/AdguardTeam/AdGuardDNS/internal/dnsserver"
	"github.com/AdguardTeam/AdGuardDNS/internal/dnsserver/dnsservertest"
	"github.com/AdguardTeam/AdGuardDNS/internal/dnsserver/netext"
	"github.com/AdguardTeam/golibs/logutil/slogutil"
	"github.com/miekg/dns"
	"pgregory.net/rapid"
	"verif.local/harness/vstat"
)

const vc18sTLSName = "c18-stack.example"

// vc18sWorld is the harness' independent view of one case.
type vc18sWorld struct {
	mu        sync.Mutex
	stop      int
	live      int // pending underlying accepts + accepted, not yet closed
	maxLive   int
	overshoot string
	accepted  []*vc18sNetConn
	clients   map[int]*vc18sClient
	// inside is the number of connections with at least one query inside the
	// handler.  It is not compared with stop: a server may close a connection
	// (and free its slot) while pipelined siblings of the unanswered query are
	// still on their way out of the handler.
	inside    int
	maxInside int
}

// vc18sLC is a netext.ListenConfig whose listeners count.
type vc18sLC struct {
	netext.ListenConfig
	w *vc18sWorld
}

func (lc *vc18sLC) Listen(ctx context.Context, network, address string) (l net.Listener, err error) {
	l, err = lc.ListenConfig.Listen(ctx, network, address)
	if err != nil {
		return nil, err
	}

	return &vc18sLn{Listener: l, w: lc.w}, nil
}

type vc18sLn struct {
	net.Listener
	w *vc18sWorld
}

func (l *vc18sLn) Accept() (c net.Conn, err error) {
	w := l.w
	w.mu.Lock()
	w.live++
	w.maxLive = max(w.maxLive, w.live)
	if w.live > w.stop && w.overshoot == "" {
		w.overshoot = fmt.Sprintf("open connections + pending accepts = %d > stop = %d on entry of the underlying Accept of %s", w.live, w.stop, l.Addr())
	}
	w.mu.Unlock()

	c, err = l.Listener.Accept()

	w.mu.Lock()
	defer w.mu.Unlock()

	if err != nil {
		w.live--

		return nil, err
	}

	nc := &vc18sNetConn{Conn: c, w: w}
	w.accepted = append(w.accepted, nc)

	return nc, nil
}

type vc18sNetConn struct {
	net.Conn
	w      *vc18sWorld
	closes int // under w.mu
}

func (c *vc18sNetConn) Close() (err error) {
	c.w.mu.Lock()
	c.closes++
	if c.closes == 1 {
		c.w.live--
	}
	c.w.mu.Unlock()

	return c.Conn.Close()
}

// vc18sClient is one client connection.
type vc18sClient struct {
	id      int
	tls     bool
	answer  bool
	raw     net.Conn
	release chan struct{}
	done    chan struct{}

	// under world.mu
	entered  int
	inside   int
	released bool
	closed   bool
	answers  int
}

// ServeDNS parks the query until its client is released.
func (w *vc18sWorld) ServeDNS(ctx context.Context, rw dnsserver.ResponseWriter, req *dns.Msg) (err error) {
	var c *vc18sClient
	if len(req.Question) == 1 {
		labels := dns.SplitDomainName(req.Question[0].Name)
		if len(labels) == 4 && strings.HasPrefix(labels[1], "s") {
			if id, convErr := strconv.Atoi(labels[1][1:]); convErr == nil {
				w.mu.Lock()
				c = w.clients[id]
				w.mu.Unlock()
			}
		}
	}

	resp := (&dns.Msg{}).SetReply(req)
	if c == nil {
		return rw.WriteMsg(ctx, req, resp)
	}

	w.mu.Lock()
	c.entered++
	c.inside++
	if c.inside == 1 {
		w.inside++
		w.maxInside = max(w.maxInside, w.inside)
	}
	w.mu.Unlock()

	<-c.release

	w.mu.Lock()
	c.inside--
	if c.inside == 0 {
		w.inside--
	}
	w.mu.Unlock()

	if !c.answer {
		// Nothing written: the server closes the connection itself.
		return nil
	}

	return rw.WriteMsg(ctx, req, resp)
}

// vc18sQuiet reports whether the goroutine dump shows no goroutine of the
// limiter or of a TCP server loop any more.
func vc18sQuiet() (quiet bool, sample string) {
	buf := make([]byte, 8<<20)
	buf = buf[:runtime.Stack(buf, true)]
	for _, g := range strings.Split(string(buf), "\n\n") {
		if strings.Contains(g, "connlimiter.(*limitListener)") || strings.Contains(g, "connlimiter.(*limitConn)") ||
			strings.Contains(g, "dnsserver.(*ServerDNS).serveTCP") || strings.Contains(g, "dnsserver.(*ServerDNS).acceptTCP") ||
			strings.Contains(g, "dnsserver.(*ServerTLS).startServeTCP") || strings.Contains(g, "dnsserver.(*ServerDNS).startServeTCP") {
			return false, g
		}
	}

	return true, ""
}

// vc18sServing reports whether the goroutine dump shows a goroutine that
// serves a connection, performs a TLS handshake or runs a query, i.e. somebody
// who may still close a connection.  The accept loops do not count.
func vc18sServing() (busy bool) {
	buf := make([]byte, 1<<20)
	buf = buf[:runtime.Stack(buf, true)]
	for _, g := range strings.Split(string(buf), "\n\n") {
		if strings.Contains(g, ".serveTCPConn") || strings.Contains(g, ".serveTCPMessage") || strings.Contains(g, ".acceptTCPConn.func") ||
			strings.Contains(g, ".acceptTCPMsg") || strings.Contains(g, "HandshakeContext") || strings.Contains(g, "connlimiter.(*limitConn)") {
			return true
		}
	}

	return false
}

func TestVerifC18Stack(t *testing.T) {
	st := vstat.New("C18", "limiter.stack",
		"rapid client schedules (open TCP/TLS connection with 1-3 queries, release answered/unanswered, close, reset, send non-TLS bytes or a cut handshake to the DoT server and close, wait past a short idle timeout) against a real ServerDNS(TCP) and ServerTLS sharing one Limiter (stop 3..7, resume above the number of listeners as doc/configuration.md asks) with pipeline limiting; a counting listener under the limiter gives open+pending independently; non-trivial = the limiter was at stop while a client was still waiting; distinct by (stop, resume, schedule)",
		"at-stop-with-client-waiting", "waiting-client-served-later", "closed-by-server-unanswered", "tcp-and-tls-share-limiter", "client-reset", "idle-timeout", "failed-handshake-then-closed")
	st.Finish(t)

	tlsConf := dnsservertest.CreateServerTLSConfig(vc18sTLSName)

	rapid.Check(t, func(t *rapid.T) { vc18sCase(t, st, tlsConf) })
}

func vc18sCase(t *rapid.T, st *vstat.Stats, tlsConf *tls.Config) {
	const listeners = 2
	stop := rapid.IntRange(listeners+1, 7).Draw(t, "stop")
	resume := rapid.IntRange(listeners+1, stop).Draw(t, "resume")
	pipeline := rapid.IntRange(1, 3).Draw(t, "pipeline")
	shortIdle := rapid.IntRange(0, 2).Draw(t, "shortIdle") == 0
	nOps := rapid.IntRange(4, 22).Draw(t, "nOps")

	idle := 5 * time.Minute
	if shortIdle {
		idle = 30 * time.Millisecond
	}

	lim, err := New(&Config{Logger: slogutil.NewDiscardLogger(), Stop: uint64(stop), Resume: uint64(resume)})
	if err != nil {
		t.Fatalf("New(stop=%d, resume=%d): %v", stop, resume, err)
	}

	w := &vc18sWorld{stop: stop, clients: map[int]*vc18sClient{}}
	lc := NewListenConfig(&vc18sLC{ListenConfig: netext.DefaultListenConfig(nil), w: w}, lim)

	conf := func(name string) dnsserver.ConfigDNS {
		return dnsserver.ConfigDNS{
			ConfigBase: dnsserver.ConfigBase{
				Name:         name,
				Addr:         "127.0.0.1:0",
				Handler:      w,
				Network:      dnsserver.NetworkTCP,
				ListenConfig: lc,
			},
			ReadTimeout:        time.Minute,
			WriteTimeout:       time.Minute,
			TCPIdleTimeout:     idle,
			MaxPipelineCount:   uint(pipeline),
			MaxPipelineEnabled: true,
		}
	}

	srvTCP := dnsserver.NewServerDNS(conf("vc18s-tcp"))
	srvTLS := dnsserver.NewServerTLS(dnsserver.ConfigTLS{TLSConfig: tlsConf, ConfigDNS: conf("vc18s-tls")})
	srvs := []dnsserver.Server{srvTCP, srvTLS}
	for _, s := range srvs {
		if err = s.Start(context.Background()); err != nil {
			vc18Inconclusive(t, "starting %s: %v", s.Name(), err)
		}
	}

	addrs := []string{srvTCP.LocalTCPAddr().String(), srvTLS.LocalTCPAddr().String()}

	var clients []*vc18sClient
	var trace []string
	classes := map[string]bool{}
	stopped := false

	releaseClient := func(c *vc18sClient) {
		w.mu.Lock()
		was := c.released
		c.released = true
		w.mu.Unlock()

		if !was {
			close(c.release)
		}
	}

	closeClient := func(c *vc18sClient) {
		w.mu.Lock()
		was := c.closed
		c.closed = true
		w.mu.Unlock()

		if !was {
			_ = c.raw.Close()
		}
	}

	teardown := func() {
		if stopped {
			return
		}

		stopped = true
		for _, c := range clients {
			releaseClient(c)
			closeClient(c)
		}

		for _, c := range clients {
			<-c.done
		}

		for _, s := range srvs {
			ctx, cancel := context.WithTimeout(context.Background(), 20*time.Second)
			_ = s.Shutdown(ctx)
			cancel()
		}
	}
	defer teardown()

	fail := func(format string, args ...any) {
		t.Fatalf("stop=%d resume=%d pipeline=%d idle=%s\ntrace: %s\n%s", stop, resume, pipeline, idle, strings.Join(trace, "; "),
			fmt.Sprintf(format, args...))
	}

	// look checks what can be checked at any moment.
	look := func() {
		w.mu.Lock()
		overshoot := w.overshoot
		var twice string
		for _, nc := range w.accepted {
			if nc.closes > 1 {
				twice = fmt.Sprintf("connection from %s was closed %d times under the limiter", nc.RemoteAddr(), nc.closes)
			}
		}
		w.mu.Unlock()

		if overshoot != "" {
			fail("%s", overshoot)
		}

		if twice != "" {
			fail("%s", twice)
		}
	}

	// soft waits a little for cond; it never decides anything.
	soft := func(d time.Duration, cond func() bool) (ok bool) {
		end := time.Now().Add(d)
		for {
			w.mu.Lock()
			ok = cond()
			w.mu.Unlock()

			if ok || time.Now().After(end) {
				return ok
			}

			time.Sleep(200 * time.Microsecond)
		}
	}

	var waiting []*vc18sClient // opened, not served within the soft wait

	for i := 0; i < nOps; i++ {
		type sop struct {
			kind string
			arg  int
		}

		var ops []sop
		add := func(n int, kind string, arg int) {
			for j := 0; j < n; j++ {
				ops = append(ops, sop{kind, arg})
			}
		}

		if len(clients) < stop+4 {
			add(5, "open-tcp", 0)
			add(5, "open-tls", 1)
		}

		add(3, "bad-handshake", 1)

		for ci, c := range clients {
			if !c.released {
				add(2, "release", ci)
			}

			if !c.closed {
				add(1, "close", ci)
				if !c.tls {
					add(1, "reset", ci)
				}
			}
		}

		if shortIdle {
			add(2, "idle", 0)
		}

		if len(ops) == 0 {
			break
		}

		op := ops[rapid.IntRange(0, len(ops)-1).Draw(t, "op")]
		trace = append(trace, fmt.Sprintf("%s(%d)", op.kind, op.arg))

		switch op.kind {
		case "open-tcp", "open-tls":
			raw, derr := net.DialTimeout("tcp", addrs[op.arg], vc18SettleTimeout)
			if derr != nil {
				vc18Inconclusive(t, "dial %s: %v", addrs[op.arg], derr)
			}

			c := &vc18sClient{
				id:      len(clients),
				tls:     op.kind == "open-tls",
				answer:  rapid.IntRange(0, 2).Draw(t, "answer") != 0,
				raw:     raw,
				release: make(chan struct{}),
				done:    make(chan struct{}),
			}
			nq := rapid.IntRange(1, 3).Draw(t, "queries")

			w.mu.Lock()
			w.clients[c.id] = c
			w.mu.Unlock()
			clients = append(clients, c)

			go func() {
				defer close(c.done)

				conn := raw
				if c.tls {
					conn = tls.Client(raw, tlsConf)
				}

				var wire []byte
				for q := 1; q <= nq; q++ {
					m := (&dns.Msg{}).SetQuestion(fmt.Sprintf("q%d.s%d.c18.test.", q, c.id), dns.TypeA)
					m.Id = uint16(q)
					b, _ := m.Pack()
					wire = binary.BigEndian.AppendUint16(wire, uint16(len(b)))
					wire = append(wire, b...)
				}

				// For TLS this includes the handshake, which only completes
				// once the server has accepted the connection.
				if _, werr := conn.Write(wire); werr != nil {
					return
				}

				for {
					var l uint16
					if binary.Read(conn, binary.BigEndian, &l) != nil {
						return
					}

					if _, rerr := io.CopyN(io.Discard, conn, int64(l)); rerr != nil {
						return
					}

					w.mu.Lock()
					c.answers++
					w.mu.Unlock()
				}
			}()

			if !soft(8*time.Millisecond, func() bool { return c.entered > 0 }) {
				waiting = append(waiting, c)
				w.mu.Lock()
				atStop := w.live >= stop
				w.mu.Unlock()
				if atStop {
					classes["at-stop-with-client-waiting"] = true
				}
			}

			kinds := map[bool]bool{}
			for _, o := range clients {
				w.mu.Lock()
				served := o.entered > 0
				w.mu.Unlock()
				if served {
					kinds[o.tls] = true
				}
			}

			if len(kinds) == 2 {
				classes["tcp-and-tls-share-limiter"] = true
			}
		case "release":
			c := clients[op.arg]
			releaseClient(c)
			if !c.answer {
				w.mu.Lock()
				served := c.entered > 0
				w.mu.Unlock()
				if served {
					classes["closed-by-server-unanswered"] = true
				}
			}

			time.Sleep(time.Millisecond)
		case "close":
			closeClient(clients[op.arg])
			time.Sleep(time.Millisecond)
		case "reset":
			classes["client-reset"] = true
			c := clients[op.arg]
			if tc, ok := c.raw.(*net.TCPConn); ok {
				_ = tc.SetLinger(0)
			}

			closeClient(c)
			time.Sleep(time.Millisecond)
		case "bad-handshake":
			// A client of the DoT server that sends something else than TLS,
			// or cuts the handshake, and goes away.
			classes["failed-handshake-then-closed"] = true
			raw, derr := net.DialTimeout("tcp", addrs[1], vc18SettleTimeout)
			if derr != nil {
				vc18Inconclusive(t, "dial %s: %v", addrs[1], derr)
			}

			switch rapid.IntRange(0, 2).Draw(t, "badKind") {
			case 0:
				_, _ = raw.Write([]byte("GET / HTTP/1.0\r\n\r\n"))
			case 1:
				// The first bytes of a TLS record, then nothing.
				_, _ = raw.Write([]byte{0x16, 0x03, 0x01, 0x02, 0x00, 0x01})
			default:
			}

			time.Sleep(time.Millisecond)
			_ = raw.Close()
			time.Sleep(time.Millisecond)
		case "idle":
			classes["idle-timeout"] = true
			time.Sleep(idle + idle/2)
		}

		look()

		for _, c := range waiting {
			w.mu.Lock()
			served := c.entered > 0
			w.mu.Unlock()
			if served {
				classes["waiting-client-served-later"] = true
			}
		}
	}

	// Everything is let go, closed and shut down: the limiter's counter must
	// equal what really is still open under it (normally nothing), and no
	// connection was closed more than once under the limiter.
	// All clients go away; the servers stay up.  Every connection the servers
	// have accepted must now be closed by them.  A connection that is still
	// open under the limiter while, in two goroutine dumps 100 ms apart, no
	// goroutine serves a connection, performs a handshake or runs a query, has
	// nobody left who could ever close it: its slot is never released.
	for _, c := range clients {
		releaseClient(c)
		closeClient(c)
	}

	for _, c := range clients {
		<-c.done
	}

	stillOpen := func() (n int, sample string) {
		w.mu.Lock()
		defer w.mu.Unlock()

		for _, nc := range w.accepted {
			if nc.closes == 0 {
				n++
				sample = fmt.Sprintf("%s->%s", nc.RemoteAddr(), nc.LocalAddr())
			}
		}

		return n, sample
	}

	goneAt := time.Now()
	for end := goneAt.Add(vc18SettleTimeout); ; {
		n, sample := stillOpen()
		if n == 0 {
			break
		}

		// Dumps are expensive; a healthy server needs a few milliseconds.
		if time.Since(goneAt) > 50*time.Millisecond && !vc18sServing() {
			time.Sleep(100 * time.Millisecond)
			if n2, _ := stillOpen(); n2 == n && !vc18sServing() {
				fail("connection never released: all clients have gone, %d connection(s) accepted under the limiter (e.g. %s) were never closed by the server and still hold their slots, and no goroutine is serving a connection, performing a handshake or running a query any more",
					n, sample)
			}
		}

		if time.Now().After(end) {
			vc18Inconclusive(t, "%d connections still open %s after all clients went away, servers still busy", n, vc18SettleTimeout)
		}

		time.Sleep(2 * time.Millisecond)
	}

	tdStart := time.Now()
	teardown()
	trace = append(trace, "shutdown")
	if d := time.Since(tdStart); d > 200*time.Millisecond {
		classes["slow-shutdown>200ms"] = true
		t.Logf("slow shutdown %s: trace %s", d, strings.Join(trace, "; "))
	}

	live := func() (n int) {
		w.mu.Lock()
		defer w.mu.Unlock()

		return w.live
	}

	deadline := time.Now().Add(vc18SettleTimeout)
	for {
		look()

		// Only when no goroutine of a server or of the limiter is left can
		// nothing change any more; the limiter's own counter, if it still can
		// be read, is then compared with what really is open.
		quiet, sample := vc18sQuiet()
		if quiet {
			n := live()

			// A server may leave a connection it has accepted open for good
			// (the DoT accept loop is not in the server's wait group, so
			// Shutdown can release the worker pool under it).  That is the
			// server's business, not the limiter's.
			w.mu.Lock()
			left := 0
			for _, nc := range w.accepted {
				if nc.closes == 0 {
					left++
				}
			}
			w.mu.Unlock()

			if n != left {
				fail("harness: open + pending under the limiter = %d, accepted and never closed %d, with no server goroutine left", n, left)
			}

			if cur, acc, ok := vc18Peek(lim); ok {
				classes["counter-read"] = true
				if cur != n || (cur == 0 && !acc) {
					fail("after both servers were shut down and no server or limiter goroutine is left: counter.current = %d, isAccepting = %t, but open + pending under the limiter = %d, of which accepted and never closed: %d",
						cur, acc, n, left)
				}
			}

			if left > 0 {
				classes["left-open-by-server-at-shutdown"] = true
			}

			break
		}

		if time.Now().After(deadline) {
			vc18Inconclusive(t, "servers still busy %s after shutdown (open + pending %d), e.g.\n%s", vc18SettleTimeout, live(), sample)
		}

		time.Sleep(time.Millisecond)
	}

	w.mu.Lock()
	var unclosed string
	for _, nc := range w.accepted {
		// Closed by the client, the server or both, any number of times:
		// closed exactly once under the limiter.  A connection the server
		// never closed is accounted for above.
		if nc.closes > 1 {
			unclosed = fmt.Sprintf("connection from %s was closed %d times under the limiter, want 1", nc.RemoteAddr(), nc.closes)
		}
	}
	nAccepted, maxLive := len(w.accepted), w.maxLive
	w.mu.Unlock()

	if unclosed != "" {
		fail("after shutdown: %s", unclosed)
	}

	if maxLive == stop {
		classes["open+pending-reached-stop"] = true
	}

	if nAccepted == 0 {
		classes["nothing-accepted"] = true
	}

	var cl []string
	for c := range classes {
		cl = append(cl, c)
	}

	nt := ""
	if classes["at-stop-with-client-waiting"] {
		nt = fmt.Sprintf("%d/%d/%s", stop, resume, strings.Join(trace, ";"))
	}

	st.Case(nt, cl...)
	if nt != "" && st.WantSample() {
		st.Sample(map[string]any{"stop": stop, "resume": resume, "pipeline": pipeline, "idle_ms": idle.Milliseconds(), "accepted": nAccepted,
			"trace": strings.Join(trace, "; ")})
	}
}
