//go:build verif

package cmd

// C18, configuration plumbing: a generated configuration -- `ratelimit:` with
// connection_limit (enabled / stop / resume), tcp (enabled /
// max_pipeline_count) and quic (enabled / max_streams_per_peer) all different
// from each other, plus the sections the builder needs next to them -- is
// parsed and validated by the package's own code and then taken through the
// builder's own steps: connLimitConfig.toInternal as in
// builder.initRateLimiter, builder.initTLSManager, builder.initServerGroups,
// builder.initDNS.
//
// (a) Fidelity, judged by the values in the YAML text: the limiter's thresholds
// and gauges, agd.Server.TCPConf / QUICConf of every server, the
// configuration every dnsserver listener of the built service was constructed
// with, and that every stream listener listens through this very limiter (or
// through none when the limit is disabled).
//
// (b) Behaviour: two fake listeners share the converted limiter; exactly `stop`
// connections are accepted before an accept parks, it stays parked until the
// number of open connections has fallen to `resume`, then accepting goes on up
// to `stop` again, and closing a listener releases its waiter.  "Parked" is
// read from a goroutine dump (state sync.Cond.Wait), never from elapsed time.

import (
	"context"
	"crypto/ecdsa"
	"crypto/elliptic"
	"crypto/rand"
	"crypto/x509"
	"crypto/x509/pkix"
	"encoding/pem"
	"fmt"
	"math/big"
	"net"
	"os"
	"path/filepath"
	"reflect"
	"runtime"
	"sort"
	"strconv"
	"strings"
	"testing"
	"time"

	"github.com/AdguardTeam/AdGuardDNS/internal/agd"
	"github.com/AdguardTeam/AdGuardDNS/internal/agdcache"
	"github.com/AdguardTeam/AdGuardDNS/internal/agdtest"
	"github.com/AdguardTeam/AdGuardDNS/internal/connlimiter"
	"github.com/AdguardTeam/AdGuardDNS/internal/debugsvc"
	"github.com/AdguardTeam/AdGuardDNS/internal/dnsmsg"
	"github.com/AdguardTeam/AdGuardDNS/internal/dnsserver"
	"github.com/AdguardTeam/AdGuardDNS/internal/dnsserver/ratelimit"
	"github.com/AdguardTeam/AdGuardDNS/internal/filter"
	"github.com/AdguardTeam/AdGuardDNS/internal/metrics"
	"github.com/AdguardTeam/golibs/logutil/slogutil"
	"github.com/AdguardTeam/golibs/netutil"
	"github.com/panjf2000/ants/v2"
	"github.com/prometheus/client_golang/prometheus"
	dto "github.com/prometheus/client_model/go"
	"pgregory.net/rapid"
	"verif.local/harness/vpeek"
	"verif.local/harness/vstat"
)

// vc18cmdSettings are the values written into the YAML text.
type vc18cmdSettings struct {
	ConnEnabled bool
	Stop        int
	Resume      int
	TCPEnabled  bool
	Pipeline    int
	QUICEnabled bool
	Streams     int
	Cert, Key   string
}

func (s *vc18cmdSettings) yaml() string {
	return fmt.Sprintf(`ratelimit:
    refuseany: true
    response_size_estimate: 1KB
    backoff_period: 10m
    backoff_duration: 30m
    backoff_count: 1000
    ipv4:
        count: 300
        interval: 10s
        subnet_key_len: 24
    ipv6:
        count: 301
        interval: 11s
        subnet_key_len: 48
    allowlist:
        list: []
        refresh_interval: 30s
        type: 'consul'
    connection_limit:
        enabled: %t
        stop: %d
        resume: %d
    quic:
        enabled: %t
        max_streams_per_peer: %d
    tcp:
        enabled: %t
        max_pipeline_count: %d
cache:
    type: 'simple'
    size: 0
    ecs_size: 0
    ttl_override:
        enabled: false
        min: 60s
upstream:
    servers:
      - address: '127.0.0.1:9'
        timeout: 2s
    fallback:
        servers:
          - address: '127.0.0.1:9'
            timeout: 1s
    healthcheck:
        enabled: false
        interval: 2s
        timeout: 1s
        backoff_duration: 30s
        domain_template: '${RANDOM}.neverssl.com'
dnsdb:
    enabled: false
    max_size: 500000
dns:
    read_timeout: 2s
    tcp_idle_timeout: 30s
    write_timeout: 3s
    handle_timeout: 1s
    max_udp_response_size: 1024B
query_log:
    file:
        enabled: false
filters:
    response_ttl: 10s
    custom_filter_cache_size: 1024
    safe_search_cache_size: 1025
    refresh_interval: 1h
    refresh_timeout: 5m
    index_refresh_timeout: 1m
    rule_list_refresh_timeout: 2m
    max_size: 256MB
    rule_list_cache:
        enabled: true
        size: 10000
    ede_enabled: true
    sde_enabled: false
server_groups:
  - name: 'c18_group'
    filtering_group: 'default'
    ddr:
        enabled: false
    tls:
        certificates:
          - certificate: '%s'
            key: '%s'
        session_keys: []
        device_id_wildcards: []
    profiles_enabled: false
    servers:
      - name: 'c18_dns'
        protocol: 'dns'
        linked_ip_enabled: false
        bind_addresses:
          - '127.0.0.1:5301'
      - name: 'c18_tls'
        protocol: 'tls'
        linked_ip_enabled: false
        bind_addresses:
          - '127.0.0.1:5302'
          - '127.0.0.1:5303'
      - name: 'c18_https'
        protocol: 'https'
        linked_ip_enabled: false
        bind_addresses:
          - '127.0.0.1:5304'
      - name: 'c18_quic'
        protocol: 'quic'
        linked_ip_enabled: false
        bind_addresses:
          - '127.0.0.1:5305'
`, s.ConnEnabled, s.Stop, s.Resume, s.QUICEnabled, s.Streams, s.TCPEnabled, s.Pipeline, s.Cert, s.Key)
}

// vc18cmdWriteCert writes a self-signed certificate and its key.
func vc18cmdWriteCert(tb testing.TB, certPath, keyPath string) {
	key, err := ecdsa.GenerateKey(elliptic.P256(), rand.Reader)
	if err != nil {
		tb.Fatalf("fixture: generating key: %v", err)
	}

	tmpl := &x509.Certificate{
		SerialNumber: big.NewInt(18),
		Subject:      pkix.Name{CommonName: "dns.example.com"},
		DNSNames:     []string{"dns.example.com", "*.d.dns.example.com"},
		NotBefore:    time.Now().Add(-time.Hour),
		NotAfter:     time.Now().Add(240 * time.Hour),
		KeyUsage:     x509.KeyUsageDigitalSignature,
		ExtKeyUsage:  []x509.ExtKeyUsage{x509.ExtKeyUsageServerAuth},
	}

	der, err := x509.CreateCertificate(rand.Reader, tmpl, tmpl, &key.PublicKey, key)
	if err != nil {
		tb.Fatalf("fixture: creating certificate: %v", err)
	}

	keyDER, err := x509.MarshalECPrivateKey(key)
	if err != nil {
		tb.Fatalf("fixture: marshalling key: %v", err)
	}

	certPEM := pem.EncodeToMemory(&pem.Block{Type: "CERTIFICATE", Bytes: der})
	keyPEM := pem.EncodeToMemory(&pem.Block{Type: "EC PRIVATE KEY", Bytes: keyDER})
	if err = os.WriteFile(certPath, certPEM, 0o600); err != nil {
		tb.Fatalf("fixture: %v", err)
	}

	if err = os.WriteFile(keyPath, keyPEM, 0o600); err != nil {
		tb.Fatalf("fixture: %v", err)
	}
}

// vc18cmdListener is one dnsserver listener of the built service.
type vc18cmdListener struct {
	name string
	srv  reflect.Value
}

// vc18cmdListeners walks the built service down to its dnsserver listeners.
func vc18cmdListeners(svc any) (ls []vc18cmdListener, err error) {
	groups, err := vpeek.Get(svc, "groups")
	if err != nil {
		return nil, err
	}

	for i := range groups.Len() {
		servers, gerr := vpeek.Get(vpeek.Open(groups.Index(i)).Interface(), "servers")
		if gerr != nil {
			return nil, gerr
		}

		for j := range servers.Len() {
			lsnrs, serr := vpeek.Get(vpeek.Open(servers.Index(j)).Interface(), "listeners")
			if serr != nil {
				return nil, serr
			}

			for k := range lsnrs.Len() {
				l := vpeek.Open(lsnrs.Index(k)).Interface()
				name, nerr := vpeek.Get(l, "name")
				if nerr != nil {
					return nil, nerr
				}

				inner, ierr := vpeek.Get(l, "Listener")
				if ierr != nil {
					return nil, ierr
				}

				ls = append(ls, vc18cmdListener{name: name.String(), srv: inner})
			}
		}
	}

	return ls, nil
}

// vc18cmdReleasePools stops the worker pools of a listener that was
// constructed but never started.
func vc18cmdReleasePools(v reflect.Value, depth int) {
	v = vpeek.Elem(v)
	if depth > 3 || !v.IsValid() || v.Kind() != reflect.Struct {
		return
	}

	poolType := reflect.TypeOf((*ants.Pool)(nil))
	for i := range v.NumField() {
		f := vpeek.Open(v.Field(i))
		switch {
		case f.Type() == poolType:
			if p, ok := f.Interface().(*ants.Pool); ok && p != nil {
				p.Release()
			}
		case f.Kind() == reflect.Pointer && f.Type().Elem().Kind() == reflect.Struct && strings.HasPrefix(f.Type().Elem().Name(), "Server"):
			vc18cmdReleasePools(f, depth+1)
		}
	}
}

// Fakes for the behaviour part.
type vc18cmdConn struct{ net.Conn }

func (vc18cmdConn) Close() error         { return nil }
func (vc18cmdConn) RemoteAddr() net.Addr { return &net.TCPAddr{IP: net.IP{192, 0, 2, 1}, Port: 4000} }
func (vc18cmdConn) LocalAddr() net.Addr  { return &net.TCPAddr{IP: net.IP{127, 0, 0, 1}, Port: 853} }

type vc18cmdLn struct{ entered int }

func (l *vc18cmdLn) Accept() (net.Conn, error) {
	l.entered++

	return vc18cmdConn{}, nil
}

func (l *vc18cmdLn) Close() error   { return nil }
func (l *vc18cmdLn) Addr() net.Addr { return &net.TCPAddr{IP: net.IP{127, 0, 0, 1}, Port: 853} }

func vc18cmdGoID() (id uint64) {
	var buf [64]byte
	f := strings.Fields(string(buf[:runtime.Stack(buf[:], false)]))
	if len(f) >= 2 {
		id, _ = strconv.ParseUint(f[1], 10, 64)
	}

	return id
}

var vc18cmdDumpBuf = make([]byte, 256<<10)

// vc18cmdStatus returns the scheduler status of goroutine id from a goroutine
// dump ("" if there is no such goroutine).
func vc18cmdStatus(id uint64) (status string) {
	var buf []byte
	for {
		n := runtime.Stack(vc18cmdDumpBuf, true)
		if n < len(vc18cmdDumpBuf) {
			buf = vc18cmdDumpBuf[:n]

			break
		}

		vc18cmdDumpBuf = make([]byte, 2*len(vc18cmdDumpBuf))
	}

	prefix := fmt.Sprintf("goroutine %d [", id)
	for _, g := range strings.Split(string(buf), "\n\n") {
		if !strings.HasPrefix(g, prefix) {
			continue
		}

		hdr, _, _ := strings.Cut(g, "\n")
		status = strings.TrimPrefix(hdr, prefix)
		status, _, _ = strings.Cut(status, "]")
		status, _, _ = strings.Cut(status, ",")

		return status
	}

	return ""
}

type vc18cmdAcceptRes struct {
	conn net.Conn
	err  error
}

// vc18cmdPending is an accept in flight.
type vc18cmdPending struct {
	id  uint64
	out chan vc18cmdAcceptRes
}

func vc18cmdStartAccept(l net.Listener) (p *vc18cmdPending) {
	p = &vc18cmdPending{out: make(chan vc18cmdAcceptRes, 1)}
	idc := make(chan uint64, 1)
	go func() {
		idc <- vc18cmdGoID()
		c, err := l.Accept()
		p.out <- vc18cmdAcceptRes{conn: c, err: err}
	}()
	p.id = <-idc

	return p
}

// settle waits until the accept has returned (res non-nil) or is parked in
// sync.Cond.Wait.  inconclusive is set if neither state is reached in time.
func (p *vc18cmdPending) settle() (res *vc18cmdAcceptRes, parked, inconclusive bool) {
	deadline := time.Now().Add(20 * time.Second)
	for spin := 0; ; spin++ {
		select {
		case r := <-p.out:
			return &r, false, false
		default:
		}

		if spin < 20 {
			runtime.Gosched()

			continue
		}

		if vc18cmdStatus(p.id) == "sync.Cond.Wait" {
			// The result may have been sent between the two looks only if the
			// goroutine was not parked; parked is final until somebody acts.
			return nil, true, false
		}

		if time.Now().After(deadline) {
			return nil, false, true
		}

		time.Sleep(50 * time.Microsecond)
	}
}

func vc18cmdGauge(kind string) float64 {
	m := &dto.Metric{}
	if err := metrics.ConnLimiterLimits.WithLabelValues(kind).Write(m); err != nil {
		return -1
	}

	return m.GetGauge().GetValue()
}

func TestVerifC18CmdLimits(t *testing.T) {
	st := vstat.New("C18", "cmd.limits-config",
		"rapid: a configuration whose ratelimit.connection_limit (enabled, stop > resume), ratelimit.tcp (enabled, max_pipeline_count) and ratelimit.quic (enabled, max_streams_per_peer) carry four different numbers and independently drawn switches, with one dns, tls (two addresses), https and quic server -> parseConfig, validate, connLimitConfig.toInternal, builder.initTLSManager / initServerGroups / initDNS; fidelity of the limiter (thresholds, gauges), of agd.Server.TCPConf / QUICConf, of the ConfigDNS / ConfigTLS / ConfigHTTPS / ConfigQUIC every listener was constructed with, and of the limiter behind every stream listener, all against the YAML values; behaviour: two fake listeners on the converted limiter, `stop` accepts pass, the next parks (goroutine state) until open connections fall to `resume`, accepting continues to `stop`, closing the listener releases the waiter; non-trivial = limiter enabled and the hysteresis probe told stop from resume, distinct by settings and close order",
		"connection-limit-enabled", "connection-limit-disabled", "tcp-and-quic-switches-differ", "tcp-limit-enabled", "tcp-limit-disabled",
		"quic-limit-enabled", "quic-limit-disabled", "parked-at-stop", "still-parked-above-resume", "resumed-at-resume", "refilled-to-stop", "waiter-released-by-listener-close",
		"listener-dns", "listener-tls", "listener-https", "listener-quic")
	st.Finish(t)

	dir := t.TempDir()
	certPath, keyPath := filepath.Join(dir, "cert.crt"), filepath.Join(dir, "cert.key")
	vc18cmdWriteCert(t, certPath, keyPath)
	logger := slogutil.NewDiscardLogger()
	errColl := agdtest.NewErrorCollector()
	errColl.OnCollect = func(context.Context, error) {}
	caseNo := 0
	ctx := context.Background()

	inconclusive := func(format string, args ...any) {
		msg := fmt.Sprintf(format, args...)
		fmt.Printf("VERIF-INCONCLUSIVE: %s\n", msg)
		t.Logf("VERIF-INCONCLUSIVE: %s", msg)
		t.FailNow()
	}

	rapid.Check(t, func(rt *rapid.T) {
		caseNo++
		nums := rapid.Permutation([]int{1, 2, 3, 4, 5, 6, 7, 8, 9}).Draw(rt, "numbers")
		s := vc18cmdSettings{
			ConnEnabled: rapid.IntRange(0, 3).Draw(rt, "connEnabled") != 0,
			Stop:        max(nums[0], nums[1]),
			Resume:      min(nums[0], nums[1]),
			TCPEnabled:  rapid.Bool().Draw(rt, "tcpEnabled"),
			Pipeline:    nums[2],
			QUICEnabled: rapid.Bool().Draw(rt, "quicEnabled"),
			Streams:     nums[3],
			Cert:        certPath,
			Key:         keyPath,
		}

		text := s.yaml()
		path := filepath.Join(dir, fmt.Sprintf("c%d.yaml", caseNo))
		if err := os.WriteFile(path, []byte(text), 0o600); err != nil {
			rt.Fatalf("harness: %v", err)
		}
		defer func() { _ = os.Remove(path) }()

		show := func() string {
			return fmt.Sprintf("connection_limit{enabled=%t stop=%d resume=%d} tcp{enabled=%t max_pipeline_count=%d} quic{enabled=%t max_streams_per_peer=%d}",
				s.ConnEnabled, s.Stop, s.Resume, s.TCPEnabled, s.Pipeline, s.QUICEnabled, s.Streams)
		}

		conf, err := parseConfig(path)
		if err != nil {
			rt.Fatalf("the generated configuration was not parsed: %v\n%s", err, text)
		}

		for name, v := range map[string]validator{
			"ratelimit": conf.RateLimit, "cache": conf.Cache, "upstream": conf.Upstream, "dnsdb": conf.DNSDB, "dns": conf.DNS,
			"query_log": conf.QueryLog, "filters": conf.Filters, "server_groups": conf.ServerGroups,
		} {
			if verr := v.validate(); verr != nil {
				rt.Fatalf("a valid %s section was rejected: %v\n%s", name, verr, show())
			}
		}

		// The builder, with what its earlier steps would have left in it.
		// Metrics are registered by several constructors; every case gets its
		// own registries.
		reg := prometheus.NewRegistry()
		oldReg := prometheus.DefaultRegisterer
		prometheus.DefaultRegisterer = prometheus.NewRegistry()
		defer func() { prometheus.DefaultRegisterer = oldReg }()

		b := &builder{
			baseLogger:     logger,
			cacheManager:   agdcache.NewDefaultManager(),
			cloner:         dnsmsg.NewCloner(metrics.ClonerStat{}),
			conf:           conf,
			env:            &environment{},
			errColl:        errColl,
			geoIPError:     make(chan error, 1),
			logger:         logger,
			mtrcNamespace:  metrics.Namespace(),
			promRegisterer: reg,
			debugRefrs:     debugsvc.Refreshers{},
			messages:       agdtest.NewConstructor(t),
			filteringGroups: map[agd.FilteringGroupID]*agd.FilteringGroup{"default": {
				FilterConfig: &filter.ConfigGroup{
					Parental:     &filter.ConfigParental{},
					RuleList:     &filter.ConfigRuleList{},
					SafeBrowsing: &filter.ConfigSafeBrowsing{},
				},
				ID: "default",
			}},
		}

		step := func(name string, f func() error) {
			defer func() {
				if v := recover(); v != nil {
					rt.Fatalf("%s panicked on a valid configuration: %v\n%s", name, v, show())
				}
			}()

			if serr := f(); serr != nil {
				rt.Fatalf("%s failed on a valid configuration: %v\n%s", name, serr, show())
			}
		}

		step("builder.initTLSManager", func() error { return b.initTLSManager(ctx) })
		step("builder.initServerGroups", func() error { return b.initServerGroups(ctx) })
		// As builder.initRateLimiter, without the allowlist refresher.
		step("ratelimit", func() error {
			rc := conf.RateLimit
			allowlist := ratelimit.NewDynamicAllowlist(netutil.UnembedPrefixes(rc.Allowlist.List), nil)
			b.connLimit = rc.ConnectionLimit.toInternal(b.baseLogger)
			b.rateLimit = ratelimit.NewBackoff(rc.toInternal(allowlist))

			return nil
		})
		step("builder.initDNS", func() error { return b.initDNS(ctx) })
		defer func() {
			if b.fwdHandler != nil {
				_ = b.fwdHandler.Close()
			}
		}()

		listeners, err := vc18cmdListeners(b.dnsSvc)
		if err != nil {
			inconclusive("the built service cannot be walked: %v", err)
		}
		defer func() {
			for _, l := range listeners {
				vc18cmdReleasePools(l.srv, 0)
			}
		}()

		classes := map[string]bool{}
		set := func(cond bool, yes, no string) {
			if cond {
				classes[yes] = true
			} else if no != "" {
				classes[no] = true
			}
		}
		set(s.ConnEnabled, "connection-limit-enabled", "connection-limit-disabled")
		set(s.TCPEnabled, "tcp-limit-enabled", "tcp-limit-disabled")
		set(s.QUICEnabled, "quic-limit-enabled", "quic-limit-disabled")
		set(s.TCPEnabled != s.QUICEnabled, "tcp-and-quic-switches-differ", "")

		// (a) Fidelity: the limiter.
		lim := b.connLimit
		switch {
		case !s.ConnEnabled && lim != nil:
			rt.Fatalf("conversion: connection_limit.enabled is false but a limiter was built\n%s", show())
		case s.ConnEnabled && lim == nil:
			rt.Fatalf("conversion: connection_limit.enabled is true but no limiter was built\n%s", show())
		case os.Getenv("VERIF_C18CMD_BEHAVIOUR_ONLY") != "":
			// Sensitivity runs only: the thresholds are left to the probe.
		case s.ConnEnabled:
			stop, e1 := vpeek.Get(lim, "counter", "stop")
			resume, e2 := vpeek.Get(lim, "counter", "resume")
			if e1 != nil || e2 != nil {
				inconclusive("the limiter's thresholds cannot be read: %v %v", e1, e2)
			}

			if stop.Uint() != uint64(s.Stop) || resume.Uint() != uint64(s.Resume) {
				rt.Fatalf("conversion: the limiter was built with stop=%d resume=%d\n%s", stop.Uint(), resume.Uint(), show())
			}

			// "kind="stop" for the stopping limit and kind="resume" for the
			// resuming one."
			if gs, gr := vc18cmdGauge("stop"), vc18cmdGauge("resume"); gs != float64(s.Stop) || gr != float64(s.Resume) {
				rt.Fatalf("conversion: the limits gauge shows stop=%v resume=%v\n%s", gs, gr, show())
			}
		}

		// The servers.
		nSrv := 0
		for _, g := range b.serverGroups {
			for _, srv := range g.Servers {
				nSrv++
				tc, qc := srv.TCPConf, srv.QUICConf
				if tc == nil || tc.MaxPipelineCount != uint(s.Pipeline) || tc.MaxPipelineEnabled != s.TCPEnabled {
					rt.Fatalf("conversion: server %q got TCP settings %+v\n%s", srv.Name, tc, show())
				}

				needQUIC := srv.Protocol == agd.ProtoDoH || srv.Protocol == agd.ProtoDoQ
				if needQUIC && (qc == nil || qc.MaxStreamsPerPeer != s.Streams || qc.QUICLimitsEnabled != s.QUICEnabled) {
					rt.Fatalf("conversion: server %q got QUIC settings %+v\n%s", srv.Name, qc, show())
				}
			}
		}

		if nSrv != 4 {
			rt.Fatalf("conversion: %d servers built from 4 configured\n%s", nSrv, show())
		}

		// The listeners of the service.
		if len(listeners) != 5 {
			rt.Fatalf("the service has %d listeners for 5 configured addresses\n%s", len(listeners), show())
		}

		for _, l := range listeners {
			confV, cerr := vpeek.Get(l.srv.Interface(), "conf")
			if cerr != nil {
				inconclusive("listener %s: %v", l.name, cerr)
			}

			var base dnsserver.ConfigBase
			stream := true
			switch c := confV.Interface().(type) {
			case dnsserver.ConfigDNS:
				classes["listener-dns"] = true
				base = c.ConfigBase
				if c.MaxPipelineCount != uint(s.Pipeline) || c.MaxPipelineEnabled != s.TCPEnabled {
					rt.Fatalf("listener %s was constructed with MaxPipelineCount=%d MaxPipelineEnabled=%t\n%s", l.name, c.MaxPipelineCount, c.MaxPipelineEnabled, show())
				}
			case dnsserver.ConfigTLS:
				classes["listener-tls"] = true
				base = c.ConfigBase
				if c.MaxPipelineCount != uint(s.Pipeline) || c.MaxPipelineEnabled != s.TCPEnabled {
					rt.Fatalf("listener %s was constructed with MaxPipelineCount=%d MaxPipelineEnabled=%t\n%s", l.name, c.MaxPipelineCount, c.MaxPipelineEnabled, show())
				}
			case dnsserver.ConfigHTTPS:
				classes["listener-https"] = true
				base = c.ConfigBase
				if c.MaxStreamsPerPeer != s.Streams || c.QUICLimitsEnabled != s.QUICEnabled {
					rt.Fatalf("listener %s was constructed with MaxStreamsPerPeer=%d QUICLimitsEnabled=%t\n%s", l.name, c.MaxStreamsPerPeer, c.QUICLimitsEnabled, show())
				}
			case dnsserver.ConfigQUIC:
				classes["listener-quic"] = true
				base = c.ConfigBase
				stream = false
				if c.MaxStreamsPerPeer != s.Streams || c.QUICLimitsEnabled != s.QUICEnabled {
					rt.Fatalf("listener %s was constructed with MaxStreamsPerPeer=%d QUICLimitsEnabled=%t\n%s", l.name, c.MaxStreamsPerPeer, c.QUICLimitsEnabled, show())
				}
			default:
				inconclusive("listener %s has an unknown configuration type %T", l.name, c)
			}

			limited, isLimited := base.ListenConfig.(*connlimiter.ListenConfig)
			switch {
			case !s.ConnEnabled && isLimited:
				rt.Fatalf("listener %s listens through a connection limiter though the limit is disabled\n%s", l.name, show())
			case s.ConnEnabled && stream && !isLimited:
				rt.Fatalf("listener %s does not listen through the connection limiter (ListenConfig %T)\n%s", l.name, base.ListenConfig, show())
			case s.ConnEnabled && isLimited:
				inner, lerr := vpeek.Get(limited, "limiter")
				if lerr != nil {
					inconclusive("listener %s: %v", l.name, lerr)
				}

				if inner.Interface().(*connlimiter.Limiter) != lim {
					rt.Fatalf("listener %s listens through a limiter other than the configured one\n%s", l.name, show())
				}
			}
		}

		// (b) Behaviour of the limiter.
		nt := ""
		if s.ConnEnabled {
			info := func(name string) *dnsserver.ServerInfo {
				return &dnsserver.ServerInfo{Name: name, Addr: "127.0.0.1:853", Proto: dnsserver.ProtoDoT}
			}
			fakes := []*vc18cmdLn{{}, {}}
			lns := []net.Listener{lim.Limit(fakes[0], info("c18cmd_a")), lim.Limit(fakes[1], info("c18cmd_b"))}
			var hist []string
			fail := func(format string, args ...any) {
				rt.Fatalf("%s\n%s\n  %s", fmt.Sprintf(format, args...), show(), strings.Join(hist, "\n  "))
			}

			var open []net.Conn
			var waiter *vc18cmdPending
			waiterLn := -1
			defer func() {
				// Leave no goroutine behind.
				for _, c := range open {
					_ = c.Close()
				}

				for _, l := range lns {
					_ = l.Close()
				}

				if waiter != nil {
					if r, _, _ := waiter.settle(); r != nil && r.conn != nil {
						_ = r.conn.Close()
					}
				}
			}()

			// accept starts one accept; it reports whether it parked.
			accept := func(which int) (parked bool) {
				p := vc18cmdStartAccept(lns[which])
				r, parked, inc := p.settle()
				switch {
				case inc:
					inconclusive("an accept neither returned nor parked within 20 s")
				case parked:
					waiter, waiterLn = p, which
					hist = append(hist, fmt.Sprintf("accept on listener %d: parked (open %d)", which, len(open)))

					return true
				case r.err != nil:
					fail("accept on an open listener failed: %v", r.err)
				}

				open = append(open, r.conn)
				hist = append(hist, fmt.Sprintf("accept on listener %d: accepted (open %d)", which, len(open)))

				return false
			}

			fill := func(what string) {
				for len(open) < s.Stop {
					if accept(rapid.IntRange(0, 1).Draw(rt, "listener")) {
						fail("%s: an accept parked with %d connections open, below stop", what, len(open))
					}
				}

				if !accept(rapid.IntRange(0, 1).Draw(rt, "listener")) {
					fail("%s: a connection was accepted with stop=%d connections already open", what, s.Stop)
				}
			}

			fill("filling")
			classes["parked-at-stop"] = true

			var order []int
			for waiter != nil && len(open) > 0 {
				i := rapid.IntRange(0, len(open)-1).Draw(rt, "close")
				order = append(order, i)
				_ = open[i].Close()
				open = append(open[:i], open[i+1:]...)
				hist = append(hist, fmt.Sprintf("closed a connection (open %d)", len(open)))
				r, parked, inc := waiter.settle()
				switch {
				case inc:
					inconclusive("the waiting accept neither returned nor parked within 20 s")
				case len(open) > s.Resume && !parked:
					fail("the waiting accept proceeded with %d connections open, above resume", len(open))
				case len(open) > s.Resume:
					classes["still-parked-above-resume"] = true
				case parked:
					fail("the waiting accept is still parked although the number of open connections has fallen to resume")
				case r.err != nil:
					fail("the waiting accept failed: %v", r.err)
				default:
					classes["resumed-at-resume"] = true
					open = append(open, r.conn)
					waiter = nil
					hist = append(hist, fmt.Sprintf("the waiting accept proceeded (open %d)", len(open)))
				}
			}

			if waiter != nil {
				fail("the waiting accept never proceeded")
			}

			fill("refilling after resume")
			classes["refilled-to-stop"] = true

			// "closing a listener releases its waiters"
			_ = lns[waiterLn].Close()
			r, parked, inc := waiter.settle()
			switch {
			case inc:
				inconclusive("the waiting accept neither returned nor parked within 20 s")
			case parked:
				fail("the listener was closed but its waiting accept is still parked")
			case r.err == nil:
				fail("the waiting accept of a closed listener returned a connection with stop connections open")
			}

			waiter = nil
			classes["waiter-released-by-listener-close"] = true
			nt = fmt.Sprintf("%s|%v", show(), order)
		}

		var cl []string
		for c := range classes {
			cl = append(cl, c)
		}

		sort.Strings(cl)
		st.Case(nt, cl...)
		if nt != "" && st.WantSample() {
			st.Sample(map[string]any{"settings": show(), "classes": cl})
		}
	})
}
