//go:build verif

package backendpb

// C16, real gRPC: billstat.RuntimeRecorder + the real backendpb.BillStat
// uploader (real grpc-go client) against an in-process gRPC server on the
// loopback interface.  How the server treats each upload is drawn per upload.
//
// The server keeps the authoritative record: an upload counts as delivered
// iff the server finished the RPC with the OK status from its own side
// ("committed").  Oracle, per device, by the server's record:
//
//   - every DeviceBillingStat message the server reads carries at most the
//     number of queries recorded and not yet committed (no double counting),
//     and the metadata of the device's most recent query;
//   - after final acknowledged flushes, committed == recorded (nothing lost,
//     nothing counted twice).
//
// Where the server commits but cannot tell the client (it commits and then
// the client's deadline passes, or it commits and the connection drops, or it
// answers OK having read only a part of the stream and the client notices)
// client and server legitimately disagree.  For the devices of such an upload
// only "nothing lost" is judged; a repeated delivery of exactly that batch is
// NOT judged.
//
// Queries are recorded between refreshes and, by the server's handler as soon
// as an RPC has arrived, while the upload is in flight (the caller is blocked
// in Refresh meanwhile, so what the upload may carry is determined by the state
// before the Refresh).  Start times are drawn independently of the recording
// order; "most recent query" is the most recently RECORDED one.  No verdict
// depends on timing: a short client deadline is only used with handlers that
// never answer before the client has given up.

import (
	"context"
	"fmt"
	"io"
	"net"
	"strings"
	"sync"
	"testing"
	"time"

	"github.com/AdguardTeam/AdGuardDNS/internal/agd"
	"github.com/AdguardTeam/AdGuardDNS/internal/billstat"
	"github.com/AdguardTeam/golibs/logutil/slogutil"
	"google.golang.org/grpc"
	"google.golang.org/grpc/codes"
	"google.golang.org/grpc/credentials/insecure"
	"google.golang.org/grpc/metadata"
	"google.golang.org/grpc/status"
	"google.golang.org/protobuf/types/known/emptypb"
	"pgregory.net/rapid"
	"verif.local/harness/vstat"
)

// Server behaviours for one upload.
const (
	vc16gAck               = iota // read all, commit, SendAndClose(Empty)
	vc16gAckNoMsg                 // read all, commit, return nil without a response message
	vc16gErrBefore                // status error before reading anything
	vc16gErrMid                   // read one message, then status error
	vc16gErrAfter                 // read all, then status error (nothing committed)
	vc16gPartialOK                // read kp messages only, answer OK with SendAndClose(Empty)
	vc16gSlowNoCommit             // read K messages, then never answer; client has a short deadline
	vc16gSlowAfterCommit          // read all, commit, then answer only after the client has given up
	vc16gCancelMid                // read K messages, the caller's context gets cancelled, nothing committed
	vc16gDropBefore               // drop the connection before reading
	vc16gDropMid                  // read one message, drop the connection
	vc16gDropAfterCommit          // read all, commit, drop the connection instead of answering
	vc16gAckUnlessComplete        // read all; status error if that was the whole batch, else commit and ack
	vc16gModes
)

var vc16gModeNames = []string{
	"ack", "ack-no-message", "error-before", "error-mid", "error-after", "partial-read-ok",
	"slow-no-commit", "slow-after-commit", "cancel-mid", "drop-before", "drop-mid", "drop-after-commit",
	"ack-unless-whole-batch",
}

// vc16gDisagree reports whether client and server may legitimately disagree
// about an upload the server committed in mode m.
func vc16gDisagree(m int) bool {
	return m == vc16gSlowAfterCommit || m == vc16gDropAfterCommit || m == vc16gPartialOK
}

type vc16gScript struct {
	mode   int
	k      int // messages to read before the fault, for the modes that use it
	kp     int // messages to read before answering OK, for the partial read
	code   codes.Code
	cancel context.CancelFunc

	// mid are queries recorded by the handler as soon as the RPC has
	// arrived, i.e. while the upload is in flight (the caller is blocked in
	// Refresh meanwhile).
	mid    []vc16Rec
	record func(rc *vc16Rec)

	// faultStream is the number (from 1) of the stream of this upload that
	// gets the scripted behaviour; every other stream of the same upload is
	// acknowledged normally.  An uploader that uses one stream per upload
	// never reaches faultStream > 1.
	faultStream int

	// laterOrOnly replaces faultStream: the fault hits the second stream of
	// the upload if there is one and the first otherwise.  The first stream
	// is read to its end; if it carried the whole batch (expect messages) it
	// is failed after reading, else it is acknowledged and the next stream
	// of the upload gets the scripted failure.
	laterOrOnly bool
	expect      int
}

// vc16gRPC is what the server saw of one RPC.
type vc16gRPC struct {
	mode       int
	unscripted bool
	midDone    bool
	msgs       []*DeviceBillingStat
	sawEOF     bool
	commit     bool // the handler decided to commit
	committed  bool // ... and finished with OK from its side
}

type vc16gServer struct {
	UnimplementedDNSServiceServer

	mu       sync.Mutex
	cond     *sync.Cond
	round    string // identity of the current Refresh, carried in the request metadata
	streamNo int    // streams of the current Refresh so far
	stale    int    // RPCs of an earlier Refresh that arrived late
	script   *vc16gScript
	started  int
	finished int
	rpcs     []*vc16gRPC
	conns    map[net.Conn]struct{}
}

type vc16gListener struct {
	net.Listener

	s *vc16gServer
}

func (l *vc16gListener) Accept() (c net.Conn, err error) {
	c, err = l.Listener.Accept()
	if err == nil {
		l.s.mu.Lock()
		l.s.conns[c] = struct{}{}
		l.s.mu.Unlock()
	}

	return c, err
}

func (s *vc16gServer) dropAll() {
	s.mu.Lock()
	defer s.mu.Unlock()

	for c := range s.conns {
		_ = c.Close()
		delete(s.conns, c)
	}
}

// SaveDevicesBillingStat implements the DNSServiceServer interface.
func (s *vc16gServer) SaveDevicesBillingStat(
	srv grpc.ClientStreamingServer[DeviceBillingStat, emptypb.Empty],
) (err error) {
	md, _ := metadata.FromIncomingContext(srv.Context())
	id := md.Get(vc16gRoundKey)

	s.mu.Lock()
	if len(id) != 1 || id[0] != s.round {
		// The RPC of a Refresh that has already returned (its caller gave
		// up before the handler started): nothing is read or committed.
		s.stale++
		s.mu.Unlock()

		return status.Error(codes.Aborted, "vc16g: stale RPC")
	}

	s.streamNo++
	up := s.script
	rpc := &vc16gRPC{}
	sc := &vc16gScript{mode: vc16gAck, code: codes.Unavailable}
	switch {
	case up == nil:
		// Not scripted: acknowledged normally.
		rpc.unscripted = true
	case up.laterOrOnly && s.streamNo == 1:
		*sc = *up
		sc.mode = vc16gAckUnlessComplete
	case up.laterOrOnly && s.streamNo == 2, !up.laterOrOnly && s.streamNo == up.faultStream:
		*sc = *up
	default:
		// Another stream of the same upload: acknowledged normally.
	}

	var mid []vc16Rec
	if up != nil && s.streamNo == 1 {
		mid = up.mid
	}

	rpc.mode = sc.mode
	rpc.midDone = len(mid) > 0
	s.rpcs = append(s.rpcs, rpc)
	s.started++
	s.mu.Unlock()

	for i := range mid {
		up.record(&mid[i])
	}

	defer func() {
		s.mu.Lock()
		rpc.committed = rpc.commit && err == nil
		s.finished++
		s.cond.Broadcast()
		s.mu.Unlock()
	}()

	// read reads up to limit messages (all if limit < 0).
	read := func(limit int) (rerr error) {
		for ; limit != 0; limit-- {
			m, e := srv.Recv()
			if e == io.EOF {
				s.mu.Lock()
				rpc.sawEOF = true
				s.mu.Unlock()

				return nil
			} else if e != nil {
				return e
			}

			s.mu.Lock()
			rpc.msgs = append(rpc.msgs, m)
			s.mu.Unlock()
		}

		return nil
	}

	commit := func() {
		s.mu.Lock()
		rpc.commit = true
		s.mu.Unlock()
	}

	serr := status.Error(sc.code, "vc16g: scripted "+vc16gModeNames[sc.mode])
	ctx := srv.Context()

	switch sc.mode {
	case vc16gAck:
		if err = read(-1); err != nil {
			return err
		}

		commit()

		return srv.SendAndClose(&emptypb.Empty{})
	case vc16gAckNoMsg:
		if err = read(-1); err != nil {
			return err
		}

		commit()

		return nil
	case vc16gAckUnlessComplete:
		if err = read(-1); err != nil {
			return err
		}

		s.mu.Lock()
		whole := len(rpc.msgs) >= sc.expect
		s.mu.Unlock()

		if whole {
			return serr
		}

		commit()

		return srv.SendAndClose(&emptypb.Empty{})
	case vc16gErrBefore:
		return serr
	case vc16gErrMid:
		if err = read(1); err != nil {
			return err
		}

		return serr
	case vc16gErrAfter:
		if err = read(-1); err != nil {
			return err
		}

		return serr
	case vc16gPartialOK:
		if err = read(max(sc.kp, 1)); err != nil {
			return err
		}

		commit()

		return srv.SendAndClose(&emptypb.Empty{})
	case vc16gSlowNoCommit:
		if err = read(sc.k); err != nil {
			return err
		}

		<-ctx.Done()

		return status.FromContextError(ctx.Err()).Err()
	case vc16gSlowAfterCommit:
		if err = read(-1); err != nil {
			return err
		}

		commit()
		<-ctx.Done()

		return nil
	case vc16gCancelMid:
		if err = read(sc.k); err != nil {
			return err
		}

		sc.cancel()
		<-ctx.Done()

		return status.FromContextError(ctx.Err()).Err()
	case vc16gDropBefore:
		s.dropAll()

		return serr
	case vc16gDropMid:
		if err = read(1); err != nil {
			return err
		}

		s.dropAll()

		return serr
	case vc16gDropAfterCommit:
		if err = read(-1); err != nil {
			return err
		}

		commit()
		s.dropAll()

		return nil
	}

	return status.Error(codes.Internal, "vc16g: bad mode")
}

// vc16gRoundKey is the metadata key that ties an RPC to the Refresh that made
// it.  The uploader has no API key, so it passes the caller's outgoing
// metadata on unchanged.
const vc16gRoundKey = "vc16g-round"

// vc16gClientLog observes the client side of the streams of one Refresh.
type vc16gClientLog struct {
	mu      sync.Mutex
	streams []*vc16gClientStream
}

type vc16gClientStream struct {
	grpc.ClientStream

	log      *vc16gClientLog
	sent     []*DeviceBillingStat // messages whose SendMsg returned nil
	recvDone bool
	recvErr  error
}

func (c *vc16gClientLog) intercept(
	ctx context.Context,
	desc *grpc.StreamDesc,
	cc *grpc.ClientConn,
	method string,
	streamer grpc.Streamer,
	opts ...grpc.CallOption,
) (cs grpc.ClientStream, err error) {
	cs, err = streamer(ctx, desc, cc, method, opts...)
	if err != nil {
		return nil, err
	}

	st := &vc16gClientStream{ClientStream: cs, log: c}
	c.mu.Lock()
	c.streams = append(c.streams, st)
	c.mu.Unlock()

	return st, nil
}

func (c *vc16gClientLog) take() (streams []*vc16gClientStream) {
	c.mu.Lock()
	defer c.mu.Unlock()

	streams, c.streams = c.streams, nil

	return streams
}

func (s *vc16gClientStream) SendMsg(m any) (err error) {
	err = s.ClientStream.SendMsg(m)
	if msg, ok := m.(*DeviceBillingStat); ok && err == nil {
		s.log.mu.Lock()
		s.sent = append(s.sent, msg)
		s.log.mu.Unlock()
	}

	return err
}

func (s *vc16gClientStream) RecvMsg(m any) (err error) {
	err = s.ClientStream.RecvMsg(m)
	s.log.mu.Lock()
	s.recvDone, s.recvErr = true, err
	s.log.mu.Unlock()

	return err
}

func vc16gInconclusive(t interface{ FailNow() }, format string, args ...any) {
	fmt.Println("VERIF-INCONCLUSIVE: " + fmt.Sprintf(format, args...))
	t.FailNow()
}

func vc16gMsgStr(m *DeviceBillingStat) string {
	return fmt.Sprintf("{dev=%s q=%d t=%s %q as%d p%d}", m.DeviceId, m.Queries,
		m.LastActivityTime.AsTime().Sub(vc16Base), m.ClientCountry, m.Asn, m.Proto)
}

func TestVerifC16GRPC(t *testing.T) {
	st := vstat.New("C16", "backendpb.grpc",
		"rapid histories through RuntimeRecorder -> real backendpb.BillStat -> real grpc-go client -> in-process gRPC server on loopback; 1..40 devices, in about one case in 25 one round records a query for each of 4095 | 4096 | 4097 | 5000 | 8200 | 12300 devices; the scripted behaviour applies to the 1st | 2nd | 3rd stream of an upload (other streams are acknowledged), or to the 2nd stream if the uploader opens one and else to the only one; what the server ACCEPTED is counted per stream answered OK; per round 0..4 records with start times drawn independently of the recording order, then a Refresh (0..2 further queries are recorded by the server's handler as soon as the RPC has arrived, i.e. while the upload is in flight) for which the server's behaviour is drawn: ack with Empty | OK without a response message | status error before / in the middle of / after reading | read one message then OK | never answer (short client deadline) | commit then answer too late | caller cancels mid-stream | drop the connection before / in the middle / after committing; the server's own commit record is the oracle's 'delivered'; non-trivial = an upload holding device d that the server did not acknowledge normally, followed by a committed upload holding d; distinct by (devices, server behaviours)",
		"server-ok-without-response-message", "server-error-mid-stream", "committed-upload-not-resent",
		"server-error-before", "server-error-after-reading", "server-partial-read-ok", "client-deadline-server-silent",
		"server-committed-client-timed-out", "caller-cancelled-mid-stream", "connection-dropped-mid-stream",
		"connection-dropped-after-commit", "uncommitted-then-committed",
		"recorded-during-failed-upload-with-earlier-start-time", "recorded-during-failed-upload-with-equal-start-time", "recorded-during-failed-upload-with-later-start-time",
		"batch-over-4096-devices", "batch-over-4096-devices-with-fault-on-later-rpc",
		"backend-answers-ok-before-reading-the-whole-large-batch", "record-with-invalid-utf8-in-batch", "never-deliverable-batch-stays-held")
	st.Finish(t)

	l, err := net.Listen("tcp", "127.0.0.1:0")
	if err != nil {
		vc16gInconclusive(t, "cannot listen on the loopback interface: %v", err)
	}

	srv := &vc16gServer{conns: map[net.Conn]struct{}{}}
	srv.cond = sync.NewCond(&srv.mu)
	// A fixed 64 KiB window (this also switches the dynamic window off), so
	// that a batch of thousands of devices does not fit into it and a Send
	// really observes the end of a stream the server has finished early.
	g := grpc.NewServer(grpc.Creds(insecure.NewCredentials()), grpc.InitialWindowSize(65535), grpc.InitialConnWindowSize(65535))
	RegisterDNSServiceServer(g, srv)
	served := make(chan struct{})
	go func() {
		defer close(served)

		_ = g.Serve(&vc16gListener{Listener: l, s: srv})
	}()
	t.Cleanup(func() {
		g.Stop()
		<-served
	})

	// The real uploader on a real grpc-go client connection.  The connection
	// is made here rather than by NewBillStat only to add an interceptor that
	// OBSERVES which messages the client has sent successfully on each
	// stream; nothing is altered.
	clog := &vc16gClientLog{}
	conn, err := grpc.NewClient(l.Addr().String(), grpc.WithTransportCredentials(insecure.NewCredentials()),
		grpc.WithStreamInterceptor(clog.intercept))
	if err != nil {
		t.Fatalf("grpc.NewClient: %v", err)
	}

	conn.Connect()
	t.Cleanup(func() { _ = conn.Close() })

	upl := &BillStat{
		logger:      slogutil.NewDiscardLogger(),
		errColl:     vc16ErrColl{},
		grpcMetrics: EmptyGRPCMetrics{},
		client:      NewDNSServiceClient(conn),
		apiKey:      "",
	}

	const (
		longTimeout  = 60 * time.Second
		shortTimeout = 15 * time.Millisecond
	)

	// waitHandlers waits until every handler that has started has returned.
	waitHandlers := func(ft interface{ FailNow() }) {
		stop := time.AfterFunc(30*time.Second, func() {
			srv.mu.Lock()
			srv.cond.Broadcast()
			srv.mu.Unlock()
		})
		defer stop.Stop()

		deadline := time.Now().Add(30 * time.Second)
		srv.mu.Lock()
		defer srv.mu.Unlock()

		for srv.started != srv.finished {
			if time.Now().After(deadline) {
				vc16gInconclusive(ft, "a server handler did not return within 30s")
			}

			srv.cond.Wait()
		}
	}

	rounds := 0
	rapid.Check(t, func(t *rapid.T) {
		w := &vc16World{
			t:            t,
			ctx:          context.Background(),
			recorded:     map[agd.DeviceID]int64{},
			delivered:    map[agd.DeviceID]int64{}, // committed by the server
			last:         map[agd.DeviceID]vc16Meta{},
			failedSeen:   map[agd.DeviceID]bool{},
			recAfterFail: map[agd.DeviceID]bool{},
			classes:      map[string]bool{},
		}

		sw := &vc16Switch{real: upl}
		w.r = billstat.NewRuntimeRecorder(&billstat.RuntimeRecorderConfig{
			Logger:   slogutil.NewDiscardLogger(),
			ErrColl:  vc16ErrColl{},
			Uploader: sw,
			Metrics:  billstat.EmptyMetrics{},
		})

		// allow is the amount by which a device may be delivered again after
		// a legitimate client/server disagreement (not judged).
		allow := map[agd.DeviceID]int64{}

		// agreed holds the devices committed by the previous round's upload
		// with the client's agreement; a resend of those would be visible.
		agreed := map[agd.DeviceID]bool{}

		// uncommitted holds devices that were in an upload that was not
		// acknowledged normally.
		uncommitted := map[agd.DeviceID]bool{}

		// refresh runs one Refresh with the given server behaviour and
		// judges what the server saw.  It returns the client's error and the
		// number of messages the server saw.
		refresh := func(sc *vc16gScript) (cerr error, nMsg int) {
			timeout := longTimeout
			if sc.mode == vc16gSlowNoCommit || sc.mode == vc16gSlowAfterCommit {
				timeout = shortTimeout
			}

			// The recorder takes its snapshot before the RPC exists, so what
			// an upload of this Refresh may carry is determined by the
			// state now; queries the handler records land in the next one.
			lastBefore := make(map[agd.DeviceID]vc16Meta, len(w.last))
			recBefore := make(map[agd.DeviceID]int64, len(w.recorded))
			heldBefore := map[agd.DeviceID]bool{}
			for d, m := range w.last {
				lastBefore[d] = m
				recBefore[d] = w.recorded[d]
				heldBefore[d] = w.recorded[d] > w.delivered[d]
			}

			sc.record = func(rc *vc16Rec) {
				w.record(rc)
				w.log[len(w.log)-1] += " [by the server's handler, while the upload is in flight]"
			}

			rounds++
			round := fmt.Sprintf("%d", rounds)
			ctx, cancel := context.WithTimeout(context.Background(), timeout)
			defer cancel()
			sc.cancel = cancel
			ctx = metadata.AppendToOutgoingContext(ctx, vc16gRoundKey, round)

			if sc.faultStream == 0 {
				sc.faultStream = 1
			}

			sc.expect = 0
			for _, held := range heldBefore {
				if held {
					sc.expect++
				}
			}

			for d, held := range heldBefore {
				if held && w.unmarshalable(d) {
					w.classes["record-with-invalid-utf8-in-batch"] = true
				}
			}

			if sc.mode == vc16gPartialOK && sc.faultStream == 1 && !sc.laterOrOnly && sc.expect >= 5000 && sc.kp < sc.expect {
				w.classes["backend-answers-ok-before-reading-the-whole-large-batch"] = true
			}

			if sc.expect > 4096 {
				w.classes["batch-over-4096-devices"] = true
				if sc.laterOrOnly {
					w.classes["batch-over-4096-devices-with-fault-on-later-rpc"] = true
				}
			}

			srv.mu.Lock()
			srv.round = round
			srv.streamNo = 0
			srv.script = sc
			srv.rpcs = nil
			srv.mu.Unlock()

			clog.take()
			cerr = w.r.Refresh(ctx)
			ctxErr := ctx.Err()
			cstreams := clog.take()

			// From here on a handler that starts late is stale.
			srv.mu.Lock()
			srv.round = ""
			srv.mu.Unlock()

			waitHandlers(t)

			srv.mu.Lock()
			srv.script = nil
			rpcs := srv.rpcs
			srv.rpcs = nil
			srv.mu.Unlock()

			where := fmt.Sprintf("on stream %d", sc.faultStream)
			if sc.laterOrOnly {
				where = "on the 2nd stream if there is one, else on the only one"
			}

			w.log = append(w.log, fmt.Sprintf("Refresh (server: %s %s, code %s) -> client err=%v; server saw %d RPC(s)", vc16gModeNames[sc.mode], where, sc.code, cerr, len(rpcs)))

			if timeout == longTimeout && sc.mode != vc16gCancelMid && ctxErr != nil {
				vc16gInconclusive(t, "an upload with a %s deadline ran out of time", longTimeout)
			}

			for ri, rpc := range rpcs {
				nMsg += len(rpc.msgs)
				seen := map[agd.DeviceID]bool{}
				batch := map[agd.DeviceID]int64{}
				nLogged := 0

				// The server answered OK having read only a part of the
				// stream.  If the client reports the upload as successful,
				// what it has delivered is what it has SENT successfully on
				// that stream (the client cannot know how much of it the
				// server chose to read); whatever it has not sent must still
				// be held.  If the client reports a failure, see below.
				msgs := rpc.msgs
				if rpc.committed && rpc.mode == vc16gPartialOK && cerr == nil && len(cstreams) != len(rpcs) {
					vc16gInconclusive(t, "client streams (%d) and server RPCs (%d) of one upload cannot be matched", len(cstreams), len(rpcs))
				}

				if rpc.committed && rpc.mode == vc16gPartialOK && cerr == nil {
					msgs = cstreams[ri].sent
					w.log = append(w.log, fmt.Sprintf("  server read %d message(s) and answered OK; the client had sent %d on that stream and reports success", len(rpc.msgs), len(msgs)))
					if len(msgs) > len(rpc.msgs) {
						w.classes["server-partial-read-ok"] = true
					}
				}

				for _, m := range msgs {
					d := agd.DeviceID(m.DeviceId)
					if nLogged++; nLogged <= 6 {
						w.log = append(w.log, "  server read "+vc16gMsgStr(m))
					} else if nLogged == 7 {
						w.log = append(w.log, fmt.Sprintf("  ... (%d messages in this stream)", len(msgs)))
					}

					if seen[d] {
						w.fatalf("device %s appears twice in one upload", d)
					}

					seen[d] = true
					want, ok := lastBefore[d]
					if !ok {
						w.fatalf("upload names device %q, which had not been recorded when the upload started", d)
					}

					if m.Queries == 0 {
						continue
					}

					if q, room := int64(m.Queries), recBefore[d]-w.delivered[d]+allow[d]; q > room {
						w.fatalf("double counting: the server has committed %d of the %d queries recorded for %s when the upload started, and is now sent %d more (legitimately repeatable after a client/server disagreement: %d)",
							w.delivered[d], recBefore[d], d, q, allow[d])
					}

					if !m.LastActivityTime.AsTime().Equal(want.Time) || m.ClientCountry != string(want.Ctry) ||
						m.Asn != uint32(want.ASN) || m.Proto != uint32(want.Proto) {
						w.fatalf("upload for %s reports %s, but its most recently recorded query when the upload started is %s", d, vc16gMsgStr(m), want)
					}

					batch[d] = int64(m.Queries)
				}

				w.log = append(w.log, fmt.Sprintf("  server (%s) finished: committed=%t (read %d message(s), end of stream seen: %t)", vc16gModeNames[rpc.mode], rpc.committed, len(rpc.msgs), rpc.sawEOF))

				nonEmpty := len(batch) > 0
				if !rpc.committed {
					for d := range batch {
						uncommitted[d] = true
					}

					// Devices the server did not get to read were held by
					// the failed upload too.
					for d := range heldBefore {
						if heldBefore[d] {
							uncommitted[d] = true
						}
					}

					// Coverage: a query of a held device recorded while this
					// failed upload was in flight; its start time against
					// the held one.
					for i := range sc.mid {
						d := w.dev(sc.mid[i].Dev)
						if !rpc.midDone || !heldBefore[d] || cerr == nil {
							continue
						}

						w.classes["recorded-during-failed-upload"] = true
						switch held, now := lastBefore[d].Time, w.last[d].Time; {
						case now.Before(held):
							w.classes["recorded-during-failed-upload-with-earlier-start-time"] = true
						case now.Equal(held):
							w.classes["recorded-during-failed-upload-with-equal-start-time"] = true
						default:
							w.classes["recorded-during-failed-upload-with-later-start-time"] = true
						}
					}

					switch rpc.mode {
					case vc16gErrMid:
						if nonEmpty && !rpc.sawEOF {
							w.classes["server-error-mid-stream"] = true
						}
					case vc16gErrAfter:
						if nonEmpty {
							w.classes["server-error-after-reading"] = true
						}
					case vc16gErrBefore:
						w.classes["server-error-before"] = true
					case vc16gSlowNoCommit:
						w.classes["client-deadline-server-silent"] = true
					case vc16gCancelMid:
						w.classes["caller-cancelled-mid-stream"] = true
					case vc16gDropMid:
						if nonEmpty {
							w.classes["connection-dropped-mid-stream"] = true
						}
					case vc16gDropBefore:
						w.classes["connection-dropped-before-reading"] = true
					}

					continue
				}

				// Committed: accepted by the server.
				for d, q := range batch {
					w.delivered[d] += q
					if uncommitted[d] {
						w.nontrivial = true
						w.classes["uncommitted-then-committed"] = true
						delete(uncommitted, d)
					}
				}

				switch {
				case cerr != nil && (vc16gDisagree(rpc.mode) || ctxErr != nil):
					// Legitimate disagreement: a repeated delivery of this
					// batch is not judged.
					for d, q := range batch {
						allow[d] += q
					}

					switch rpc.mode {
					default:
						// The caller's context ended while the server was
						// committing: a disagreement whatever the script.
						w.classes["server-committed-caller-context-done"] = true
					case vc16gSlowAfterCommit:
						w.classes["server-committed-client-timed-out"] = true
					case vc16gDropAfterCommit:
						w.classes["connection-dropped-after-commit"] = true
					case vc16gPartialOK:
						w.classes["partial-read-ok-client-saw-failure"] = true
					}
				case cerr == nil:
					for d := range batch {
						if allow[d] == 0 && w.recorded[d] == w.delivered[d] {
							agreed[d] = true
						}
					}
				}

				if rpc.mode == vc16gAckNoMsg && nonEmpty {
					w.classes["server-ok-without-response-message"] = true
				}
			}

			return cerr, nMsg
		}

		nDev := rapid.SampledFrom([]int{2, 1, 3, 4, 2, 7, 15, 40}).Draw(t, "nDev")
		nRounds := rapid.IntRange(1, 6).Draw(t, "rounds")

		// Rarely, one round records a query for each of very many devices,
		// around and above 4096 per upload.
		big, bigRound := 0, -1
		if bb := rapid.IntRange(0, 24).Draw(t, "bigBatch"); bb == 13 || bb == 7 {
			big = rapid.SampledFrom([]int{4097, 5000, 4096, 4095, 8200, 12300}).Draw(t, "bigDevices")
			nRounds = min(nRounds, 3)
			bigRound = rapid.IntRange(0, min(1, nRounds-1)).Draw(t, "bigRound")
		} else if nDev > 1 && rapid.IntRange(0, 15).Draw(t, "badDevice") == 9 {
			// One device whose ID is not valid UTF-8.
			w.badDev = nDev - 1
		}

		key := &strings.Builder{}
		for i := 0; i < nRounds; i++ {
			if i == bigRound {
				w.recordBulk(big)
				clear(agreed)
				fmt.Fprintf(key, "bulk%d ", big)
				w.classes[fmt.Sprintf("bulk-%d-devices", big)] = true
			}

			nPre := rapid.SampledFrom([]int{2, 0, 1, 3, 4, 0}).Draw(t, "nPre")
			for j := 0; j < nPre; j++ {
				rc := vc16DrawRec(t, nDev)
				rc.DoneCtx = false
				fmt.Fprintf(key, "%d,", rc.Dev)
				delete(agreed, w.dev(rc.Dev))
				w.record(&rc)
			}

			sc := &vc16gScript{
				mode: rapid.SampledFrom([]int{vc16gAck, vc16gAckNoMsg, vc16gErrMid, vc16gPartialOK, vc16gAck, vc16gAckNoMsg, vc16gErrBefore, vc16gErrAfter,
					vc16gPartialOK, vc16gSlowNoCommit, vc16gSlowAfterCommit, vc16gCancelMid, vc16gDropBefore, vc16gDropMid, vc16gDropAfterCommit}).Draw(t, "serverMode"),
				k: rapid.IntRange(0, 2).Draw(t, "readBeforeFault"),
				code: rapid.SampledFrom([]codes.Code{codes.Unavailable, codes.Internal, codes.DeadlineExceeded, codes.Unauthenticated,
					codes.ResourceExhausted}).Draw(t, "code"),
				faultStream: rapid.SampledFrom([]int{1, 1, 2, 1, 3}).Draw(t, "faultStream"),
				kp:          rapid.SampledFrom([]int{1, 3, 500, 1, 3000}).Draw(t, "readBeforeOK"),
			}

			// A large batch that the backend answers with OK before it has
			// read all of it: the batch does not fit into the stream window,
			// so the client's Send observes the end of the stream.
			earlyOK := i == bigRound && big >= 5000 && rapid.IntRange(0, 2).Draw(t, "earlyOK") == 1
			if earlyOK {
				sc.mode, sc.faultStream = vc16gPartialOK, 1
			}

			// The behaviours that need a short client deadline are only
			// used on the first stream: a later stream may never exist, and
			// the first one would then be acknowledged against that deadline.
			if sc.faultStream != 1 && (sc.mode == vc16gSlowNoCommit || sc.mode == vc16gSlowAfterCommit) {
				sc.mode = vc16gErrAfter
			}

			// The fault on the second stream of the upload if the uploader
			// opens one, on the only stream otherwise: mostly for the round
			// with the many devices.
			lo := rapid.IntRange(0, 7).Draw(t, "laterOrOnly")
			if !earlyOK && ((i == bigRound && lo != 5) || lo == 3) {
				sc.laterOrOnly = true
				switch sc.mode {
				case vc16gErrBefore, vc16gErrMid, vc16gErrAfter, vc16gDropBefore, vc16gDropMid:
					// Keep the drawn way of failing.
				default:
					sc.mode = vc16gErrAfter
				}
			}

			nMid := rapid.SampledFrom([]int{0, 1, 0, 2}).Draw(t, "nMid")
			fmt.Fprintf(key, "/%s@%d%t(", vc16gModeNames[sc.mode], sc.faultStream, sc.laterOrOnly)
			for j := 0; j < nMid; j++ {
				rc := vc16DrawRec(t, nDev)
				rc.DoneCtx = false
				fmt.Fprintf(key, "%d,", rc.Dev)
				sc.mid = append(sc.mid, rc)
			}

			key.WriteString(") ")

			// Devices whose last upload was committed with the client's
			// agreement and that got no query since: sending them again
			// fails the bound in refresh.
			hadAgreed := len(agreed) > 0

			refresh(sc)

			if hadAgreed {
				w.classes["committed-upload-not-resent"] = true
			}
		}

		// Final acknowledged flushes until the recorder has nothing left to
		// send.
		flushed := false
		for i := 0; i < 20 && !flushed; i++ {
			cerr, nMsg := refresh(&vc16gScript{mode: vc16gAck, code: codes.Unavailable})
			flushed = cerr == nil && nMsg == 0

			// A record that cannot be marshaled fails every upload that
			// carries it: the batch stays held, which is not a loss.
			stuck := false
			for d := range w.recorded {
				stuck = stuck || (w.recorded[d] > w.delivered[d] && w.unmarshalable(d))
			}

			if stuck && i >= 1 {
				w.classes["never-deliverable-batch-stays-held"] = true

				break
			}
		}

		// What is still held is observed exactly; delivered (accepted by the
		// server) + held == recorded for every device.
		w.checkHeld(w.drainHeld(sw), allow)

		cl := []string{}
		for c := range w.classes {
			cl = append(cl, c)
		}

		nt := ""
		if w.nontrivial {
			nt = key.String()
		}

		st.Case(nt, cl...)
		if nt != "" && st.WantSample() {
			st.Sample(map[string]any{"history": w.log})
		}
	})
}
