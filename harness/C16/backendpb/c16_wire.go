//go:build verif

package backendpb

// C16, wire side: the real billstat.RuntimeRecorder uploading through the real
// backendpb.BillStat onto a scripted gRPC client stream.  The fake backend
// counts a stream as delivered only when CloseAndRecv succeeded; a stream that
// failed to open, failed in Send or failed in CloseAndRecv is discarded as a
// whole.  Oracle: after a final successful flush the backend has received, per
// device, exactly the number of queries recorded; every message carries the
// metadata of the device's most recent query at the time the upload started,
// in the right protobuf fields.

import (
	"context"
	"errors"
	"fmt"
	"io"
	"strings"
	"testing"
	"time"
	"unicode/utf8"

	"github.com/AdguardTeam/AdGuardDNS/internal/agd"
	"github.com/AdguardTeam/AdGuardDNS/internal/billstat"
	"github.com/AdguardTeam/AdGuardDNS/internal/geoip"
	"github.com/AdguardTeam/golibs/logutil/slogutil"
	"google.golang.org/grpc"
	"google.golang.org/grpc/codes"
	"google.golang.org/grpc/status"
	"google.golang.org/protobuf/proto"
	"google.golang.org/protobuf/types/known/emptypb"
	"pgregory.net/rapid"
	"verif.local/harness/vstat"
)

var (
	vc16Devs   = []agd.DeviceID{"dev0000a", "dev0000A", "dev0000b", "dev0000c"}
	vc16Ctrys  = []geoip.Country{geoip.CountryNone, geoip.CountryAD, geoip.CountryCY, geoip.CountryUS, "DE"}
	vc16Protos = []agd.Protocol{agd.ProtoDNS, agd.ProtoDoH, agd.ProtoDoQ, agd.ProtoDoT, agd.ProtoDNSCrypt}
	vc16Base   = time.Date(2024, 1, 2, 3, 4, 5, 0, time.UTC)
)

// vc16ManyDevs are device IDs from a counter, for batches of thousands.
var vc16ManyDevs = func() (ids []agd.DeviceID) {
	ids = make([]agd.DeviceID, 12300)
	for i := range ids {
		ids[i] = agd.DeviceID(fmt.Sprintf("dv%06d", i))
	}

	return ids
}()

// vc16Dev is the i-th device: the four hand-picked ones first.
func vc16Dev(i int) (id agd.DeviceID) {
	if i < len(vc16Devs) {
		return vc16Devs[i]
	}

	return vc16ManyDevs[i]
}

// Strings that are not valid UTF-8: a proto3 string field holding one cannot
// be marshaled, so an upload that carries such a record fails on the client.
const (
	vc16BadDevID agd.DeviceID  = "dev\xff1"
	vc16BadCtry  geoip.Country = "\xc3\x28"
)

// vc16Switch is the uploader handed to the recorder.  It passes every upload
// on to the real uploader until drain is set; then it takes what the recorder
// still holds (and acknowledges it), so that "held" is observed exactly.
type vc16Switch struct {
	real  billstat.Uploader
	drain bool
	held  map[agd.DeviceID]billstat.Record
}

// Upload implements the billstat.Uploader interface for *vc16Switch.
func (u *vc16Switch) Upload(ctx context.Context, records billstat.Records) (err error) {
	if !u.drain {
		return u.real.Upload(ctx, records)
	}

	for d, r := range records {
		if r == nil {
			continue
		}

		h := u.held[d]
		q := h.Queries
		h = *r
		h.Queries += q
		u.held[d] = h
	}

	return nil
}

// drainHeld switches sw to drain mode, refreshes once and returns what the
// recorder held.
func (w *vc16World) drainHeld(sw *vc16Switch) (held map[agd.DeviceID]billstat.Record) {
	sw.drain = true
	sw.held = map[agd.DeviceID]billstat.Record{}
	_ = w.r.Refresh(context.Background())
	w.log = append(w.log, fmt.Sprintf("drain: the recorder still held records for %d device(s)", len(sw.held)))

	return sw.held
}

// checkHeld is the final conservation check with the held set observed:
// delivered + held == recorded for every device (delivered may exceed by
// allow[d], the amount not judged), and a held record carries the metadata of
// the device's most recently recorded query.
func (w *vc16World) checkHeld(held map[agd.DeviceID]billstat.Record, allow map[agd.DeviceID]int64) {
	for d, h := range held {
		if _, ok := w.recorded[d]; !ok && h.Queries != 0 {
			w.fatalf("the recorder holds %d queries for device %q, which was never recorded", h.Queries, d)
		}
	}

	for d, r := range w.recorded {
		h := held[d]
		switch got := w.delivered[d] + int64(h.Queries); {
		case got < r:
			w.fatalf("lost: device %q: %d queries delivered in successful uploads + %d still held = %d, %d recorded", d, w.delivered[d], h.Queries, got, r)
		case got > r+allow[d]:
			w.fatalf("double counting: device %q: %d queries delivered in successful uploads + %d still held = %d, %d recorded (not judged: %d)", d, w.delivered[d], h.Queries, got, r, allow[d])
		}

		if want := w.last[d]; h.Queries > 0 && (!h.Time.Equal(want.Time) || h.Country != want.Ctry || h.ASN != want.ASN || h.Proto != want.Proto) {
			w.fatalf("device %q is held with {t=%s %q as%d p%d}, but its most recently recorded query is %s", d, h.Time.Sub(vc16Base), h.Country, h.ASN, h.Proto, want)
		}
	}
}

type vc16ErrColl struct{}

func (vc16ErrColl) Collect(_ context.Context, _ error) {}

type vc16Meta struct {
	N     int
	Time  time.Time
	Ctry  geoip.Country
	ASN   geoip.ASN
	Proto agd.Protocol
}

func (m vc16Meta) String() string {
	return fmt.Sprintf("#%d{t=%s %q as%d p%d}", m.N, m.Time.Sub(vc16Base), m.Ctry, m.ASN, m.Proto)
}

// fault kinds of one upload attempt
const (
	vc16OK = iota
	vc16OpenErr
	vc16SendErr
	vc16CloseErr

	// vc16EarlyOK: the server finishes the stream with OK before the client
	// has sent everything: from the scripted position on every Send returns
	// io.EOF, and CloseAndRecv, if called, reports OK.
	vc16EarlyOK
)

var vc16KindNames = []string{"success", "open-error", "send-error", "close-error", "early-ok"}

type vc16Rec struct {
	Dev  int
	Meta vc16Meta // N and Time are filled in at execution

	// Near: 0 = as scripted; 1, 2, 3 = only country, ASN, protocol differs
	// from the device's previous query; 4 = unknown location (country "" and
	// ASN 0 together, as mainmw passes it).
	Near int

	// DoneCtx makes the Record call with an already-cancelled context.
	DoneCtx bool

	// T is the query's start time in seconds after vc16Base, drawn
	// independently of the recording order (earlier, equal, later).
	T int
}

// Context modes of one Refresh call.
const (
	vc16CtxLive      = iota
	vc16CtxCancelled // already cancelled when Refresh is called
	vc16CtxExpired   // already past its deadline when Refresh is called
	vc16CtxCancelMid // cancelled mid-stream (at the position of the mid-stream records)
	vc16CtxWorker    // live, far deadline and logger value, as the refresh worker passes it
)

// vc16Attempt is the script of one Refresh.  As with a real gRPC client, a
// stream cannot be opened on a context that is done, and Send/CloseAndRecv
// fail once the stream's context is done.
type vc16Attempt struct {
	// FaultStream is the number (from 1; 0 means 1) of the stream of the
	// upload that gets the scripted fault; every other stream of the same
	// upload succeeds.  LaterOrOnly replaces it: the fault hits the second
	// stream of the upload if the uploader opens one; otherwise the first
	// (only) stream, which has then carried the whole batch, fails at
	// CloseAndRecv.
	FaultStream int
	LaterOrOnly bool
	streamNo    int
	failIfWhole bool

	Ctx     int
	cancel  context.CancelFunc
	Kind    int
	SendAt  int // permille of the number of messages at which Send fails
	ErrKind int // which error value
	Mid     []vc16Rec
	MidAt   int // permille position of the mid-stream records
}

type vc16Round struct {
	Pre []vc16Rec
	Up  *vc16Attempt
}

// vc16ErrKindEOF makes a failing Send return io.EOF; elsewhere it is a plain
// Unavailable status.
const vc16ErrKindEOF = 4

func vc16Err(kind int) error {
	switch kind {
	case vc16ErrKindEOF:
		return status.Error(codes.Unavailable, "vc16: scripted server-side failure")
	case 0:
		return status.Error(codes.Unavailable, "vc16: scripted unavailable")
	case 1:
		return status.Error(codes.DeadlineExceeded, "vc16: scripted deadline")
	case 2:
		return status.Error(codes.Unauthenticated, "vc16: scripted auth failure")
	default:
		return errors.New("vc16: scripted plain error")
	}
}

type vc16World struct {
	t   *rapid.T
	r   *billstat.RuntimeRecorder
	ctx context.Context

	n         int
	recorded  map[agd.DeviceID]int64
	delivered map[agd.DeviceID]int64
	last      map[agd.DeviceID]vc16Meta

	next    *vc16Attempt
	streams int
	log     []string

	failedSeen   map[agd.DeviceID]bool
	recAfterFail map[agd.DeviceID]bool
	nontrivial   bool
	classes      map[string]bool

	// badDev, if positive, is the index of the device whose ID is not valid
	// UTF-8 in this case.
	badDev int
}

// dev is the ID of the i-th device of this case.
func (w *vc16World) dev(i int) (id agd.DeviceID) {
	if w.badDev > 0 && i == w.badDev {
		return vc16BadDevID
	}

	return vc16Dev(i)
}

// unmarshalable reports whether the pending record of d cannot be marshaled.
func (w *vc16World) unmarshalable(d agd.DeviceID) bool {
	return !utf8.ValidString(string(d)) || !utf8.ValidString(string(w.last[d].Ctry))
}

func (w *vc16World) fatalf(format string, args ...any) {
	state := fmt.Sprintf("recorded=%v delivered=%v", w.recorded, w.delivered)
	if len(w.recorded) > 40 {
		var rs, ds int64
		diff := []string{}
		for d, r := range w.recorded {
			rs += r
			ds += w.delivered[d]
			if r != w.delivered[d] && len(diff) < 8 {
				diff = append(diff, fmt.Sprintf("%s: recorded %d delivered %d", d, r, w.delivered[d]))
			}
		}

		state = fmt.Sprintf("%d devices, %d queries recorded, %d delivered; some devices that differ: %v", len(w.recorded), rs, ds, diff)
	}

	w.t.Fatalf("%s\nhistory:\n  %s\n%s", fmt.Sprintf(format, args...), strings.Join(w.log, "\n  "), state)
}

func (w *vc16World) record(rc *vc16Rec) {
	w.n++
	m := rc.Meta
	m.N = w.n
	// The start time is not monotone in recording order.
	m.Time = vc16Base.Add(time.Duration(rc.T)*time.Second + time.Duration(rc.T)*time.Microsecond)
	d := w.dev(rc.Dev)
	if prev, ok := w.last[d]; rc.Near == 4 {
		m.Ctry, m.ASN = geoip.CountryNone, 0
		if ok && (prev.Ctry != geoip.CountryNone || prev.ASN != 0) {
			w.classes["unknown-location-after-known"] = true
		}
	} else if ok && rc.Near >= 1 && rc.Near <= 3 {
		ctry, asn, proto := m.Ctry, m.ASN, m.Proto
		m.Ctry, m.ASN, m.Proto = prev.Ctry, prev.ASN, prev.Proto
		switch rc.Near {
		case 1:
			if ctry == prev.Ctry {
				ctry += "X"
			}

			m.Ctry = ctry
		case 2:
			if asn == prev.ASN {
				asn++
			}

			m.ASN = asn
		case 3:
			if proto == prev.Proto {
				proto++
			}

			m.Proto = proto
		}

		w.classes["near-miss-one-field"] = true
	}

	ctx, txt := w.ctx, ""
	if rc.DoneCtx {
		var cancel context.CancelFunc
		ctx, cancel = context.WithCancel(ctx)
		cancel()
		txt = " [ctx already cancelled]"
		w.classes["record-with-done-context"] = true
	}

	w.log = append(w.log, fmt.Sprintf("Record(%s, %s)%s", d, m, txt))
	w.r.Record(ctx, d, m.Ctry, m.ASN, m.Time, m.Proto)
	w.recorded[d]++
	w.last[d] = m
	if w.failedSeen[d] {
		w.recAfterFail[d] = true
	}
}

// recordBulk records one query for each of the first n devices, cheaply.
func (w *vc16World) recordBulk(n int) {
	for i := 0; i < n; i++ {
		w.n++
		d := w.dev(i)
		t := i % 13
		m := vc16Meta{
			N:     w.n,
			Time:  vc16Base.Add(time.Duration(t)*time.Second + time.Duration(t)*time.Microsecond),
			Ctry:  vc16Ctrys[i%len(vc16Ctrys)],
			ASN:   geoip.ASN(i),
			Proto: vc16Protos[i%len(vc16Protos)],
		}

		w.r.Record(w.ctx, d, m.Ctry, m.ASN, m.Time, m.Proto)
		w.recorded[d]++
		w.last[d] = m
		if w.failedSeen[d] {
			w.recAfterFail[d] = true
		}
	}

	w.log = append(w.log, fmt.Sprintf("Record one query for each of %d devices (%s .. %s)", n, w.dev(0), w.dev(n-1)))
}

// vc16Client is the scripted DNSServiceClient.
type vc16Client struct {
	DNSServiceClient

	w *vc16World
}

func (c *vc16Client) SaveDevicesBillingStat(
	ctx context.Context,
	_ ...grpc.CallOption,
) (s grpc.ClientStreamingClient[DeviceBillingStat, emptypb.Empty], err error) {
	w := c.w

	// The script belongs to the whole upload.  Its fault applies to one
	// stream of the upload; the other streams of the same upload succeed.
	up := w.next
	a := &vc16Attempt{Kind: vc16OK}
	if up == nil {
		w.classes["unscripted-stream"] = true
	} else {
		up.streamNo++
		switch {
		case up.LaterOrOnly && up.streamNo == 1:
			a.failIfWhole = true
			a.ErrKind = up.ErrKind
		case up.LaterOrOnly && up.streamNo == 2, !up.LaterOrOnly && up.streamNo == max(up.FaultStream, 1):
			a.Kind, a.SendAt, a.ErrKind = up.Kind, up.SendAt, up.ErrKind
			if up.LaterOrOnly && a.Kind == vc16OK {
				a.Kind = vc16CloseErr
			}
		}

		if up.streamNo == 1 {
			a.Mid, a.MidAt, a.Ctx, a.cancel = up.Mid, up.MidAt, up.Ctx, up.cancel
		}
	}

	w.streams++
	ctxErr := ctx.Err()
	if a.Kind == vc16OpenErr || ctxErr != nil {
		if ctxErr != nil {
			w.log = append(w.log, fmt.Sprintf("stream open -> error (%v)", ctxErr))
			w.classes["open-error-done-context"] = true
		} else {
			w.log = append(w.log, "stream open -> error")
			w.classes["open-error"] = true
		}

		// Which devices the failed upload held is not observable here.
		for d := range w.recorded {
			if w.recorded[d] > w.delivered[d] {
				w.failedSeen[d] = true
			}
		}

		if ctxErr != nil {
			return nil, status.FromContextError(ctxErr).Err()
		}

		return nil, vc16Err(a.ErrKind)
	}

	w.log = append(w.log, fmt.Sprintf("stream open (scripted %s)", vc16KindNames[a.Kind]))

	lastAtOpen := make(map[agd.DeviceID]vc16Meta, len(w.last))
	for d, m := range w.last {
		lastAtOpen[d] = m
	}

	// Number of messages a correct client sends: devices with undelivered
	// queries.  Only used to place the scripted fault.
	expect := 0
	heldAtOpen := map[agd.DeviceID]bool{}
	for d := range w.recorded {
		if w.recorded[d] > w.delivered[d] {
			expect++
			heldAtOpen[d] = true
		}
	}

	for d := range heldAtOpen {
		if w.unmarshalable(d) {
			w.classes["record-with-invalid-utf8-in-batch"] = true
		}
	}

	if up != nil && up.streamNo == 1 && expect > 4096 {
		w.classes["batch-over-4096-devices"] = true
		if up.LaterOrOnly {
			w.classes["batch-over-4096-devices-with-fault-on-later-rpc"] = true
		}
	}

	return &vc16Stream{expect: expect, heldAtOpen: heldAtOpen, ctx: ctx, w: w, a: a, lastAtOpen: lastAtOpen, failAt: a.SendAt * expect / 1000, midAt: a.MidAt * (expect + 1) / 1000}, nil
}

type vc16Stream struct {
	grpc.ClientStream

	ctx        context.Context
	w          *vc16World
	a          *vc16Attempt
	lastAtOpen map[agd.DeviceID]vc16Meta
	heldAtOpen map[agd.DeviceID]bool
	expect     int
	msgs       []*DeviceBillingStat
	failAt     int
	midAt      int
	midDone    bool
	earlyOK    bool  // the server has finished the stream with OK; Sends return io.EOF
	closed     bool  // CloseAndRecv has been called
	broken     error // status of a stream that has failed
	midDevs    map[agd.DeviceID]bool
}

func (s *vc16Stream) mid() {
	if s.midDone {
		return
	}

	s.midDone = true
	s.midDevs = map[agd.DeviceID]bool{}
	for i := range s.a.Mid {
		s.w.classes["record-mid-stream"] = true
		s.midDevs[s.w.dev(s.a.Mid[i].Dev)] = true
		s.w.record(&s.a.Mid[i])
	}

	if s.a.Ctx == vc16CtxCancelMid && s.a.cancel != nil {
		s.w.log = append(s.w.log, "context cancelled")
		s.a.cancel()
	}
}

// ctxFailed fails the stream if its context is done.
func (s *vc16Stream) ctxFailed(where string) (err error) {
	cerr := s.ctx.Err()
	if cerr == nil {
		return nil
	}

	s.w.log = append(s.w.log, fmt.Sprintf("%s -> error (%v)", where, cerr))
	s.w.classes["stream-cancelled-in-flight"] = true
	s.markFailed()
	s.broken = status.FromContextError(cerr).Err()

	return s.broken
}

func (s *vc16Stream) markFailed() {
	for _, m := range s.msgs {
		s.w.failedSeen[agd.DeviceID(m.DeviceId)] = true
	}

	// Devices not yet sent were held by the failed upload too.
	for d := range s.w.recorded {
		if s.lastAtOpen[d].N != 0 && s.w.recorded[d] > s.w.delivered[d] {
			s.w.failedSeen[d] = true
		}
	}

	for d := range s.midDevs {
		if s.w.failedSeen[d] {
			s.w.recAfterFail[d] = true
		}

		// Coverage: a query of a device held by this failed upload was
		// recorded while it was in flight; its start time against the held
		// one.
		held := s.lastAtOpen[d]
		if !s.heldAtOpen[d] {
			continue
		}

		switch now := s.w.last[d].Time; {
		case now.Before(held.Time):
			s.w.classes["recorded-during-failed-upload-with-earlier-start-time"] = true
		case now.Equal(held.Time):
			s.w.classes["recorded-during-failed-upload-with-equal-start-time"] = true
		default:
			s.w.classes["recorded-during-failed-upload-with-later-start-time"] = true
		}
	}
}

// Send implements the stream.  As with a real gRPC client stream, once the
// stream is broken every further Send returns io.EOF and the status is
// reported by CloseAndRecv.
func (s *vc16Stream) Send(m *DeviceBillingStat) (err error) {
	w := s.w
	if s.closed {
		w.log = append(w.log, "Send after CloseAndRecv -> error")

		return status.Error(codes.Internal, "vc16: SendMsg called after CloseSend")
	}

	if s.broken != nil {
		w.log = append(w.log, "Send on a broken stream -> io.EOF")

		return io.EOF
	}

	if s.earlyOK || (s.a.Kind == vc16EarlyOK && len(s.msgs) == s.failAt && len(s.msgs) > 0) {
		if !s.earlyOK {
			w.log = append(w.log, fmt.Sprintf("Send #%d -> io.EOF (the server has finished the stream with OK)", len(s.msgs)))
			w.classes["server-finished-ok-before-all-was-sent"] = true
			s.markFailed()
			if s.expect >= 5000 {
				w.classes["backend-answers-ok-before-reading-the-whole-large-batch"] = true
			}
		}

		s.earlyOK = true

		return io.EOF
	}

	if len(s.msgs) == s.midAt {
		s.mid()
	}

	if err = s.ctxFailed(fmt.Sprintf("Send #%d", len(s.msgs))); err != nil {
		return err
	}

	if s.a.Kind == vc16SendErr && len(s.msgs) == s.failAt {
		if s.failAt == 0 {
			w.classes["send-error-first"] = true
		} else {
			w.classes["send-error-later"] = true
		}

		s.markFailed()
		s.broken = vc16Err(s.a.ErrKind)
		if s.a.ErrKind == vc16ErrKindEOF {
			// The documented form of a server-side failure: Send reports
			// io.EOF, the status comes from CloseAndRecv.
			w.log = append(w.log, fmt.Sprintf("Send #%d -> io.EOF", len(s.msgs)))
			w.classes["send-error-eof"] = true

			return io.EOF
		}

		w.log = append(w.log, fmt.Sprintf("Send #%d -> error", len(s.msgs)))

		return s.broken
	}

	// As the real client does: a message that cannot be marshaled fails the
	// Send with a client-side error and aborts the stream.
	if _, merr := proto.Marshal(m); merr != nil {
		w.log = append(w.log, fmt.Sprintf("Send {dev=%q ctry=%q} -> marshal error", m.DeviceId, m.ClientCountry))
		w.classes["send-marshal-error"] = true
		s.markFailed()
		s.broken = status.Errorf(codes.Internal, "grpc: error while marshaling: %v", merr)

		return s.broken
	}

	if len(s.msgs) < 6 {
		w.log = append(w.log, fmt.Sprintf("Send {dev=%s q=%d t=%s %q as%d p%d}", m.DeviceId, m.Queries,
			m.LastActivityTime.AsTime().Sub(vc16Base), m.ClientCountry, m.Asn, m.Proto))
	} else if len(s.msgs) == 6 {
		w.log = append(w.log, "Send ... (further messages of this stream not listed)")
	}

	s.msgs = append(s.msgs, m)

	return nil
}

func (s *vc16Stream) CloseAndRecv() (e *emptypb.Empty, err error) {
	w := s.w
	if s.closed {
		w.log = append(w.log, "second CloseAndRecv -> error")

		return nil, status.Error(codes.Internal, "vc16: stream already finished")
	}

	s.closed = true
	if s.broken != nil {
		w.log = append(w.log, "CloseAndRecv on a broken stream -> error")

		return nil, s.broken
	}

	s.mid()
	if err = s.ctxFailed("CloseAndRecv"); err != nil {
		return nil, err
	}

	if s.a.Kind == vc16CloseErr || (s.a.Kind == vc16SendErr && len(s.msgs) <= s.failAt) ||
		(s.a.failIfWhole && len(s.msgs) >= s.expect) {
		// A send fault scripted beyond what the client sent is turned into a
		// failure of the whole stream.
		w.log = append(w.log, "CloseAndRecv -> error")
		w.classes["close-error"] = true
		s.markFailed()

		return nil, vc16Err(s.a.ErrKind)
	}

	w.log = append(w.log, fmt.Sprintf("CloseAndRecv -> ok (%d messages accepted)", len(s.msgs)))
	w.classes["success"] = true

	seen := map[string]bool{}
	for _, m := range s.msgs {
		d := agd.DeviceID(m.DeviceId)
		if seen[m.DeviceId] {
			w.fatalf("device %s sent twice in one upload", d)
		}

		seen[m.DeviceId] = true
		want, ok := s.lastAtOpen[d]
		if !ok {
			w.fatalf("upload names device %q, which was never recorded", d)
		}

		if m.Queries == 0 {
			continue
		}

		if !m.LastActivityTime.AsTime().Equal(want.Time) || m.ClientCountry != string(want.Ctry) ||
			m.Asn != uint32(want.ASN) || m.Proto != uint32(want.Proto) {
			w.fatalf("upload for %s reports {t=%s %q as%d p%d}, but its most recent query when the upload started was %s",
				d, m.LastActivityTime.AsTime().Sub(vc16Base), m.ClientCountry, m.Asn, m.Proto, want)
		}

		w.delivered[d] += int64(m.Queries)
		if w.delivered[d] > w.recorded[d] {
			w.fatalf("device %s: %d queries delivered in successful uploads, only %d recorded (double count)", d, w.delivered[d], w.recorded[d])
		}

		if w.failedSeen[d] && w.recAfterFail[d] {
			w.nontrivial = true
			w.classes["fail-then-record-then-success"] = true
		}

		w.failedSeen[d] = false
		w.recAfterFail[d] = false
	}

	return &emptypb.Empty{}, nil
}

func (w *vc16World) refresh(a *vc16Attempt) {
	ctx := w.ctx
	txt := ""
	switch a.Ctx {
	case vc16CtxCancelled:
		var cancel context.CancelFunc
		ctx, cancel = context.WithCancel(ctx)
		cancel()
		txt = " [ctx already cancelled]"
	case vc16CtxExpired:
		var cancel context.CancelFunc
		ctx, cancel = context.WithDeadline(ctx, vc16Base)
		defer cancel()
		txt = " [ctx already past its deadline]"
	case vc16CtxCancelMid:
		ctx, a.cancel = context.WithCancel(ctx)
		defer a.cancel()
		txt = " [ctx to be cancelled mid-stream]"
	case vc16CtxWorker:
		var cancel context.CancelFunc
		ctx, cancel = context.WithTimeout(slogutil.ContextWithLogger(ctx, slogutil.NewDiscardLogger()), 24*time.Hour)
		defer cancel()
	}

	if a.Ctx == vc16CtxCancelled || a.Ctx == vc16CtxExpired {
		// Undelivered queries are what a conserving recorder holds now.
		for d := range w.recorded {
			if w.recorded[d] > w.delivered[d] {
				w.classes["refresh-with-done-context-nonempty"] = true
			}
		}
	}

	w.next = a
	before := w.streams
	err := w.r.Refresh(ctx)
	w.next = nil
	w.log = append(w.log, fmt.Sprintf("Refresh%s -> err=%v (streams opened: %d)", txt, err != nil, w.streams-before))
}

func vc16DrawRec(t *rapid.T, nDev int) (rc vc16Rec) {
	defer func() {
		// Rarely a country string that is not valid UTF-8.
		if rapid.IntRange(0, 40).Draw(t, "badCountry") == 23 {
			rc.Meta.Ctry = vc16BadCtry
		}
	}()

	return vc16Rec{
		Dev: rapid.IntRange(0, nDev-1).Draw(t, "dev"),
		Meta: vc16Meta{
			Ctry:  rapid.SampledFrom(vc16Ctrys).Draw(t, "ctry"),
			ASN:   geoip.ASN(rapid.OneOf(rapid.SampledFrom([]uint32{0, 1, 42, 65535, 4294967295}), rapid.Uint32()).Draw(t, "asn")),
			Proto: rapid.SampledFrom(vc16Protos).Draw(t, "proto"),
		},
		Near:    rapid.SampledFrom([]int{0, 0, 1, 2, 3, 4, 0}).Draw(t, "near"),
		DoneCtx: rapid.IntRange(0, 5).Draw(t, "recDoneCtx") == 3,
		T:       rapid.SampledFrom([]int{6, 2, 9, 6, 0, 12, 4, 7, 1, 10, 3, 5, 8, 11}).Draw(t, "startTime"),
	}
}

func TestVerifC16Wire(t *testing.T) {
	st := vstat.New("C16", "backendpb.wire",
		"rapid histories through RuntimeRecorder -> real backendpb.BillStat -> scripted gRPC client stream: 1..40 devices, in about one case in 60 one round records a query for each of 4095 | 4096 | 4097 | 5000 | 8200 | 12300 devices; the scripted fault applies to the 1st | 2nd | 3rd stream of an upload (other streams succeed), or to the 2nd stream if the uploader opens one and else to the only one; delivered = what was sent on streams whose CloseAndRecv succeeded; per round 0..4 records, then a Refresh (context live | already cancelled | already past its deadline | cancelled mid-stream) whose stream succeeds | fails to open | fails in Send at a drawn position | fails in CloseAndRecv, optionally with records arriving mid-stream; ends with a successful flush; non-trivial = a failed stream holding device d, a later Record(d), then a successful stream holding d; distinct by (devices, fault kinds, placement)",
		"fail-then-record-then-success", "open-error", "send-error-first", "send-error-later", "close-error", "record-mid-stream",
		"refresh-with-done-context-nonempty", "open-error-done-context", "stream-cancelled-in-flight",
		"send-error-eof", "near-miss-one-field", "unknown-location-after-known", "record-with-done-context",
		"recorded-during-failed-upload-with-earlier-start-time", "recorded-during-failed-upload-with-equal-start-time", "recorded-during-failed-upload-with-later-start-time",
		"batch-over-4096-devices", "batch-over-4096-devices-with-fault-on-later-rpc",
		"record-with-invalid-utf8-in-batch", "never-deliverable-batch-stays-held", "server-finished-ok-before-all-was-sent")
	st.Finish(t)

	rapid.Check(t, func(t *rapid.T) {
		w := &vc16World{
			t:            t,
			ctx:          context.Background(),
			recorded:     map[agd.DeviceID]int64{},
			delivered:    map[agd.DeviceID]int64{},
			last:         map[agd.DeviceID]vc16Meta{},
			failedSeen:   map[agd.DeviceID]bool{},
			recAfterFail: map[agd.DeviceID]bool{},
			classes:      map[string]bool{},
		}

		sw := &vc16Switch{}
		upl := &BillStat{
			logger:      slogutil.NewDiscardLogger(),
			errColl:     vc16ErrColl{},
			grpcMetrics: EmptyGRPCMetrics{},
			client:      &vc16Client{w: w},
			apiKey:      rapid.SampledFrom([]string{"", "key"}).Draw(t, "apiKey"),
		}
		sw.real = upl

		w.r = billstat.NewRuntimeRecorder(&billstat.RuntimeRecorderConfig{
			Logger:   slogutil.NewDiscardLogger(),
			ErrColl:  vc16ErrColl{},
			Uploader: sw,
			Metrics:  billstat.EmptyMetrics{},
		})

		nDev := rapid.SampledFrom([]int{2, 1, 3, 4, 2, 7, 15, 40}).Draw(t, "nDev")
		nRounds := rapid.IntRange(1, 7).Draw(t, "rounds")
		if nDev > 1 && rapid.IntRange(0, 15).Draw(t, "badDevice") == 9 {
			w.badDev = nDev - 1
		}

		// Rarely, one round records a query for each of very many devices,
		// around and above 4096 per upload.
		big, bigRound := 0, -1
		if rapid.IntRange(0, 99).Draw(t, "bigBatch") == 57 {
			big = rapid.SampledFrom([]int{4097, 5000, 4096, 4095, 8200, 12300}).Draw(t, "bigDevices")
			nRounds = min(nRounds, 3)
			bigRound = rapid.IntRange(0, min(1, nRounds-1)).Draw(t, "bigRound")
		}

		key := &strings.Builder{}
		for i := 0; i < nRounds; i++ {
			if i == bigRound {
				w.recordBulk(big)
				fmt.Fprintf(key, "bulk%d ", big)
				w.classes[fmt.Sprintf("bulk-%d-devices", big)] = true
			}

			nPre := rapid.SampledFrom([]int{0, 1, 2, 2, 3, 4}).Draw(t, "nPre")
			for j := 0; j < nPre; j++ {
				rc := vc16DrawRec(t, nDev)
				fmt.Fprintf(key, "%d,", rc.Dev)
				w.record(&rc)
			}

			a := &vc16Attempt{
				Kind:    rapid.SampledFrom([]int{vc16OK, vc16OK, vc16OpenErr, vc16SendErr, vc16SendErr, vc16CloseErr, vc16EarlyOK}).Draw(t, "fault"),
				SendAt:  rapid.SampledFrom([]int{0, 0, 340, 500, 670, 999}).Draw(t, "sendAt"),
				ErrKind: rapid.IntRange(0, 4).Draw(t, "errKind"),
				MidAt:   rapid.SampledFrom([]int{0, 500, 999}).Draw(t, "midAt"),
				Ctx: []int{vc16CtxCancelled, vc16CtxExpired, vc16CtxCancelMid, vc16CtxCancelMid,
					vc16CtxLive, vc16CtxLive, vc16CtxLive, vc16CtxWorker, vc16CtxWorker, vc16CtxWorker}[rapid.IntRange(0, 9).Draw(t, "ctxMode")],
				FaultStream: rapid.SampledFrom([]int{1, 1, 2, 1, 3}).Draw(t, "faultStream"),
			}

			// The fault on the second stream of the upload if the uploader
			// opens one, on the only stream otherwise: mostly for the round
			// with the many devices.
			if lo := rapid.IntRange(0, 7).Draw(t, "laterOrOnly"); (i == bigRound && lo != 5) || lo == 3 {
				a.LaterOrOnly = true
			}

			nMid := rapid.SampledFrom([]int{0, 0, 1, 2}).Draw(t, "nMid")
			fmt.Fprintf(key, "%c%d%d@%d%t(", "SOXCE"[a.Kind], a.SendAt/250, a.Ctx, a.FaultStream, a.LaterOrOnly)
			for j := 0; j < nMid; j++ {
				rc := vc16DrawRec(t, nDev)
				fmt.Fprintf(key, "%d,", rc.Dev)
				a.Mid = append(a.Mid, rc)
			}

			key.WriteString(") ")
			w.refresh(a)

			for d := range w.recorded {
				if w.delivered[d] > w.recorded[d] {
					w.fatalf("device %s: delivered %d > recorded %d", d, w.delivered[d], w.recorded[d])
				}
			}
		}

		// Final successful flushes until the recorder has nothing left to send
		// (no stream is opened for an empty set) or, with a record that cannot
		// be marshaled, a few attempts; then what is still held is observed
		// and the conservation equation is checked exactly.
		for i := 0; i < 8; i++ {
			before := w.streams
			w.refresh(&vc16Attempt{Kind: vc16OK})
			if w.streams == before {
				break
			}

			stuck := false
			for d := range w.recorded {
				stuck = stuck || (w.recorded[d] > w.delivered[d] && w.unmarshalable(d))
			}

			if stuck && i >= 1 {
				w.classes["never-deliverable-batch-stays-held"] = true

				break
			}
		}

		w.checkHeld(w.drainHeld(sw), nil)

		cl := []string{}
		for c := range w.classes {
			cl = append(cl, c)
		}

		nt := ""
		if w.nontrivial {
			nt = key.String()
		}

		st.Case(nt, cl...)
		if nt != "" && st.WantSample() {
			st.Sample(map[string]any{"history": w.log})
		}
	})
}
