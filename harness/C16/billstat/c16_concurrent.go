//go:build verif

package billstat

// C16 (c): real goroutines record while uploads are in flight; conservation is
// checked at quiescence, last-writer metadata where the schedule leaves it
// determined.  Built with -race.  Schedules are sampled, not owned: every
// verdict is taken either under the uploader's own mutex or after all
// goroutines have been joined, never from timing.

import (
	"context"
	"fmt"
	"runtime"
	"strings"
	"sync"
	"sync/atomic"
	"testing"
	"time"

	"github.com/AdguardTeam/AdGuardDNS/internal/agd"
	"github.com/AdguardTeam/AdGuardDNS/internal/geoip"
	"github.com/AdguardTeam/golibs/logutil/slogutil"
	"pgregory.net/rapid"
	"verif.local/harness/vstat"
)

const vc16Shared agd.DeviceID = "devshared"

func vc16OwnDev(g int) agd.DeviceID { return agd.DeviceID(fmt.Sprintf("devown%02d", g)) }

// vc16ConcMeta is the metadata of the k-th (1-based) record of goroutine g.
// The ASN encodes (g, k), every other field is a function of it, so a record
// that mixes fields of two calls is detected.
func vc16ConcMeta(g, k int) (m vc16Meta) {
	return vc16Meta{
		N: k,
		// Not monotone in k: the start time of a query says nothing about
		// when it is recorded.  (k*37)%50 repeats, so equal times occur too.
		Time:  vc16Base.Add(time.Duration(g)*1000*time.Hour + time.Duration((k*37)%50)*time.Second),
		Ctry:  vc16Ctrys[(g+k)%len(vc16Ctrys)],
		ASN:   geoip.ASN(g*1_000_000 + k),
		Proto: vc16Protos[(g*3+k)%len(vc16Protos)],
	}
}

type vc16ConcUploader struct {
	mu sync.Mutex

	outcomes []bool // true = fail; cycled
	yields   int
	calls    int

	inflight  atomic.Int32
	recordsN  *atomic.Int64
	progress  []atomic.Int64 // per recorder: number of its Record calls that have returned
	strictOwn bool           // single refresher: owned devices have a determined last writer

	delivered map[agd.DeviceID]int64
	errs      []string
	classes   map[string]bool

	// plan[g][k-1] reports whether record k of goroutine g goes to the shared
	// device.
	plan [][]bool
}

func (u *vc16ConcUploader) errf(format string, args ...any) {
	u.errs = append(u.errs, fmt.Sprintf(format, args...))
}

// checkTuple checks that rec carries the untorn metadata of a query that was
// really made for device d; it returns the (g, k) of that query.
func (u *vc16ConcUploader) checkTuple(where string, d agd.DeviceID, rec *Record) (g, k int, ok bool) {
	g, k = int(rec.ASN)/1_000_000, int(rec.ASN)%1_000_000
	if g >= len(u.plan) || k < 1 || k > len(u.plan[g]) {
		u.errf("%s: device %s carries %s: no such query", where, d, vc16RecStr(rec))

		return 0, 0, false
	}

	if m := vc16ConcMeta(g, k); !m.is(rec) {
		u.errf("%s: device %s carries %s, which mixes the fields of different queries (query g=%d k=%d is %s)", where, d, vc16RecStr(rec), g, k, m)

		return 0, 0, false
	}

	want := vc16OwnDev(g)
	if u.plan[g][k-1] {
		want = vc16Shared
	}

	if want != d {
		u.errf("%s: device %s carries the metadata of a query of device %s", where, d, want)

		return 0, 0, false
	}

	return g, k, true
}

// ownIndex is the number of records of goroutine g's own device among its
// first k records.
func (u *vc16ConcUploader) ownIndex(g, k int) (n int64) {
	for _, shared := range u.plan[g][:k] {
		if !shared {
			n++
		}
	}

	return n
}

// Upload implements the Uploader interface for *vc16ConcUploader.
func (u *vc16ConcUploader) Upload(ctx context.Context, records Records) (err error) {
	nIn := u.inflight.Add(1)
	defer u.inflight.Add(-1)

	recBefore := u.recordsN.Load()

	u.mu.Lock()
	fail := u.outcomes[u.calls%len(u.outcomes)]
	u.calls++
	if ctx.Err() != nil {
		// A done context fails the upload whatever the script says.
		fail = true
		if len(records) > 0 {
			u.classes["upload-with-done-context-nonempty"] = true
		}
	}
	if nIn > 1 {
		u.classes["overlapping-uploads"] = true
	}
	u.mu.Unlock()

	snap := vc16Copy(records)

	for i := 0; i < u.yields; i++ {
		runtime.Gosched()
	}

	landed := u.recordsN.Load() != recBefore

	u.mu.Lock()
	defer u.mu.Unlock()

	if !vc16SameSnap(records, snap) {
		u.errf("the records handed to the uploader changed while the upload was in flight: at entry %s, at return %s",
			vc16MapStr(snap), vc16MapStr(vc16Copy(records)))
	}

	if landed && fail {
		u.classes["record-during-failed-upload"] = true
	} else if landed {
		u.classes["record-during-successful-upload"] = true
	}

	for d, rec := range snap {
		if rec.Queries < 0 {
			u.errf("upload: negative count for %s: %s", d, vc16RecStr(&rec))
		}

		if rec.Queries <= 0 {
			continue
		}

		g, k, ok := u.checkTuple("upload snapshot", d, &rec)
		if ok && u.strictOwn && d != vc16Shared {
			// All records 1..k of this device made so far are either
			// delivered or in this snapshot, and the most recent one is k.
			if got, want := u.delivered[d]+int64(rec.Queries), u.ownIndex(g, k); got != want {
				u.errf("upload snapshot: device %s: delivered %d + uploaded %d = %d queries, but the metadata is that of its query no. %d (%s): not the most recent one, or a count is off",
					d, u.delivered[d], rec.Queries, got, want, vc16RecStr(&rec))
			}

			if fail {
				// Coverage only: the device's last query recorded while this
				// failing upload was in flight, against the held one.
				for kk := int(u.progress[g].Load()); kk > k; kk-- {
					if u.plan[g][kk-1] {
						continue
					}

					switch held, now := vc16ConcMeta(g, k).Time, vc16ConcMeta(g, kk).Time; {
					case now.Before(held):
						u.classes["recorded-during-failed-upload-with-earlier-start-time"] = true
					case now.Equal(held):
						u.classes["recorded-during-failed-upload-with-equal-start-time"] = true
					default:
						u.classes["recorded-during-failed-upload-with-later-start-time"] = true
					}

					break
				}
			}
		}
	}

	if fail {
		return vc16ErrUpload
	}

	for d, rec := range snap {
		u.delivered[d] += int64(rec.Queries)
	}

	return nil
}

func TestVerifC16Concurrent(t *testing.T) {
	st := vstat.New("C16", "billstat.concurrent",
		"rapid-drawn workloads on real goroutines under -race: 2..4 recorders (each with an own device plus one shared device), one refresher (sometimes two, overlapping) looping Refresh (every k-th call with an already-cancelled context) against an uploader with a cyclic S/F script that yields while in flight; conservation at quiescence, untorn metadata always, exact last-writer (recording order) metadata for single-writer devices, whose start times are not monotone in recording order; non-trivial = some Record landed while a failing upload was in flight; distinct by workload shape",
		"record-during-failed-upload", "record-during-successful-upload", "overlapping-uploads", "upload-with-done-context-nonempty",
		"recorded-during-failed-upload-with-earlier-start-time", "recorded-during-failed-upload-with-later-start-time")
	st.Finish(t)

	rapid.Check(t, func(t *rapid.T) {
		nG := rapid.IntRange(2, 4).Draw(t, "recorders")
		plan := make([][]bool, nG)
		pause := make([]int, nG)
		total := map[agd.DeviceID]int64{}
		for g := range plan {
			n := rapid.IntRange(20, 200).Draw(t, "nRecords")
			mask := rapid.Uint64().Draw(t, "sharedMask")
			plan[g] = make([]bool, n)
			for k := range plan[g] {
				plan[g][k] = mask&(1<<(k%64)) != 0
				if plan[g][k] {
					total[vc16Shared]++
				} else {
					total[vc16OwnDev(g)]++
				}
			}

			pause[g] = rapid.IntRange(1, 8).Draw(t, "yieldEvery")
		}

		outcomes := rapid.SliceOfN(rapid.Bool(), 1, 6).Draw(t, "outcomes")
		yields := rapid.IntRange(0, 40).Draw(t, "uploadYields")
		two := rapid.IntRange(0, 2).Draw(t, "secondRefresher") == 0
		minRefr := rapid.IntRange(2, 8).Draw(t, "minRefreshes")
		gap := rapid.IntRange(0, 10).Draw(t, "refreshGap")
		// Every doneEvery-th Refresh gets an already-cancelled context.
		doneEvery := rapid.SampledFrom([]int{0, 2, 3, 5}).Draw(t, "doneCtxEvery")
		doneCtx, cancelDone := context.WithCancel(context.Background())
		cancelDone()

		recordsN := &atomic.Int64{}
		up := &vc16ConcUploader{
			outcomes:  outcomes,
			yields:    yields,
			recordsN:  recordsN,
			progress:  make([]atomic.Int64, nG),
			strictOwn: !two,
			delivered: map[agd.DeviceID]int64{},
			classes:   map[string]bool{},
			plan:      plan,
		}

		r := NewRuntimeRecorder(&RuntimeRecorderConfig{
			Logger:   slogutil.NewDiscardLogger(),
			ErrColl:  vc16ErrColl{},
			Uploader: up,
			Metrics:  EmptyMetrics{},
		})

		ctx := context.Background()
		recWG, refWG := &sync.WaitGroup{}, &sync.WaitGroup{}
		done := &atomic.Bool{}
		start := make(chan struct{})

		for g := range plan {
			recWG.Add(1)
			go func() {
				defer recWG.Done()
				<-start
				for k := 1; k <= len(plan[g]); k++ {
					d := vc16OwnDev(g)
					if plan[g][k-1] {
						d = vc16Shared
					}

					m := vc16ConcMeta(g, k)
					r.Record(ctx, d, m.Ctry, m.ASN, m.Time, m.Proto)
					recordsN.Add(1)
					up.progress[g].Store(int64(k))
					if k%pause[g] == 0 {
						runtime.Gosched()
					}
				}
			}()
		}

		nRef := 1
		if two {
			nRef = 2
		}

		for i := 0; i < nRef; i++ {
			refWG.Add(1)
			go func() {
				defer refWG.Done()
				<-start
				for j := 0; j < 100_000 && (j < minRefr || !done.Load()); j++ {
					if doneEvery > 0 && j%doneEvery == doneEvery-1 {
						_ = r.Refresh(doneCtx)
					} else {
						_ = r.Refresh(ctx)
					}

					for y := 0; y < gap; y++ {
						runtime.Gosched()
					}
				}
			}()
		}

		close(start)
		recWG.Wait()
		done.Store(true)
		refWG.Wait()

		// Quiescence.
		check := func(where string) {
			r.mu.Lock()
			pend := vc16Copy(r.records)
			r.mu.Unlock()

			up.mu.Lock()
			defer up.mu.Unlock()

			for d, rec := range pend {
				if _, ok := total[d]; !ok && rec.Queries != 0 {
					up.errf("%s: pending record for unknown device %s: %s", where, d, vc16RecStr(&rec))
				}
			}

			for d, want := range total {
				p := pend[d]
				if got := up.delivered[d] + int64(p.Queries); got != want {
					up.errf("%s: conservation broken for %s: delivered %d + pending %d = %d, recorded %d", where, d, up.delivered[d], p.Queries, got, want)
				}

				if p.Queries <= 0 {
					continue
				}

				g, k, ok := up.checkTuple(where+" (pending)", d, &p)
				if ok && up.strictOwn && d != vc16Shared && up.ownIndex(g, k) != want {
					up.errf("%s: pending record of %s carries the metadata of its query no. %d of %d, not of the most recent one", where, d, up.ownIndex(g, k), want)
				}
			}
		}

		check("after all goroutines joined")

		// A final successful flush must deliver the remainder exactly once.
		up.mu.Lock()
		up.outcomes = []bool{false}
		up.yields = 0
		up.mu.Unlock()
		_ = r.Refresh(ctx)
		check("after the final successful flush")

		up.mu.Lock()
		errs := up.errs
		classes := up.classes
		calls := up.calls
		up.mu.Unlock()

		if len(errs) > 0 {
			t.Fatalf("workload recorders=%d records=%v outcomes(fail)=%v uploadYields=%d twoRefreshers=%t doneCtxEvery=%d uploads=%d:\n%s",
				nG, total, outcomes, yields, two, doneEvery, calls, strings.Join(errs[:min(len(errs), 6)], "\n"))
		}

		cl := []string{}
		for c := range classes {
			cl = append(cl, c)
		}

		if two {
			cl = append(cl, "two-refreshers")
		}

		if doneEvery > 0 {
			cl = append(cl, "refreshes-with-done-context")
		}

		nt := ""
		if classes["record-during-failed-upload"] {
			nt = fmt.Sprintf("%d/%v/%v/%d/%t/%d/%d", nG, total, outcomes, yields, two, gap, doneEvery)
		}

		st.Case(nt, cl...)
		if nt != "" && st.WantSample() {
			st.Sample(map[string]any{"recorders": nG, "records": total, "outcomes_fail": outcomes, "upload_yields": yields, "two_refreshers": two, "uploads": calls, "done_ctx_every": doneEvery})
		}
	})
}
