//go:build verif

package billstat

// C16: billing counts are conserved across failed and retried uploads; the
// metadata reported for a device is that of its most recent query.  See
// /verif/DESIGN.md, section 3, C16.
//
// The recorder under test is the real RuntimeRecorder.  The uploader is
// scripted: it succeeds or fails as the generated history says and, before it
// returns, performs the history's "during" operations re-entrantly (records
// that arrive while the upload is in flight and, rarely, a second overlapping
// Refresh).  This makes the in-flight race a deterministic part of the input.

import (
	"context"
	"errors"
	"fmt"
	"strings"
	"testing"
	"time"

	"github.com/AdguardTeam/AdGuardDNS/internal/agd"
	"github.com/AdguardTeam/AdGuardDNS/internal/geoip"
	"github.com/AdguardTeam/golibs/logutil/slogutil"
	"pgregory.net/rapid"
	"verif.local/harness/vstat"
)

var vc16ErrUpload = errors.New("vc16: scripted upload failure")

var (
	// The first two device IDs differ in letter case only.
	vc16Devs   = []agd.DeviceID{"dev0000a", "dev0000A", "dev0000b", "dev0000c"}
	vc16Ctrys  = []geoip.Country{geoip.CountryNone, geoip.CountryAD, geoip.CountryCY, geoip.CountryUS, "DE"}
	vc16Protos = []agd.Protocol{agd.ProtoDNS, agd.ProtoDoH, agd.ProtoDoQ, agd.ProtoDoT, agd.ProtoDNSCrypt}
	vc16Base   = time.Date(2024, 1, 2, 3, 4, 5, 0, time.UTC)
)

// vc16ErrColl is an error collector that drops everything.
type vc16ErrColl struct{}

func (vc16ErrColl) Collect(_ context.Context, _ error) {}

// vc16Meta is the metadata of one Record call.  N is the global sequence
// number of the call.  Time is the query's start time and is drawn
// independently of N: "most recent query" is the most recently RECORDED one
// (Record is called at the end of processing with the time the query arrived),
// which is what the unchanged Record and remergeRecords implement.
type vc16Meta struct {
	N     int
	Time  time.Time
	Ctry  geoip.Country
	ASN   geoip.ASN
	Proto agd.Protocol
}

func (m vc16Meta) is(r *Record) (ok bool) {
	return r.Time.Equal(m.Time) && r.Country == m.Ctry && r.ASN == m.ASN && r.Proto == m.Proto
}

func (m vc16Meta) String() string {
	return fmt.Sprintf("#%d{t=+%ds %q as%d p%d}", m.N, int(m.Time.Sub(vc16Base)/time.Second), m.Ctry, m.ASN, m.Proto)
}

func vc16RecStr(r *Record) string {
	if r == nil {
		return "<nil>"
	}

	return fmt.Sprintf("{q=%d t=+%ds %q as%d p%d}", r.Queries, int(r.Time.Sub(vc16Base)/time.Second), r.Country, r.ASN, r.Proto)
}

// ---------------------------------------------------------------------------
// history script

// Near-miss modes of a scripted Record call, relative to the device's
// previous query (ignored for the device's first query).
const (
	vc16NearNone    = iota // all fields as scripted
	vc16NearCtry           // only the country (and the time) differs from the previous query
	vc16NearASN            // only the ASN differs
	vc16NearProto          // only the protocol differs
	vc16NearUnknown        // location unknown as mainmw passes it: country "" and ASN 0 together
)

// vc16Rec is a scripted Record call.
type vc16Rec struct {
	Dev   int
	Ctry  geoip.Country
	ASN   geoip.ASN
	Proto agd.Protocol

	// T is the query's start time in seconds after vc16Base, drawn
	// independently of the recording order (earlier, equal, later).
	T int

	// Near is the near-miss mode.
	Near int

	// DoneCtx makes the call with an already-cancelled context, as mainmw
	// does when the request's context is done by the time it records.
	DoneCtx bool
}

// vc16Resolve applies the near-miss mode of rc to the previous metadata of
// the device and returns the fields to record and the class of the call.
func vc16Resolve(rc *vc16Rec, prev vc16Meta, hasPrev bool) (ctry geoip.Country, asn geoip.ASN, proto agd.Protocol, class string) {
	ctry, asn, proto = rc.Ctry, rc.ASN, rc.Proto
	switch {
	case rc.Near == vc16NearUnknown:
		ctry, asn = geoip.CountryNone, 0
		if hasPrev && (prev.Ctry != geoip.CountryNone || prev.ASN != 0) {
			class = "unknown-location-after-known"
		}
	case !hasPrev:
		// Nothing to be near to.
	case rc.Near == vc16NearCtry:
		asn, proto = prev.ASN, prev.Proto
		if ctry == prev.Ctry {
			ctry = vc16Ctrys[(vc16Index(vc16Ctrys, ctry)+1)%len(vc16Ctrys)]
		}

		class = "near-miss-one-field"
	case rc.Near == vc16NearASN:
		ctry, proto = prev.Ctry, prev.Proto
		if asn == prev.ASN {
			asn++
		}

		class = "near-miss-one-field"
	case rc.Near == vc16NearProto:
		ctry, asn = prev.Ctry, prev.ASN
		if proto == prev.Proto {
			proto = vc16Protos[(vc16Index(vc16Protos, proto)+1)%len(vc16Protos)]
		}

		class = "near-miss-one-field"
	}

	if class == "" && hasPrev && prev.Ctry == geoip.CountryNone && prev.ASN == 0 && (ctry != geoip.CountryNone || asn != 0) {
		class = "known-location-after-unknown"
	}

	return ctry, asn, proto, class
}

func vc16Index[T comparable](s []T, v T) (i int) {
	for i = range s {
		if s[i] == v {
			return i
		}
	}

	return 0
}

// vc16Op is an operation performed while an upload is in flight.
type vc16Op struct {
	Rec    *vc16Rec
	Nested *vc16Upload
}

// Context modes of one Refresh call.
const (
	vc16CtxLive         = iota // context stays live
	vc16CtxCancelled           // already cancelled when Refresh is called
	vc16CtxExpired             // already past its deadline when Refresh is called
	vc16CtxCancelMid           // cancelled by the uploader while the upload is in flight
	vc16CtxLiveDeadline        // live, with a far deadline and a logger value, as the refresh worker passes it
)

// vc16Upload is the script of one Refresh and its upload attempt.  With a
// context that is already done the uploader, if it is called at all, returns
// the context's error when Fail is set and otherwise ignores the context and
// succeeds (both are legitimate uploaders).  With vc16CtxCancelMid the
// uploader cancels the context after the During operations and returns its
// error.
type vc16Upload struct {
	Fail   bool
	Ctx    int
	During []vc16Op

	cancel context.CancelFunc
}

func (u *vc16Upload) fails() bool { return u.Fail || u.Ctx == vc16CtxCancelMid }

// vc16Round is: some records, then one Refresh.
type vc16Round struct {
	Pre []vc16Rec
	Up  *vc16Upload
}

func vc16UploadKey(sb *strings.Builder, u *vc16Upload) {
	if u.Fail {
		sb.WriteByte('F')
	} else {
		sb.WriteByte('S')
	}

	if u.Ctx != vc16CtxLive {
		sb.WriteByte(byte('0' + u.Ctx))
	}

	if len(u.During) == 0 {
		return
	}

	sb.WriteByte('(')
	for _, op := range u.During {
		if op.Rec != nil {
			sb.WriteByte(byte('a' + op.Rec.Dev))
		} else {
			sb.WriteByte('[')
			vc16UploadKey(sb, op.Nested)
			sb.WriteByte(']')
		}
	}

	sb.WriteByte(')')
}

// vc16Key is the structural identity of a history: devices and outcomes, not
// the metadata values.
func vc16Key(rounds []vc16Round) string {
	sb := &strings.Builder{}
	for _, r := range rounds {
		for _, rc := range r.Pre {
			sb.WriteByte(byte('a' + rc.Dev))
		}

		vc16UploadKey(sb, r.Up)
		sb.WriteByte(' ')
	}

	return sb.String()
}

// ---------------------------------------------------------------------------
// runner and oracle

type vc16Fataler interface {
	Fatalf(format string, args ...any)
	FailNow()
}

type vc16Flight struct {
	snap      map[agd.DeviceID]Record
	fail      bool
	recDuring map[agd.DeviceID]bool
}

type vc16Event struct {
	kind  byte // 'r' record, 'b' upload begin, 'e' upload end, 'R' refresh returned
	depth int
	dev   agd.DeviceID
	meta  vc16Meta
	fail  bool
	text  string
	snap  map[agd.DeviceID]Record
}

type vc16Run struct {
	t   vc16Fataler
	r   *RuntimeRecorder
	ctx context.Context

	n         int
	recorded  map[agd.DeviceID]int64
	delivered map[agd.DeviceID]int64
	last      map[agd.DeviceID]vc16Meta
	hist      map[agd.DeviceID][]vc16Meta

	inflight []*vc16Flight
	next     *vc16Upload

	// overlap is set once a second Refresh has started while another upload
	// was in flight.  From then on metadata is only required to be the
	// untorn metadata of some query of that device, see checkMeta.
	overlap bool

	events []vc16Event

	// classification
	failedSeen   map[agd.DeviceID]bool
	recAfterFail map[agd.DeviceID]bool
	classes      map[string]bool
	nontrivial   bool
	failStreak   int
	maxStreak    int
}

func vc16NewRun(t vc16Fataler) (x *vc16Run) {
	x = &vc16Run{
		t:            t,
		ctx:          context.Background(),
		recorded:     map[agd.DeviceID]int64{},
		delivered:    map[agd.DeviceID]int64{},
		last:         map[agd.DeviceID]vc16Meta{},
		hist:         map[agd.DeviceID][]vc16Meta{},
		failedSeen:   map[agd.DeviceID]bool{},
		recAfterFail: map[agd.DeviceID]bool{},
		classes:      map[string]bool{},
	}

	x.r = NewRuntimeRecorder(&RuntimeRecorderConfig{
		Logger:   slogutil.NewDiscardLogger(),
		ErrColl:  vc16ErrColl{},
		Uploader: x,
		Metrics:  EmptyMetrics{},
	})

	return x
}

func (x *vc16Run) history() string {
	sb := &strings.Builder{}
	for i, e := range x.events {
		ind := strings.Repeat("  ", e.depth)
		switch e.kind {
		case 'r':
			fmt.Fprintf(sb, "%3d %sRecord(%s, %s)", i, ind, e.dev, e.meta)
			if e.fail {
				sb.WriteString(" [ctx already cancelled]")
			}

			sb.WriteByte('\n')
		case 'b':
			fmt.Fprintf(sb, "%3d %sUpload begins (scripted fail=%t) with %s\n", i, ind, e.fail, vc16MapStr(e.snap))
		case 'e':
			fmt.Fprintf(sb, "%3d %sUpload returns fail=%t\n", i, ind, e.fail)
		case 'R':
			fmt.Fprintf(sb, "%3d %sRefresh returned %s\n", i, ind, e.text)
		}
	}

	return sb.String()
}

func (x *vc16Run) fatalf(format string, args ...any) {
	x.t.Fatalf("%s\nhistory (real calls, in order):\n%smodel: recorded=%v delivered=%v pending(real)=%s",
		fmt.Sprintf(format, args...), x.history(), x.recorded, x.delivered, vc16MapStr(x.pending()))
}

func vc16MapStr(m map[agd.DeviceID]Record) string {
	sb := &strings.Builder{}
	sb.WriteByte('{')
	for _, d := range vc16Devs {
		if r, ok := m[d]; ok {
			fmt.Fprintf(sb, "%s:%s ", d, vc16RecStr(&r))
		}
	}

	for d, r := range m {
		known := false
		for _, k := range vc16Devs {
			known = known || k == d
		}

		if !known {
			fmt.Fprintf(sb, "%s:%s ", d, vc16RecStr(&r))
		}
	}

	sb.WriteByte('}')

	return sb.String()
}

func vc16Copy(records Records) (snap map[agd.DeviceID]Record) {
	snap = make(map[agd.DeviceID]Record, len(records))
	for d, r := range records {
		if r == nil {
			snap[d] = Record{}
		} else {
			snap[d] = *r
		}
	}

	return snap
}

func vc16SameSnap(records Records, snap map[agd.DeviceID]Record) bool {
	if len(records) != len(snap) {
		return false
	}

	for d, r := range records {
		s, ok := snap[d]
		if !ok {
			return false
		}

		if r == nil {
			if s != (Record{}) {
				return false
			}

			continue
		}

		if r.Queries != s.Queries || !r.Time.Equal(s.Time) || r.Country != s.Country || r.ASN != s.ASN || r.Proto != s.Proto {
			return false
		}
	}

	return true
}

// pending reads the recorder's pending set.  If the recorder's mutex is held
// while the harness runs on the only goroutine, the recorder keeps it locked
// across the upload and the re-entrant technique does not apply: inconclusive.
func (x *vc16Run) pending() (p map[agd.DeviceID]Record) {
	if !x.r.mu.TryLock() {
		fmt.Println("VERIF-INCONCLUSIVE: RuntimeRecorder holds its mutex while the uploader runs; re-entrant records would deadlock")
		x.t.FailNow()
	}
	defer x.r.mu.Unlock()

	return vc16Copy(x.r.records)
}

// checkMeta is the metadata clause.  Without overlapping refreshes, a record
// that is uploaded or pending must carry exactly the metadata of the most
// recent Record call for the device.  Once refreshes have overlapped the
// statement's "most recent" is only checked as: the untorn metadata of one of
// the device's queries.
func (x *vc16Run) checkMeta(where string, d agd.DeviceID, rec *Record) {
	last, ok := x.last[d]
	if !ok {
		x.fatalf("%s: device %s has %s but was never recorded", where, d, vc16RecStr(rec))
	}

	if last.is(rec) {
		return
	}

	if !x.overlap {
		x.fatalf("%s: device %s carries %s, but its most recent query is %s", where, d, vc16RecStr(rec), last)
	}

	for _, m := range x.hist[d] {
		if m.is(rec) {
			x.classes["overlap-older-metadata-seen"] = true

			return
		}
	}

	x.fatalf("%s: device %s carries %s, which is not the metadata of any of its queries", where, d, vc16RecStr(rec))
}

// checkInv is the conservation equation, per device:
//
//	delivered in successful uploads + pending + in flight = recorded
//
// (in flight is empty at every top-level step).
func (x *vc16Run) checkInv(where string) {
	pend := x.pending()
	for d, rec := range pend {
		if rec.Queries < 0 {
			x.fatalf("%s: negative pending count for %s: %s", where, d, vc16RecStr(&rec))
		}

		if _, ok := x.recorded[d]; !ok && rec.Queries != 0 {
			x.fatalf("%s: pending record for unknown device %s: %s", where, d, vc16RecStr(&rec))
		}
	}

	for d, want := range x.recorded {
		p := pend[d]
		got := x.delivered[d] + int64(p.Queries)
		for _, fl := range x.inflight {
			got += int64(fl.snap[d].Queries)
		}

		if got != want {
			fl := int64(0)
			for _, f := range x.inflight {
				fl += int64(f.snap[d].Queries)
			}

			x.fatalf("%s: conservation broken for %s: delivered %d + pending %d + in flight %d = %d, recorded %d",
				where, d, x.delivered[d], p.Queries, fl, got, want)
		}

		if p.Queries > 0 {
			x.checkMeta(where+" (pending)", d, &p)
		}
	}
}

func (x *vc16Run) record(rc *vc16Rec) {
	x.n++
	d := vc16Devs[rc.Dev]
	prev, hasPrev := x.last[d]
	ctry, asn, proto, class := vc16Resolve(rc, prev, hasPrev)
	if class != "" {
		x.classes[class] = true
	}

	// The start time is NOT monotone in recording order: Record is called
	// when a query has been processed, with the time it arrived.
	m := vc16Meta{N: x.n, Time: vc16Base.Add(time.Duration(rc.T) * time.Second), Ctry: ctry, ASN: asn, Proto: proto}
	x.events = append(x.events, vc16Event{kind: 'r', depth: len(x.inflight), dev: d, meta: m, fail: rc.DoneCtx})

	ctx := x.ctx
	if rc.DoneCtx {
		var cancel context.CancelFunc
		ctx, cancel = context.WithCancel(ctx)
		cancel()
		x.classes["record-with-done-context"] = true
	}

	x.r.Record(ctx, d, m.Ctry, m.ASN, m.Time, m.Proto)

	x.recorded[d]++
	x.last[d] = m
	x.hist[d] = append(x.hist[d], m)
	if x.failedSeen[d] {
		x.recAfterFail[d] = true
	}

	for _, fl := range x.inflight {
		if fl.snap[d].Queries > 0 {
			fl.recDuring[d] = true
			if fl.fail {
				switch held := fl.snap[d].Time; {
				case m.Time.Before(held):
					x.classes["recorded-during-failed-upload-with-earlier-start-time"] = true
				case m.Time.Equal(held):
					x.classes["recorded-during-failed-upload-with-equal-start-time"] = true
				default:
					x.classes["recorded-during-failed-upload-with-later-start-time"] = true
				}

				x.classes["record-during-failed-upload"] = true
			} else {
				x.classes["record-during-successful-upload"] = true
			}
		}
	}

	x.checkInv("after Record")
}

func (x *vc16Run) refresh(u *vc16Upload) {
	depth := len(x.inflight)
	if depth > 0 {
		x.overlap = true
		x.classes["overlapping-refresh"] = true
	}

	ctx := x.ctx
	ctxTxt := ""
	switch u.Ctx {
	case vc16CtxCancelled:
		var cancel context.CancelFunc
		ctx, cancel = context.WithCancel(ctx)
		cancel()
		ctxTxt = " [ctx already cancelled]"
	case vc16CtxExpired:
		var cancel context.CancelFunc
		ctx, cancel = context.WithDeadline(ctx, vc16Base)
		defer cancel()
		ctxTxt = " [ctx already past its deadline]"
	case vc16CtxCancelMid:
		ctx, u.cancel = context.WithCancel(ctx)
		defer u.cancel()
		ctxTxt = " [ctx cancelled by the uploader in flight]"
	case vc16CtxLiveDeadline:
		var cancel context.CancelFunc
		ctx, cancel = context.WithTimeout(slogutil.ContextWithLogger(ctx, slogutil.NewDiscardLogger()), 24*time.Hour)
		defer cancel()
		x.classes["refresh-with-worker-context"] = true
	}

	if u.Ctx == vc16CtxCancelled || u.Ctx == vc16CtxExpired {
		if ctx.Err() == nil {
			x.fatalf("harness: context is not done")
		}

		nonEmpty := false
		for _, rec := range x.pending() {
			nonEmpty = nonEmpty || rec.Queries > 0
		}

		if nonEmpty {
			x.classes["refresh-with-done-context-nonempty"] = true
			if u.Ctx == vc16CtxExpired {
				x.classes["refresh-with-expired-context-nonempty"] = true
			} else {
				x.classes["refresh-with-cancelled-context-nonempty"] = true
			}
		}
	}

	x.next = u
	err := x.r.Refresh(ctx)
	called := x.next == nil
	x.next = nil

	txt := "nil"
	if err != nil {
		txt = "error"
	}

	if !called {
		txt += " (uploader not called)"
		x.classes["refresh-without-upload-call"] = true
	}

	x.events = append(x.events, vc16Event{kind: 'R', depth: depth, text: txt + ctxTxt})
	x.checkInv("after Refresh")
}

// Upload implements the Uploader interface for *vc16Run.
func (x *vc16Run) Upload(ctx context.Context, records Records) (err error) {
	u := x.next
	x.next = nil
	if u == nil {
		// A call the history did not script (e.g. an internal retry): it
		// succeeds and does nothing else.
		u = &vc16Upload{}
		x.classes["unscripted-upload-call"] = true
	}

	snap := vc16Copy(records)
	depth := len(x.inflight)
	x.events = append(x.events, vc16Event{kind: 'b', depth: depth, fail: u.fails(), snap: snap})

	total := int64(0)
	for d, rec := range snap {
		if rec.Queries < 0 {
			x.fatalf("upload: negative count for %s: %s", d, vc16RecStr(&rec))
		}

		total += int64(rec.Queries)
		if rec.Queries > 0 {
			x.checkMeta("upload snapshot", d, &rec)
		}
	}

	if total == 0 {
		x.classes["empty-upload"] = true
	}

	fl := &vc16Flight{snap: snap, fail: u.fails(), recDuring: map[agd.DeviceID]bool{}}
	x.inflight = append(x.inflight, fl)
	x.checkInv("upload entry")

	for _, op := range u.During {
		if op.Rec != nil {
			x.record(op.Rec)
		} else {
			x.refresh(op.Nested)
		}
	}

	x.inflight = x.inflight[:len(x.inflight)-1]
	x.events = append(x.events, vc16Event{kind: 'e', depth: depth, fail: u.fails()})

	if !vc16SameSnap(records, snap) {
		x.fatalf("the records handed to the uploader changed while the upload was in flight: at entry %s, at return %s",
			vc16MapStr(snap), vc16MapStr(vc16Copy(records)))
	}

	if u.Ctx == vc16CtxCancelMid {
		u.cancel()
		if total > 0 {
			x.classes["cancelled-in-flight-nonempty"] = true
		}
	}

	if u.fails() {
		if total > 0 {
			x.failStreak++
			x.maxStreak = max(x.maxStreak, x.failStreak)
		}

		nInto, nRestore := 0, 0
		for d, rec := range snap {
			if rec.Queries == 0 {
				continue
			}

			x.failedSeen[d] = true
			if fl.recDuring[d] {
				x.recAfterFail[d] = true
				nInto++
			} else {
				nRestore++
			}
		}

		if nInto > 0 {
			x.classes["remerge-into-newer-record"] = true
		}

		if nRestore > 0 {
			x.classes["remerge-restores-record"] = true
		}

		if nInto > 0 && nRestore > 0 {
			x.classes["remerge-mixed"] = true
		}

		if cerr := ctx.Err(); cerr != nil {
			return fmt.Errorf("vc16: upload: %w", cerr)
		}

		return vc16ErrUpload
	}

	if total > 0 {
		x.failStreak = 0
	}

	for d, rec := range snap {
		x.delivered[d] += int64(rec.Queries)
		if rec.Queries > 0 {
			if x.failedSeen[d] && x.recAfterFail[d] {
				x.nontrivial = true
				x.classes["fail-then-record-then-success"] = true
			} else if x.failedSeen[d] {
				x.classes["fail-then-success-no-new-record"] = true
			}

			x.failedSeen[d] = false
			x.recAfterFail[d] = false
		}
	}

	return nil
}

func (x *vc16Run) play(rounds []vc16Round) {
	for i := range rounds {
		for j := range rounds[i].Pre {
			x.record(&rounds[i].Pre[j])
		}

		x.refresh(rounds[i].Up)
	}
}

func (x *vc16Run) classList() (cl []string) {
	for c := range x.classes {
		cl = append(cl, c)
	}

	if x.maxStreak >= 2 {
		cl = append(cl, "fail-streak>=2")
	}

	if x.maxStreak >= 3 {
		cl = append(cl, "fail-streak>=3")
	}

	return cl
}

// ---------------------------------------------------------------------------
// (a) rapid histories

// vc16Patterns are all S/F patterns of length 1..6 (true = fail).
var vc16Patterns = func() (ps [][]bool) {
	for l := 1; l <= 6; l++ {
		for bits := 0; bits < 1<<l; bits++ {
			p := make([]bool, l)
			for i := range p {
				p[i] = bits&(1<<i) != 0
			}

			ps = append(ps, p)
		}
	}

	return ps
}()

// vc16Times are the start times to draw from, in no particular order (rapid
// favours the first elements).
var vc16Times = []int{6, 2, 9, 6, 0, 12, 4, 7, 1, 10, 3, 5, 8, 11}

func vc16DrawRec(t *rapid.T, nDev int) (rc vc16Rec) {
	return vc16Rec{
		Dev:     rapid.IntRange(0, nDev-1).Draw(t, "dev"),
		Ctry:    rapid.SampledFrom(vc16Ctrys).Draw(t, "ctry"),
		ASN:     geoip.ASN(rapid.OneOf(rapid.SampledFrom([]uint32{0, 1, 42, 65535, 4294967295}), rapid.Uint32()).Draw(t, "asn")),
		Proto:   rapid.SampledFrom(vc16Protos).Draw(t, "proto"),
		T:       rapid.SampledFrom(vc16Times).Draw(t, "startTime"),
		Near:    rapid.SampledFrom([]int{vc16NearNone, vc16NearNone, vc16NearCtry, vc16NearASN, vc16NearProto, vc16NearUnknown, vc16NearNone}).Draw(t, "near"),
		DoneCtx: rapid.IntRange(0, 5).Draw(t, "recDoneCtx") == 3,
	}
}

func vc16DrawUpload(t *rapid.T, nDev int, fail bool, depth int) (u *vc16Upload) {
	u = &vc16Upload{Fail: fail}
	// 0..11: 7 in 12 live; rapid biases towards 0, so the rarer modes are
	// the low numbers.
	u.Ctx = []int{vc16CtxCancelled, vc16CtxExpired, vc16CtxCancelMid, vc16CtxCancelled, vc16CtxCancelMid,
		vc16CtxLive, vc16CtxLive, vc16CtxLive, vc16CtxLive, vc16CtxLiveDeadline, vc16CtxLiveDeadline, vc16CtxLiveDeadline}[rapid.IntRange(0, 11).Draw(t, "ctxMode")]
	n := rapid.SampledFrom([]int{0, 0, 1, 1, 2, 3}).Draw(t, "nDuring")
	for i := 0; i < n; i++ {
		if depth == 0 && rapid.IntRange(0, 39).Draw(t, "nested") == 23 {
			u.During = append(u.During, vc16Op{Nested: vc16DrawUpload(t, nDev, rapid.Bool().Draw(t, "nestedFail"), depth+1)})

			continue
		}

		rc := vc16DrawRec(t, nDev)
		u.During = append(u.During, vc16Op{Rec: &rc})
	}

	return u
}

func TestVerifC16History(t *testing.T) {
	st := vstat.New("C16", "billstat.history",
		"rapid histories: S/F pattern (all 126 patterns of length<=6 drawn by index, or random of length 7..10) x per Refresh a context mode (live | already cancelled | already past its deadline | cancelled by the uploader in flight) x per round 0..3 records (each: independent metadata | exactly one of country/ASN/protocol changed against the device's previous query | unknown location; sometimes with an already-cancelled context; two of the device IDs differ in letter case only) before and 0..3 operations (record | rare overlapping Refresh) performed re-entrantly inside the scripted Upload, 1..3 devices; conservation + last-writer metadata checked after every real call; non-trivial = a failed upload holding device d, then a Record(d) (during or after it), then a successful upload holding d; distinct by (devices, outcomes, placement)",
		"fail-then-record-then-success", "record-during-failed-upload", "remerge-into-newer-record",
		"remerge-restores-record", "remerge-mixed", "fail-streak>=2", "record-during-successful-upload", "overlapping-refresh",
		"refresh-with-done-context-nonempty", "refresh-with-cancelled-context-nonempty", "refresh-with-expired-context-nonempty", "cancelled-in-flight-nonempty",
		"near-miss-one-field", "unknown-location-after-known", "known-location-after-unknown", "record-with-done-context",
		"recorded-during-failed-upload-with-earlier-start-time", "recorded-during-failed-upload-with-equal-start-time", "recorded-during-failed-upload-with-later-start-time")
	st.Finish(t)

	seenPat := map[int]struct{}{}
	olderExample := ""
	rapid.Check(t, func(t *rapid.T) {
		nDev := rapid.IntRange(1, 3).Draw(t, "nDev")
		var pat []bool
		pi := -1
		if rapid.IntRange(0, 4).Draw(t, "longPattern") == 0 {
			pat = rapid.SliceOfN(rapid.Bool(), 7, 10).Draw(t, "pattern")
		} else {
			pi = rapid.IntRange(0, len(vc16Patterns)-1).Draw(t, "patternIdx")
			pat = vc16Patterns[pi]
		}

		rounds := make([]vc16Round, len(pat))
		for i, fail := range pat {
			nPre := rapid.SampledFrom([]int{0, 1, 1, 2, 3}).Draw(t, "nPre")
			for j := 0; j < nPre; j++ {
				rounds[i].Pre = append(rounds[i].Pre, vc16DrawRec(t, nDev))
			}

			rounds[i].Up = vc16DrawUpload(t, nDev, fail, 0)
		}

		x := vc16NewRun(t)
		x.play(rounds)

		if pi >= 0 {
			seenPat[pi] = struct{}{}
		}

		key := vc16Key(rounds)
		nt := ""
		if x.nontrivial {
			nt = key
		}

		if x.classes["overlap-older-metadata-seen"] && (olderExample == "" || len(key) < len(olderExample)) {
			olderExample = key
			st.Extra("shortest_history_where_overlapping_refreshes_left_older_metadata", key+" :: "+strings.ReplaceAll(x.history(), "\n", " | "))
		}

		cl := append(x.classList(), fmt.Sprintf("patlen-%d", min(len(pat), 7)))
		st.Case(nt, cl...)
		if x.nontrivial && st.WantSample() {
			st.Sample(map[string]any{"history": key, "recorded": x.recorded, "delivered": x.delivered})
		}
	})

	st.Extra("distinct_SF_patterns_len<=6_drawn_of_126", len(seenPat))
}

// ---------------------------------------------------------------------------
// (b) enumerated fault patterns

type vc16Slot struct {
	fail   bool
	ctx    int
	pre    []int
	during []int
}

func vc16Slots(pres, durings [][]int) (slots []vc16Slot) {
	for _, fail := range []bool{false, true} {
		for _, p := range pres {
			for _, d := range durings {
				slots = append(slots, vc16Slot{fail: fail, pre: p, during: d})
			}
		}
	}

	return slots
}

func vc16DetRec(dev, k int) (rc vc16Rec) {
	return vc16Rec{
		Dev: dev, Ctry: vc16Ctrys[k%len(vc16Ctrys)], ASN: geoip.ASN(1000 + k*7), Proto: vc16Protos[(k/2)%len(vc16Protos)],
		Near: (k + k/5) % 5, DoneCtx: k%7 == 3,
		// 5, 3, 1, 6, 4, 2, 0, 5, ... with every third one repeating its
		// predecessor: earlier, later and equal start times all occur.
		T: (5*(k-k%3/2) + 5) % 7,
	}
}

// vc16Enumerate runs every history of exactly l rounds over slots.
func vc16Enumerate(t *testing.T, st *vstat.Stats, slots []vc16Slot, l int) {
	shard, nShards := vstat.EnvInt("VERIF_SHARD", 0), max(1, vstat.EnvInt("VERIF_NSHARDS", 1))
	patLen := fmt.Sprintf("patlen-%d", l)
	idx := make([]int, l)
	for c := 0; ; c++ {
		if c%nShards != shard%nShards {
			if !vc16Next(idx, len(slots)) {
				return
			}

			continue
		}

		rounds := make([]vc16Round, l)
		k := 0
		for i, si := range idx {
			s := slots[si]
			for _, d := range s.pre {
				rounds[i].Pre = append(rounds[i].Pre, vc16DetRec(d, k))
				k++
			}

			rounds[i].Up = &vc16Upload{Fail: s.fail, Ctx: s.ctx}
			for _, d := range s.during {
				rc := vc16DetRec(d, k)
				k++
				rounds[i].Up.During = append(rounds[i].Up.During, vc16Op{Rec: &rc})
			}
		}

		x := vc16NewRun(t)
		x.play(rounds)

		nt := ""
		if x.nontrivial {
			nt = vc16Key(rounds)
		}

		st.Case(nt, append(x.classList(), patLen)...)

		if !vc16Next(idx, len(slots)) {
			return
		}
	}
}

// vc16Next advances the mixed-radix index vector; false after the last one.
func vc16Next(idx []int, base int) (ok bool) {
	for i := range idx {
		idx[i]++
		if idx[i] < base {
			return true
		}

		idx[i] = 0
	}

	return false
}

func TestVerifC16Patterns(t *testing.T) {
	st := vstat.New("C16", "billstat.patterns",
		"bounded-exhaustive: every S/F pattern of length<=6; per round every placement from a fixed set. Length<=3 (thorough: <=5): records before in {none,a,b,ab} x records during the upload in {none,a,b} (24 slots/round, full product). Length 4 (thorough: 6): before in {none,a,ab} x during in {none,a} (12 slots/round). Quick only, lengths 5..6: {a before | a during | ab before + b during} (6 slots/round). Context faults (Refresh with an already-cancelled or already-expired context, or a context the uploader cancels in flight) are added as 18 further slots/round for length<=3 and as 2 slots/round for lengths 4..5 in quick (length 4 in thorough). Non-trivial as in billstat.history",
		"fail-then-record-then-success", "record-during-failed-upload", "remerge-into-newer-record",
		"remerge-restores-record", "remerge-mixed", "fail-streak>=3", "patlen-6",
		"refresh-with-done-context-nonempty", "refresh-with-cancelled-context-nonempty", "refresh-with-expired-context-nonempty", "cancelled-in-flight-nonempty",
		"near-miss-one-field", "unknown-location-after-known", "known-location-after-unknown", "record-with-done-context",
		"recorded-during-failed-upload-with-earlier-start-time", "recorded-during-failed-upload-with-equal-start-time", "recorded-during-failed-upload-with-later-start-time")
	st.Finish(t)

	// Slot sets: full (24 per round), mid (12 per round), small (6 per round).
	full := vc16Slots([][]int{nil, {0}, {1}, {0, 1}}, [][]int{nil, {0}, {1}})
	mid := vc16Slots([][]int{nil, {0}, {0, 1}}, [][]int{nil, {0}})
	var small []vc16Slot
	for _, fail := range []bool{false, true} {
		small = append(small,
			vc16Slot{fail: fail, pre: []int{0}},
			vc16Slot{fail: fail, during: []int{0}},
			vc16Slot{fail: fail, pre: []int{0, 1}, during: []int{1}},
		)
	}

	// Context faults: Refresh with a context that is already cancelled (the
	// uploader, if called, returns its error), already expired (the uploader,
	// if called, ignores it and succeeds), or that the uploader cancels in
	// flight; each with the mid placements (18 slots), or two slots only.
	var ctxAll []vc16Slot
	for _, m := range mid[:len(mid)/2] {
		ctxAll = append(ctxAll,
			vc16Slot{fail: true, ctx: vc16CtxCancelled, pre: m.pre, during: m.during},
			vc16Slot{fail: false, ctx: vc16CtxExpired, pre: m.pre, during: m.during},
			vc16Slot{fail: true, ctx: vc16CtxCancelMid, pre: m.pre, during: m.during},
		)
	}

	ctxTwo := []vc16Slot{
		{fail: true, ctx: vc16CtxCancelled, pre: []int{0}},
		{fail: true, ctx: vc16CtxCancelMid, pre: []int{0}, during: []int{0}},
	}

	join := func(a, b []vc16Slot) (c []vc16Slot) { return append(append(c, a...), b...) }
	fullCtx, midCtx, smallCtx := join(full, ctxAll), join(mid, ctxTwo), join(small, ctxTwo)

	// quick: full+ctx (42) <=3, mid+2 (14) 4, small+2 (8) 5, small (6) 6;
	// thorough: full+ctx <=3, full+2 (26) 4, full 5, mid 6.
	sets := [][]vc16Slot{1: fullCtx, 2: fullCtx, 3: fullCtx, 4: midCtx, 5: smallCtx, 6: small}
	if vstat.Thorough() {
		sets = [][]vc16Slot{1: fullCtx, 2: fullCtx, 3: fullCtx, 4: join(full, ctxTwo), 5: full, 6: mid}
	}

	for l := 1; l <= 6; l++ {
		vc16Enumerate(t, st, sets[l], l)
	}

	st.SetExhaustive()
}
