//go:build verif

package cmd

// C16, configuration plumbing: where and how the billing statistics go.  A
// generated `backend:` section and the environment BILLSTAT_URL /
// BILLSTAT_API_KEY (next to a PROFILES_URL / PROFILES_API_KEY that must not be
// confused with them) are parsed and validated by the package's own code and
// taken through the builder's own steps (initGRPCMetrics, initBillStat,
// initProfileDB) against two loopback gRPC stand-ins.
//
// Behaviour: queries are recorded on the built recorder; a refresh run the
// way the builder's refresh worker runs it (with a context of the worker's own
// constructor) delivers exactly those devices to the BILLSTAT_URL stand-in --
// not to the profiles one -- with the billing key and a deadline of
// backend.timeout; queries recorded afterwards are delivered by the worker's
// shutdown.  `timeout: 0s` (documented to disable the timeout) is only exercised
// in a separate probe that judges nothing and records what it sees.
//
// The worker's period (backend.bill_stat_interval) is kept only inside a
// time.Ticker; it is read out of the runtime timer behind the ticker at an
// offset that is found and validated on tickers of known periods at run time
// (class worker-period-read; not judged if that validation fails).

import (
	"context"
	"fmt"
	"net"
	"net/netip"
	"os"
	"path/filepath"
	"sort"
	"strings"
	"sync"
	"testing"
	"time"
	"unsafe"

	"github.com/AdguardTeam/AdGuardDNS/internal/agd"
	"github.com/AdguardTeam/AdGuardDNS/internal/agdcache"
	"github.com/AdguardTeam/AdGuardDNS/internal/agdtest"
	"github.com/AdguardTeam/AdGuardDNS/internal/backendpb"
	"github.com/AdguardTeam/AdGuardDNS/internal/billstat"
	"github.com/AdguardTeam/AdGuardDNS/internal/debugsvc"
	"github.com/AdguardTeam/AdGuardDNS/internal/dnsmsg"
	"github.com/AdguardTeam/AdGuardDNS/internal/metrics"
	"github.com/AdguardTeam/golibs/logutil/slogutil"
	"github.com/AdguardTeam/golibs/netutil"
	"github.com/AdguardTeam/golibs/service"
	"github.com/prometheus/client_golang/prometheus"
	"google.golang.org/grpc"
	"google.golang.org/grpc/credentials/insecure"
	"google.golang.org/grpc/metadata"
	"google.golang.org/protobuf/types/known/emptypb"
	"pgregory.net/rapid"
	"verif.local/harness/vpeek"
	"verif.local/harness/vstat"
)

// vc16cmdSettings are the values written into the YAML text and the environment.
type vc16cmdSettings struct {
	Timeout, RefreshIvl, FullIvl, FullRetryIvl, BillStatIvl time.Duration
	SizeEstimate                                            string
	sizeEstimateBytes                                       uint64

	ProfilesURL, BillStatURL string
	ProfilesKey, BillStatKey string
	CachePath                string
	MaxRespSize              string
	maxRespSizeBytes         uint64
	ProfilesEnabled          bool

	// ZeroProbe marks the separate, unjudged probe with backend.timeout 0s.
	ZeroProbe bool
}

func (s *vc16cmdSettings) yaml() string {
	return fmt.Sprintf(`ratelimit:
    refuseany: true
    response_size_estimate: %s
    backoff_period: 10m
    backoff_duration: 30m
    backoff_count: 1000
    ipv4:
        count: 300
        interval: 10s
        subnet_key_len: 24
    ipv6:
        count: 301
        interval: 11s
        subnet_key_len: 48
    allowlist:
        list: []
        refresh_interval: 30s
        type: 'consul'
    connection_limit:
        enabled: false
        stop: 1000
        resume: 800
    quic:
        enabled: true
        max_streams_per_peer: 77
    tcp:
        enabled: true
        max_pipeline_count: 55
backend:
    timeout: %s
    refresh_interval: %s
    full_refresh_interval: %s
    full_refresh_retry_interval: %s
    bill_stat_interval: %s
`, s.SizeEstimate, s.Timeout, s.RefreshIvl, s.FullIvl, s.FullRetryIvl, s.BillStatIvl)
}

// env is the environment as doc/environment.md names it.
func (s *vc16cmdSettings) env() map[string]string {
	return map[string]string{
		"FILTER_INDEX_URL":       "http://127.0.0.1:9/filters.json",
		"PROFILES_URL":           s.ProfilesURL,
		"BILLSTAT_URL":           s.BillStatURL,
		"PROFILES_API_KEY":       s.ProfilesKey,
		"BILLSTAT_API_KEY":       s.BillStatKey,
		"PROFILES_CACHE_PATH":    s.CachePath,
		"PROFILES_MAX_RESP_SIZE": s.MaxRespSize,

		// The filters are not this check's subject.
		"ADULT_BLOCKING_ENABLED":      "0",
		"NEW_REG_DOMAINS_ENABLED":     "0",
		"SAFE_BROWSING_ENABLED":       "0",
		"BLOCKED_SERVICE_ENABLED":     "0",
		"GENERAL_SAFE_SEARCH_ENABLED": "0",
		"YOUTUBE_SAFE_SEARCH_ENABLED": "0",
	}
}

var vc16cmdEnvNames = []string{
	"ADULT_BLOCKING_URL", "BACKEND_RATELIMIT_URL", "BILLSTAT_URL", "BLOCKED_SERVICE_INDEX_URL", "CONSUL_ALLOWLIST_URL", "CONSUL_DNSCHECK_KV_URL",
	"CONSUL_DNSCHECK_SESSION_URL", "DNSCHECK_REMOTEKV_URL", "FILTER_INDEX_URL", "GENERAL_SAFE_SEARCH_URL", "LINKED_IP_TARGET_URL", "NEW_REG_DOMAINS_URL",
	"PROFILES_URL", "RULESTAT_URL", "SAFE_BROWSING_URL", "YOUTUBE_SAFE_SEARCH_URL", "BACKEND_RATELIMIT_API_KEY", "BILLSTAT_API_KEY", "CONFIG_PATH",
	"DNSCHECK_REMOTEKV_API_KEY", "FILTER_CACHE_PATH", "GEOIP_ASN_PATH", "GEOIP_COUNTRY_PATH", "PROFILES_API_KEY", "PROFILES_CACHE_PATH", "REDIS_ADDR",
	"REDIS_KEY_PREFIX", "QUERYLOG_PATH", "SSL_KEY_LOG_FILE", "SENTRY_DSN", "WEB_STATIC_DIR", "LISTEN_ADDR", "PROFILES_MAX_RESP_SIZE", "REDIS_IDLE_TIMEOUT",
	"DNSCHECK_CACHE_KV_SIZE", "REDIS_MAX_ACTIVE", "REDIS_MAX_IDLE", "LISTEN_PORT", "REDIS_PORT", "VERBOSE", "ADULT_BLOCKING_ENABLED", "LOG_TIMESTAMP",
	"NEW_REG_DOMAINS_ENABLED", "SAFE_BROWSING_ENABLED", "BLOCKED_SERVICE_ENABLED", "GENERAL_SAFE_SEARCH_ENABLED", "YOUTUBE_SAFE_SEARCH_ENABLED",
	"WEB_STATIC_DIR_ENABLED",
}

// vc16cmdWithEnv runs f with exactly the variables of set in the process
// environment and restores the environment afterwards.
func vc16cmdWithEnv(set map[string]string, f func()) {
	old := map[string]*string{}
	for _, n := range vc16cmdEnvNames {
		if v, ok := os.LookupEnv(n); ok {
			old[n] = &v
		} else {
			old[n] = nil
		}

		if v, ok := set[n]; ok {
			_ = os.Setenv(n, v)
		} else {
			_ = os.Unsetenv(n)
		}
	}

	defer func() {
		for n, v := range old {
			if v == nil {
				_ = os.Unsetenv(n)
			} else {
				_ = os.Setenv(n, *v)
			}
		}
	}()

	f()
}

// vc16cmdCall is one RPC as a stand-in backend saw it.
type vc16cmdCall struct {
	Auth        []string
	HasDeadline bool
	Remaining   time.Duration
	Devices     []string
}

// vc16cmdBackend is a loopback stand-in for the backend's DNS service.
type vc16cmdBackend struct {
	backendpb.UnimplementedDNSServiceServer

	name string
	url  string

	mu       sync.Mutex
	profiles []vc16cmdCall
	bills    []vc16cmdCall
}

func vc16cmdNewCall(ctx context.Context) (c vc16cmdCall) {
	md, _ := metadata.FromIncomingContext(ctx)
	c.Auth = md.Get("authorization")
	dl, ok := ctx.Deadline()
	c.HasDeadline = ok
	if ok {
		c.Remaining = time.Until(dl)
	}

	return c
}

func (b *vc16cmdBackend) GetDNSProfiles(_ *backendpb.DNSProfilesRequest, srv grpc.ServerStreamingServer[backendpb.DNSProfile]) (err error) {
	c := vc16cmdNewCall(srv.Context())
	b.mu.Lock()
	b.profiles = append(b.profiles, c)
	b.mu.Unlock()
	srv.SetTrailer(metadata.MD{"sync_time": []string{"1700000000000"}})

	return nil
}

func (b *vc16cmdBackend) SaveDevicesBillingStat(srv grpc.ClientStreamingServer[backendpb.DeviceBillingStat, emptypb.Empty]) (err error) {
	c := vc16cmdNewCall(srv.Context())
	for {
		rec, rerr := srv.Recv()
		if rerr != nil {
			break
		}

		c.Devices = append(c.Devices, rec.GetDeviceId())
	}

	sort.Strings(c.Devices)
	b.mu.Lock()
	b.bills = append(b.bills, c)
	b.mu.Unlock()

	return srv.SendAndClose(&emptypb.Empty{})
}

func (b *vc16cmdBackend) take() (profiles, bills []vc16cmdCall) {
	b.mu.Lock()
	defer b.mu.Unlock()

	profiles, bills = b.profiles, b.bills
	b.profiles, b.bills = nil, nil

	return profiles, bills
}

func vc16cmdStartBackend(tb testing.TB, name string) (b *vc16cmdBackend) {
	ln, err := net.Listen("tcp", "127.0.0.1:0")
	if err != nil {
		tb.Fatalf("fixture: listening on loopback: %v", err)
	}

	b = &vc16cmdBackend{name: name, url: "grpc://" + ln.Addr().String()}
	srv := grpc.NewServer(grpc.Creds(insecure.NewCredentials()))
	backendpb.RegisterDNSServiceServer(srv, b)
	go func() { _ = srv.Serve(ln) }()
	tb.Cleanup(srv.Stop)

	return b
}

// vc16cmdNotifier keeps the signal handler of a case away from the process's
// signals.
type vc16cmdNotifier struct{}

func (vc16cmdNotifier) Notify(chan<- os.Signal, ...os.Signal) {}
func (vc16cmdNotifier) Stop(chan<- os.Signal)                 {}

var (
	vc16cmdDurations = []time.Duration{20 * time.Second, 45 * time.Second, 70 * time.Second, 95 * time.Second, 2 * time.Minute, 150 * time.Second, 3 * time.Minute, 10 * time.Minute, time.Hour, 24 * time.Hour}
	vc16cmdSizes     = map[string]uint64{"512B": 512, "1KB": 1 << 10, "777B": 777, "2KB": 2 << 10, "8MB": 8 << 20, "16MB": 16 << 20, "64MB": 64 << 20, "33MB": 33 << 20}
)

// vc16cmdDraw draws the settings of one case.
func vc16cmdDraw(rt *rapid.T, profilesBackend, billStatBackend *vc16cmdBackend, dir string, caseNo int) (s *vc16cmdSettings) {
	d := rapid.Permutation(vc16cmdDurations).Draw(rt, "durations")
	s = &vc16cmdSettings{
		Timeout: d[0], RefreshIvl: d[1], FullIvl: d[2], FullRetryIvl: d[3], BillStatIvl: d[4],
		SizeEstimate:    rapid.SampledFrom([]string{"512B", "1KB", "777B", "2KB"}).Draw(rt, "sizeEstimate"),
		MaxRespSize:     rapid.SampledFrom([]string{"8MB", "16MB", "64MB", "33MB"}).Draw(rt, "maxRespSize"),
		ProfilesURL:     profilesBackend.url,
		BillStatURL:     billStatBackend.url,
		ProfilesEnabled: rapid.IntRange(0, 7).Draw(rt, "profilesEnabled") != 0,
	}
	if s.Timeout > 3*time.Minute {
		// Keep the timeout among the values that a deadline seen by the
		// backend can tell apart.
		s.Timeout = 35 * time.Second
	}

	if rapid.IntRange(0, 9).Draw(rt, "timeoutZeroProbe") == 0 {
		// "Set to `0s` to disable timeouts."  What the code does with it is
		// only recorded (a separate probe in which nothing is judged): it does
		// not bear on the property.
		s.Timeout, s.ZeroProbe, s.ProfilesEnabled = 0, true, true
	}

	s.sizeEstimateBytes, s.maxRespSizeBytes = vc16cmdSizes[s.SizeEstimate], vc16cmdSizes[s.MaxRespSize]
	keys := rapid.Permutation([]string{"key-alpha", "key-bravo", "key-charlie"}).Draw(rt, "apiKeys")
	s.ProfilesKey, s.BillStatKey = keys[0], keys[1]
	s.CachePath = filepath.Join(dir, fmt.Sprintf("profilecache%d.pb", caseNo))
	if rapid.IntRange(0, 3).Draw(rt, "noCacheFile") == 0 {
		// "If set to `none`, the profile caching is disabled."
		s.CachePath = "none"
	}

	return s
}

// vc16cmdWorker is a refresh worker the builder registered with its signal
// handler.
type vc16cmdWorker struct {
	svc            service.Interface
	refr           any
	context        func() (context.Context, context.CancelFunc)
	maxStartSleep  time.Duration
	refrOnShutdown bool
	stopped        bool

	// period is the period of the worker's ticker, if it could be read.
	period   time.Duration
	periodOK bool
}

var (
	vc16cmdTickerOnce sync.Once
	vc16cmdTickerOff  uintptr
	vc16cmdTickerOK   bool
)

// vc16cmdTickerPeriod reads the period of a ticker out of the runtime timer that
// lies behind it.  The offset is found, and the whole approach validated, on
// two tickers of known periods; if that fails, ok is false and nothing is
// judged.
func vc16cmdTickerPeriod(tk *time.Ticker) (d time.Duration, ok bool) {
	vc16cmdTickerOnce.Do(func() {
		const pa, pb = 12345 * time.Second, 777 * time.Hour
		a, b := time.NewTicker(pa), time.NewTicker(pb)
		defer a.Stop()
		defer b.Stop()

		for off := uintptr(16); off <= 88; off += 8 {
			va := *(*int64)(unsafe.Add(unsafe.Pointer(a), off))
			vb := *(*int64)(unsafe.Add(unsafe.Pointer(b), off))
			if va == int64(pa) && vb == int64(pb) {
				vc16cmdTickerOff, vc16cmdTickerOK = off, true

				return
			}
		}
	})

	if !vc16cmdTickerOK || tk == nil {
		return 0, false
	}

	return time.Duration(*(*int64)(unsafe.Add(unsafe.Pointer(tk), vc16cmdTickerOff))), true
}

// stop shuts the worker down once.
func (w *vc16cmdWorker) stop(ctx context.Context) (err error) {
	if w.stopped {
		return nil
	}

	w.stopped = true

	return w.svc.Shutdown(ctx)
}

// vc16cmdBuilt is what the builder's own steps made of one case.
type vc16cmdBuilt struct {
	conf    *configuration
	envs    *environment
	b       *builder
	workers []*vc16cmdWorker
	// t0 and t1 enclose the builder steps.
	t0, t1 time.Time
}

// shutdown stops the workers and closes what the case opened.
func (bt *vc16cmdBuilt) shutdown(ctx context.Context) {
	for _, w := range bt.workers {
		_ = w.stop(ctx)
	}
}

func vc16cmdInconclusive(t *testing.T, format string, args ...any) {
	msg := fmt.Sprintf(format, args...)
	fmt.Printf("VERIF-INCONCLUSIVE: %s\n", msg)
	t.Logf("VERIF-INCONCLUSIVE: %s", msg)
	t.FailNow()
}

// vc16cmdBuild parses the environment and the configuration with the package's own
// code and runs the builder's own backend steps (initGRPCMetrics,
// initBillStat, initProfileDB) against the loopback stand-ins.
func vc16cmdBuild(t *testing.T, rt *rapid.T, s *vc16cmdSettings, path string) (bt *vc16cmdBuilt, text string) {
	text = s.yaml()
	if err := os.WriteFile(path, []byte(text), 0o600); err != nil {
		rt.Fatalf("harness: %v", err)
	}

	conf, err := parseConfig(path)
	if err != nil {
		rt.Fatalf("the generated configuration was not parsed: %v\n%s", err, text)
	}

	for name, v := range map[string]validator{"ratelimit": conf.RateLimit, "backend": conf.Backend} {
		if verr := v.validate(); verr != nil {
			rt.Fatalf("a valid %s section was rejected: %v\n%s", name, verr, text)
		}
	}

	var envs *environment
	vc16cmdWithEnv(s.env(), func() { envs, err = parseEnvironment() })
	if err != nil {
		rt.Fatalf("a valid environment was rejected: %v\n%v", err, s.env())
	}

	if err = envs.validate(); err != nil {
		rt.Fatalf("a valid environment was rejected: %v\n%v", err, s.env())
	}

	if s.ProfilesEnabled {
		// What validateFromValidConfig checks when profiles are enabled.
		if errs := envs.validateProfilesURLs(nil); len(errs) > 0 {
			rt.Fatalf("a valid environment was rejected: %v\n%v", errs, s.env())
		}
	}

	logger := slogutil.NewDiscardLogger()
	errColl := agdtest.NewErrorCollector()
	errColl.OnCollect = func(context.Context, error) {}
	b := &builder{
		baseLogger:     logger,
		cacheManager:   agdcache.NewDefaultManager(),
		cloner:         dnsmsg.NewCloner(metrics.ClonerStat{}),
		conf:           conf,
		env:            envs,
		errColl:        errColl,
		logger:         logger,
		mtrcNamespace:  metrics.Namespace(),
		promRegisterer: prometheus.NewRegistry(),
		debugRefrs:     debugsvc.Refreshers{},
		sigHdlr: service.NewSignalHandler(&service.SignalHandlerConfig{
			SignalNotifier:  vc16cmdNotifier{},
			Logger:          logger,
			ShutdownTimeout: shutdownTimeout,
		}),
		// As builder.setServerGroupProperties leaves them for single-address
		// servers.
		profilesEnabled: s.ProfilesEnabled,
		bindSet:         netutil.SubnetSetFunc(netip.Addr.IsValid),
	}

	bt = &vc16cmdBuilt{conf: conf, envs: envs, b: b}
	ctx := context.Background()
	step := func(name string, f func() error) {
		defer func() {
			if v := recover(); v != nil {
				bt.collect(t)
				bt.shutdown(ctx)
				rt.Fatalf("%s panicked on a valid configuration: %v\n%s%v", name, v, text, s.env())
			}
		}()

		if serr := f(); serr != nil {
			bt.collect(t)
			bt.shutdown(ctx)
			rt.Fatalf("%s failed on a valid configuration: %v\n%s%v", name, serr, text, s.env())
		}
	}

	bt.t0 = time.Now()
	if s.ProfilesEnabled {
		step("builder.initGRPCMetrics", func() error { return b.initGRPCMetrics(ctx) })
	}

	step("builder.initBillStat", func() error { return b.initBillStat(ctx) })
	step("builder.initProfileDB", func() error { return b.initProfileDB(ctx) })
	bt.t1 = time.Now()
	bt.collect(t)

	return bt, text
}

// collect reads the refresh workers out of the builder's signal handler.
func (bt *vc16cmdBuilt) collect(t *testing.T) {
	bt.workers = nil
	svcs, err := vpeek.Get(bt.b.sigHdlr, "services")
	if err != nil {
		vc16cmdInconclusive(t, "the signal handler cannot be read: %v", err)
	}

	for i := range svcs.Len() {
		svc, _ := vpeek.Open(svcs.Index(i)).Interface().(service.Interface)
		w := &vc16cmdWorker{svc: svc}
		refr, e1 := vpeek.Get(svc, "refr")
		cons, e2 := vpeek.Get(svc, "context")
		sleep, e3 := vpeek.Get(svc, "maxStartSleep")
		onShutdown, e4 := vpeek.Get(svc, "refrOnShutdown")
		if e1 != nil || e2 != nil || e3 != nil || e4 != nil {
			vc16cmdInconclusive(t, "a refresh worker cannot be read: %v %v %v %v", e1, e2, e3, e4)
		}

		w.refr = refr.Interface()
		w.context, _ = cons.Interface().(func() (context.Context, context.CancelFunc))
		w.maxStartSleep = time.Duration(sleep.Int())
		w.refrOnShutdown = onShutdown.Bool()
		if tick, terr := vpeek.Get(svc, "tick"); terr == nil {
			tk, _ := tick.Interface().(*time.Ticker)
			w.period, w.periodOK = vc16cmdTickerPeriod(tk)
		}

		bt.workers = append(bt.workers, w)
	}
}

// worker returns the worker that refreshes refr.
func (bt *vc16cmdBuilt) worker(refr any) (w *vc16cmdWorker) {
	for _, c := range bt.workers {
		if c.refr == refr {
			return c
		}
	}

	return nil
}

// vc16cmdObsTimeoutZero: backend.timeout 0s is documented to disable timeouts; the
// billing worker's contexts are made with context.WithTimeout(0).  Recorded by
// a separate probe, never judged.
const vc16cmdObsTimeoutZero = "observation:backend-timeout-zero-expires-at-once"

func TestVerifC16CmdBackend(t *testing.T) {
	st := vstat.New("C16", "cmd.billstat-config",
		"rapid: a `backend:` YAML section with five pairwise different durations and the environment BILLSTAT_URL / PROFILES_URL (two loopback gRPC stand-ins) with two different API keys; profiles enabled or not -> parseConfig, parseEnvironment, validate, builder.initGRPCMetrics / initBillStat / initProfileDB; 1-3 devices recorded on the built recorder, one refresh with a context of the registered worker's own constructor, 1-2 more devices, worker shutdown; oracle: every recorded device arrives exactly once at the BILLSTAT_URL stand-in, with the billing key, the first upload with a deadline of backend.timeout (bounded by two clock readings); non-trivial = profiles enabled, distinct by settings and devices",
		"profiles-enabled", "profiles-disabled", "upload-reached-billstat-backend", "shutdown-upload-reached-billstat-backend", "deadline-seen-by-backend-told-timeout-from-intervals", "worker-period-read")
	st.Finish(t)

	profilesBackend, billStatBackend := vc16cmdStartBackend(t, "profiles"), vc16cmdStartBackend(t, "billstat")
	dir := t.TempDir()
	caseNo := 0
	ctx := context.Background()
	const slack = 100 * time.Millisecond

	rapid.Check(t, func(rt *rapid.T) {
		caseNo++
		s := vc16cmdDraw(rt, profilesBackend, billStatBackend, dir, caseNo)
		path := filepath.Join(dir, fmt.Sprintf("c%d.yaml", caseNo))
		defer func() { _ = os.Remove(path) }()
		defer func() {
			if s.CachePath != "none" {
				_ = os.Remove(s.CachePath)
			}
		}()

		bt, text := vc16cmdBuild(t, rt, s, path)
		defer bt.shutdown(ctx)

		b := bt.b
		profilesBackend.take()
		billStatBackend.take()
		fail := func(format string, args ...any) {
			rt.Fatalf("%s\n%s%v", fmt.Sprintf(format, args...), text, s.env())
		}

		if !s.ProfilesEnabled {
			if _, ok := b.billStat.(billstat.EmptyRecorder); !ok || len(bt.workers) != 0 {
				fail("profiles are disabled for all server groups, but the builder made a %T and %d refresh workers", b.billStat, len(bt.workers))
			}

			st.Case("", "profiles-disabled")

			return
		}

		classes := map[string]bool{"profiles-enabled": true}
		rec, ok := b.billStat.(*billstat.RuntimeRecorder)
		if !ok {
			fail("profiles are enabled, but the builder made a %T", b.billStat)
		}

		w := bt.worker(rec)
		if w == nil {
			fail("no refresh worker was registered for the billing recorder (%d workers)", len(bt.workers))
		}

		// "This is useful for items that should persist to disk or remote
		// storage before shutting down."
		if !w.refrOnShutdown {
			fail("the billing refresh worker does not upload on shutdown")
		}

		if s.ZeroProbe {
			// Unjudged: what backend.timeout 0s leads to.
			obs := []string{"timeout-zero-probe"}
			rec.Record(ctx, "zeroprb1", "US", 64500, time.Now(), agd.ProtoDNS)
			wctx, cancel := w.context()
			_ = rec.Refresh(wctx)
			cancel()
			if _, uploads := billStatBackend.take(); len(uploads) == 0 {
				obs = append(obs, vc16cmdObsTimeoutZero)
			}

			_ = w.stop(ctx)
			profilesBackend.take()
			billStatBackend.take()
			st.Case("", obs...)

			return
		}

		// "How often AdGuard DNS sends the billing statistics to the backend"
		if w.periodOK {
			classes["worker-period-read"] = true
			if w.period != s.BillStatIvl {
				fail("the billing refresh worker ticks every %s; backend.bill_stat_interval is %s", w.period, s.BillStatIvl)
			}
		}

		ids := rapid.Permutation([]string{"dev00001", "dev00002", "dev00003", "abcd1234", "zz"}).Draw(rt, "devices")
		n1 := rapid.IntRange(1, 3).Draw(rt, "firstBatch")
		n2 := rapid.IntRange(1, 2).Draw(rt, "secondBatch")
		record := func(batch []string) {
			for _, id := range batch {
				rec.Record(ctx, agd.DeviceID(id), "US", 64500, time.Now(), agd.ProtoDNS)
			}
		}
		sorted := func(batch []string) []string {
			out := append([]string(nil), batch...)
			sort.Strings(out)

			return out
		}

		first, second := ids[:n1], ids[n1:n1+n2]
		record(first)

		// As the refresh worker does on a tick.
		t0 := time.Now()
		wctx, cancel := w.context()
		refrErr := rec.Refresh(wctx)
		cancel()
		t1 := time.Now()

		_, pBills := profilesBackend.take()
		_, bBills := billStatBackend.take()
		if len(pBills) != 0 {
			fail("a billing upload went to the PROFILES_URL backend: %+v", pBills)
		}

		switch {
		case len(bBills) != 1 || refrErr != nil:
			fail("a refresh with the worker's context led to %d uploads at the BILLSTAT_URL backend and the error %v; one upload is due", len(bBills), refrErr)
		default:
			classes["upload-reached-billstat-backend"] = true
			c := bBills[0]
			if fmt.Sprint(c.Devices) != fmt.Sprint(sorted(first)) {
				fail("devices %v were recorded, the upload delivered %v", sorted(first), c.Devices)
			}

			if len(c.Auth) != 1 || c.Auth[0] != "Bearer "+s.BillStatKey {
				fail("the billing upload carried the authorization %q; BILLSTAT_API_KEY is %q", c.Auth, s.BillStatKey)
			}

			spent := t1.Sub(t0)
			switch {
			case !c.HasDeadline || c.Remaining > s.Timeout+slack || c.Remaining < s.Timeout-spent-slack:
				fail("backend.timeout is %s and the refresh took %s, but the billing upload arrived with a deadline %s away (set: %t)", s.Timeout, spent, c.Remaining, c.HasDeadline)
			default:
				classes["deadline-seen-by-backend-told-timeout-from-intervals"] = true
			}
		}

		// The rest goes out when the worker is shut down.
		record(second)
		want := sorted(second)

		if err := w.stop(ctx); err != nil {
			fail("shutting the billing refresh worker down: %v", err)
		}

		_, pBills = profilesBackend.take()
		_, bBills = billStatBackend.take()
		if len(pBills) != 0 || len(bBills) != 1 || fmt.Sprint(bBills[0].Devices) != fmt.Sprint(want) {
			fail("devices %v were held when the worker was shut down; the BILLSTAT_URL backend got %+v, the PROFILES_URL backend %+v", want, bBills, pBills)
		}

		if len(bBills[0].Auth) != 1 || bBills[0].Auth[0] != "Bearer "+s.BillStatKey {
			fail("the billing upload carried the authorization %q; BILLSTAT_API_KEY is %q", bBills[0].Auth, s.BillStatKey)
		}

		classes["shutdown-upload-reached-billstat-backend"] = true

		var cl []string
		for c := range classes {
			cl = append(cl, c)
		}

		sort.Strings(cl)
		st.Case(text+fmt.Sprint(s.env(), first, second), cl...)
		if st.WantSample() {
			st.Sample(map[string]any{"yaml": strings.Split(text, "\n")[29:], "env": s.env(), "devices": []any{first, second}, "classes": cl})
		}
	})
}
