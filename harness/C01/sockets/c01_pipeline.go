//go:build verif

package dnsserver_test

// C01, pipelined stream connection with a slow reader: the responses of the
// queries in flight on ONE TCP / DoT connection share the connection's write
// deadline.  While the client does not read, the answers pile up and a write
// blocks; at that moment another query of the same connection runs out of its
// request time-out and the server writes its SERVFAIL with the expired
// context.  That must not disturb the other answers: when the client finally
// reads, every in-time query has exactly one well-formed answer.

import (
	"context"
	"crypto/tls"
	"encoding/binary"
	"errors"
	"fmt"
	"io"
	"net"
	"strings"
	"sync/atomic"
	"testing"
	"time"

	"github.com/AdguardTeam/AdGuardDNS/internal/dnsserver"
	"github.com/AdguardTeam/AdGuardDNS/internal/dnsserver/dnsservertest"
	"github.com/miekg/dns"
	"pgregory.net/rapid"
	"verif.local/harness/vstat"
)

const (
	// vc01PipeSlow is the request time-out of the one slow query; all other
	// requests of the connection have a minute.
	vc01PipeSlow = 400 * time.Millisecond
	// vc01PipeStrings x 250 octets is the size of one big answer (about 50 KB).
	vc01PipeStrings = 200
)

// vc01PipeCtx gives the first request of its server a short time-out and all
// later ones a long one, so that only the slow query can expire.
type vc01PipeCtx struct{ n atomic.Int32 }

func (c *vc01PipeCtx) New() (context.Context, context.CancelFunc) {
	if c.n.Add(1) == 1 {
		return context.WithTimeout(context.Background(), vc01PipeSlow)
	}

	return context.WithTimeout(context.Background(), time.Minute)
}

func vc01PipeHandler() dnsserver.Handler {
	txts := make([]string, vc01PipeStrings)
	for i := range txts {
		txts[i] = strings.Repeat(string(rune('a'+i%26)), 250)
	}

	return dnsserver.HandlerFunc(func(ctx context.Context, rw dnsserver.ResponseWriter, req *dns.Msg) error {
		name := req.Question[0].Name
		if strings.HasPrefix(name, "slow-") {
			// A slow upstream: the handler gives up with the request time-out and
			// the server writes its SERVFAIL with the expired context.
			<-ctx.Done()

			return fmt.Errorf("upstream: %w", ctx.Err())
		}

		resp := (&dns.Msg{}).SetReply(req)
		resp.Answer = []dns.RR{&dns.TXT{Hdr: dns.RR_Header{Name: name, Rrtype: dns.TypeTXT, Class: dns.ClassINET, Ttl: 100}, Txt: txts}}

		return rw.WriteMsg(ctx, req, resp)
	})
}

func TestVerifC01PipelineSlowReader(t *testing.T) {
	st := vstat.New("C01", "sockets.pipeline-slow-reader",
		fmt.Sprintf("rapid (transport TCP / DoT, 100-160 pipelined queries with answers of about 50 KB each -- more than the socket buffers hold -- sent right after one query whose handler waits out its %s request time-out; the client reads nothing until that time-out has passed, then everything); a server of its own per case, whose first request has the short time-out and all others a minute, write time-out a minute; oracle: every in-time query gets exactly one well-formed answer with its ID, question and 200 TXT strings, the stream stays a sequence of frames, the slow query gets at most one answer (SERVFAIL); the client's own read deadline without a framing error is inconclusive; non-trivial = every case; distinct by (transport, number of queries)", vc01PipeSlow),
		"tcp:pipelined-answers-blocked-while-another-query-times-out", "dot:pipelined-answers-blocked-while-another-query-times-out")
	st.Finish(t)

	tlsConf := dnsservertest.CreateServerTLSConfig("example.org")
	h := vc01PipeHandler()
	rapid.Check(t, func(t *rapid.T) {
		if vc01Inconclusive {
			t.FailNow()
		}

		for _, tr := range []string{"tcp", "dot"} {
			nBig := rapid.IntRange(100, 160).Draw(t, "bigQueries")
			conf := dnsserver.ConfigDNS{
				ConfigBase: dnsserver.ConfigBase{
					Name: "test-" + tr, Addr: "127.0.0.1:0", Handler: h, Network: dnsserver.NetworkTCP,
					RequestContext: &vc01PipeCtx{},
				},
				WriteTimeout: time.Minute,
			}

			var srv dnsserver.Server
			if tr == "tcp" {
				srv = dnsserver.NewServerDNS(conf)
			} else {
				srv = dnsserver.NewServerTLS(dnsserver.ConfigTLS{ConfigDNS: conf, TLSConfig: tlsConf.Clone()})
			}

			if err := srv.Start(context.Background()); err != nil {
				fmt.Println("VERIF-INCONCLUSIVE: cannot start fixture:", err)
				vc01Inconclusive = true
				t.FailNow()
			}

			err := vc01PipeCase(tr, srv.LocalTCPAddr().String(), tlsConf, nBig)
			_ = srv.Shutdown(context.Background())
			class := tr + ":pipelined-answers-blocked-while-another-query-times-out"
			var te *vc01Timeout
			if errors.As(err, &te) {
				vc01Inconclusive = true
				fmt.Printf("VERIF-INCONCLUSIVE: %s: %v\n", tr, err)
				t.FailNow()
			}

			st.Case(fmt.Sprintf("%s|%d", tr, nBig), class)
			if err != nil {
				t.Fatalf("transport %s: [query 1 slow-0.test. A: handler waits out the %s request time-out] [%d pipelined TXT queries big-<i>.test., answers of about 50 KB, client not reading] [%s later the client reads everything]:\n%v",
					tr, vc01PipeSlow, nBig, 2*vc01PipeSlow, err)
			}
		}
	})
}

func vc01PipeCase(tr, addr string, tlsConf *tls.Config, nBig int) error {
	var conn net.Conn
	var err error
	d := &net.Dialer{Timeout: vc01Wait}
	if tr == "tcp" {
		conn, err = d.Dial("tcp", addr)
	} else {
		// A small receive buffer keeps the amount of data in flight small.
		var raw net.Conn
		if raw, err = d.Dial("tcp", addr); err == nil {
			_ = raw.(*net.TCPConn).SetReadBuffer(64 << 10)
			tc := tls.Client(raw, tlsConf.Clone())
			_ = raw.SetDeadline(time.Now().Add(vc01Wait))
			if err = tc.Handshake(); err == nil {
				_ = raw.SetDeadline(time.Time{})
			}

			conn = tc
		}
	}

	if err != nil {
		return vc01Env("connecting: %w", err)
	}
	defer conn.Close()

	if tc, ok := conn.(*net.TCPConn); ok {
		_ = tc.SetReadBuffer(64 << 10)
	}

	var out []byte
	add := func(name string, qt uint16, id uint16) {
		m := (&dns.Msg{}).SetQuestion(name, qt)
		m.Id = id
		b, _ := m.Pack()
		out = append(out, vc01Frame(b)...)
	}

	const slowID, firstBig = 1, 1000
	add("slow-0.test.", dns.TypeA, slowID)
	want := map[uint16]string{}
	for i := 0; i < nBig; i++ {
		name := fmt.Sprintf("BiG-%d.test.", i)
		want[uint16(firstBig+i)] = name
		add(name, dns.TypeTXT, uint16(firstBig+i))
	}

	_ = conn.SetWriteDeadline(time.Now().Add(vc01Wait))
	if _, err = conn.Write(out); err != nil {
		return vc01Env("writing the pipeline: %w", err)
	}

	// Not reading: the answers fill the socket buffers and a write blocks; the
	// slow query times out meanwhile.
	time.Sleep(2 * vc01PipeSlow)

	got := map[uint16]int{}
	slow := 0
	_ = conn.SetReadDeadline(time.Now().Add(4 * vc01Wait))
	for len(got) < nBig {
		var l uint16
		if rerr := binary.Read(conn, binary.BigEndian, &l); rerr != nil {
			var ne net.Error
			if errors.As(rerr, &ne) && ne.Timeout() {
				return vc01Env("the client's read deadline hit after %d of %d answers", len(got), nBig)
			}

			return fmt.Errorf("the connection ended after %d of %d answers to in-time queries: %v", len(got), nBig, rerr)
		}

		buf := make([]byte, l)
		if _, rerr := io.ReadFull(conn, buf); rerr != nil {
			var ne net.Error
			if errors.As(rerr, &ne) && ne.Timeout() {
				return vc01Env("the client's read deadline hit inside a frame after %d of %d answers", len(got), nBig)
			}

			return fmt.Errorf("the connection ended inside a frame of %d octets after %d of %d answers: %v", l, len(got), nBig, rerr)
		}

		resp := &dns.Msg{}
		if uerr := resp.Unpack(buf); uerr != nil {
			return fmt.Errorf("frame %d (%d octets) after %d answers does not decode (the stream is no longer a sequence of frames): %v", len(got)+slow+1, l, len(got), uerr)
		}

		if resp.Id == slowID && len(resp.Question) == 1 && resp.Question[0].Name == "slow-0.test." {
			slow++
			if slow > 1 || resp.Rcode != dns.RcodeServerFailure {
				return fmt.Errorf("the slow query got %d answers, last rcode %d", slow, resp.Rcode)
			}

			continue
		}

		name, ok := want[resp.Id]
		if !ok {
			return fmt.Errorf("a response with the foreign ID %d (%v)", resp.Id, resp.Question)
		}

		got[resp.Id]++
		switch {
		case got[resp.Id] > 1:
			return fmt.Errorf("query %d (%s) was answered twice", resp.Id, name)
		case !resp.Response || len(resp.Question) != 1 || resp.Question[0].Name != name || resp.Question[0].Qtype != dns.TypeTXT:
			return fmt.Errorf("the answer with ID %d has question %v, want %s TXT", resp.Id, resp.Question, name)
		case resp.Rcode != dns.RcodeSuccess || resp.Truncated || len(resp.Answer) != 1:
			return fmt.Errorf("in-time query %d (%s): rcode %d, tc %t, %d answer records; want its answer", resp.Id, name, resp.Rcode, resp.Truncated, len(resp.Answer))
		}

		if txt, ok := resp.Answer[0].(*dns.TXT); !ok || len(txt.Txt) != vc01PipeStrings || !strings.EqualFold(txt.Hdr.Name, name) {
			return fmt.Errorf("in-time query %d (%s): answer record %v", resp.Id, name, resp.Answer[0].Header())
		}
	}

	return nil
}
