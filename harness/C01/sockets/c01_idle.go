//go:build verif

package dnsserver_test

// C01, reused stream connections: on plain TCP and on DoT every well-formed
// query sent within the idle time-out after the previous answer must be
// answered, also when the pause is longer than the (much shorter) read
// time-out that only governs the handshake and the first query.

import (
	"context"
	"crypto/tls"
	"encoding/binary"
	"errors"
	"fmt"
	"io"
	"net"
	"strings"
	"sync"
	"testing"
	"time"

	"github.com/AdguardTeam/AdGuardDNS/internal/dnsserver"
	"github.com/AdguardTeam/AdGuardDNS/internal/dnsserver/dnsservertest"
	"github.com/miekg/dns"
	"pgregory.net/rapid"
	ref "verif.local/harness/C01/ref"
	"verif.local/harness/vstat"
)

const (
	// vc01IdleRead is the servers' ReadTimeout (handshake and first query).
	vc01IdleRead = 250 * time.Millisecond
	// vc01IdleIdle is the servers' TCPIdleTimeout; no drawn pause exceeds a
	// third of it, so that load cannot make a correct server close first.
	vc01IdleIdle = 6 * time.Second
)

// vc01Closed marks "the server closed the connection instead of answering".
type vc01Closed struct {
	query int
	after time.Duration
}

func (e *vc01Closed) Error() string {
	return fmt.Sprintf("query %d got no answer: the server closed the connection (query sent %s after the previous answer)", e.query, e.after)
}

// vc01IdleExchange sends the queries on one connection, pausing before each
// as told, and returns the answers in order.
func vc01IdleExchange(conn net.Conn, wires [][]byte, pauses []time.Duration) (answers [][]byte, extra int, err error) {
	defer conn.Close()

	readFrame := func() ([]byte, error) {
		_ = conn.SetReadDeadline(time.Now().Add(vc01Wait))
		var l uint16
		if rerr := binary.Read(conn, binary.BigEndian, &l); rerr != nil {
			return nil, rerr
		}

		b := make([]byte, l)
		if _, rerr := io.ReadFull(conn, b); rerr != nil {
			return nil, rerr
		}

		return b, nil
	}

	for i, w := range wires {
		if pauses[i] > 0 {
			time.Sleep(pauses[i])
		}

		_ = conn.SetWriteDeadline(time.Now().Add(vc01Wait))
		_, werr := conn.Write(vc01Frame(w))
		var b []byte
		var rerr error
		if werr == nil {
			b, rerr = readFrame()
		}

		if werr != nil || rerr != nil {
			var ne net.Error
			if errors.As(rerr, &ne) && ne.Timeout() {
				return answers, 0, vc01Env("query %d: no answer within %s", i+1, vc01Wait)
			}

			return answers, 0, &vc01Closed{query: i + 1, after: pauses[i]}
		}

		answers = append(answers, b)
	}

	// Nothing else may follow.
	switch c := conn.(type) {
	case *net.TCPConn:
		_ = c.CloseWrite()
	case *tls.Conn:
		_ = c.CloseWrite()
	}

	_ = conn.SetReadDeadline(time.Now().Add(vc01Wait))
	rest, _ := io.ReadAll(conn)
	frames, _ := ref.Frames(rest)

	return answers, len(frames), nil
}

func TestVerifC01StreamIdle(t *testing.T) {
	st := vstat.New("C01", "sockets.stream-idle",
		fmt.Sprintf("rapid (2-3 answerable queries on ONE connection, the pause before each of the later ones drawn from {0, ReadTimeout/2, 2-4 x ReadTimeout}, at least one of them long; plain TCP and DoT servers with ReadTimeout %s and TCPIdleTimeout %s, no pause above a third of the idle time-out); every query must get exactly one answer equal to the reference answer; a connection closed instead of an answer to a later query is a verdict only if it happens again when the whole case is repeated (otherwise inconclusive); a first query that is not answered (handshake / first read later than ReadTimeout under load) is never judged; non-trivial = every case; distinct by (queries, pauses)", vc01IdleRead, vc01IdleIdle),
		"tcp:second-query-after-pause-longer-than-read-timeout", "dot:second-query-after-pause-longer-than-read-timeout")
	st.Finish(t)

	metrics := &vc01Metrics{}
	h := vc01SockHandler()
	conf := func(proto dnsserver.Protocol) dnsserver.ConfigDNS {
		return dnsserver.ConfigDNS{
			ConfigBase: dnsserver.ConfigBase{
				Name: "test-" + proto.String(), Addr: "127.0.0.1:0", Handler: h,
				Disposer: vc01Poison{}, Metrics: &vc01Tee{own: metrics, prod: vc01ProdListener()},
				RequestContext: dnsserver.NewTimeoutContextConstructor(time.Minute),
			},
			ReadTimeout:    vc01IdleRead,
			TCPIdleTimeout: vc01IdleIdle,
			MaxUDPRespSize: dns.MaxMsgSize,
		}
	}

	start := func(mk func() dnsserver.Server) dnsserver.Server {
		var err error
		for i := 0; i < 20; i++ {
			srv := mk()
			if err = srv.Start(context.Background()); err == nil {
				t.Cleanup(func() { _ = srv.Shutdown(context.Background()) })

				return srv
			}
		}

		fmt.Println("VERIF-INCONCLUSIVE: cannot start fixture:", err)
		t.FailNow()

		return nil
	}

	tlsConf := dnsservertest.CreateServerTLSConfig("example.org")
	tcpAddr := start(func() dnsserver.Server { return dnsserver.NewServerDNS(conf(dnsserver.ProtoDNS)) }).LocalTCPAddr().String()
	dotAddr := start(func() dnsserver.Server {
		return dnsserver.NewServerTLS(dnsserver.ConfigTLS{ConfigDNS: conf(dnsserver.ProtoDoT), TLSConfig: tlsConf.Clone()})
	}).LocalTCPAddr().String()

	dial := map[string]func() (net.Conn, error){
		"tcp": func() (net.Conn, error) { return net.DialTimeout("tcp", tcpAddr, vc01Wait) },
		"dot": func() (net.Conn, error) {
			return tls.DialWithDialer(&net.Dialer{Timeout: vc01Wait}, "tcp", dotAddr, tlsConf.Clone())
		},
	}
	transports := map[string]ref.Transport{"tcp": ref.TCP, "dot": ref.DoT}

	rapid.Check(t, func(t *rapid.T) {
		if vc01Inconclusive {
			t.FailNow()
		}

		nq := rapid.IntRange(2, 3).Draw(t, "queries")
		var cases []*ref.Case
		var wires [][]byte
		for len(cases) < nq {
			m := ref.DrawQuery(t)
			m.Id = uint16(100 + len(cases))
			w, err := m.Pack()
			if err != nil {
				t.Fatalf("harness: %v", err)
			}

			c := ref.Classify(w)
			if k, _, _ := c.Expect(ref.TCP); k != ref.MustReply || c.Kind == ref.KHuge {
				// Replace what is not answered on a stream by a plain query.
				pm := (&dns.Msg{}).SetQuestion(fmt.Sprintf("k%d.idle.test.", len(cases)), dns.TypeA)
				pm.Id = m.Id
				w, _ = pm.Pack()
				c = ref.Classify(w)
			}

			cases, wires = append(cases, c), append(wires, w)
		}

		long := func(label string) time.Duration {
			return time.Duration(rapid.IntRange(2*int(vc01IdleRead/time.Millisecond), 4*int(vc01IdleRead/time.Millisecond)).Draw(t, label)) * time.Millisecond
		}

		pauses := make([]time.Duration, nq)
		longAt := rapid.IntRange(1, nq-1).Draw(t, "longPauseBefore")
		classes := []string{}
		for i := 1; i < nq; i++ {
			switch p := rapid.SampledFrom([]string{"zero", "half", "long"}).Draw(t, "pause"); {
			case i == longAt || p == "long":
				pauses[i] = long("pauseMs")
			case p == "half":
				pauses[i] = vc01IdleRead / 2
				classes = append(classes, "pause-half-read-timeout")
			default:
				classes = append(classes, "pause-zero")
			}
		}

		if nq == 3 {
			classes = append(classes, "three-queries")
		}

		// once runs the case on one fresh connection of the transport.
		once := func(name string) error {
			var answers [][]byte
			var extra int
			var err error
			for try := 0; try < 4; try++ {
				conn, derr := dial[name]()
				if derr != nil {
					err = vc01Env("dialing %s: %w", name, derr)

					continue
				}

				answers, extra, err = vc01IdleExchange(conn, wires, pauses)
				var ce *vc01Closed
				if errors.As(err, &ce) && ce.query == 1 {
					// The handshake or the first query did not make it within
					// ReadTimeout: never judged.
					err = vc01Env("%s: first query not answered (connection closed)", name)

					continue
				}

				break
			}

			if err != nil {
				return err
			}

			if extra != 0 {
				return fmt.Errorf("%d more messages followed the %d answers", extra, len(answers))
			}

			for i, a := range answers {
				if _, _, jerr := ref.Judge(transports[name], cases[i], ref.Result{Msgs: [][]byte{a}}, ref.CheckOpts{}); jerr != nil {
					return fmt.Errorf("answer %d of %d (query %s): %w", i+1, len(answers), ref.Hex(wires[i]), jerr)
				}
			}

			return nil
		}

		// Both transports at the same time; a close instead of an answer must
		// repeat to be a verdict.
		errs := map[string]error{}
		var mu sync.Mutex
		var wg sync.WaitGroup
		for name := range dial {
			wg.Add(1)
			go func() {
				defer wg.Done()

				err := once(name)
				var ce *vc01Closed
				if errors.As(err, &ce) {
					if err2 := once(name); err2 == nil {
						err = vc01Env("%s: %v; not reproduced when the case was repeated", name, err)
					} else {
						err = fmt.Errorf("%w (repeated: %v)", err, err2)
					}
				}

				mu.Lock()
				errs[name] = err
				mu.Unlock()
			}()
		}

		wg.Wait()
		var ps []string
		for _, p := range pauses[1:] {
			ps = append(ps, p.String())
		}

		for _, name := range []string{"tcp", "dot"} {
			classes = append(classes, name+":second-query-after-pause-longer-than-read-timeout")
			if err := errs[name]; err != nil {
				var te *vc01Timeout
				if errors.As(err, &te) {
					vc01Inconclusive = true
					fmt.Printf("VERIF-INCONCLUSIVE: %s: %v\n", name, err)
					t.FailNow()
				}

				st.Case("", classes...)
				t.Fatalf("transport %s (ReadTimeout %s, TCPIdleTimeout %s): %d queries on one connection, pauses before queries 2.. = [%s]:\n%v",
					name, vc01IdleRead, vc01IdleIdle, nq, strings.Join(ps, ", "), err)
			}
		}

		if es := metrics.take(); len(es) > 0 {
			t.Fatalf("metrics/disposer: %s", strings.Join(es, "\n"))
		}

		key := strings.Join(ps, ",")
		for _, w := range wires {
			key += "|" + string(w)
		}

		st.Case(key, classes...)
	})
}
