//go:build verif

package dnsserver_test

// C01, layer 2 (sockets): one fixture starts plain DNS (UDP+TCP), DoT, DoH
// (TLS: h2 and h3; plain HTTP/1.1), DoQ and DNSCrypt (UDP+TCP) on 127.0.0.1
// through the dnsservertest helpers with the reference handler, and real
// clients send every generated input over every transport.  See
// /verif/DESIGN.md, section 3, C01.
//
// Time-outs are never verdicts: a missing answer is retried once on a fresh
// connection and then reported as VERIF-INCONCLUSIVE.  Expected silences on
// datagram transports are observed until a sentinel query sent after the input
// has been answered, plus a short grace.

import (
	"bytes"
	"context"
	"crypto/ed25519"
	"crypto/tls"
	"encoding/base64"
	"encoding/binary"
	"errors"
	"fmt"
	"io"
	"net"
	"net/http"
	"net/url"
	"strconv"
	"strings"
	"testing"
	"time"

	"github.com/AdguardTeam/AdGuardDNS/internal/dnsserver"
	"github.com/AdguardTeam/AdGuardDNS/internal/dnsserver/dnsservertest"
	"github.com/ameshkov/dnscrypt/v2"
	"github.com/ameshkov/dnsstamps"
	"github.com/miekg/dns"
	"github.com/quic-go/quic-go"
	"github.com/quic-go/quic-go/http3"
	"golang.org/x/net/http2"
	"pgregory.net/rapid"
	ref "verif.local/harness/C01/ref"
	"verif.local/harness/vstat"
)

// vc01Wait is the generous bound on any single network wait; hitting it is
// inconclusive.
const vc01Wait = 15 * time.Second

// vc01Grace is how long a datagram socket is watched for a message that must
// not exist, after the sentinel's answer has arrived.
const vc01Grace = 10 * time.Millisecond

// vc01Timeout marks errors that are wall-clock time-outs or other
// environmental failures (never a verdict).
type vc01Timeout struct{ err error }

func (e *vc01Timeout) Error() string { return "environment: " + e.err.Error() }

func vc01Env(format string, a ...any) error { return &vc01Timeout{err: fmt.Errorf(format, a...)} }

func vc01SockHandler() dnsserver.Handler {
	return dnsserver.HandlerFunc(func(ctx context.Context, rw dnsserver.ResponseWriter, req *dns.Msg) error {
		resp, mode := ref.Ref(req)
		switch mode {
		case ref.ModeError:
			return errors.New("vc01: reference handler error")
		case ref.ModeSilent:
			return nil
		}

		return rw.WriteMsg(ctx, req, resp)
	})
}

// vc01Net is the process-wide fixture.
type vc01Net struct {
	udpAddr, tcpAddr string
	dotAddr          string
	tlsClient        *tls.Config
	dohAddr          net.Addr // TLS, h2
	doh3Addr         net.Addr
	dohPlainAddr     net.Addr
	doqAddr          string
	doqTLS           *tls.Config
	crypt            *dnsservertest.TestDNSCryptServer
	cryptInfo        *dnscrypt.ResolverInfo

	h2, h1, h3 *http.Client
	qconn      quic.Connection
}

func vc01Start(t *testing.T) *vc01Net {
	n := &vc01Net{}
	h := vc01SockHandler()
	fail := func(what string, err error) {
		fmt.Println("VERIF-INCONCLUSIVE: cannot start fixture:", what, err)
		t.FailNow()
	}

	// Plain DNS and DNSCrypt bind a UDP port and then the same TCP port, which
	// another process on this shared machine may hold: retry instead of using
	// the require-based helpers (configuration identical to
	// dnsservertest.RunDNSServer / RunDNSCryptServer).
	var err error
	for i := 0; ; i++ {
		srv := dnsserver.NewServerDNS(dnsserver.ConfigDNS{
			ConfigBase:     dnsserver.ConfigBase{Name: "test", Addr: "127.0.0.1:0", Handler: h},
			MaxUDPRespSize: dns.MaxMsgSize,
		})
		if err = srv.Start(context.Background()); err == nil {
			t.Cleanup(func() { _ = srv.Shutdown(context.Background()) })
			n.tcpAddr, n.udpAddr = srv.LocalTCPAddr().String(), srv.LocalUDPAddr().String()

			break
		}

		if i == 20 {
			fail("dns", err)
		}
	}

	tlsConf := dnsservertest.CreateServerTLSConfig("example.org")
	n.tlsClient = tlsConf.Clone()
	n.dotAddr = dnsservertest.RunTLSServer(t, h, tlsConf.Clone()).String()

	doh, err := dnsservertest.RunLocalHTTPSServer(h, tlsConf.Clone(), nil)
	if err != nil {
		doh, err = dnsservertest.RunLocalHTTPSServer(h, tlsConf.Clone(), nil)
	}

	if err != nil {
		fail("doh", err)
	}

	t.Cleanup(func() { _ = doh.Shutdown(context.Background()) })
	n.dohAddr, n.doh3Addr = doh.LocalTCPAddr(), doh.LocalUDPAddr()

	dohPlain, err := dnsservertest.RunLocalHTTPSServer(h, nil, nil)
	if err != nil {
		fail("doh-plain", err)
	}

	t.Cleanup(func() { _ = dohPlain.Shutdown(context.Background()) })
	n.dohPlainAddr = dohPlain.LocalTCPAddr()

	n.doqTLS = tlsConf.Clone()
	n.doqTLS.NextProtos = dnsserver.NextProtoDoQ
	doq, qaddr, err := dnsservertest.RunLocalQUICServer(h, n.doqTLS.Clone())
	if err != nil {
		fail("doq", err)
	}

	t.Cleanup(func() { _ = doq.Shutdown(context.Background()) })
	n.doqAddr = qaddr.String()

	n.crypt = &dnsservertest.TestDNSCryptServer{ProviderName: "example.org"}
	rc, err := dnscrypt.GenerateResolverConfig(n.crypt.ProviderName, nil)
	if err != nil {
		fail("dnscrypt config", err)
	}

	cert, err := rc.CreateCert()
	if err != nil {
		fail("dnscrypt cert", err)
	}

	sk, err := dnscrypt.HexDecodeKey(rc.PrivateKey)
	if err != nil {
		fail("dnscrypt key", err)
	}

	n.crypt.ResolverPk = ed25519.PrivateKey(sk).Public().(ed25519.PublicKey)
	for i := 0; ; i++ {
		n.crypt.Srv = dnsserver.NewServerDNSCrypt(dnsserver.ConfigDNSCrypt{
			ConfigBase:           dnsserver.ConfigBase{Name: "test", Addr: "127.0.0.1:0", Handler: h},
			DNSCryptProviderName: n.crypt.ProviderName,
			DNSCryptResolverCert: cert,
		})
		if err = n.crypt.Srv.Start(context.Background()); err == nil {
			cs := n.crypt.Srv
			t.Cleanup(func() { _ = cs.Shutdown(context.Background()) })
			n.crypt.ServerAddr = cs.LocalUDPAddr().String()

			break
		}

		if i == 20 {
			fail("dnscrypt", err)
		}
	}

	cl := &dnscrypt.Client{Timeout: vc01Wait, Net: "tcp"}
	n.cryptInfo, err = cl.DialStamp(dnsstamps.ServerStamp{
		ServerAddrStr: n.crypt.ServerAddr,
		ServerPk:      n.crypt.ResolverPk,
		ProviderName:  n.crypt.ProviderName,
		Proto:         dnsstamps.StampProtoTypeDNSCrypt,
	})
	if err != nil {
		fail("dnscrypt certificate", err)
	}

	// HTTP clients (persistent connections).
	dialTo := func(a net.Addr) func(ctx context.Context, network, _ string) (net.Conn, error) {
		d := &net.Dialer{Timeout: vc01Wait}

		return func(ctx context.Context, network, _ string) (net.Conn, error) {
			return d.DialContext(ctx, network, a.String())
		}
	}

	h2conf := n.tlsClient.Clone()
	h2conf.NextProtos = []string{"h2", "http/1.1"}
	h2tr := &http.Transport{TLSClientConfig: h2conf, DisableCompression: true, DialContext: dialTo(n.dohAddr), ForceAttemptHTTP2: true}
	if err = http2.ConfigureTransport(h2tr); err != nil {
		fail("h2 transport", err)
	}

	n.h2 = &http.Client{Transport: h2tr, Timeout: vc01Wait}
	n.h1 = &http.Client{Transport: &http.Transport{DisableCompression: true, DialContext: dialTo(n.dohPlainAddr)}, Timeout: vc01Wait}
	h3conf := n.tlsClient.Clone()
	h3conf.NextProtos = []string{http3.NextProtoH3}
	h3tr := &http3.Transport{
		DisableCompression: true,
		TLSClientConfig:    h3conf,
		Dial: func(ctx context.Context, _ string, tc *tls.Config, qc *quic.Config) (quic.EarlyConnection, error) {
			return quic.DialAddrEarly(ctx, n.doh3Addr.String(), tc, qc)
		},
	}
	n.h3 = &http.Client{Transport: h3tr, Timeout: vc01Wait}
	t.Cleanup(func() {
		h2tr.CloseIdleConnections()
		n.h1.CloseIdleConnections()
		_ = h3tr.Close()
		if n.qconn != nil {
			_ = n.qconn.CloseWithError(0, "")
		}
	})

	return n
}

// vc01Sentinel is a query every server answers; its ID differs from the
// input's.
func vc01Sentinel(input []byte) (wire []byte, id uint16) {
	id = 0x5a5a
	if len(input) >= 2 {
		id = ^binary.BigEndian.Uint16(input)
	}

	m := &dns.Msg{}
	m.Id = id
	m.RecursionDesired = true
	m.Question = []dns.Question{{Name: "k0.sentinel.verif.test.", Qtype: dns.TypeA, Qclass: dns.ClassINET}}
	wire, _ = m.Pack()

	return wire, id
}

func vc01IsSentinel(m *dns.Msg, id uint16) bool {
	return m.Id == id && len(m.Question) == 1 && m.Question[0].Name == "k0.sentinel.verif.test."
}

// vc01Datagram sends input and then a sentinel on one fresh UDP socket and
// collects what comes back until the sentinel is answered and, if expectReply,
// something else has arrived; then a short grace.  enc / dec wrap the payloads
// (identity for plain DNS, DNSCrypt otherwise).
func vc01Datagram(addr string, input []byte, expectReply bool, enc func([]byte) ([]byte, error), dec func([]byte) ([]byte, error)) (r ref.Result, err error) {
	c, err := net.Dial("udp", addr)
	if err != nil {
		return r, vc01Env("dialing udp: %w", err)
	}
	defer c.Close()

	sw, sid := vc01Sentinel(input)
	for _, w := range [][]byte{input, sw} {
		b, eerr := enc(w)
		if eerr != nil {
			return r, fmt.Errorf("harness: encoding datagram: %w", eerr)
		}

		if _, err = c.Write(b); err != nil {
			return r, vc01Env("writing udp: %w", err)
		}
	}

	buf := make([]byte, 65536)
	deadline := time.Now().Add(vc01Wait)
	sentinels := 0
	for {
		waiting := sentinels == 0 || (expectReply && len(r.Msgs) == 0)
		if waiting {
			_ = c.SetReadDeadline(deadline)
		} else {
			_ = c.SetReadDeadline(time.Now().Add(vc01Grace))
		}

		nr, rerr := c.Read(buf)
		if rerr != nil {
			if waiting {
				return r, vc01Env("udp %s: timed out (sentinel answers %d, other messages %d)", addr, sentinels, len(r.Msgs))
			}

			return r, nil
		}

		b, derr := dec(buf[:nr])
		if derr != nil {
			return r, fmt.Errorf("datagram from the server does not decrypt: %w", derr)
		}

		m := &dns.Msg{}
		if uerr := m.Unpack(b); uerr == nil && vc01IsSentinel(m, sid) {
			sentinels++
			if sentinels > 1 {
				return r, fmt.Errorf("the sentinel query was answered %d times", sentinels)
			}

			continue
		}

		r.Msgs = append(r.Msgs, append([]byte(nil), b...))
	}
}

func vc01Identity(b []byte) ([]byte, error) { return b, nil }

// vc01Stream writes one framed input on conn, half-closes, and reads frames
// until the server closes.  closeWrite half-closes the connection.
func vc01Stream(conn net.Conn, closeWrite func() error, payload []byte, dec func([]byte) ([]byte, error)) (r ref.Result, err error) {
	defer conn.Close()

	_ = conn.SetDeadline(time.Now().Add(vc01Wait))
	out := binary.BigEndian.AppendUint16(nil, uint16(len(payload)))
	if _, err = conn.Write(append(out, payload...)); err != nil {
		return r, vc01Env("writing: %w", err)
	}

	if err = closeWrite(); err != nil {
		return r, vc01Env("half-closing: %w", err)
	}

	all, rerr := io.ReadAll(conn)
	if rerr != nil {
		var ne net.Error
		if errors.As(rerr, &ne) && ne.Timeout() {
			return r, vc01Env("reading: %w", rerr)
		}
		// A reset after the data is a close.
	}

	r.Treatment = "closed"
	frames, ferr := ref.Frames(all)
	if ferr != nil && rerr == nil {
		return r, fmt.Errorf("server stream is not a sequence of frames: %w", ferr)
	}

	for _, f := range frames {
		b, derr := dec(f)
		if derr != nil {
			return r, fmt.Errorf("frame from the server does not decrypt: %w", derr)
		}

		r.Msgs = append(r.Msgs, b)
	}

	return r, nil
}

func (n *vc01Net) tcp(addr string, payload []byte, dec func([]byte) ([]byte, error)) (r ref.Result, err error) {
	c, err := net.DialTimeout("tcp", addr, vc01Wait)
	if err != nil {
		return r, vc01Env("dialing tcp: %w", err)
	}

	return vc01Stream(c, c.(*net.TCPConn).CloseWrite, payload, dec)
}

func (n *vc01Net) dot(payload []byte) (r ref.Result, err error) {
	d := &net.Dialer{Timeout: vc01Wait}
	c, err := tls.DialWithDialer(d, "tcp", n.dotAddr, n.tlsClient.Clone())
	if err != nil {
		return r, vc01Env("dialing dot: %w", err)
	}

	return vc01Stream(c, c.CloseWrite, payload, vc01Identity)
}

func (n *vc01Net) http(cl *http.Client, scheme, method, target string, body []byte) (r ref.Result, ct string, err error) {
	var rd io.Reader
	if body != nil {
		rd = bytes.NewReader(body)
	}

	req, err := http.NewRequest(method, scheme+"://example.org"+target, rd)
	if err != nil {
		return r, "", fmt.Errorf("harness: building request: %w", err)
	}

	if body != nil {
		req.Header.Set("Content-Type", dnsserver.MimeTypeDoH)
	}

	resp, err := cl.Do(req)
	if err != nil {
		return r, "", vc01Env("http %s %s: %w", method, scheme, err)
	}
	defer resp.Body.Close()

	b, err := io.ReadAll(resp.Body)
	if err != nil {
		return r, "", vc01Env("reading http body: %w", err)
	}

	r.Treatment = "http-" + strconv.Itoa(resp.StatusCode)
	if resp.StatusCode == http.StatusOK {
		r.Msgs = [][]byte{b}
	}

	return r, resp.Header.Get("Content-Type"), nil
}

func (n *vc01Net) quic(wire []byte, prefix int) (r ref.Result, err error) {
	ctx, cancel := context.WithTimeout(context.Background(), vc01Wait)
	defer cancel()

	if n.qconn == nil || n.qconn.Context().Err() != nil {
		n.qconn, err = quic.DialAddr(ctx, n.doqAddr, n.doqTLS.Clone(), nil)
		if err != nil {
			n.qconn = nil

			return r, vc01Env("dialing doq: %w", err)
		}
	}

	treat := func(err error) (string, bool) {
		var ae *quic.ApplicationError
		if errors.As(err, &ae) && ae.Remote {
			return fmt.Sprintf("doq-close-%d", ae.ErrorCode), true
		}

		return "", false
	}

	st, err := n.qconn.OpenStreamSync(ctx)
	if err != nil {
		n.qconn = nil

		return r, vc01Env("opening doq stream: %w", err)
	}

	_ = st.SetDeadline(time.Now().Add(vc01Wait))
	out := binary.BigEndian.AppendUint16(nil, uint16(prefix))
	_, werr := st.Write(append(out, wire...))
	if werr == nil {
		werr = st.Close()
	}

	if werr != nil {
		n.qconn = nil
		if tr, ok := treat(werr); ok {
			r.Treatment = tr

			return r, nil
		}

		return r, vc01Env("writing doq stream: %w", werr)
	}

	all, rerr := io.ReadAll(st)
	if rerr != nil {
		n.qconn = nil
		tr, ok := treat(rerr)
		if !ok {
			return r, vc01Env("reading doq stream: %w", rerr)
		}

		r.Treatment = tr
	}

	frames, ferr := ref.Frames(all)
	if ferr != nil && rerr == nil {
		return r, fmt.Errorf("DoQ stream is not a sequence of frames: %w", ferr)
	}

	r.Msgs = frames

	return r, nil
}

func (n *vc01Net) cryptEnc(wire []byte) ([]byte, error) {
	q := dnscrypt.EncryptedQuery{
		EsVersion:   n.cryptInfo.ResolverCert.EsVersion,
		ClientMagic: n.cryptInfo.ResolverCert.ClientMagic,
		ClientPk:    n.cryptInfo.PublicKey,
	}

	return q.Encrypt(wire, n.cryptInfo.SharedKey)
}

func (n *vc01Net) cryptDec(b []byte) ([]byte, error) {
	r := dnscrypt.EncryptedResponse{EsVersion: n.cryptInfo.ResolverCert.EsVersion}

	return r.Decrypt(b, n.cryptInfo.SharedKey)
}

func vc01PlainName(n string) bool {
	for i := 0; i < len(n); i++ {
		c := n[i]
		if !(c >= 'a' && c <= 'z' || c >= 'A' && c <= 'Z' || c >= '0' && c <= '9' || c == '-' || c == '_' || c == '.') {
			return false
		}
	}

	return n != "" && n != "."
}

func vc01JSONTarget(q dns.Question, cd, do, mnemonic, wireCT bool) string {
	v := url.Values{}
	v.Set("name", q.Name)
	ts := strconv.Itoa(int(q.Qtype))
	if s, ok := dns.TypeToString[q.Qtype]; ok && mnemonic && s == strings.ToUpper(s) {
		ts = strings.ToLower(s)
	}

	v.Set("type", ts)
	v.Set("qc", strconv.Itoa(int(q.Qclass)))
	if cd {
		v.Set("cd", "1")
	}

	if do {
		v.Set("do", "true")
	}

	if wireCT {
		v.Set("ct", dnsserver.MimeTypeDoH)
	}

	return dnsserver.PathJSON + "?" + v.Encode()
}

// vc01Inconclusive is set once a case ended in an environmental failure.
var vc01Inconclusive bool

// vc01Attempt runs f, and once more if it failed for environmental reasons.
func vc01Attempt(f func() (ref.Result, error)) (r ref.Result, err error) {
	r, err = f()
	var te *vc01Timeout
	if errors.As(err, &te) {
		r, err = f()
	}

	return r, err
}

func vc01SocketCase(t *rapid.T, st *vstat.Stats, n *vc01Net, in ref.Input) {
	wire := in.Wire
	c := ref.Classify(wire)
	classes := append(c.Classes(), "gen-"+strings.SplitN(in.Gen, ":", 2)[0])
	fulls := map[string]string{}
	order := []string{}
	if vc01Inconclusive {
		// An earlier case hit a time-out: do not multiply it while rapid shrinks.
		t.FailNow()
	}

	fail := func(tr string, err error) {
		var te *vc01Timeout
		if errors.As(err, &te) {
			vc01Inconclusive = true
			fmt.Printf("VERIF-INCONCLUSIVE: %s: %v (input %s %s)\n", tr, err, in.Gen, ref.Hex(wire))
			t.FailNow()
		}

		st.Case("", classes...)
		t.Fatalf("transport %s, input %s (%s) %s:\n%v", tr, in.Gen, ref.VerdictNames[c.Verdict], ref.Hex(wire), err)
	}

	judge := func(tr ref.Transport, cc *ref.Case, r ref.Result, err error, o ref.CheckOpts, compare bool) {
		if err != nil {
			fail(tr.Name, err)
		}

		full, cl, err := ref.Judge(tr, cc, r, o)
		classes = append(classes, cl...)
		if err != nil {
			fail(tr.Name, err)
		}

		if full != "" && compare {
			fulls[tr.Name] = full
			order = append(order, tr.Name)
		}

		if cc.NonTrivial() {
			st.NonTrivial(tr.Name + "|" + string(cc.Wire))
		}
	}

	// foreignOnly applies the weakest check where the input is outside the
	// transport's must-answer domain.
	foreignOnly := func(tr string, seen *ref.Case, r ref.Result, err error) {
		if err != nil {
			var te *vc01Timeout
			if errors.As(err, &te) {
				// No answer to an out-of-domain input is fine.
				return
			}

			fail(tr, err)
		}

		for _, m := range r.Msgs {
			got := &dns.Msg{}
			if uerr := got.Unpack(m); uerr != nil {
				fail(tr, fmt.Errorf("the response does not decode: %w", uerr))
			}

			if ferr := ref.CheckForeign(seen, got); ferr != nil {
				fail(tr, ferr)
			}
		}
	}

	expectsReply := func(tr ref.Transport) bool {
		k, _ := c.Expect(tr)

		return k == ref.MustReply
	}

	// plain UDP; receive buffer is 512 octets.
	if len(wire) <= dns.MinMsgSize {
		r, err := vc01Attempt(func() (ref.Result, error) {
			return vc01Datagram(n.udpAddr, wire, expectsReply(ref.UDP), vc01Identity, vc01Identity)
		})
		judge(ref.UDP, c, r, err, ref.CheckOpts{}, true)
	} else {
		classes = append(classes, "udp-oversize-query")
		r, err := vc01Datagram(n.udpAddr, wire, false, vc01Identity, vc01Identity)
		// The server only ever sees the first 512 octets of the datagram.
		foreignOnly("udp", ref.Classify(wire[:dns.MinMsgSize]), r, err)
	}

	r, err := vc01Attempt(func() (ref.Result, error) { return n.tcp(n.tcpAddr, wire, vc01Identity) })
	judge(ref.TCP, c, r, err, ref.CheckOpts{}, true)
	r, err = vc01Attempt(func() (ref.Result, error) { return n.dot(wire) })
	judge(ref.DoT, c, r, err, ref.CheckOpts{}, true)

	get := dnsserver.PathDoH + "?dns=" + base64.RawURLEncoding.EncodeToString(wire)
	r, err = vc01Attempt(func() (ref.Result, error) {
		r, _, err := n.http(n.h2, "https", http.MethodGet, get, nil)
		return r, err
	})
	judge(ref.DoH.Named("doh-h2-get"), c, r, err, ref.CheckOpts{}, true)
	r, err = vc01Attempt(func() (ref.Result, error) {
		r, _, err := n.http(n.h2, "https", http.MethodPost, dnsserver.PathDoH, wire)

		return r, err
	})
	judge(ref.DoH.Named("doh-h2-post"), c, r, err, ref.CheckOpts{}, true)
	if rapid.Bool().Draw(t, "h1Post") {
		r, err = vc01Attempt(func() (ref.Result, error) {
			r, _, err := n.http(n.h1, "http", http.MethodPost, dnsserver.PathDoH, wire)

			return r, err
		})
		judge(ref.DoH.Named("doh-h1-plain-post"), c, r, err, ref.CheckOpts{}, true)
	} else {
		r, err = vc01Attempt(func() (ref.Result, error) { r, _, err := n.http(n.h1, "http", http.MethodGet, get, nil); return r, err })
		judge(ref.DoH.Named("doh-h1-plain-get"), c, r, err, ref.CheckOpts{}, true)
	}

	if vstat.Thorough() || rapid.IntRange(0, 7).Draw(t, "h3") == 0 {
		r, err = vc01Attempt(func() (ref.Result, error) {
			r, _, err := n.http(n.h3, "https", http.MethodPost, dnsserver.PathDoH, wire)

			return r, err
		})
		judge(ref.DoH.Named("doh-h3-post"), c, r, err, ref.CheckOpts{}, true)
	}

	// DoQ, with the correct length prefix or, sometimes, a wrong one.
	prefix := len(wire)
	if rapid.IntRange(0, 9).Draw(t, "quicBadPrefix") == 0 {
		prefix = max(0, len(wire)+rapid.SampledFrom([]int{-1, 1, 2, -12}).Draw(t, "prefixDelta"))
	}

	r, err = vc01Attempt(func() (ref.Result, error) { return n.quic(wire, prefix) })
	if prefix == len(wire) {
		judge(ref.DoQ, c, r, err, ref.CheckOpts{}, true)
	} else {
		classes = append(classes, "doq-bad-prefix")
		if err != nil {
			fail("doq", err)
		}

		if len(r.Msgs) != 0 || r.Treatment != ref.DoQProtocolError {
			fail("doq", fmt.Errorf("length prefix %d for %d octets: %d messages came back, treatment %q", prefix, len(wire), len(r.Msgs), r.Treatment))
		}
	}

	// DNSCrypt.  The UDP server reads at most 1252 octets of ciphertext.
	if len(wire) <= 1024 {
		r, err = vc01Attempt(func() (ref.Result, error) {
			return vc01Datagram(n.crypt.ServerAddr, wire, expectsReply(ref.DNSCryptUDP), n.cryptEnc, n.cryptDec)
		})
		judge(ref.DNSCryptUDP, c, r, err, ref.CheckOpts{}, true)
	} else {
		classes = append(classes, "dnscrypt-udp-oversize-query")
		r, err = vc01Datagram(n.crypt.ServerAddr, wire, false, n.cryptEnc, n.cryptDec)
		foreignOnly("dnscrypt-udp", c, r, err)
	}

	r, err = vc01Attempt(func() (ref.Result, error) {
		enc, eerr := n.cryptEnc(wire)
		if eerr != nil {
			return ref.Result{}, fmt.Errorf("harness: encrypting: %w", eerr)
		}

		return n.tcp(n.crypt.ServerAddr, enc, n.cryptDec)
	})
	judge(ref.DNSCryptTCP, c, r, err, ref.CheckOpts{}, true)

	// All complete answers must agree.
	for _, tr := range order[min(1, len(order)):] {
		if fulls[tr] != fulls[order[0]] {
			fail(tr, fmt.Errorf("transports disagree:\n %s: %s\n %s: %s", order[0], fulls[order[0]], tr, fulls[tr]))
		}
	}

	if len(order) >= 2 {
		classes = append(classes, "cross-transport-compared")
	}

	// JSON API for what it can express.
	if c.Verdict == ref.VAccept && vc01PlainName(c.Req.Question[0].Name) {
		q := c.Req.Question[0]
		cd, do := c.Req.CheckingDisabled, c.ReqOPT != nil && c.ReqOPT.Do()
		jreq := ref.JSONRequest(q.Name, q.Qtype, q.Qclass, cd, do)
		jb, _ := jreq.Pack()
		jc := ref.Classify(jb)
		mn := rapid.Bool().Draw(t, "jsonMnemonic")
		method := rapid.SampledFrom([]string{http.MethodGet, http.MethodGet, http.MethodPost}).Draw(t, "jsonMethod")
		cl, scheme := n.h2, "https"
		if rapid.IntRange(0, 3).Draw(t, "jsonPlain") == 0 {
			cl, scheme = n.h1, "http"
		}

		classes = append(classes, "json")
		var ct string
		r, err = vc01Attempt(func() (r ref.Result, err error) {
			r, ct, err = n.http(cl, scheme, method, vc01JSONTarget(q, cd, do, mn, false), nil)

			return r, err
		})
		if err != nil {
			fail("doh-json", err)
		}

		switch {
		case jc.Mode == ref.ModeSilent:
			if len(r.Msgs) != 0 {
				fail("doh-json", fmt.Errorf("silent pipeline: %s", r.Treatment))
			}
		case len(r.Msgs) != 1:
			fail("doh-json", fmt.Errorf("HTTP outcome %s", r.Treatment))
		default:
			if ct != dnsserver.MimeTypeJSON {
				fail("doh-json", fmt.Errorf("content type %q", ct))
			}

			dropped, jerr := ref.CheckJSON(r.Msgs[0], jreq, jc.Want, jc.Loose)
			if jerr != nil {
				fail("doh-json", jerr)
			}

			if dropped {
				classes = append(classes, "json-authority-not-representable")
			}

			if jc.NonTrivial() {
				st.NonTrivial("doh-json|" + string(jb))
			}
		}

		r, err = vc01Attempt(func() (r ref.Result, err error) {
			r, _, err = n.http(cl, scheme, method, vc01JSONTarget(q, cd, do, mn, true), nil)

			return r, err
		})
		judge(ref.DoH.Named("doh-json-ct-wire"), jc, r, err, ref.CheckOpts{NoID: true}, false)
	}

	// (iv) the listeners survived: covered by the next case and by the sentinel
	// answers; an explicit probe after unacceptable input costs one query.
	if c.Verdict != ref.VAccept {
		sw, _ := vc01Sentinel(wire)
		sc := ref.Classify(sw)
		r, err = vc01Attempt(func() (ref.Result, error) { return n.tcp(n.tcpAddr, sw, vc01Identity) })
		judge(ref.TCP.Named("tcp"), sc, r, err, ref.CheckOpts{}, false)
		r, err = vc01Attempt(func() (ref.Result, error) { return n.quic(sw, len(sw)) })
		judge(ref.DoQ, sc, r, err, ref.CheckOpts{}, false)
		classes = append(classes, "survival-probe")
	}

	st.Case("", classes...)
	if st.WantSample() && c.NonTrivial() && c.Verdict != ref.VAccept {
		st.Sample(map[string]any{"gen": in.Gen, "wire": ref.Hex(wire), "verdict": ref.VerdictNames[c.Verdict], "classes": classes})
	}
}

func TestVerifC01Sockets(t *testing.T) {
	st := vstat.New("C01", "sockets",
		"rapid inputs (structured valid queries, structured unacceptable messages, byte-level corruptions; see inpkg.accept) sent by real clients over loopback to servers started through dnsservertest: UDP, TCP, DoT, DoH h2 GET+POST, plain-HTTP/1.1 DoH, h3 (every case in thorough, 1/8 in quick), DoQ (correct and wrong length prefix), DNSCrypt UDP+TCP, JSON API and JSON with ct=dns-message; oracle = documented per-transport treatment + reference handler + pairwise agreement of complete answers + survival probe after unacceptable input; non-trivial = accepted query with non-empty / non-NOERROR / absent reference answer or unacceptable input >= 12 octets; distinct by (transport, wire bytes)",
		"verdict-accept", "undecodable-past-header", "verdict-response-bit", "verdict-notimp", "verdict-formerr", "kind-handler-error",
		"kind-silent", "kind-large", "truncated-on-udp", "cross-transport-compared", "json", "doq:no-message", "doq:must-reply",
		"dnscrypt-udp:must-reply", "dnscrypt-tcp:must-reply", "doh-h2-get:must-reply", "doh-h2-post:must-reply", "dot:must-reply",
		"udp:no-message", "tcp:no-message", "survival-probe", "mixed-case-name", "max-length-name")
	st.Finish(t)

	n := vc01Start(t)
	rapid.Check(t, func(t *rapid.T) {
		vc01SocketCase(t, st, n, ref.DrawInput(t))
	})
}
