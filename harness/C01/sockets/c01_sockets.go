//go:build verif

package dnsserver_test

// C01, layer 2 (sockets): one fixture starts plain DNS (UDP+TCP), DoT, DoH
// (TLS: h2 and h3; plain HTTP/1.1), DoQ and DNSCrypt (UDP+TCP) on 127.0.0.1
// through the dnsservertest helpers with the reference handler, and real
// clients send every generated input over every transport.  See
// /verif/DESIGN.md, section 3, C01.
//
// Time-outs are never verdicts: a missing answer is retried once on a fresh
// connection and then reported as VERIF-INCONCLUSIVE.  Expected silences on
// datagram transports are observed until a sentinel query sent after the input
// has been answered, plus a short grace.

import (
	"bytes"
	"context"
	"crypto/ed25519"
	"crypto/tls"
	"encoding/base64"
	"encoding/binary"
	"errors"
	"fmt"
	"io"
	"net"
	"net/http"
	"net/netip"
	"net/url"
	"os"
	"strconv"
	"strings"
	"sync"
	"testing"
	"testing/iotest"
	"time"

	"github.com/AdguardTeam/AdGuardDNS/internal/agdtest"
	"github.com/AdguardTeam/AdGuardDNS/internal/bindtodevice"
	"github.com/AdguardTeam/AdGuardDNS/internal/dnsserver"
	"github.com/AdguardTeam/AdGuardDNS/internal/dnsserver/dnsservertest"
	dnssrvprom "github.com/AdguardTeam/AdGuardDNS/internal/dnsserver/prometheus"
	"github.com/AdguardTeam/golibs/logutil/slogutil"
	"github.com/ameshkov/dnscrypt/v2"
	"github.com/ameshkov/dnsstamps"
	"github.com/miekg/dns"
	"github.com/quic-go/quic-go"
	"github.com/quic-go/quic-go/http3"
	"golang.org/x/net/http2"
	"pgregory.net/rapid"
	ref "verif.local/harness/C01/ref"
	"verif.local/harness/vstat"
)

// vc01Wait is the generous bound on any single network wait; hitting it is
// inconclusive.
const vc01Wait = 15 * time.Second

// vc01Grace is how long a datagram socket is watched for a message that must
// not exist, after the sentinel's answer has arrived.
const vc01Grace = 10 * time.Millisecond

// vc01Timeout marks errors that are wall-clock time-outs or other
// environmental failures (never a verdict).
type vc01Timeout struct{ err error }

func (e *vc01Timeout) Error() string { return "environment: " + e.err.Error() }

func vc01Env(format string, a ...any) error { return &vc01Timeout{err: fmt.Errorf(format, a...)} }

func vc01SockHandler() dnsserver.Handler {
	return dnsserver.HandlerFunc(func(ctx context.Context, rw dnsserver.ResponseWriter, req *dns.Msg) error {
		// Like the handlers of the real stack (dnssvc), depend on the server and
		// request information and on the writer's addresses.
		si, ri := dnsserver.MustServerInfoFromContext(ctx), dnsserver.MustRequestInfoFromContext(ctx)
		if si.Proto == dnsserver.ProtoInvalid || ri.StartTime.IsZero() || rw.LocalAddr() == nil || rw.RemoteAddr() == nil {
			panic(fmt.Sprintf("vc01: incomplete request context: %+v %+v", si, ri))
		}

		// Every server of the fixture is named after its protocol.
		if !strings.HasSuffix(si.Name, "-"+si.Proto.String()) {
			panic(fmt.Sprintf("vc01: server %q reports protocol %s", si.Name, si.Proto))
		}

		if vc01IsLate(req) {
			// A slow pipeline: the answer is written when the request's deadline
			// has already passed (as the server itself does with its SERVFAIL when
			// a handler returns after the request time-out).
			late := (&dns.Msg{}).SetReply(req)
			ectx, cancel := context.WithDeadline(ctx, time.Now().Add(-time.Second))
			defer cancel()

			return rw.WriteMsg(ectx, req, late)
		}

		vc01Seen.Store(vc01SeenKey(req), req.Copy())
		resp, mode := ref.Ref(req)
		switch mode {
		case ref.ModeError:
			return errors.New("vc01: reference handler error")
		case ref.ModeSilent:
			return nil
		}

		return rw.WriteMsg(ctx, req, resp)
	})
}

// vc01IsLate tells whether m is a "late" query (by name prefix).
func vc01IsLate(m *dns.Msg) bool {
	return len(m.Question) == 1 && strings.HasPrefix(strings.ToLower(m.Question[0].Name), "late-")
}

// vc01KnownSharedDeadline is the finding: a response written with an expired
// context puts a past write deadline on the server's one shared UDP socket, and
// a concurrent write of another query's response fails.
const vc01KnownSharedDeadline = "udp-shared-socket-write-deadline"

// vc01Seen keeps the last query the handler was given per question.
var vc01Seen sync.Map

func vc01SeenKey(m *dns.Msg) string {
	if len(m.Question) == 0 {
		return ""
	}

	q := m.Question[0]

	return fmt.Sprintf("%s|%d|%d", q.Name, q.Qtype, q.Qclass)
}

// vc01Poison is a Disposer that, like the production one (dnsmsg.Cloner), takes
// the message apart: whoever still uses a disposed response sends garbage.
type vc01Poison struct{}

func (vc01Poison) Dispose(resp *dns.Msg) {
	if resp == nil {
		return
	}

	resp.Id ^= 0xa5a5
	resp.Rcode = 15
	resp.Question, resp.Answer, resp.Ns, resp.Extra = nil, nil, nil, nil
}

// vc01Metrics is a MetricsListener that, like the production one, reads the
// request and the response it is given, and records recovered panics.
type vc01Metrics struct {
	dnsserver.EmptyMetricsListener

	mu   sync.Mutex
	errs []string
}

func (m *vc01Metrics) note(format string, a ...any) {
	m.mu.Lock()
	defer m.mu.Unlock()

	if len(m.errs) < 8 {
		m.errs = append(m.errs, fmt.Sprintf(format, a...))
	}
}

func (m *vc01Metrics) OnRequest(_ context.Context, info *dnsserver.QueryInfo, rw dnsserver.ResponseWriter) {
	switch {
	case info == nil || info.Request == nil || rw == nil:
		m.note("OnRequest without request or writer: %+v", info)
	case info.Response != nil && (info.Response.Id != info.Request.Id || !info.Response.Response):
		m.note("OnRequest was given response id %d qr=%t for request id %d (disposed or foreign message)", info.Response.Id, info.Response.Response, info.Request.Id)
	case info.Response != nil && len(info.Request.Question) > 0 && (len(info.Response.Question) != 1 || info.Response.Question[0] != info.Request.Question[0]):
		m.note("OnRequest was given response question %v for request question %v", info.Response.Question, info.Request.Question)
	}
}

func (m *vc01Metrics) OnPanic(_ context.Context, v any) {
	m.note("recovered panic in the server: %v", v)
}

func (m *vc01Metrics) take() (errs []string) {
	m.mu.Lock()
	defer m.mu.Unlock()

	errs, m.errs = m.errs, nil

	return errs
}

// vc01Tee is the MetricsListener of every fixture server: the production
// listener (internal/dnsserver/prometheus, which dnssvc installs into every
// server) and the harness's own checks.
type vc01Tee struct {
	own  *vc01Metrics
	prod dnsserver.MetricsListener
}

func (l *vc01Tee) OnRequest(ctx context.Context, info *dnsserver.QueryInfo, rw dnsserver.ResponseWriter) {
	l.own.OnRequest(ctx, info, rw)
	l.prod.OnRequest(ctx, info, rw)
}

func (l *vc01Tee) OnInvalidMsg(ctx context.Context) {
	l.own.OnInvalidMsg(ctx)
	l.prod.OnInvalidMsg(ctx)
}

func (l *vc01Tee) OnError(ctx context.Context, err error) {
	l.own.OnError(ctx, err)
	l.prod.OnError(ctx, err)
}

func (l *vc01Tee) OnPanic(ctx context.Context, v any) {
	l.own.OnPanic(ctx, v)
	l.prod.OnPanic(ctx, v)
}

func (l *vc01Tee) OnQUICAddressValidation(hit bool) {
	l.own.OnQUICAddressValidation(hit)
	l.prod.OnQUICAddressValidation(hit)
}

// vc01ProdListener is created once per process: the production listener
// registers its collectors with the default prometheus registry.
var vc01ProdListener = sync.OnceValue(func() dnsserver.MetricsListener {
	return dnssrvprom.NewServerMetricsListener("verifc01")
})

// vc01Net is the process-wide fixture.
type vc01Net struct {
	metrics          *vc01Metrics
	udpAddr, tcpAddr string
	btdAddr, btdWhy  string // plain DNS behind a bind-to-device listener (UDP and TCP)
	dualPort         int    // plain DNS on the dual-stack wildcard [::]:port; 0 if absent
	dualWhy          string
	dotAddr          string
	tlsClient        *tls.Config
	dohAddr          net.Addr // TLS, h2
	doh3Addr         net.Addr
	dohPlainAddr     net.Addr
	doqAddr          string
	doqTLS           *tls.Config
	crypt            *dnsservertest.TestDNSCryptServer
	cryptInfo        *dnscrypt.ResolverInfo

	h2, h1, h3 *http.Client
	qconn      quic.Connection
}

func vc01Start(t *testing.T) *vc01Net {
	n := &vc01Net{metrics: &vc01Metrics{}}
	h := vc01SockHandler()
	fail := func(what string, err error) {
		fmt.Println("VERIF-INCONCLUSIVE: cannot start fixture:", what, err)
		t.FailNow()
	}

	// Configuration as in the dnsservertest.Run*Server helpers, plus what the
	// real stack (dnssvc) always sets: a recycling disposer, a metrics listener
	// that reads what it is given, request contexts with a deadline.  Servers
	// are started here rather than through the require-based helpers, because
	// plain DNS and DNSCrypt bind a UDP port and then the same TCP port, which
	// another process on this shared machine may hold: retry.
	base := func(proto dnsserver.Protocol, network dnsserver.Network) dnsserver.ConfigBase {
		return dnsserver.ConfigBase{
			Name: "test-" + proto.String(), Addr: "127.0.0.1:0", Handler: h, Network: network,
			Disposer: vc01Poison{}, Metrics: &vc01Tee{own: n.metrics, prod: vc01ProdListener()}, RequestContext: dnsserver.NewTimeoutContextConstructor(time.Minute),
		}
	}

	start := func(what string, mk func() dnsserver.Server) dnsserver.Server {
		for i := 0; ; i++ {
			srv := mk()
			err := srv.Start(context.Background())
			if err == nil {
				t.Cleanup(func() { _ = srv.Shutdown(context.Background()) })

				return srv
			}

			if i == 20 {
				fail(what, err)
			}
		}
	}

	srv := start("dns", func() dnsserver.Server {
		return dnsserver.NewServerDNS(dnsserver.ConfigDNS{ConfigBase: base(dnsserver.ProtoDNS, dnsserver.NetworkAny), MaxUDPRespSize: dns.MaxMsgSize})
	})
	n.tcpAddr, n.udpAddr = srv.LocalTCPAddr().String(), srv.LocalUDPAddr().String()

	n.startBTD(t, base(dnsserver.ProtoDNS, dnsserver.NetworkAny))
	n.startDual(t, base(dnsserver.ProtoDNS, dnsserver.NetworkAny))

	tlsConf := dnsservertest.CreateServerTLSConfig("example.org")
	n.tlsClient = tlsConf.Clone()
	n.dotAddr = start("dot", func() dnsserver.Server {
		return dnsserver.NewServerTLS(dnsserver.ConfigTLS{ConfigDNS: dnsserver.ConfigDNS{ConfigBase: base(dnsserver.ProtoDoT, dnsserver.NetworkAny)}, TLSConfig: tlsConf.Clone()})
	}).LocalTCPAddr().String()

	doh := start("doh", func() dnsserver.Server {
		def, h3 := tlsConf.Clone(), tlsConf.Clone()
		def.NextProtos, h3.NextProtos = dnsserver.NextProtoDoH, dnsserver.NextProtoDoH3

		return dnsserver.NewServerHTTPS(dnsserver.ConfigHTTPS{ConfigBase: base(dnsserver.ProtoDoH, dnsserver.NetworkAny), TLSConfDefault: def, TLSConfH3: h3})
	})
	n.dohAddr, n.doh3Addr = doh.LocalTCPAddr(), doh.LocalUDPAddr()
	n.dohPlainAddr = start("doh-plain", func() dnsserver.Server {
		return dnsserver.NewServerHTTPS(dnsserver.ConfigHTTPS{ConfigBase: base(dnsserver.ProtoDoH, dnsserver.NetworkTCP)})
	}).LocalTCPAddr()

	n.doqTLS = tlsConf.Clone()
	n.doqTLS.NextProtos = dnsserver.NextProtoDoQ
	n.doqAddr = start("doq", func() dnsserver.Server {
		return dnsserver.NewServerQUIC(dnsserver.ConfigQUIC{ConfigBase: base(dnsserver.ProtoDoQ, dnsserver.NetworkAny), TLSConfig: n.doqTLS.Clone()})
	}).LocalUDPAddr().String()

	n.crypt = &dnsservertest.TestDNSCryptServer{ProviderName: "example.org"}
	rc, err := dnscrypt.GenerateResolverConfig(n.crypt.ProviderName, nil)
	if err != nil {
		fail("dnscrypt config", err)
	}

	cert, err := rc.CreateCert()
	if err != nil {
		fail("dnscrypt cert", err)
	}

	sk, err := dnscrypt.HexDecodeKey(rc.PrivateKey)
	if err != nil {
		fail("dnscrypt key", err)
	}

	n.crypt.ResolverPk = ed25519.PrivateKey(sk).Public().(ed25519.PublicKey)
	n.crypt.Srv = start("dnscrypt", func() dnsserver.Server {
		return dnsserver.NewServerDNSCrypt(dnsserver.ConfigDNSCrypt{ConfigBase: base(dnsserver.ProtoDNSCrypt, dnsserver.NetworkAny), DNSCryptProviderName: n.crypt.ProviderName, DNSCryptResolverCert: cert})
	}).(*dnsserver.ServerDNSCrypt)
	n.crypt.ServerAddr = n.crypt.Srv.LocalUDPAddr().String()

	cl := &dnscrypt.Client{Timeout: vc01Wait, Net: "tcp"}
	n.cryptInfo, err = cl.DialStamp(dnsstamps.ServerStamp{
		ServerAddrStr: n.crypt.ServerAddr,
		ServerPk:      n.crypt.ResolverPk,
		ProviderName:  n.crypt.ProviderName,
		Proto:         dnsstamps.StampProtoTypeDNSCrypt,
	})
	if err != nil {
		fail("dnscrypt certificate", err)
	}

	// HTTP clients (persistent connections).
	dialTo := func(a net.Addr) func(ctx context.Context, network, _ string) (net.Conn, error) {
		d := &net.Dialer{Timeout: vc01Wait}

		return func(ctx context.Context, network, _ string) (net.Conn, error) {
			return d.DialContext(ctx, network, a.String())
		}
	}

	h2conf := n.tlsClient.Clone()
	h2conf.NextProtos = []string{"h2", "http/1.1"}
	h2tr := &http.Transport{TLSClientConfig: h2conf, DisableCompression: true, DialContext: dialTo(n.dohAddr), ForceAttemptHTTP2: true}
	if err = http2.ConfigureTransport(h2tr); err != nil {
		fail("h2 transport", err)
	}

	n.h2 = &http.Client{Transport: h2tr, Timeout: vc01Wait}
	n.h1 = &http.Client{Transport: &http.Transport{DisableCompression: true, DialContext: dialTo(n.dohPlainAddr)}, Timeout: vc01Wait}
	h3conf := n.tlsClient.Clone()
	h3conf.NextProtos = []string{http3.NextProtoH3}
	h3tr := &http3.Transport{
		DisableCompression: true,
		TLSClientConfig:    h3conf,
		Dial: func(ctx context.Context, _ string, tc *tls.Config, qc *quic.Config) (quic.EarlyConnection, error) {
			return quic.DialAddrEarly(ctx, n.doh3Addr.String(), tc, qc)
		},
	}
	n.h3 = &http.Client{Transport: h3tr, Timeout: vc01Wait}
	t.Cleanup(func() {
		h2tr.CloseIdleConnections()
		n.h1.CloseIdleConnections()
		_ = h3tr.Close()
		if n.qconn != nil {
			_ = n.qconn.CloseWithError(0, "")
		}
	})

	return n
}

// startDual starts a plain-DNS server on the dual-stack wildcard address
// [::]:port, where the local address a datagram was sent to is only known from
// the control message.
func (n *vc01Net) startDual(t *testing.T, conf dnsserver.ConfigBase) {
	conf.Addr = "[::]:0"
	for i := 0; i < 20; i++ {
		srv := dnsserver.NewServerDNS(dnsserver.ConfigDNS{ConfigBase: conf, MaxUDPRespSize: dns.MaxMsgSize})
		err := srv.Start(context.Background())
		if err != nil {
			n.dualWhy = err.Error()
			if !strings.Contains(err.Error(), "in use") {
				return
			}

			continue
		}

		t.Cleanup(func() { _ = srv.Shutdown(context.Background()) })
		// Both families must be reachable.
		port := srv.LocalUDPAddr().(*net.UDPAddr).Port
		for _, a := range []string{"127.0.0.1", "::1"} {
			c, derr := net.Dial("udp", net.JoinHostPort(a, strconv.Itoa(port)))
			if derr != nil {
				n.dualWhy = derr.Error()

				return
			}

			sw, _ := vc01Sentinel(nil)
			_, _ = c.Write(sw)
			_ = c.SetReadDeadline(time.Now().Add(2 * time.Second))
			_, rerr := c.Read(make([]byte, 4096))
			_ = c.Close()
			if rerr != nil {
				n.dualWhy = "no answer on " + a + ": " + rerr.Error()

				return
			}
		}

		n.dualPort, n.dualWhy = port, ""

		return
	}
}

// vc01From sends wire from an UNCONNECTED socket bound to src to dst:port and
// returns the first datagram that comes back with the address it came from (a
// connected socket, which every stub resolver uses, would only see it if that
// address is dst).
func vc01From(src, dst string, port int, wire []byte) (msg []byte, from string, err error) {
	c, err := net.ListenPacket("udp", net.JoinHostPort(src, "0"))
	if err != nil {
		return nil, "", vc01Env("binding %s: %w", src, err)
	}
	defer c.Close()

	ra, err := net.ResolveUDPAddr("udp", net.JoinHostPort(dst, strconv.Itoa(port)))
	if err != nil {
		return nil, "", fmt.Errorf("harness: %w", err)
	}

	if _, err = c.WriteTo(wire, ra); err != nil {
		return nil, "", vc01Env("writing to %s: %w", ra, err)
	}

	_ = c.SetReadDeadline(time.Now().Add(vc01Wait))
	buf := make([]byte, 65536)
	nr, fa, err := c.ReadFrom(buf)
	if err != nil {
		return nil, "", vc01Env("no datagram came back to %s for a query sent to %s: %w", c.LocalAddr(), ra, err)
	}

	return buf[:nr], fa.(*net.UDPAddr).IP.String(), nil
}

// startBTD starts a second plain-DNS server that is fed, as with configured
// interface_listeners in production, by a bindtodevice.Manager bound to "lo":
// its UDP datagrams and TCP connections reach ServerDNS through
// bindtodevice's channel-based PacketConn / Listener and its own buffer pool.
// Without the privilege for SO_BINDTODEVICE the part is absent.
func (n *vc01Net) startBTD(t *testing.T, conf dnsserver.ConfigBase) {
	if os.Geteuid() != 0 {
		n.btdWhy = "not root: SO_BINDTODEVICE needs CAP_NET_RAW"

		return
	}

	for attempt := 0; attempt < 20; attempt++ {
		c, err := net.ListenPacket("udp", "127.0.0.1:0")
		if err != nil {
			n.btdWhy = err.Error()

			return
		}

		port := uint16(c.LocalAddr().(*net.UDPAddr).Port)
		_ = c.Close()

		m := bindtodevice.NewManager(&bindtodevice.ManagerConfig{
			Logger:           slogutil.NewDiscardLogger(),
			InterfaceStorage: bindtodevice.DefaultInterfaceStorage{},
			ErrColl: &agdtest.ErrorCollector{OnCollect: func(_ context.Context, err error) {
				n.metrics.note("bindtodevice reported: %v", err)
			}},
			ChannelBufferSize: 64,
		})

		const id bindtodevice.ID = "verifc01"
		if err = m.Add(id, "lo", port, nil); err != nil {
			n.btdWhy = "manager.Add: " + err.Error()

			return
		}

		lc, err := m.ListenConfig(id, netip.MustParsePrefix("127.0.0.0/8"))
		if err != nil {
			n.btdWhy = "manager.ListenConfig: " + err.Error()

			return
		}

		ctx, cancel := context.WithTimeout(context.Background(), 5*time.Second)
		err = m.Start(ctx)
		cancel()
		if err != nil {
			n.btdWhy = "manager.Start: " + err.Error()
			if strings.Contains(err.Error(), "operation not permitted") {
				return
			}

			continue
		}

		conf.Addr = netip.AddrPortFrom(netip.MustParseAddr("127.0.0.1"), port).String()
		conf.ListenConfig = lc
		srv := dnsserver.NewServerDNS(dnsserver.ConfigDNS{ConfigBase: conf, MaxUDPRespSize: dns.MaxMsgSize})
		if err = srv.Start(context.Background()); err != nil {
			n.btdWhy = "server start: " + err.Error()
			_ = m.Shutdown(context.Background())

			continue
		}

		t.Cleanup(func() {
			sdCtx, sdCancel := context.WithTimeout(context.Background(), 5*time.Second)
			defer sdCancel()

			_ = srv.Shutdown(sdCtx)
			_ = m.Shutdown(sdCtx)
		})

		// Wait until a query is answered through the listener.
		sw, _ := vc01Sentinel(nil)
		for i := 0; i < 50; i++ {
			uc, derr := net.Dial("udp", conf.Addr)
			if derr == nil {
				_, _ = uc.Write(sw)
				_ = uc.SetReadDeadline(time.Now().Add(200 * time.Millisecond))
				_, rerr := uc.Read(make([]byte, 4096))
				_ = uc.Close()
				if rerr == nil {
					n.btdAddr, n.btdWhy = conf.Addr, ""

					return
				}
			}
		}

		n.btdWhy = "the bind-to-device listener does not answer on " + conf.Addr

		return
	}
}

// vc01AnswerSize is an upper bound of the size of the answer to c.
func vc01AnswerSize(c *ref.Case) int {
	if c.Want == nil {
		return 0
	}

	return min(c.Want.Len(), 65535) + 64
}

// vc01Sentinel is a query every server answers; its ID differs from the
// input's.
func vc01Sentinel(input []byte) (wire []byte, id uint16) {
	id = 0x5a5a
	if len(input) >= 2 {
		id = ^binary.BigEndian.Uint16(input)
	}

	m := &dns.Msg{}
	m.Id = id
	m.RecursionDesired = true
	m.Question = []dns.Question{{Name: "k0.sentinel.verif.test.", Qtype: dns.TypeA, Qclass: dns.ClassINET}}
	wire, _ = m.Pack()

	return wire, id
}

func vc01IsSentinel(m *dns.Msg, id uint16) bool {
	return m.Id == id && len(m.Question) == 1 && m.Question[0].Name == "k0.sentinel.verif.test."
}

// vc01Datagram sends input and then a sentinel on one fresh UDP socket and
// collects what comes back until the sentinel is answered and, if expectReply,
// something else has arrived; then a short grace.  enc / dec wrap the payloads
// (identity for plain DNS, DNSCrypt otherwise).
func vc01Datagram(addr string, input []byte, expectReply bool, enc func([]byte) ([]byte, error), dec func([]byte) ([]byte, error)) (r ref.Result, err error) {
	expect := 0
	if expectReply {
		expect = 1
	}

	return vc01Datagrams(addr, [][]byte{input}, expect, enc, dec)
}

// vc01Datagrams is vc01Datagram for several inputs sent back to back on the
// same socket, of which expect must be answered.
func vc01Datagrams(addr string, inputs [][]byte, expect int, enc func([]byte) ([]byte, error), dec func([]byte) ([]byte, error)) (r ref.Result, err error) {
	c, err := net.Dial("udp", addr)
	if err != nil {
		return r, vc01Env("dialing udp: %w", err)
	}
	defer c.Close()

	_ = c.(*net.UDPConn).SetReadBuffer(4 << 20)

	sw, sid := vc01Sentinel(inputs[0])
	for _, w := range append(append([][]byte{}, inputs...), sw) {
		b, eerr := enc(w)
		if eerr != nil {
			return r, fmt.Errorf("harness: encoding datagram: %w", eerr)
		}

		if _, err = c.Write(b); err != nil {
			return r, vc01Env("writing udp: %w", err)
		}
	}

	buf := make([]byte, 65536)
	deadline := time.Now().Add(vc01Wait)
	sentinels, counted := 0, 0
	for {
		waiting := sentinels == 0 || counted < expect
		if waiting {
			_ = c.SetReadDeadline(deadline)
		} else {
			_ = c.SetReadDeadline(time.Now().Add(vc01Grace))
		}

		nr, rerr := c.Read(buf)
		if rerr != nil {
			if waiting {
				var sent, got []string
				for _, w := range inputs {
					sm := &dns.Msg{}
					if sm.Unpack(w) == nil && len(sm.Question) > 0 {
						sent = append(sent, fmt.Sprintf("%d:%s/%d/%d(%do)", sm.Id, sm.Question[0].Name, sm.Question[0].Qtype, sm.Question[0].Qclass, len(w)))
					}
				}

				for _, g := range r.Msgs {
					gm := &dns.Msg{}
					if gm.Unpack(g) == nil && len(gm.Question) > 0 {
						got = append(got, fmt.Sprintf("%d:%s/%d/%d rc%d tc%t", gm.Id, gm.Question[0].Name, gm.Question[0].Qtype, gm.Question[0].Qclass, gm.Rcode, gm.Truncated))
					}
				}

				return r, vc01Env("udp %s: timed out (sentinel answers %d, other messages %d of %d expected); sent %v; received %v", addr, sentinels, len(r.Msgs), expect, sent, got)
			}

			return r, nil
		}

		b, derr := dec(buf[:nr])
		if derr != nil {
			return r, fmt.Errorf("datagram from the server does not decrypt: %w", derr)
		}

		m := &dns.Msg{}
		if uerr := m.Unpack(b); uerr == nil && vc01IsSentinel(m, sid) {
			sentinels++
			if sentinels > 1 {
				return r, fmt.Errorf("the sentinel query was answered %d times", sentinels)
			}

			continue
		}

		if uerr := m.Unpack(b); uerr != nil || !vc01IsLate(m) {
			counted++
		}

		r.Msgs = append(r.Msgs, append([]byte(nil), b...))
	}
}

func vc01Identity(b []byte) ([]byte, error) { return b, nil }

// vc01Stream writes one framed input on conn, half-closes, and reads frames
// until the server closes.  closeWrite half-closes the connection.
func vc01Stream(conn net.Conn, closeWrite func() error, payload []byte, dec func([]byte) ([]byte, error)) (r ref.Result, err error) {
	return vc01StreamRaw(conn, closeWrite, vc01Frame(payload), 0, dec)
}

func vc01Frame(payload []byte) []byte {
	return append(binary.BigEndian.AppendUint16(nil, uint16(len(payload))), payload...)
}

// vc01StreamRaw writes out (in two segments if 0 < split < len(out)),
// half-closes, and reads frames until the server closes.
func vc01StreamRaw(conn net.Conn, closeWrite func() error, out []byte, split int, dec func([]byte) ([]byte, error)) (r ref.Result, err error) {
	defer conn.Close()

	_ = conn.SetDeadline(time.Now().Add(vc01Wait))
	if split > 0 && split < len(out) {
		if _, err = conn.Write(out[:split]); err != nil {
			return r, vc01Env("writing: %w", err)
		}

		// Let the first segment leave on its own.
		time.Sleep(time.Millisecond)
		out = out[split:]
	}

	if _, err = conn.Write(out); err != nil {
		return r, vc01Env("writing: %w", err)
	}

	if err = closeWrite(); err != nil {
		return r, vc01Env("half-closing: %w", err)
	}

	all, rerr := io.ReadAll(conn)
	if rerr != nil {
		var ne net.Error
		if errors.As(rerr, &ne) && ne.Timeout() {
			return r, vc01Env("reading: %w", rerr)
		}
		// A reset after the data is a close.
	}

	r.Treatment = "closed"
	frames, ferr := ref.Frames(all)
	if ferr != nil && rerr == nil {
		return r, fmt.Errorf("server stream is not a sequence of frames: %w", ferr)
	}

	for _, f := range frames {
		b, derr := dec(f)
		if derr != nil {
			return r, fmt.Errorf("frame from the server does not decrypt: %w", derr)
		}

		r.Msgs = append(r.Msgs, b)
	}

	return r, nil
}

func (n *vc01Net) tcp(addr string, payload []byte, dec func([]byte) ([]byte, error)) (r ref.Result, err error) {
	return n.tcpRaw(addr, vc01Frame(payload), 0, dec)
}

func (n *vc01Net) tcpRaw(addr string, out []byte, split int, dec func([]byte) ([]byte, error)) (r ref.Result, err error) {
	c, err := net.DialTimeout("tcp", addr, vc01Wait)
	if err != nil {
		return r, vc01Env("dialing tcp: %w", err)
	}

	return vc01StreamRaw(c, c.(*net.TCPConn).CloseWrite, out, split, dec)
}

func (n *vc01Net) dot(payload []byte) (r ref.Result, err error) {
	return n.dotRaw(vc01Frame(payload), 0)
}

func (n *vc01Net) dotRaw(out []byte, split int) (r ref.Result, err error) {
	d := &net.Dialer{Timeout: vc01Wait}
	c, err := tls.DialWithDialer(d, "tcp", n.dotAddr, n.tlsClient.Clone())
	if err != nil {
		return r, vc01Env("dialing dot: %w", err)
	}

	return vc01StreamRaw(c, c.CloseWrite, out, split, vc01Identity)
}

// vc01NoLen hides the length of a body: HTTP/1.1 then uses chunked transfer
// encoding, HTTP/2 and 3 send no content-length.
type vc01NoLen struct{ io.Reader }

func (n *vc01Net) http(cl *http.Client, scheme, method, target string, body []byte) (r ref.Result, ct string, err error) {
	return n.httpBody(cl, scheme, method, target, body, false)
}

func (n *vc01Net) httpBody(cl *http.Client, scheme, method, target string, body []byte, chunked bool) (r ref.Result, ct string, err error) {
	var rd io.Reader
	if body != nil {
		rd = bytes.NewReader(body)
		if chunked {
			rd = vc01NoLen{Reader: iotest.OneByteReader(rd)}
		}
	}

	req, err := http.NewRequest(method, scheme+"://example.org"+target, rd)
	if err != nil {
		return r, "", fmt.Errorf("harness: building request: %w", err)
	}

	if body != nil {
		req.Header.Set("Content-Type", dnsserver.MimeTypeDoH)
	}

	resp, err := cl.Do(req)
	if err != nil {
		return r, "", vc01Env("http %s %s: %w", method, scheme, err)
	}
	defer resp.Body.Close()

	b, err := io.ReadAll(resp.Body)
	if err != nil {
		return r, "", vc01Env("reading http body: %w", err)
	}

	r.Treatment = "http-" + strconv.Itoa(resp.StatusCode)
	if resp.StatusCode == http.StatusOK {
		r.Msgs = [][]byte{b}
	}

	return r, resp.Header.Get("Content-Type"), nil
}

func (n *vc01Net) quic(wire []byte, prefix int) (r ref.Result, err error) {
	rs, err := n.quicRaw([][]byte{append(binary.BigEndian.AppendUint16(nil, uint16(prefix)), wire...)})
	if len(rs) == 1 {
		r = rs[0]
	}

	return r, err
}

// quicRaw opens one stream per element of streams on one connection, writes
// and finishes all of them, and only then reads the answers.
func (n *vc01Net) quicRaw(streams [][]byte) (rs []ref.Result, err error) {
	ctx, cancel := context.WithTimeout(context.Background(), vc01Wait)
	defer cancel()

	if n.qconn == nil || n.qconn.Context().Err() != nil {
		n.qconn, err = quic.DialAddr(ctx, n.doqAddr, n.doqTLS.Clone(), nil)
		if err != nil {
			n.qconn = nil

			return nil, vc01Env("dialing doq: %w", err)
		}
	}

	treat := func(err error) (string, bool) {
		var ae *quic.ApplicationError
		if errors.As(err, &ae) && ae.Remote {
			return fmt.Sprintf("doq-close-%d", ae.ErrorCode), true
		}

		return "", false
	}

	var sts []quic.Stream
	rs = make([]ref.Result, len(streams))
	for _, out := range streams {
		st, oerr := n.qconn.OpenStreamSync(ctx)
		if oerr != nil {
			n.qconn = nil

			return nil, vc01Env("opening doq stream: %w", oerr)
		}

		_ = st.SetDeadline(time.Now().Add(vc01Wait))
		_, werr := st.Write(out)
		if werr == nil {
			werr = st.Close()
		}

		if werr != nil {
			n.qconn = nil
			tr, ok := treat(werr)
			if !ok {
				return nil, vc01Env("writing doq stream: %w", werr)
			}

			// The connection is gone; the other streams share the treatment.
			for j := range rs {
				rs[j].Treatment = tr
			}

			return rs, nil
		}

		sts = append(sts, st)
	}

	for i, st := range sts {
		all, rerr := io.ReadAll(st)
		if rerr != nil {
			n.qconn = nil
			tr, ok := treat(rerr)
			if !ok {
				return nil, vc01Env("reading doq stream: %w", rerr)
			}

			rs[i].Treatment = tr
		}

		frames, ferr := ref.Frames(all)
		if ferr != nil && rerr == nil {
			return nil, fmt.Errorf("DoQ stream is not a sequence of frames: %w", ferr)
		}

		rs[i].Msgs = frames
	}

	return rs, nil
}

func (n *vc01Net) cryptEnc(wire []byte) ([]byte, error) {
	q := dnscrypt.EncryptedQuery{
		EsVersion:   n.cryptInfo.ResolverCert.EsVersion,
		ClientMagic: n.cryptInfo.ResolverCert.ClientMagic,
		ClientPk:    n.cryptInfo.PublicKey,
	}

	return q.Encrypt(wire, n.cryptInfo.SharedKey)
}

func (n *vc01Net) cryptDec(b []byte) ([]byte, error) {
	r := dnscrypt.EncryptedResponse{EsVersion: n.cryptInfo.ResolverCert.EsVersion}

	return r.Decrypt(b, n.cryptInfo.SharedKey)
}

func vc01PlainName(n string) bool {
	for i := 0; i < len(n); i++ {
		c := n[i]
		if !(c >= 'a' && c <= 'z' || c >= 'A' && c <= 'Z' || c >= '0' && c <= '9' || c == '-' || c == '_' || c == '.') {
			return false
		}
	}

	return n != ""
}

// vc01Inconclusive is set once a case ended in an environmental failure.
var vc01Inconclusive bool

// vc01Attempt runs f, and once more if it failed for environmental reasons.
func vc01Attempt(f func() (ref.Result, error)) (r ref.Result, err error) {
	r, err = f()
	var te *vc01Timeout
	if errors.As(err, &te) {
		r, err = f()
	}

	return r, err
}

func vc01SocketCase(t *rapid.T, st *vstat.Stats, n *vc01Net, in ref.Input) {
	wire := in.Wire
	c := ref.Classify(wire)
	classes := append(c.Classes(), "gen-"+strings.SplitN(in.Gen, ":", 2)[0], "production-metrics-listener")
	fulls := map[string]string{}
	order := []string{}
	if vc01Inconclusive {
		// An earlier case hit a time-out: do not multiply it while rapid shrinks.
		t.FailNow()
	}

	fail := func(tr string, err error) {
		var te *vc01Timeout
		if errors.As(err, &te) {
			vc01Inconclusive = true
			fmt.Printf("VERIF-INCONCLUSIVE: %s: %v (input %s %s)\n", tr, err, in.Gen, ref.Hex(wire))
			t.FailNow()
		}

		st.Case("", classes...)
		t.Fatalf("transport %s, input %s (%s) %s:\n%v", tr, in.Gen, ref.VerdictNames[c.Verdict], ref.Hex(wire), err)
	}

	judge := func(tr ref.Transport, cc *ref.Case, r ref.Result, err error, o ref.CheckOpts, compare bool) {
		if err != nil {
			fail(tr.Name, err)
		}

		full, cl, err := ref.Judge(tr, cc, r, o)
		classes = append(classes, cl...)
		if err != nil {
			fail(tr.Name, err)
		}

		if full != "" && compare {
			fulls[tr.Name] = full
			order = append(order, tr.Name)
		}

		if cc.NonTrivial() {
			st.NonTrivial(tr.Name + "|" + string(cc.Wire))
		}
	}

	// attemptMust is vc01Attempt for connection-oriented transports: the servers
	// have wall-clock read time-outs of their own (2 s for the first TCP / DoT /
	// DNSCrypt read and for a DoQ stream), after which a slow client is cut off
	// without an answer (DoQ: with a protocol error).  On a loaded machine that
	// is not a verdict: an input that must be answered and got nothing is sent
	// once more on a fresh connection, and only the second outcome is judged.
	attemptMust := func(tr ref.Transport, cc *ref.Case, f func() (ref.Result, error)) (ref.Result, error) {
		r, err := vc01Attempt(f)
		if k, _, _ := cc.Expect(tr); err == nil && k == ref.MustReply && len(r.Msgs) == 0 {
			classes = append(classes, tr.Name+":resent-after-empty-outcome")
			r, err = vc01Attempt(f)
		}

		return r, err
	}

	// foreignOnly applies the weakest check where the input is outside the
	// transport's must-answer domain.
	foreignOnly := func(tr string, seen *ref.Case, r ref.Result, err error) {
		if err != nil {
			var te *vc01Timeout
			if errors.As(err, &te) {
				// No answer to an out-of-domain input is fine.
				return
			}

			fail(tr, err)
		}

		for _, m := range r.Msgs {
			got := &dns.Msg{}
			if uerr := got.Unpack(m); uerr != nil {
				fail(tr, fmt.Errorf("the response does not decode: %w", uerr))
			}

			if ferr := ref.CheckForeign(seen, got); ferr != nil {
				fail(tr, ferr)
			}
		}
	}

	expectsReply := func(tr ref.Transport) bool {
		k, _, _ := c.Expect(tr)

		return k == ref.MustReply
	}

	// plain UDP; receive buffer is 512 octets.
	if len(wire) <= dns.MinMsgSize {
		r, err := vc01Attempt(func() (ref.Result, error) {
			return vc01Datagram(n.udpAddr, wire, expectsReply(ref.UDP), vc01Identity, vc01Identity)
		})
		judge(ref.UDP, c, r, err, ref.CheckOpts{}, true)
	} else {
		classes = append(classes, "udp-oversize-query")
		r, err := vc01Datagram(n.udpAddr, wire, false, vc01Identity, vc01Identity)
		// The server only ever sees the first 512 octets of the datagram.
		foreignOnly("udp", ref.Classify(wire[:dns.MinMsgSize]), r, err)
	}

	// The frame leaves in one segment or in two, cut at a drawn offset (inside
	// the length prefix, right after it, inside the message).
	split := rapid.SampledFrom([]int{0, 0, 1, 2, 3, 14, len(wire) + 1}).Draw(t, "tcpSplit")
	if split > 0 {
		classes = append(classes, "tcp-split-write")
	}

	r, err := attemptMust(ref.TCP, c, func() (ref.Result, error) { return n.tcpRaw(n.tcpAddr, vc01Frame(wire), split, vc01Identity) })
	judge(ref.TCP, c, r, err, ref.CheckOpts{}, true)
	r, err = attemptMust(ref.DoT, c, func() (ref.Result, error) { return n.dotRaw(vc01Frame(wire), split) })
	judge(ref.DoT, c, r, err, ref.CheckOpts{}, true)

	// The second production path into ServerDNS: interface listeners.
	// A query whose answer is written twice (failed write, then SERVFAIL) makes
	// the bind-to-device listener return its read buffer to the pool twice,
	// after which unrelated later datagrams share a buffer (finding
	// bindtodevice-read-body-returned-twice, judged by TestVerifC01BTDReadBuffer
	// on a server of its own).  It must not poison this shared fixture, where
	// the damage could not be attributed.
	btdSafe := !(c.Verdict == ref.VAccept && c.Kind == ref.KHuge)
	if n.btdAddr != "" && !btdSafe {
		classes = append(classes, "udp-btd:double-write-trigger-kept-off-shared-fixture")
	}

	if n.btdAddr != "" && btdSafe {
		if len(wire) <= dns.MinMsgSize {
			r, err = vc01Attempt(func() (ref.Result, error) {
				return vc01Datagram(n.btdAddr, wire, expectsReply(ref.UDP), vc01Identity, vc01Identity)
			})
			judge(ref.UDP.Named("udp-btd"), c, r, err, ref.CheckOpts{}, true)
		}

		r, err = attemptMust(ref.TCP, c, func() (ref.Result, error) { return n.tcpRaw(n.btdAddr, vc01Frame(wire), split, vc01Identity) })
		judge(ref.TCP.Named("tcp-btd"), c, r, err, ref.CheckOpts{}, true)
	}

	// Dual-stack wildcard listener: the answer must come from the address the
	// query was sent to, whatever the family and whether or not that address is
	// the kernel's default source towards the client.
	if n.dualPort != 0 && len(wire) <= dns.MinMsgSize && expectsReply(ref.UDP) {
		for _, pr := range []struct{ class, src, dst string }{
			{"udp-dualstack-wildcard-default-local-v4", "127.0.0.1", "127.0.0.1"},
			{"udp-dualstack-wildcard-nondefault-local-v4", "127.0.0.1", "127.0.0.2"},
			{"udp-dualstack-wildcard-nondefault-local-v4", "127.0.0.3", "127.0.0.7"},
			{"udp-dualstack-wildcard-v6", "::1", "::1"},
		} {
			var msg []byte
			var from string
			_, err = vc01Attempt(func() (ref.Result, error) {
				var ferr error
				msg, from, ferr = vc01From(pr.src, pr.dst, n.dualPort, wire)

				return ref.Result{}, ferr
			})
			judge(ref.UDP.Named("udp-dualstack"), c, ref.Result{Msgs: [][]byte{msg}}, err, ref.CheckOpts{}, false)
			if from != pr.dst {
				fail("udp-dualstack", fmt.Errorf("query sent from %s to %s:%d on the dual-stack wildcard listener was answered from %s: a connected socket never sees that answer", pr.src, pr.dst, n.dualPort, from))
			}

			classes = append(classes, pr.class)
		}

		for _, dst := range []string{"127.0.0.2", "::1"} {
			r, err = attemptMust(ref.TCP, c, func() (ref.Result, error) {
				return n.tcpRaw(net.JoinHostPort(dst, strconv.Itoa(n.dualPort)), vc01Frame(wire), split, vc01Identity)
			})
			judge(ref.TCP.Named("tcp-dualstack"), c, r, err, ref.CheckOpts{}, false)
		}
	}

	// A decoy is another, acceptable query offered through the parameters of
	// the encodings that are NOT in use; it must be ignored.
	decoyMsg := (&dns.Msg{}).SetQuestion("k0.decoy.test.", dns.TypeAAAA)
	decoyMsg.Id = 0xdec0
	decoyWire, _ := decoyMsg.Pack()
	b64 := base64.RawURLEncoding.EncodeToString
	decoy := rapid.Bool().Draw(t, "dohDecoy")
	chunked := rapid.Bool().Draw(t, "chunkedBody")
	pathPick := ref.RapidChooser(t)
	getPath, gc := ref.DrawDoHPath(pathPick, "doh-get-path", dnsserver.PathDoH)
	postPath, pc := ref.DrawDoHPath(pathPick, "doh-post-path", dnsserver.PathDoH)
	classes = append(classes, gc, pc)
	get, post := getPath+"?dns="+b64(wire), postPath
	if decoy {
		classes = append(classes, "doh-decoy-params")
		get += "&name=k0.decoy.test&type=AAAA&ct=" + url.QueryEscape(dnsserver.MimeTypeJSON) + "&do=1"
		post += "?dns=" + b64(decoyWire) + "&name=k0.decoy.test"
	}

	if chunked {
		classes = append(classes, "doh-body-without-length")
	}

	r, err = vc01Attempt(func() (ref.Result, error) {
		r, _, err := n.http(n.h2, "https", http.MethodGet, get, nil)
		return r, err
	})
	judge(ref.DoH.Named("doh-h2-get"), c, r, err, ref.CheckOpts{}, true)
	r, err = vc01Attempt(func() (ref.Result, error) {
		r, _, err := n.httpBody(n.h2, "https", http.MethodPost, post, wire, chunked)

		return r, err
	})
	judge(ref.DoH.Named("doh-h2-post"), c, r, err, ref.CheckOpts{}, true)
	if rapid.Bool().Draw(t, "h1Post") {
		r, err = vc01Attempt(func() (ref.Result, error) {
			r, _, err := n.httpBody(n.h1, "http", http.MethodPost, post, wire, chunked)

			return r, err
		})
		judge(ref.DoH.Named("doh-h1-plain-post"), c, r, err, ref.CheckOpts{}, true)
	} else {
		r, err = vc01Attempt(func() (ref.Result, error) { r, _, err := n.http(n.h1, "http", http.MethodGet, get, nil); return r, err })
		judge(ref.DoH.Named("doh-h1-plain-get"), c, r, err, ref.CheckOpts{}, true)
	}

	if vstat.Thorough() || rapid.IntRange(0, 7).Draw(t, "h3") == 0 {
		r, err = vc01Attempt(func() (ref.Result, error) {
			r, _, err := n.httpBody(n.h3, "https", http.MethodPost, post, wire, chunked)

			return r, err
		})
		judge(ref.DoH.Named("doh-h3-post"), c, r, err, ref.CheckOpts{}, true)
	}

	// DoQ, with the correct length prefix or, sometimes, a wrong one.
	prefix := len(wire)
	if rapid.IntRange(0, 9).Draw(t, "quicBadPrefix") == 0 {
		prefix = max(0, len(wire)+rapid.SampledFrom([]int{-1, 1, 2, -12}).Draw(t, "prefixDelta"))
	}

	if prefix == len(wire) {
		r, err = attemptMust(ref.DoQ, c, func() (ref.Result, error) { return n.quic(wire, prefix) })
	} else {
		r, err = vc01Attempt(func() (ref.Result, error) { return n.quic(wire, prefix) })
	}

	if prefix == len(wire) {
		judge(ref.DoQ, c, r, err, ref.CheckOpts{}, true)
	} else {
		classes = append(classes, "doq-bad-prefix")
		if err != nil {
			fail("doq", err)
		}

		if len(r.Msgs) != 0 || r.Treatment != ref.DoQProtocolError {
			fail("doq", fmt.Errorf("length prefix %d for %d octets: %d messages came back, treatment %q", prefix, len(wire), len(r.Msgs), r.Treatment))
		}
	}

	// Fault forms of the framing layers: whatever the content, no DNS message
	// may come back.
	fault := rapid.SampledFrom([]string{"", "", "", "tcp-short-frame", "tcp-empty-frame", "doq-two-in-one", "doh-two-dns-params", "doh-bad-method"}).Draw(t, "streamFault")
	noMsg := func(tr string, r ref.Result, err error, wantTreatment string) {
		classes = append(classes, fault)
		if err != nil {
			fail(tr, err)
		}

		if len(r.Msgs) != 0 || !strings.HasPrefix(r.Treatment, wantTreatment) {
			fail(tr, fmt.Errorf("%s: %d messages came back, treatment %q (want %q...)", fault, len(r.Msgs), r.Treatment, wantTreatment))
		}
	}

	switch fault {
	case "tcp-short-frame":
		short := binary.BigEndian.AppendUint16(nil, uint16(len(wire)+1+int(ref.Hash(string(wire))%300)))
		r, err = vc01Attempt(func() (ref.Result, error) { return n.tcpRaw(n.tcpAddr, append(short, wire...), split, vc01Identity) })
		noMsg("tcp", r, err, "closed")
	case "tcp-empty-frame":
		r, err = vc01Attempt(func() (ref.Result, error) { return n.dotRaw([]byte{0, 0}, 0) })
		noMsg("dot", r, err, "closed")
	case "doq-two-in-one":
		// RFC 9250, 4.3 (3): more than one query on a stream.
		r, err = vc01Attempt(func() (ref.Result, error) {
			rs, err := n.quicRaw([][]byte{append(vc01Frame(wire), vc01Frame(decoyWire)...)})
			if err != nil {
				return ref.Result{}, err
			}

			return rs[0], nil
		})
		noMsg("doq", r, err, ref.DoQProtocolError)
	case "doh-two-dns-params":
		r, err = vc01Attempt(func() (ref.Result, error) {
			r, _, err := n.http(n.h2, "https", http.MethodGet, dnsserver.PathDoH+"?dns="+b64(decoyWire)+"&dns="+b64(wire), nil)

			return r, err
		})
		noMsg("doh-h2-get", r, err, "http-4")
	case "doh-bad-method":
		r, err = vc01Attempt(func() (ref.Result, error) {
			r, _, err := n.http(n.h1, "http", http.MethodPut, dnsserver.PathDoH+"?dns="+b64(decoyWire), decoyWire)

			return r, err
		})
		noMsg("doh-h1-put", r, err, "http-4")
	}

	// Two queries in flight on the same connection / socket: the input and a
	// near miss of it (exactly one component differs, or nothing but the ID).
	if in.Gen == "valid" && rapid.Bool().Draw(t, "pipelinePair") {
		m2, what := ref.DrawNearMiss(t, in.Msg)
		if m2.Id != in.Msg.Id {
			// Out of the range of the burst's IDs (base+1 .. base+6).
			m2.Id = in.Msg.Id + 100
		}
		w2, perr := m2.Pack()
		if perr != nil {
			t.Fatalf("harness: near miss does not pack: %v", perr)
		}

		cs := []*ref.Case{c, ref.Classify(w2)}
		classes = append(classes, "pipelined-near-miss", "near-miss-"+what)
		match := func(tr ref.Transport, cs []*ref.Case, r ref.Result, err error) {
			if err != nil {
				fail(tr.Name, err)
			}

			must := func(i int) bool { k, _, _ := cs[i].Expect(tr); return k == ref.MustReply }
			merr := ref.MatchReplies(len(cs), r.Msgs, must, func(i int, msg []byte) error {
				_, _, jerr := ref.Judge(tr, cs[i], ref.Result{Msgs: [][]byte{msg}}, ref.CheckOpts{})

				return jerr
			})
			if merr != nil {
				fail(tr.Name, fmt.Errorf("%d queries pipelined, first near miss (%s) %s:\n%w", len(cs), what, ref.Hex(w2), merr))
			}

			classes = append(classes, tr.Name+":pair")
		}

		// More near misses for a burst on one connection / socket: only those
		// that must be answered there (an unanswered query closes a stream
		// connection under its neighbours) and, for UDP, fit the receive buffer.
		streamCases, dgramCases := []*ref.Case{}, []*ref.Case{}
		dgramVolume := 0
		burst, _ := ref.DrawBurst(t, in.Msg, 6)
		for _, bc := range append([]*ref.Case{c, cs[1]}, func() (out []*ref.Case) {
			for _, bm := range burst {
				bw, berr := bm.Pack()
				if berr != nil {
					t.Fatalf("harness: near miss does not pack: %v", berr)
				}

				out = append(out, ref.Classify(bw))
			}

			return out
		}()...) {
			if k, _, _ := bc.Expect(ref.TCP); k == ref.MustReply {
				streamCases = append(streamCases, bc)
			}

			// The answers of one burst arrive back to back on one socket: keep
			// their volume well below its receive buffer (a dropped datagram is
			// the harness's loss, not the server's).
			if vol := dgramVolume + vc01AnswerSize(bc); len(bc.Wire) <= dns.MinMsgSize && vol <= 48<<10 {
				dgramCases, dgramVolume = append(dgramCases, bc), vol
			}
		}

		both := func(tr ref.Transport) bool {
			k1, _, _ := cs[0].Expect(tr)
			k2, _, _ := cs[1].Expect(tr)

			return k1 == ref.MustReply && k2 == ref.MustReply
		}

		psplit := rapid.SampledFrom([]int{0, 1, len(wire) + 2, len(wire) + 3}).Draw(t, "pairSplit")
		if len(streamCases) >= 2 {
			var stream []byte
			for _, bc := range streamCases {
				stream = append(stream, vc01Frame(bc.Wire)...)
			}

			again := func(tr ref.Transport, f func() (ref.Result, error)) (ref.Result, error) {
				r, err := vc01Attempt(f)
				if err == nil && len(r.Msgs) < len(streamCases) {
					// Cut off by the server's read time-out on a loaded machine?
					classes = append(classes, tr.Name+":resent-after-empty-outcome")
					r, err = vc01Attempt(f)
				}

				return r, err
			}

			r, err = again(ref.TCP, func() (ref.Result, error) { return n.tcpRaw(n.tcpAddr, stream, psplit, vc01Identity) })
			match(ref.TCP, streamCases, r, err)
			r, err = again(ref.DoT, func() (ref.Result, error) { return n.dotRaw(stream, psplit) })
			match(ref.DoT, streamCases, r, err)
		}

		if len(dgramCases) >= 2 {
			expect := 0
			var wires [][]byte
			for _, cc := range dgramCases {
				wires = append(wires, cc.Wire)
				if k, _, _ := cc.Expect(ref.UDP); k == ref.MustReply {
					expect++
				}
			}

			r, err = vc01Attempt(func() (ref.Result, error) {
				return vc01Datagrams(n.udpAddr, wires, expect, vc01Identity, vc01Identity)
			})
			match(ref.UDP, dgramCases, r, err)
		}

		// The same burst with 1-3 "late" queries in flight on the same socket:
		// their answers are written with an expired context.  The normal queries
		// must be answered as ever; the late ones are not judged beyond "at most
		// one response each".
		var normals []*ref.Case
		for _, cc := range dgramCases {
			if k, _, _ := cc.Expect(ref.UDP); k == ref.MustReply {
				normals = append(normals, cc)
			}
		}

		lateBurst := func(tr ref.Transport, addr string) {
			nLate := rapid.IntRange(1, 3).Draw(t, "nLate")
			var wires [][]byte
			for _, cc := range normals {
				wires = append(wires, cc.Wire)
			}

			for i := 0; i < nLate; i++ {
				lm := (&dns.Msg{}).SetQuestion(fmt.Sprintf("late-%d.k0.test.", i), dns.TypeA)
				lm.Id = 0xe000 + uint16(i)
				lw, _ := lm.Pack()
				at := rapid.IntRange(0, len(wires)-1).Draw(t, "lateAt")
				wires = append(wires[:at], append([][]byte{lw}, wires[at:]...)...)
			}

			r, lerr := vc01Attempt(func() (ref.Result, error) {
				return vc01Datagrams(addr, wires, len(normals), vc01Identity, vc01Identity)
			})
			class := tr.Name + ":normal-query-in-flight-with-expired-context-write"
			classes = append(classes, class)
			var normalReplies [][]byte
			lateSeen := map[uint16]int{}
			for _, m := range r.Msgs {
				dm := &dns.Msg{}
				if uerr := dm.Unpack(m); uerr == nil && vc01IsLate(dm) {
					lateSeen[dm.Id]++
					if lateSeen[dm.Id] > 1 {
						fail(tr.Name, fmt.Errorf("late query %d was answered %d times", dm.Id, lateSeen[dm.Id]))
					}

					continue
				}

				normalReplies = append(normalReplies, m)
			}

			if lerr == nil {
				lerr = ref.MatchReplies(len(normals), normalReplies, func(int) bool { return true }, func(i int, msg []byte) error {
					_, _, jerr := ref.Judge(tr, normals[i], ref.Result{Msgs: [][]byte{msg}}, ref.CheckOpts{})

					return jerr
				})
			}

			if lerr != nil {
				if st.Known(vc01KnownSharedDeadline) {
					classes = append(classes, class+":known-finding")

					return
				}

				var te *vc01Timeout
				if errors.As(lerr, &te) {
					// Not a time-out verdict: report what is missing as observed.
					lerr = fmt.Errorf("%d normal queries, %d late ones on one socket; normal replies received: %d: %w", len(normals), nLate, len(normalReplies), te.err)
				}

				st.Case("", classes...)
				t.Fatalf("transport %s: %d normal queries (first %s) in flight on one socket with %d queries whose answer is written with an expired context:\n%v",
					tr.Name, len(normals), ref.Hex(normals[0].Wire), nLate, lerr)
			}
		}

		if len(normals) >= 2 {
			lateBurst(ref.UDP, n.udpAddr)
			hugeAmong := false
			for _, cc := range normals {
				hugeAmong = hugeAmong || cc.Kind == ref.KHuge
			}

			if n.btdAddr != "" && !hugeAmong {
				lateBurst(ref.UDP.Named("udp-btd"), n.btdAddr)
			}
		}

		// DoQ answers a response it cannot frame (over 64 KiB after padding) by
		// closing the whole CONNECTION with a protocol error, which also ends the
		// other stream in flight; such a pair cannot be attributed per stream.
		if both(ref.DoQ) && cs[0].Kind != ref.KHuge && cs[1].Kind != ref.KHuge {
			var rs []ref.Result
			for try := 0; try < 2; try++ {
				_, err = vc01Attempt(func() (ref.Result, error) {
					var qerr error
					rs, qerr = n.quicRaw([][]byte{vc01Frame(wire), vc01Frame(w2)})

					return ref.Result{}, qerr
				})
				if err != nil || (len(rs) == 2 && len(rs[0].Msgs) > 0 && len(rs[1].Msgs) > 0) {
					break
				}

				classes = append(classes, "doq:resent-after-empty-outcome")
			}

			if err != nil {
				fail("doq", err)
			}

			for i, cc := range cs {
				if _, _, jerr := ref.Judge(ref.DoQ, cc, rs[i], ref.CheckOpts{}); jerr != nil {
					fail("doq", fmt.Errorf("stream %d of 2 in flight, near miss (%s) %s:\n%w", i+1, what, ref.Hex(w2), jerr))
				}
			}

			classes = append(classes, "doq:pair")
		}

		if both(ref.DoH) {
			// Two concurrent requests on the one HTTP/2 connection.
			var r2 ref.Result
			var err2 error
			done := make(chan struct{})
			go func() {
				defer close(done)

				r2, err2 = vc01Attempt(func() (ref.Result, error) {
					r, _, err := n.http(n.h2, "https", http.MethodPost, postPath, w2)

					return r, err
				})
			}()

			r, err = vc01Attempt(func() (ref.Result, error) {
				r, _, err := n.http(n.h2, "https", http.MethodGet, getPath+"?dns="+b64(wire), nil)

				return r, err
			})
			<-done
			judge(ref.DoH.Named("doh-h2-get"), cs[0], r, err, ref.CheckOpts{}, false)
			judge(ref.DoH.Named("doh-h2-post"), cs[1], r2, err2, ref.CheckOpts{}, false)
			classes = append(classes, "doh-h2:pair")
		}
	}

	// DNSCrypt.  The UDP server reads at most 1252 octets of ciphertext.
	if len(wire) <= 1024 {
		r, err = vc01Attempt(func() (ref.Result, error) {
			return vc01Datagram(n.crypt.ServerAddr, wire, expectsReply(ref.DNSCryptUDP), n.cryptEnc, n.cryptDec)
		})
		judge(ref.DNSCryptUDP, c, r, err, ref.CheckOpts{}, true)
	} else {
		classes = append(classes, "dnscrypt-udp-oversize-query")
		r, err = vc01Datagram(n.crypt.ServerAddr, wire, false, n.cryptEnc, n.cryptDec)
		foreignOnly("dnscrypt-udp", c, r, err)
	}

	r, err = attemptMust(ref.DNSCryptTCP, c, func() (ref.Result, error) {
		enc, eerr := n.cryptEnc(wire)
		if eerr != nil {
			return ref.Result{}, fmt.Errorf("harness: encrypting: %w", eerr)
		}

		return n.tcp(n.crypt.ServerAddr, enc, n.cryptDec)
	})
	judge(ref.DNSCryptTCP, c, r, err, ref.CheckOpts{}, true)

	// All complete answers must agree.
	for _, tr := range order[min(1, len(order)):] {
		if fulls[tr] != fulls[order[0]] {
			fail(tr, fmt.Errorf("transports disagree:\n %s: %s\n %s: %s", order[0], fulls[order[0]], tr, fulls[tr]))
		}
	}

	if len(order) >= 2 {
		classes = append(classes, "cross-transport-compared")
	}

	// JSON API: the question of an accepted query with a plain name, every
	// documented parameter drawn independently of the wire query.
	if c.Verdict == ref.VAccept && vc01PlainName(c.Req.Question[0].Name) {
		pick := ref.RapidChooser(t)
		j := ref.DrawJSONQuery(pick, c.Req.Question[0])
		jsonPath, jpc := ref.DrawDoHPath(pick, "doh-json-path", dnsserver.PathJSON)
		classes = append(classes, jpc)
		method := rapid.SampledFrom([]string{http.MethodGet, http.MethodGet, http.MethodPost}).Draw(t, "jsonMethod")
		cl, scheme := n.h2, "https"
		if rapid.IntRange(0, 3).Draw(t, "jsonPlain") == 0 {
			cl, scheme = n.h1, "http"
		}

		classes = append(append(classes, "json"), j.Classes...)
		var jsonBody []byte
		if decoy {
			j.Values.Set("dns", b64(decoyWire))
			if method == http.MethodPost {
				jsonBody = decoyWire
			}
		}

		otherCT := rapid.SampledFrom([]string{"", "", dnsserver.MimeTypeJSON, "text/plain"}).Draw(t, "jsonCT")
		target := func(wireCT bool) string {
			v := url.Values{}
			for k, vs := range j.Values {
				v[k] = vs
			}

			if wireCT {
				v.Set("ct", dnsserver.MimeTypeDoH)
			} else if otherCT != "" {
				v.Set("ct", otherCT)
			}

			return jsonPath + "?" + v.Encode()
		}

		call := func(wireCT bool) (r ref.Result, ct string) {
			r, err = vc01Attempt(func() (r ref.Result, err error) {
				r, ct, err = n.httpBody(cl, scheme, method, target(wireCT), jsonBody, chunked)

				return r, err
			})
			if err != nil {
				fail("doh-json", err)
			}

			return r, ct
		}

		if j.Invalid {
			for _, wireCT := range []bool{false, true} {
				if r, _ := call(wireCT); !strings.HasPrefix(r.Treatment, "http-4") {
					fail("doh-json", fmt.Errorf("invalid parameter in %q: %s, want 4xx", target(wireCT), r.Treatment))
				}
			}
		} else {
			jb, _ := j.Req.Pack()
			jc := ref.Classify(jb)
			key := vc01SeenKey(j.Req)
			received := func(tr string) {
				v, _ := vc01Seen.Load(key)
				got, _ := v.(*dns.Msg)
				if rerr := ref.CheckJSONReceived(j, got); rerr != nil {
					fail(tr, fmt.Errorf("request %q: %w", j.Values.Encode(), rerr))
				}
			}

			vc01Seen.Delete(key)
			r, ct := call(false)
			received("doh-json")
			switch {
			case jc.Mode == ref.ModeSilent:
				if len(r.Msgs) != 0 {
					fail("doh-json", fmt.Errorf("silent pipeline: %s", r.Treatment))
				}
			case len(r.Msgs) != 1:
				fail("doh-json", fmt.Errorf("request %q: HTTP outcome %s", j.Values.Encode(), r.Treatment))
			default:
				if ct != dnsserver.MimeTypeJSON {
					fail("doh-json", fmt.Errorf("content type %q", ct))
				}

				dropped, jerr := ref.CheckJSON(r.Msgs[0], j.Req, jc.Want, jc.Loose)
				if jerr != nil {
					fail("doh-json", fmt.Errorf("request %q: %w", j.Values.Encode(), jerr))
				}

				if dropped {
					classes = append(classes, "json-authority-not-representable")
				}

				if jc.NonTrivial() {
					st.NonTrivial("doh-json|" + string(jb))
				}
			}

			// The same with ct=application/dns-message, judged against the
			// equivalent request's own case and compared with the answer to the
			// equivalent wire-format query sent as a DoH POST.
			vc01Seen.Delete(key)
			r, _ = call(true)
			received("doh-json-ct-wire")
			jfull, jcl, jerr := ref.Judge(ref.DoH.Named("doh-json-ct-wire"), jc, r, ref.CheckOpts{NoID: true})
			classes = append(classes, jcl...)
			if jerr != nil {
				fail("doh-json-ct-wire", fmt.Errorf("request %q: %w", j.Values.Encode(), jerr))
			}

			r, err = vc01Attempt(func() (ref.Result, error) {
				r, _, err := n.http(cl, scheme, http.MethodPost, postPath, jb)

				return r, err
			})
			if err != nil {
				fail("doh-post(json-equivalent)", err)
			}

			pfull, _, perr := ref.Judge(ref.DoH.Named("doh-post"), jc, r, ref.CheckOpts{})
			if perr != nil {
				fail("doh-post(json-equivalent)", perr)
			}

			if jfull != pfull {
				fail("doh-json-ct-wire", fmt.Errorf("request %q: JSON API and the equivalent wire-format query disagree:\n json: %s\n wire: %s", j.Values.Encode(), jfull, pfull))
			}

			if jfull != "" {
				classes = append(classes, "json-vs-wire-compared")
			}
		}
	}

	// (iv) the listeners survived: covered by the next case and by the sentinel
	// answers; an explicit probe after unacceptable input costs one query.
	if c.Verdict != ref.VAccept {
		sw, _ := vc01Sentinel(wire)
		sc := ref.Classify(sw)
		r, err = attemptMust(ref.TCP, sc, func() (ref.Result, error) { return n.tcp(n.tcpAddr, sw, vc01Identity) })
		judge(ref.TCP.Named("tcp"), sc, r, err, ref.CheckOpts{}, false)
		r, err = attemptMust(ref.DoQ, sc, func() (ref.Result, error) { return n.quic(sw, len(sw)) })
		judge(ref.DoQ, sc, r, err, ref.CheckOpts{}, false)
		classes = append(classes, "survival-probe")
	}

	if errs := n.metrics.take(); len(errs) > 0 {
		fail("metrics/disposer", fmt.Errorf("%s", strings.Join(errs, "\n")))
	}

	st.Case("", classes...)
	if st.WantSample() && c.NonTrivial() && c.Verdict != ref.VAccept {
		st.Sample(map[string]any{"gen": in.Gen, "wire": ref.Hex(wire), "verdict": ref.VerdictNames[c.Verdict], "classes": classes})
	}
}

func TestVerifC01Sockets(t *testing.T) {
	rule := "rapid inputs (structured valid queries, structured unacceptable messages, byte-level corruptions; see inpkg.accept) sent by real clients over loopback to servers started through dnsservertest: UDP, TCP, DoT, DoH h2 GET+POST, plain-HTTP/1.1 DoH, h3 (every case in thorough, 1/8 in quick), DoQ (correct and wrong length prefix), DNSCrypt UDP+TCP, a plain-DNS server on the dual-stack wildcard [::]:port queried from unconnected IPv4 and IPv6 sockets at 127.0.0.1, 127.0.0.2, 127.0.0.7 and ::1 (the answer must come from the address the query was sent to) and over TCP, UDP bursts with 1-3 queries whose answer is written with an expired context in flight among the normal ones (also through the bind-to-device path), a second plain-DNS server fed by a bindtodevice.Manager bound to lo (UDP+TCP, the interface-listener path), JSON API with every documented parameter drawn independently in all accepted spellings (name with/without dot, type/qc absent, empty, number, mnemonic; cd/do/sde absent, empty, 0/false/False, 1/true/True; one invalid value sometimes; ct) incl. ct=dns-message, the query the handler was given compared with what the client expressed, and the wire answer compared with that to the equivalent wire-format POST; servers configured as the real stack does (poisoning disposer, the PRODUCTION prometheus.ServerMetricsListener chained with a reading metrics listener, deadline contexts, handler requiring ServerInfo/RequestInfo); TCP/DoT frames written in two segments at drawn offsets; POST bodies without content-length (chunked); decoy parameters of the other DoH encodings; framing faults (short / empty frame, two queries in one DoQ stream, two dns parameters, PUT); for half of the valid cases a near miss (one component changed) is sent pipelined with the input on one TCP and one DoT connection, one UDP socket, two DoQ streams in flight and two concurrent h2 requests, replies matched as a multiset; oracle = documented per-transport treatment + reference handler + pairwise agreement of complete answers + survival probe after unacceptable input; non-trivial = accepted query with non-empty / non-NOERROR / absent reference answer or unacceptable input >= 12 octets; distinct by (transport, wire bytes)"
	required := []string{"verdict-accept", "undecodable-past-header", "verdict-response-bit", "verdict-notimp", "verdict-formerr", "kind-handler-error",
		"kind-silent", "kind-large", "truncated-on-udp", "cross-transport-compared", "json", "doq:no-message", "doq:must-reply",
		"dnscrypt-udp:must-reply", "dnscrypt-tcp:must-reply", "doh-h2-get:must-reply", "doh-h2-post:must-reply", "dot:must-reply",
		"udp:no-message", "tcp:no-message", "survival-probe", "mixed-case-name", "max-length-name",
		"pipelined-near-miss", "tcp:pair", "dot:pair", "udp:pair", "doq:pair", "doh-h2:pair", "tcp-split-write", "doh-body-without-length",
		"doh-decoy-params", "req-padding+keepalive", "root-name", "doq:fallback-servfail",
		"json-do-only", "json-sde-only", "json-cd-only", "json-do+sde", "json-invalid-param", "json-type-default", "json-type-mnemonic",
		"json-vs-wire-compared", "udp:normal-query-in-flight-with-expired-context-write", "production-metrics-listener",
		"first-write-fails-unencodable", "kind-huge", "formerr-no-question",
		"doh-path-canonical", "doh-path-trailing-slash", "doh-path-client-id", "doh-path-noncanonical"}
	n := vc01Start(t)
	if n.btdAddr != "" {
		required = append(required, "udp-btd:must-reply", "tcp-btd:must-reply", "udp-btd:normal-query-in-flight-with-expired-context-write")
	} else {
		fmt.Println("C01 bind-to-device part absent:", n.btdWhy)
	}

	if n.dualPort != 0 {
		required = append(required, "udp-dualstack-wildcard-nondefault-local-v4", "udp-dualstack-wildcard-v6", "tcp-dualstack:must-reply")
	} else {
		fmt.Println("C01 dual-stack wildcard part absent:", n.dualWhy)
	}

	st := vstat.New("C01", "sockets", rule, required...)
	st.Extra("bindtodevice-absent", n.btdWhy)
	st.Extra("dualstack-absent", n.dualWhy)

	st.Finish(t)
	rapid.Check(t, func(t *rapid.T) {
		vc01SocketCase(t, st, n, ref.DrawInput(t))
	})
	if errs := n.metrics.take(); len(errs) > 0 {
		t.Fatalf("metrics/disposer after the last case: %s", strings.Join(errs, "\n"))
	}
}

// ---------------------------------------------------------------------------
// bind-to-device listener: the read buffer of a session that is answered twice

// vc01KnownBTDBody is the finding: interfaceListener.writeToUDPConn returns the
// session's read body to the pool after EVERY write for the session; a session
// that is written to twice (the first write fails, the server then writes its
// SERVFAIL) puts the same buffer into the pool twice, two later datagrams are
// read into one buffer, and the earlier of them is processed with the bytes of
// the later one: one query is answered twice, the other not at all.
const vc01KnownBTDBody = "bindtodevice-read-body-returned-twice"

// vc01Collect sends wires and a sentinel from one fresh socket and returns what
// comes back until the sentinel's answer plus a grace, or until wait has passed
// (a missing answer is not judged here).
func vc01Collect(addr string, wires [][]byte, wait time.Duration) (msgs []*dns.Msg, err error) {
	c, err := net.Dial("udp", addr)
	if err != nil {
		return nil, err
	}
	defer c.Close()

	sw, sid := vc01Sentinel(wires[0])
	for _, w := range append(append([][]byte{}, wires...), sw) {
		if _, err = c.Write(w); err != nil {
			return nil, err
		}
	}

	buf := make([]byte, 65536)
	_ = c.SetReadDeadline(time.Now().Add(wait))
	for {
		nr, rerr := c.Read(buf)
		if rerr != nil {
			return msgs, nil
		}

		m := &dns.Msg{}
		if uerr := m.Unpack(buf[:nr]); uerr != nil {
			return msgs, fmt.Errorf("undecodable datagram from the server: %w", uerr)
		}

		msgs = append(msgs, m)
		if vc01IsSentinel(m, sid) {
			_ = c.SetReadDeadline(time.Now().Add(30 * time.Millisecond))
		}
	}
}

func TestVerifC01BTDReadBuffer(t *testing.T) {
	rule := "bounded history on a plain-DNS server of its own behind a real bindtodevice.Manager bound to lo: (1) 100 bursts of 4 distinct queries of decreasing length plus a sentinel on one socket: no query may be answered twice; (2) 5 sessions that are written to twice (a 65.5 KB answer that the UDP socket refuses, then the server's SERVFAIL); (3) up to 400 (thorough 3000) more bursts: still no query may be answered twice; a missing answer is not judged (time-outs are not verdicts); non-trivial = bursts after the double-write sessions; distinct by burst number"
	n := &vc01Net{metrics: &vc01Metrics{}}
	n.startBTD(t, dnsserver.ConfigBase{
		Name: "test-dns", Addr: "127.0.0.1:0", Handler: vc01SockHandler(),
		Disposer: vc01Poison{}, Metrics: n.metrics, RequestContext: dnsserver.NewTimeoutContextConstructor(time.Minute),
	})
	if n.btdAddr == "" {
		st := vstat.New("C01", "sockets.btd-read-buffer", rule)
		st.Extra("bindtodevice-absent", n.btdWhy)
		st.Finish(t)
		fmt.Println("C01 bind-to-device part absent:", n.btdWhy)

		return
	}

	st := vstat.New("C01", "sockets.btd-read-buffer", rule, "baseline-burst", "double-write-session", "burst-after-double-write")
	st.Finish(t)

	mk := func(name string, id uint16, udpSize uint16, pad int) []byte {
		m := (&dns.Msg{}).SetQuestion(name, dns.TypeA)
		m.Id = id
		if udpSize > 0 || pad > 0 {
			m.SetEdns0(max(udpSize, 1232), false)
			if pad > 0 {
				opt := m.IsEdns0()
				opt.Option = append(opt.Option, &dns.EDNS0_LOCAL{Code: 65003, Data: make([]byte, pad)})
			}
		}

		b, _ := m.Pack()

		return b
	}

	// A later, shorter datagram read into the buffer of an earlier, longer one
	// still decodes (trailing octets are ignored), so the damage shows as a
	// second answer to the later query.
	burst := func(i int) (dupe string, err error) {
		var wires [][]byte
		for j, pad := range []int{300, 220, 140, 60} {
			wires = append(wires, mk(fmt.Sprintf("k0.b%d-%d.test.", i, j), uint16(8*i+j), 0, pad))
		}

		msgs, err := vc01Collect(n.btdAddr, wires, 2*time.Second)
		if err != nil {
			return "", err
		}

		seen := map[string]int{}
		for _, m := range msgs {
			k := fmt.Sprintf("id %d %v", m.Id, m.Question)
			seen[k]++
			if seen[k] > 1 {
				dupe = fmt.Sprintf("%s was answered %d times (answers received: %d for 4 queries and the sentinel)", k, seen[k], len(msgs))
			}
		}

		return dupe, nil
	}

	for i := 0; i < 100; i++ {
		dupe, err := burst(i)
		st.Case("", "baseline-burst")
		if err != nil {
			fmt.Println("VERIF-INCONCLUSIVE:", err)
			t.FailNow()
		}

		if dupe != "" {
			t.Fatalf("baseline burst %d: %s", i, dupe)
		}
	}

	for i := 0; i < 5; i++ {
		msgs, err := vc01Collect(n.btdAddr, [][]byte{mk("k11.test.", uint16(60000+i), 65535, 0)}, 5*time.Second)
		if err != nil {
			fmt.Println("VERIF-INCONCLUSIVE:", err)
			t.FailNow()
		}

		for _, m := range msgs {
			if m.Id == uint16(60000+i) && m.Rcode == dns.RcodeServerFailure {
				st.Case("", "double-write-session")
			}
		}
	}

	for i := 0; i < vstat.Scale(400, 3000); i++ {
		dupe, err := burst(1000 + i)
		st.Case(fmt.Sprintf("after-%d", i), "burst-after-double-write")
		if err != nil {
			fmt.Println("VERIF-INCONCLUSIVE:", err)
			t.FailNow()
		}

		if dupe != "" {
			if st.Known(vc01KnownBTDBody) {
				st.Class("known-finding")

				return
			}

			t.Fatalf("history: 100 bursts without a duplicate; 5 x [query k11.test. A, EDNS size 65535 -> first write refused by the socket (message too long), SERVFAIL written: two writes for one session]; burst %d of 4 queries of 369/289/209/129 octets and a sentinel on one socket: %s", i, dupe)
		}
	}

	if errs := n.metrics.take(); len(errs) > 0 {
		t.Fatalf("metrics/disposer: %s", strings.Join(errs, "\n"))
	}
}
