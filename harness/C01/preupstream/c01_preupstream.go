//go:build verif

package preupstream_test

// C01 with the real pre-upstream middleware of dnssvc in the pipeline: it
// rewrites the question of Android metric domains before the rest of the
// pipeline sees it (so that they are cached as one) and must hand the client a
// response that carries the CLIENT's ID and question again, whatever the
// pipeline answered.  The middleware wraps a scripted handler; it is called
// directly and through a real plain-DNS server over UDP and TCP.

import (
	"context"
	"errors"
	"fmt"
	"net"
	"strings"
	"testing"
	"time"

	"github.com/AdguardTeam/AdGuardDNS/internal/agd"
	"github.com/AdguardTeam/AdGuardDNS/internal/agdnet"
	"github.com/AdguardTeam/AdGuardDNS/internal/dnsdb"
	"github.com/AdguardTeam/AdGuardDNS/internal/dnsserver"
	"github.com/AdguardTeam/AdGuardDNS/internal/dnssvc/internal/preupstream"
	"github.com/miekg/dns"
	"pgregory.net/rapid"
	"verif.local/harness/vstat"
)

var vc01puKinds = []string{"answer", "nodata", "nxdomain", "servfail", "refused", "cname-chain"}

// vc01puScripted is the rest of the pipeline: it answers the request AS IT
// RECEIVED IT, by the kind encoded in the request's ID.
func vc01puScripted(req *dns.Msg) (resp *dns.Msg) {
	q := req.Question[0]
	resp = (&dns.Msg{}).SetReply(req)
	resp.RecursionAvailable = true
	hdr := func(name string, t uint16) dns.RR_Header {
		return dns.RR_Header{Name: name, Rrtype: t, Class: q.Qclass, Ttl: 60}
	}

	rr := func(owner string) dns.RR {
		switch q.Qtype {
		case dns.TypeA:
			return &dns.A{Hdr: hdr(owner, dns.TypeA), A: net.IP{192, 0, 2, 1}}
		case dns.TypeAAAA:
			return &dns.AAAA{Hdr: hdr(owner, dns.TypeAAAA), AAAA: net.ParseIP("2001:db8::1")}
		case dns.TypeHTTPS:
			return &dns.HTTPS{SVCB: dns.SVCB{Hdr: hdr(owner, dns.TypeHTTPS), Priority: 1, Target: "."}}
		default:
			return &dns.TXT{Hdr: hdr(owner, dns.TypeTXT), Txt: []string{"scripted"}}
		}
	}

	soa := &dns.SOA{Hdr: dns.RR_Header{Name: "gstatic.com.", Rrtype: dns.TypeSOA, Class: dns.ClassINET, Ttl: 60}, Ns: "ns.gstatic.com.", Mbox: "m.gstatic.com.", Minttl: 60}
	switch vc01puKinds[int(req.Id)%len(vc01puKinds)] {
	case "answer":
		resp.Answer = []dns.RR{rr(q.Name), rr(q.Name)}
	case "nodata":
		resp.Ns = []dns.RR{soa}
	case "nxdomain":
		resp.Rcode = dns.RcodeNameError
		resp.Ns = []dns.RR{soa}
	case "servfail":
		resp.Rcode = dns.RcodeServerFailure
	case "refused":
		resp.Rcode = dns.RcodeRefused
	case "cname-chain":
		resp.Answer = []dns.RR{
			&dns.CNAME{Hdr: hdr(q.Name, dns.TypeCNAME), Target: "target.gstatic.com."},
			rr("target.gstatic.com."),
		}
	}

	return resp
}

func vc01puMixCase(t *rapid.T, s string) string {
	b := []byte(s)
	for i := range b {
		if b[i] >= 'a' && b[i] <= 'z' && rapid.IntRange(0, 3).Draw(t, "up") == 0 {
			b[i] -= 32
		}
	}

	return string(b)
}

func vc01puName(t *rapid.T) (name, class string) {
	prefix := rapid.StringMatching(`[a-z0-9]{1,12}`).Draw(t, "prefix")
	switch class = rapid.SampledFrom([]string{"ordinary", "metric-dot", "metric-doh", "metric-dot", "metric-doh", "replacement-itself", "near-miss"}).Draw(t, "nameClass"); class {
	case "ordinary":
		name = prefix + ".example.com."
	case "metric-dot":
		name = prefix + "-dnsotls-ds.metric.gstatic.com."
	case "metric-doh":
		name = prefix + "-dnsohttps-ds.metric.gstatic.com."
	case "replacement-itself":
		name = rapid.SampledFrom([]string{"00000000-dnsotls-ds.metric.gstatic.com.", "000000-dnsohttps-ds.metric.gstatic.com."}).Draw(t, "replacement")
	default:
		name = prefix + rapid.SampledFrom([]string{
			"-dnsotls-ds.metric.gstatic.com.evil.", "-dnsotls-ds.metric.gstatic.co.", "-dnsoquic-ds.metric.gstatic.com.", ".dnsotls-ds.metric.gstatic.com.",
			"-dnsotls-ds.metric.gstatic.org.", "-dnsohttps-dsxmetric.gstatic.com.", "-dnsotls-ds.metrics.gstatic.com.", ".metric.gstatic.com.",
		}).Draw(t, "nearMiss")
	}

	return vc01puMixCase(t, name), class
}

func TestVerifC01PreUpstream(t *testing.T) {
	st := vstat.New("C01", "preupstream.metric-domains",
		"rapid (names: ordinary, Android metric domains <prefix>-dnsotls-ds / -dnsohttps-ds.metric.gstatic.com. with a random prefix in mixed case, the replacement names themselves, near misses of the suffix; qtypes A/AAAA/HTTPS/TXT; the rest of the pipeline answers by kind: answer records, NODATA, NXDOMAIN, SERVFAIL, REFUSED, CNAME chain) through the REAL preupstream middleware wrapped around a scripted handler, called directly and through a real plain-DNS ServerDNS over UDP and TCP; oracle: the response's ID and question (name byte-exact incl. letter case, type, class) are the request's, and the answer records that the pipeline named after the rewritten question name the client's name; the rcode is NOT judged here (see the class observation:metric-domain-rcode-not-the-pipeline's); non-trivial = metric-domain requests; distinct by (name, qtype, kind)",
		"metric-domain-with-empty-answer", "metric-domain-with-answer", "metric-domain-cname-chain", "ordinary", "near-miss", "via-udp", "via-tcp")
	st.Finish(t)

	mw := preupstream.New(context.Background(), &preupstream.Config{DB: dnsdb.Empty{}})
	var lastSeen *dns.Msg
	scripted := dnsserver.HandlerFunc(func(ctx context.Context, rw dnsserver.ResponseWriter, req *dns.Msg) error {
		lastSeen = req.Copy()

		return rw.WriteMsg(ctx, req, vc01puScripted(req))
	})
	wrapped := mw.Wrap(scripted)
	// dnssvc's initial middleware puts the request information into the context
	// before this middleware runs.
	h := dnsserver.HandlerFunc(func(ctx context.Context, rw dnsserver.ResponseWriter, req *dns.Msg) error {
		return wrapped.ServeDNS(agd.ContextWithRequestInfo(ctx, &agd.RequestInfo{}), rw, req)
	})

	var srv *dnsserver.ServerDNS
	var startErr error
	for i := 0; i < 20; i++ {
		srv = dnsserver.NewServerDNS(dnsserver.ConfigDNS{ConfigBase: dnsserver.ConfigBase{Name: "verif-c01-preupstream", Addr: "127.0.0.1:0", Handler: h}})
		if startErr = srv.Start(context.Background()); startErr == nil {
			break
		}
	}

	if startErr != nil {
		fmt.Println("VERIF-INCONCLUSIVE: cannot start the loopback server:", startErr)
		t.FailNow()
	}
	defer func() { _ = srv.Shutdown(context.Background()) }()

	udpAddr, tcpAddr := srv.LocalUDPAddr().String(), srv.LocalTCPAddr().String()
	inconclusive := false
	rapid.Check(t, func(t *rapid.T) {
		if inconclusive {
			t.FailNow()
		}

		name, nameClass := vc01puName(t)
		qt := rapid.SampledFrom([]uint16{dns.TypeA, dns.TypeAAAA, dns.TypeHTTPS, dns.TypeTXT}).Draw(t, "qtype")
		kind := rapid.IntRange(0, len(vc01puKinds)-1).Draw(t, "kind")
		req := (&dns.Msg{}).SetQuestion(name, qt)
		req.Id = uint16(rapid.IntRange(0, 10000).Draw(t, "idHigh")*len(vc01puKinds) + kind)
		if rapid.Bool().Draw(t, "edns") {
			req.SetEdns0(1232, rapid.Bool().Draw(t, "do"))
		}

		metric := agdnet.AndroidMetricDomainReplacement(name) != ""
		classes := []string{"kind-" + vc01puKinds[kind]}
		switch {
		case metric && kind >= 1 && kind <= 4:
			classes = append(classes, "metric-domain-with-empty-answer")
		case metric && kind == 5:
			classes = append(classes, "metric-domain-cname-chain")
		case metric:
			classes = append(classes, "metric-domain-with-answer")
		case nameClass == "near-miss":
			classes = append(classes, "near-miss")
		default:
			classes = append(classes, "ordinary")
		}

		check := func(via string, resp *dns.Msg) {
			where := fmt.Sprintf("%s: request id %d %q type %d (%s), pipeline answers %s", via, req.Id, name, qt, nameClass, vc01puKinds[kind])
			if resp == nil {
				t.Fatalf("%s: no response", where)
			}

			if resp.Id != req.Id || !resp.Response {
				t.Fatalf("%s: response id %d qr=%t", where, resp.Id, resp.Response)
			}

			if len(resp.Question) != 1 || resp.Question[0] != req.Question[0] {
				t.Fatalf("%s: the response's question is %+v, the request's is %+v", where, resp.Question, req.Question[0])
			}

			// What the pipeline produced for the (possibly rewritten) question.
			seen := req.Copy()
			if repl := agdnet.AndroidMetricDomainReplacement(name); repl != "" {
				seen.Question[0].Name = repl
			}

			want := vc01puScripted(seen)
			if len(resp.Answer) != len(want.Answer) {
				t.Fatalf("%s: %d answer records, the pipeline produced %d", where, len(resp.Answer), len(want.Answer))
			}

			for i, rr := range want.Answer {
				owner := rr.Header().Name
				if metric && strings.EqualFold(owner, seen.Question[0].Name) {
					owner = name
				}

				if got := resp.Answer[i].Header().Name; got != owner || resp.Answer[i].Header().Rrtype != rr.Header().Rrtype {
					t.Fatalf("%s: answer record %d is %q type %d, want owner %q type %d", where, i, got, resp.Answer[i].Header().Rrtype, owner, rr.Header().Rrtype)
				}
			}

			if resp.Rcode != want.Rcode {
				// Not judged in this part; counted for the lead.
				classes = append(classes, "observation:metric-domain-rcode-not-the-pipeline's")
			}
		}

		rw := dnsserver.NewNonWriterResponseWriter(&net.UDPAddr{IP: net.IP{127, 0, 0, 1}, Port: 53}, &net.UDPAddr{IP: net.IP{192, 0, 2, 7}, Port: 4000})
		lastSeen = nil
		if err := h.ServeDNS(context.Background(), rw, req.Copy()); err != nil {
			t.Fatalf("direct call: %v", err)
		}

		if metric && (lastSeen == nil || lastSeen.Question[0].Name != agdnet.AndroidMetricDomainReplacement(name)) {
			t.Fatalf("harness: the pipeline was not given the rewritten question: %v", lastSeen)
		}

		check("direct", rw.Msg())
		for _, via := range []string{"udp", "tcp"} {
			cl := &dns.Client{Net: via, Timeout: 15 * time.Second}
			addr := udpAddr
			if via == "tcp" {
				addr = tcpAddr
			}

			resp, _, err := cl.Exchange(req.Copy(), addr)
			if errors.Is(err, dns.ErrId) {
				t.Fatalf("%s: request id %d %q: the response carries another ID", via, req.Id, name)
			}

			if err != nil {
				inconclusive = true
				fmt.Printf("VERIF-INCONCLUSIVE: %s exchange: %v\n", via, err)
				t.FailNow()
			}

			check(via, resp)
			classes = append(classes, "via-"+via)
		}

		nt := ""
		if metric {
			nt = fmt.Sprintf("%s|%d|%d", name, qt, kind)
		}

		st.Case(nt, classes...)
	})
}
