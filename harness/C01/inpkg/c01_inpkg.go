//go:build verif

package dnsserver

// C01, layer 1 (in-process): every accepted query gets exactly one matching
// answer; everything else gets the documented FORMERR / NOTIMP / drop
// treatment.  See /verif/DESIGN.md, section 3, C01.
//
//   - TestVerifC01Accept drives ServerBase.serveDNS directly with arbitrary
//     bytes and a recording ResponseWriter that counts WriteMsg calls.
//   - TestVerifC01Framing drives the real per-transport receive / frame /
//     respond code of all transports with in-memory connections (UDP packet
//     conn, TCP and DoT conn, DoH GET / POST / JSON through ServeHTTP, DoQ
//     stream, DNSCrypt handler) and compares every transport with the reference
//     and all transports with each other.

import (
	"bytes"
	"context"
	"encoding/base64"
	"encoding/binary"
	"errors"
	"fmt"
	"io"
	"net"
	"net/http"
	"net/http/httptest"
	"net/url"
	"os"
	"strconv"
	"strings"
	"sync"
	"sync/atomic"
	"testing"
	"time"

	"github.com/AdguardTeam/golibs/syncutil"
	"github.com/miekg/dns"
	"github.com/quic-go/quic-go"
	"pgregory.net/rapid"
	ref "verif.local/harness/C01/ref"
	"verif.local/harness/vstat"
)

// vc01Handler is the reference handler H as a dnsserver.Handler.
func vc01Handler() Handler {
	return HandlerFunc(func(ctx context.Context, rw ResponseWriter, req *dns.Msg) error {
		// Like the handlers of the real stack (dnssvc), depend on the server and
		// request information and on the writer's addresses; a missing one
		// panics there as it does here.
		si, ri := MustServerInfoFromContext(ctx), MustRequestInfoFromContext(ctx)
		if si.Proto == ProtoInvalid || ri.StartTime.IsZero() || rw.LocalAddr() == nil || rw.RemoteAddr() == nil {
			panic(fmt.Sprintf("vc01: incomplete request context: %+v %+v", si, ri))
		}

		// The wiring of the writer and of the server information: in this unit
		// clients are 192.0.2.x, servers 127.0.0.1, and every server's name ends
		// in its protocol.
		if l, r := rw.LocalAddr().String(), rw.RemoteAddr().String(); !strings.HasPrefix(l, "127.0.0.1:") || !strings.HasPrefix(r, "192.0.2.") {
			panic(fmt.Sprintf("vc01: writer addresses local=%s remote=%s", l, r))
		}

		if !strings.HasSuffix(si.Name, "-"+si.Proto.String()) {
			panic(fmt.Sprintf("vc01: server %q reports protocol %s", si.Name, si.Proto))
		}

		if hook := vc01LateHook.Load(); hook != nil && vc01IsLate(req) {
			// A slow pipeline whose answer is written after the request's deadline;
			// the test owns the interleaving with the normal query in flight.
			hook.once(hook.reached)
			hook.waitAny(hook.normalSet, hook.normalDone)
			if hook.waitForCtx {
				// The handler gives up with the request time-out; the server then
				// writes its SERVFAIL with the expired context.
				<-ctx.Done()

				return ctx.Err()
			}

			ectx, cancel := context.WithDeadline(ctx, time.Now().Add(-time.Second))
			defer cancel()

			return rw.WriteMsg(ectx, req, (&dns.Msg{}).SetReply(req))
		}

		vc01Seen.Store(vc01SeenKey(req), req.Copy())
		resp, mode := ref.Ref(req)
		switch mode {
		case ref.ModeError:
			return errors.New("vc01: reference handler error")
		case ref.ModeSilent:
			return nil
		}

		return rw.WriteMsg(ctx, req, resp)
	})
}

// vc01Seen keeps the last query the handler was given per question.
var vc01Seen sync.Map

func vc01SeenKey(m *dns.Msg) string {
	if len(m.Question) == 0 {
		return ""
	}

	q := m.Question[0]

	return fmt.Sprintf("%s|%d|%d", q.Name, q.Qtype, q.Qclass)
}

var (
	vc01LocalUDP  = &net.UDPAddr{IP: net.IP{127, 0, 0, 1}, Port: 53}
	vc01RemoteUDP = &net.UDPAddr{IP: net.IP{192, 0, 2, 7}, Port: 40000}
	vc01LocalTCP  = &net.TCPAddr{IP: net.IP{127, 0, 0, 1}, Port: 53}
	vc01RemoteTCP = &net.TCPAddr{IP: net.IP{192, 0, 2, 7}, Port: 40000}
)

func vc01Base(name string) ConfigBase {
	return ConfigBase{Name: name, Addr: "127.0.0.1:0", Handler: vc01Handler()}
}

// vc01Poison is a Disposer that, like the production one (dnsmsg.Cloner), takes
// the message apart: whoever still uses a disposed response sends garbage.
type vc01Poison struct{}

func (vc01Poison) Dispose(resp *dns.Msg) {
	if resp == nil {
		return
	}

	resp.Id ^= 0xa5a5
	resp.Rcode = 15
	resp.Question, resp.Answer, resp.Ns, resp.Extra = nil, nil, nil, nil
}

// vc01Metrics is a MetricsListener that, like the production one, reads the
// request and the response it is given, and records recovered panics.
type vc01Metrics struct {
	EmptyMetricsListener

	mu   sync.Mutex
	errs []string
}

func (m *vc01Metrics) note(format string, a ...any) {
	m.mu.Lock()
	defer m.mu.Unlock()

	if len(m.errs) < 8 {
		m.errs = append(m.errs, fmt.Sprintf(format, a...))
	}
}

func (m *vc01Metrics) OnRequest(_ context.Context, info *QueryInfo, rw ResponseWriter) {
	if hook := vc01LateHook.Load(); hook != nil && info != nil && info.Request != nil {
		if vc01IsLate(info.Request) {
			hook.once(hook.lateDone)
		} else {
			hook.once(hook.normalDone)
		}
	}

	switch {
	case info == nil || info.Request == nil || rw == nil:
		m.note("OnRequest without request or writer: %+v", info)
	case info.Response != nil && (info.Response.Id != info.Request.Id || !info.Response.Response):
		m.note("OnRequest was given response id %d qr=%t for request id %d (disposed or foreign message)", info.Response.Id, info.Response.Response, info.Request.Id)
	case info.Response != nil && len(info.Request.Question) > 0 && (len(info.Response.Question) != 1 || info.Response.Question[0] != info.Request.Question[0]):
		m.note("OnRequest was given response question %v for request question %v", info.Response.Question, info.Request.Question)
	}
}

func (m *vc01Metrics) OnPanic(_ context.Context, v any) {
	m.note("recovered panic in the server: %v", v)
}

func (m *vc01Metrics) take() (errs []string) {
	m.mu.Lock()
	defer m.mu.Unlock()

	errs, m.errs = m.errs, nil

	return errs
}

// vc01RealBase is the configuration the way the real stack sets it: a
// recycling disposer, a reading metrics listener, request contexts with a
// deadline.
func vc01RealBase(name string, m *vc01Metrics) ConfigBase {
	c := vc01Base(name)
	c.Disposer = vc01Poison{}
	c.Metrics = m
	c.RequestContext = NewTimeoutContextConstructor(time.Minute)

	return c
}

// ---------------------------------------------------------------------------
// (1) serveDNS with a recording writer

type vc01RecRW struct {
	writes []*dns.Msg
	reqs   []*dns.Msg
}

func (r *vc01RecRW) LocalAddr() net.Addr  { return vc01LocalUDP }
func (r *vc01RecRW) RemoteAddr() net.Addr { return vc01RemoteUDP }
func (r *vc01RecRW) WriteMsg(_ context.Context, req, resp *dns.Msg) error {
	r.reqs = append(r.reqs, req)
	r.writes = append(r.writes, resp)

	return nil
}

func vc01CheckAccept(s *ServerBase, wire []byte) (c *ref.Case, err error) {
	c = ref.Classify(wire)
	rw := &vc01RecRW{}
	ctx, cancel := s.requestContext()
	defer cancel()

	ctx = ContextWithRequestInfo(ctx, &RequestInfo{StartTime: time.Now()})
	written := s.serveDNS(ctx, append([]byte(nil), wire...), rw)
	if written != (len(rw.writes) > 0) {
		return c, fmt.Errorf("serveDNS returned written=%t but %d messages were written", written, len(rw.writes))
	}

	if c.Want == nil {
		if len(rw.writes) != 0 {
			return c, fmt.Errorf("%s input: want no write, got %d: %v", ref.VerdictNames[c.Verdict], len(rw.writes), rw.writes[0])
		}

		return c, nil
	}

	if len(rw.writes) != 1 {
		return c, fmt.Errorf("%s input: want exactly one write, got %d", ref.VerdictNames[c.Verdict], len(rw.writes))
	}

	if c.Verdict == ref.VAccept && c.Mode == ref.ModeUnencodable {
		// The recorder accepts what a socket cannot send.
		if _, perr := rw.writes[0].Pack(); perr == nil {
			return c, fmt.Errorf("harness: the unencodable answer packs")
		}

		return c, nil
	}

	if rq := rw.reqs[0]; rq == nil || rq.Id != c.Req.Id || len(rq.Question) != len(c.Req.Question) {
		return c, fmt.Errorf("WriteMsg was given another request: %v", rq)
	}

	// The message as written must survive the wire.
	b, err := rw.writes[0].Pack()
	if err != nil {
		return c, fmt.Errorf("written message does not pack: %w", err)
	}

	got := &dns.Msg{}
	if err = got.Unpack(b); err != nil {
		return c, fmt.Errorf("written message does not unpack: %w", err)
	}

	return c, ref.CheckReply(ref.Transport{Name: "recorder"}, c, c.Want, got, c.Loose, ref.CheckOpts{Raw: true})
}

var vc01Protos = []Protocol{ProtoDNS, ProtoDoT, ProtoDoH, ProtoDoQ, ProtoDNSCrypt}

func TestVerifC01Accept(t *testing.T) {
	st := vstat.New("C01", "inpkg.accept",
		"rapid (structured valid queries: names incl. mixed case and 255-octet names, qtype/qclass alphabets + uniform, header flags, NOTIFY, EDNS sizes/options; the same with QR=1, opcodes 1-15, 0/2/3 questions, 2 answers, 2 NS; byte-level corruptions of all of those: truncation, bit flips, counts, compression pointers, garbage) through ServerBase.serveDNS of every protocol with a WriteMsg-counting recorder; oracle = reference classifier + reference handler; non-trivial = accepted query with a non-empty / non-NOERROR / absent reference answer, or unacceptable input of >= 12 octets; distinct by wire bytes",
		"verdict-accept", "verdict-undecodable", "undecodable-past-header", "verdict-response-bit", "verdict-notimp", "verdict-formerr",
		"formerr-no-question", "kind-handler-error", "kind-silent", "kind-large", "kind-nxdomain", "mixed-case-name", "max-length-name", "opcode-notify")
	st.Finish(t)

	bases := map[Protocol]*ServerBase{}
	for _, p := range vc01Protos {
		bases[p] = newServerBase(p, vc01Base("verif-c01-"+p.String()))
	}

	rapid.Check(t, func(t *rapid.T) {
		in := ref.DrawInput(t)
		p := rapid.SampledFrom(vc01Protos).Draw(t, "proto")
		c, err := vc01CheckAccept(bases[p], in.Wire)
		nt := ""
		if c.NonTrivial() {
			nt = string(in.Wire)
		}

		st.Case(nt, append(c.Classes(), "gen-"+strings.SplitN(in.Gen, ":", 2)[0], "proto-"+p.String())...)
		if st.WantSample() && nt != "" && c.Verdict != ref.VAccept {
			st.Sample(map[string]any{"gen": in.Gen, "wire": ref.Hex(in.Wire), "verdict": ref.VerdictNames[c.Verdict]})
		}

		if err != nil {
			t.Fatalf("proto %s, input %s (%s) %s:\n%v", p, in.Gen, ref.VerdictNames[c.Verdict], ref.Hex(in.Wire), err)
		}
	})
}

// ---------------------------------------------------------------------------
// (2) in-memory transports

type vc01PacketConn struct {
	net.PacketConn

	failN int // the first failN writes fail

	mu  sync.Mutex
	in  []byte
	out [][]byte
}

func (c *vc01PacketConn) ReadFrom(b []byte) (int, net.Addr, error) {
	return copy(b, c.in), vc01RemoteUDP, nil
}

func (c *vc01PacketConn) WriteTo(b []byte, _ net.Addr) (int, error) {
	c.mu.Lock()
	defer c.mu.Unlock()

	if c.failN > 0 {
		c.failN--

		return 0, &net.OpError{Op: "write", Net: "udp", Err: errors.New("vc01: transient write error")}
	}

	c.out = append(c.out, append([]byte(nil), b...))

	return len(b), nil
}

func (c *vc01PacketConn) LocalAddr() net.Addr              { return vc01LocalUDP }
func (c *vc01PacketConn) SetReadDeadline(time.Time) error  { return nil }
func (c *vc01PacketConn) SetWriteDeadline(time.Time) error { return nil }
func (c *vc01PacketConn) Close() error                     { return nil }

type vc01Conn struct {
	mu     sync.Mutex
	failN  int // the first failN writes fail
	chunk  int // 0: unlimited
	in     *bytes.Reader
	out    bytes.Buffer
	closed bool
}

func (c *vc01Conn) Read(p []byte) (int, error) {
	c.mu.Lock()
	closed := c.closed
	c.mu.Unlock()
	if closed {
		return 0, net.ErrClosed
	}

	if c.chunk > 0 && len(p) > c.chunk {
		p = p[:c.chunk]
	}

	return c.in.Read(p)
}
func (c *vc01Conn) Write(p []byte) (int, error) {
	c.mu.Lock()
	defer c.mu.Unlock()

	if c.closed {
		return 0, net.ErrClosed
	}

	if c.failN > 0 {
		c.failN--

		return 0, &net.OpError{Op: "write", Net: "tcp", Err: errors.New("vc01: transient write error")}
	}

	return c.out.Write(p)
}

func (c *vc01Conn) Close() error {
	c.mu.Lock()
	defer c.mu.Unlock()

	c.closed = true

	return nil
}

func (c *vc01Conn) LocalAddr() net.Addr              { return vc01LocalTCP }
func (c *vc01Conn) RemoteAddr() net.Addr             { return vc01RemoteTCP }
func (c *vc01Conn) SetDeadline(time.Time) error      { return nil }
func (c *vc01Conn) SetReadDeadline(time.Time) error  { return nil }
func (c *vc01Conn) SetWriteDeadline(time.Time) error { return nil }

type vc01Stream struct {
	quic.Stream

	in    []byte
	chunk int
	out   bytes.Buffer
}

func (s *vc01Stream) Read(p []byte) (int, error) {
	if len(s.in) == 0 {
		return 0, io.EOF
	}

	n := min(len(p), len(s.in), s.chunk)
	copy(p, s.in[:n])
	s.in = s.in[n:]

	return n, nil
}

func (s *vc01Stream) Write(p []byte) (int, error)     { return s.out.Write(p) }
func (s *vc01Stream) Close() error                    { return nil }
func (s *vc01Stream) SetReadDeadline(time.Time) error { return nil }

type vc01QConn struct {
	quic.Connection

	closes []quic.ApplicationErrorCode
}

func (c *vc01QConn) LocalAddr() net.Addr  { return vc01LocalUDP }
func (c *vc01QConn) RemoteAddr() net.Addr { return vc01RemoteUDP }
func (c *vc01QConn) CloseWithError(code quic.ApplicationErrorCode, _ string) error {
	c.closes = append(c.closes, code)

	return nil
}

type vc01CryptRW struct {
	local net.Addr
	out   [][]byte
}

func (w *vc01CryptRW) LocalAddr() net.Addr  { return w.local }
func (w *vc01CryptRW) RemoteAddr() net.Addr { return vc01RemoteUDP }
func (w *vc01CryptRW) WriteMsg(m *dns.Msg) error {
	// Like the DNSCrypt library's writers: the message is packed (and
	// encrypted) at once; a message that does not pack is not sent.
	b, err := m.Pack()
	if err != nil {
		return err
	}

	w.out = append(w.out, b)

	return nil
}

// vc01Fixture holds one not-started server of every kind.
type vc01Fixture struct {
	metrics  *vc01Metrics
	dns      *ServerDNS
	dot      *ServerTLS
	doh      *httpHandler
	doq      *ServerQUIC
	dnscrypt *dnsCryptHandler
}

func vc01NewFixture() *vc01Fixture {
	f := &vc01Fixture{metrics: &vc01Metrics{}}
	m := f.metrics
	f.dns = NewServerDNS(ConfigDNS{ConfigBase: vc01RealBase("verif-c01-dns", m), MaxUDPRespSize: dns.MaxMsgSize})
	f.dot = NewServerTLS(ConfigTLS{ConfigDNS: ConfigDNS{ConfigBase: vc01RealBase("verif-c01-dot", m)}})
	f.doh = &httpHandler{srv: NewServerHTTPS(ConfigHTTPS{ConfigBase: vc01RealBase("verif-c01-doh", m)}), localAddr: vc01LocalTCP}
	f.doq = NewServerQUIC(ConfigQUIC{ConfigBase: vc01RealBase("verif-c01-doq", m)})
	f.dnscrypt = &dnsCryptHandler{srv: NewServerDNSCrypt(ConfigDNSCrypt{ConfigBase: vc01RealBase("verif-c01-dnscrypt", m)})}
	// The serving loops test isStarted between messages; the servers are never
	// listening here.
	return f
}

func (f *vc01Fixture) udp(wire []byte) (r ref.Result, err error) {
	return f.udpFail(wire, 0)
}

func (f *vc01Fixture) udpFail(wire []byte, failN int) (r ref.Result, err error) {
	s := f.dns
	pc := &vc01PacketConn{in: wire, failN: failN}
	if err = s.acceptUDPMsg(context.Background(), pc); err != nil {
		return r, fmt.Errorf("acceptUDPMsg: %w", err)
	}

	s.wg.Wait()

	return ref.Result{Msgs: pc.out}, nil
}

// tcp feeds stream (complete frames, or a frame cut short by FIN) to one
// accepted connection of s the way serveTCPConn does: message after message
// until the read fails.
func (f *vc01Fixture) tcp(s *ServerDNS, stream []byte, chunk int) (r ref.Result, err error) {
	return f.tcpFail(s, stream, chunk, 0)
}

func (f *vc01Fixture) tcpFail(s *ServerDNS, stream []byte, chunk, failN int) (r ref.Result, err error) {
	conn := &vc01Conn{in: bytes.NewReader(stream), chunk: chunk, failN: failN}
	wg := &sync.WaitGroup{}
	writeMu := &sync.Mutex{}
	for {
		if aerr := s.acceptTCPMsg(conn, wg, writeMu, time.Minute, syncutil.EmptySemaphore{}); aerr != nil {
			if !errors.Is(aerr, io.EOF) && !errors.Is(aerr, io.ErrUnexpectedEOF) && !errors.Is(aerr, net.ErrClosed) {
				return r, fmt.Errorf("acceptTCPMsg: %w", aerr)
			}

			break
		}
	}

	wg.Wait()
	r.Msgs, err = ref.Frames(conn.out.Bytes())
	if conn.closed {
		r.Treatment = "closed"
	}

	return r, err
}

func vc01Frame(wire []byte) []byte {
	return append(binary.BigEndian.AppendUint16(nil, uint16(len(wire))), wire...)
}

func (f *vc01Fixture) http(method, target string, body []byte) (r ref.Result, rec *httptest.ResponseRecorder) {
	var rd io.Reader
	if body != nil {
		rd = bytes.NewReader(body)
	}

	req := httptest.NewRequest(method, target, rd)
	rec = httptest.NewRecorder()
	f.doh.ServeHTTP(rec, req)
	r.Treatment = "http-" + strconv.Itoa(rec.Code)
	if rec.Code == http.StatusOK {
		r.Msgs = [][]byte{rec.Body.Bytes()}
	}

	return r, rec
}

func (f *vc01Fixture) quic(wire []byte, prefix, chunk int) (r ref.Result, err error) {
	in := binary.BigEndian.AppendUint16(nil, uint16(prefix))

	return f.quicRaw(append(in, wire...), chunk)
}

func (f *vc01Fixture) quicRaw(stream []byte, chunk int) (r ref.Result, err error) {
	st := &vc01Stream{in: stream, chunk: chunk}
	conn := &vc01QConn{}
	ctx, cancel := f.doq.requestContext()
	defer cancel()

	ctx = ContextWithRequestInfo(ctx, &RequestInfo{StartTime: time.Now()})
	_ = f.doq.serveQUICStream(ctx, st, conn)
	r.Msgs, err = ref.Frames(st.out.Bytes())
	if len(conn.closes) > 0 {
		r.Treatment = fmt.Sprintf("doq-close-%d", conn.closes[0])
	}

	return r, err
}

func (f *vc01Fixture) crypt(local net.Addr, req *dns.Msg) (r ref.Result, err error) {
	rw := &vc01CryptRW{local: local}
	// An error only makes the library try its own SERVFAIL; what counts is what
	// was sent.
	_ = f.dnscrypt.ServeDNS(rw, req.Copy())
	r.Msgs = rw.out

	return r, nil
}

// vc01PlainName tells whether a name can be sent through the JSON API as is.
func vc01PlainName(n string) bool {
	for i := 0; i < len(n); i++ {
		c := n[i]
		if !(c >= 'a' && c <= 'z' || c >= 'A' && c <= 'Z' || c >= '0' && c <= '9' || c == '-' || c == '_' || c == '.') {
			return false
		}
	}

	return n != ""
}

// vc01Params are the per-case choices that are not part of the input.
type vc01Params struct {
	tcpChunk    int  // read granularity of the in-memory TCP connections
	decoy       bool // DoH requests carry parameters of the other encodings
	streamFault string
	chunk       int
	prefixDelta int // 0: correct DoQ length prefix
	jsonMethod  string
	pick        ref.Chooser // JSON API parameter choices
}

func vc01DrawParams(t *rapid.T) (p vc01Params) {
	p.chunk = rapid.SampledFrom([]int{1, 7, 400, 70000}).Draw(t, "quicChunk")
	if rapid.IntRange(0, 9).Draw(t, "quicBadPrefix") == 0 {
		p.prefixDelta = rapid.SampledFrom([]int{-1, 1, 2, -12}).Draw(t, "prefixDelta")
	}

	p.tcpChunk = rapid.SampledFrom([]int{0, 0, 1, 2, 3, 13}).Draw(t, "tcpChunk")
	p.decoy = rapid.Bool().Draw(t, "dohDecoy")
	p.streamFault = rapid.SampledFrom([]string{"", "", "", "tcp-short-frame", "tcp-empty-frame", "doq-two-in-one", "doh-two-dns-params", "doh-bad-method",
		"first-write-fails-transient", "first-write-fails-transient"}).Draw(t, "streamFault")
	p.pick = ref.RapidChooser(t)
	p.jsonMethod = rapid.SampledFrom([]string{http.MethodGet, http.MethodGet, http.MethodPost}).Draw(t, "jsonMethod")

	return p
}

func vc01FramingCase(t interface{ Fatalf(string, ...any) }, st *vstat.Stats, f *vc01Fixture, in ref.Input, p vc01Params) {
	wire := in.Wire
	c := ref.Classify(wire)
	classes := append(c.Classes(), "gen-"+strings.SplitN(in.Gen, ":", 2)[0])
	fulls := map[string]string{}
	fail := func(tr string, err error) {
		st.Case("", classes...)
		t.Fatalf("transport %s, input %s (%s) %s:\n%v", tr, in.Gen, ref.VerdictNames[c.Verdict], ref.Hex(wire), err)
	}

	run := func(tr ref.Transport, r ref.Result, err error, o ref.CheckOpts) {
		if err != nil {
			fail(tr.Name, err)
		}

		full, cl, err := ref.Judge(tr, c, r, o)
		classes = append(classes, cl...)
		if err != nil {
			fail(tr.Name, err)
		}

		if full != "" {
			fulls[tr.Name] = full
		}

		if c.NonTrivial() {
			st.NonTrivial(tr.Name + "|" + string(wire))
		}
	}

	// Plain UDP.  The receive buffer is 512 octets (ConfigDNS.UDPSize default,
	// also in production); a longer datagram is cut by the kernel and is outside
	// the must-answer domain: only "no foreign answer" is required.
	if len(wire) <= dns.MinMsgSize {
		r, err := f.udp(wire)
		run(ref.UDP, r, err, ref.CheckOpts{})
	} else {
		r, err := f.udp(wire)
		classes = append(classes, "udp-oversize-query")
		if err != nil {
			fail("udp", err)
		}

		for _, m := range r.Msgs {
			got := &dns.Msg{}
			if uerr := got.Unpack(m); uerr != nil {
				fail("udp", fmt.Errorf("the response does not decode: %w", uerr))
			}

			// The server only ever sees the first 512 octets of the datagram.
			if ferr := ref.CheckForeign(ref.Classify(wire[:dns.MinMsgSize]), got); ferr != nil {
				fail("udp", ferr)
			}
		}
	}

	r, err := f.tcp(f.dns, vc01Frame(wire), p.tcpChunk)
	run(ref.TCP, r, err, ref.CheckOpts{})
	r, err = f.tcp(f.dot.ServerDNS, vc01Frame(wire), p.tcpChunk)
	run(ref.DoT, r, err, ref.CheckOpts{})

	// A decoy is another, acceptable query offered through the parameters of
	// the encodings that are NOT in use; it must be ignored.
	decoyMsg := (&dns.Msg{}).SetQuestion("k0.decoy.test.", dns.TypeAAAA)
	decoyMsg.Id = 0xdec0
	decoyWire, _ := decoyMsg.Pack()
	b64 := base64.RawURLEncoding.EncodeToString
	getPath, gc := ref.DrawDoHPath(p.pick, "doh-get-path", PathDoH)
	postPath, pc := ref.DrawDoHPath(p.pick, "doh-post-path", PathDoH)
	classes = append(classes, gc, pc)
	getTarget, postTarget := getPath+"?dns="+b64(wire), postPath
	if p.decoy {
		classes = append(classes, "doh-decoy-params")
		getTarget += "&name=k0.decoy.test&type=AAAA&ct=" + url.QueryEscape(MimeTypeJSON) + "&do=1"
		postTarget += "?dns=" + b64(decoyWire) + "&name=k0.decoy.test"
	}

	r, _ = f.http(http.MethodGet, getTarget, nil)
	run(ref.DoH.Named("doh-get"), r, nil, ref.CheckOpts{})
	r, rec := f.http(http.MethodPost, postTarget, wire)
	run(ref.DoH.Named("doh-post"), r, nil, ref.CheckOpts{})
	if rec.Code == http.StatusOK && rec.Header().Get("Content-Type") != MimeTypeDoH {
		fail("doh-post", fmt.Errorf("content type %q", rec.Header().Get("Content-Type")))
	}

	chunk := p.chunk
	prefix := max(0, len(wire)+p.prefixDelta)

	if prefix == len(wire) {
		r, err = f.quic(wire, prefix, chunk)
		run(ref.DoQ, r, err, ref.CheckOpts{})
	} else {
		// A length prefix that disagrees with the stream content is a protocol
		// error whatever the content.
		r, err = f.quic(wire, prefix, chunk)
		classes = append(classes, "doq-bad-prefix")
		if err != nil {
			fail("doq", err)
		}

		if len(r.Msgs) != 0 || r.Treatment != ref.DoQProtocolError {
			fail("doq", fmt.Errorf("length prefix %d for %d octets: %d messages came back, treatment %q", prefix, len(wire), len(r.Msgs), r.Treatment))
		}
	}

	// Fault forms of the framing layers: whatever the content, no DNS message
	// may come back.
	noMsg := func(tr string, r ref.Result, err error, wantTreatment string) {
		classes = append(classes, p.streamFault)
		if err != nil {
			fail(tr, err)
		}

		if len(r.Msgs) != 0 || !strings.HasPrefix(r.Treatment, wantTreatment) {
			fail(tr, fmt.Errorf("%s: %d messages came back, treatment %q (want %q...)", p.streamFault, len(r.Msgs), r.Treatment, wantTreatment))
		}
	}

	switch p.streamFault {
	case "tcp-short-frame":
		// The announced length exceeds what is sent before FIN.
		short := binary.BigEndian.AppendUint16(nil, uint16(len(wire)+1+int(ref.Hash(string(wire))%300)))
		r, err = f.tcp(f.dns, append(short, wire...), p.tcpChunk)
		noMsg("tcp", r, err, "")
	case "tcp-empty-frame":
		r, err = f.tcp(f.dot.ServerDNS, []byte{0, 0}, p.tcpChunk)
		noMsg("dot", r, err, "closed")
	case "doq-two-in-one":
		// RFC 9250, 4.3 (3): more than one query on a stream.
		r, err = f.quicRaw(append(vc01Frame(wire), vc01Frame(decoyWire)...), chunk)
		noMsg("doq", r, err, ref.DoQProtocolError)
	case "doh-two-dns-params":
		r, _ = f.http(http.MethodGet, PathDoH+"?dns="+b64(decoyWire)+"&dns="+b64(wire), nil)
		noMsg("doh-get", r, nil, "http-4")
	case "doh-bad-method":
		r, _ = f.http(http.MethodPut, PathDoH+"?dns="+b64(decoyWire), decoyWire)
		noMsg("doh-put", r, nil, "http-4")
	case "first-write-fails-transient":
		// The socket refuses the handler's write once: the handler returns the
		// error and the server answers SERVFAIL, exactly once
		// (serveDNSMsgInternal).  Only for queries the handler answers itself.
		if c.Verdict == ref.VAccept && c.Mode == ref.ModeAnswer && c.Kind != ref.KHuge {
			classes = append(classes, p.streamFault)
			sf := ref.ErrReply(c.Req, dns.RcodeServerFailure)
			check := func(tr ref.Transport, r ref.Result, err error) {
				if err != nil {
					fail(tr.Name, err)
				}

				if len(r.Msgs) != 1 {
					fail(tr.Name, fmt.Errorf("the first write failed: %d messages came back (%s), want the server's SERVFAIL", len(r.Msgs), r.Treatment))
				}

				got := &dns.Msg{}
				if uerr := got.Unpack(r.Msgs[0]); uerr != nil {
					fail(tr.Name, uerr)
				}

				if cerr := ref.CheckReply(tr, c, sf, got, true, ref.CheckOpts{}); cerr != nil {
					fail(tr.Name, fmt.Errorf("the first write failed: %w", cerr))
				}
			}

			if len(wire) <= dns.MinMsgSize {
				r, err = f.udpFail(wire, 1)
				check(ref.UDP, r, err)
			}

			r, err = f.tcpFail(f.dns, vc01Frame(wire), p.tcpChunk, 1)
			check(ref.TCP, r, err)
			r, err = f.tcpFail(f.dot.ServerDNS, vc01Frame(wire), p.tcpChunk, 1)
			check(ref.DoT, r, err)
		}
	}

	// DNSCrypt: the encryption layer only hands over decodable single-question
	// queries.
	if c.Req != nil && !c.Req.Response && len(c.Req.Question) == 1 && len(wire) >= ref.DNSCryptMinQuery {
		r, err = f.crypt(vc01LocalUDP, c.Req)
		run(ref.DNSCryptUDP, r, err, ref.CheckOpts{})
		r, err = f.crypt(vc01LocalTCP, c.Req)
		run(ref.DNSCryptTCP, r, err, ref.CheckOpts{})
	}

	// All complete answers must agree.
	var first, firstTr string
	for _, tr := range []string{"tcp", "udp", "dot", "doh-get", "doh-post", "doq", "dnscrypt-udp", "dnscrypt-tcp"} {
		s, ok := fulls[tr]
		if !ok {
			continue
		}

		if first == "" {
			first, firstTr = s, tr

			continue
		}

		if s != first {
			fail(tr, fmt.Errorf("transports disagree:\n %s: %s\n %s: %s", firstTr, first, tr, s))
		}
	}

	if len(fulls) >= 2 {
		classes = append(classes, "cross-transport-compared")
	}

	// JSON API: the question of an accepted query with a plain name, every
	// documented parameter drawn independently of the wire query.
	if c.Verdict == ref.VAccept && vc01PlainName(c.Req.Question[0].Name) {
		j := ref.DrawJSONQuery(p.pick, c.Req.Question[0])
		jsonPath, jpc := ref.DrawDoHPath(p.pick, "doh-json-path", PathJSON)
		classes = append(classes, jpc)
		method := p.jsonMethod
		classes = append(append(classes, "json"), j.Classes...)
		var jsonBody []byte
		if p.decoy {
			j.Values.Set("dns", b64(decoyWire))
			if method == http.MethodPost {
				jsonBody = decoyWire
			}
		}

		target := func(wireCT bool) string {
			v := url.Values{}
			for k, vs := range j.Values {
				v[k] = vs
			}

			if wireCT {
				v.Set("ct", MimeTypeDoH)
			} else if p.pick("json-ct", 3) == 0 {
				v.Set("ct", []string{MimeTypeJSON, "text/plain"}[p.pick("json-ct-other", 2)])
			}

			return jsonPath + "?" + v.Encode()
		}

		if j.Invalid {
			for _, wireCT := range []bool{false, true} {
				if _, rec = f.http(method, target(wireCT), jsonBody); rec.Code < 400 || rec.Code >= 500 {
					fail("doh-json", fmt.Errorf("invalid parameter in %q: HTTP status %d, want 4xx", target(wireCT), rec.Code))
				}
			}
		} else {
			jb, _ := j.Req.Pack()
			jc := ref.Classify(jb)
			key := vc01SeenKey(j.Req)
			received := func(tr string) {
				v, _ := vc01Seen.Load(key)
				got, _ := v.(*dns.Msg)
				if rerr := ref.CheckJSONReceived(j, got); rerr != nil {
					fail(tr, fmt.Errorf("request %q: %w", j.Values.Encode(), rerr))
				}
			}

			vc01Seen.Delete(key)
			r, rec = f.http(method, target(false), jsonBody)
			received("doh-json")
			switch {
			case jc.Mode == ref.ModeSilent:
				if rec.Code < 400 {
					fail("doh-json", fmt.Errorf("silent pipeline: HTTP status %d", rec.Code))
				}
			case rec.Code != http.StatusOK:
				fail("doh-json", fmt.Errorf("request %q: HTTP status %d: %s", j.Values.Encode(), rec.Code, rec.Body.String()))
			default:
				if ct := rec.Header().Get("Content-Type"); ct != MimeTypeJSON {
					fail("doh-json", fmt.Errorf("content type %q", ct))
				}

				dropped, jerr := ref.CheckJSON(rec.Body.Bytes(), j.Req, jc.Want, jc.Loose)
				if jerr != nil {
					fail("doh-json", fmt.Errorf("request %q: %w", j.Values.Encode(), jerr))
				}

				if dropped {
					classes = append(classes, "json-authority-not-representable")
				}
			}

			// The same with ct=application/dns-message: a wire-format answer to the
			// request the server built itself (its ID is the server's), judged
			// against the equivalent request's own case ...
			vc01Seen.Delete(key)
			r, _ = f.http(method, target(true), jsonBody)
			received("doh-json-ct-wire")
			jfull, cl, jerr := ref.Judge(ref.DoH.Named("doh-json-ct-wire"), jc, r, ref.CheckOpts{NoID: true})
			classes = append(classes, cl...)
			if jerr != nil {
				fail("doh-json-ct-wire", fmt.Errorf("request %q: %w", j.Values.Encode(), jerr))
			}

			// ... and compared with the answer to the equivalent wire-format query
			// (same question, CD, DO, opt-in) sent as a DoH POST.
			r, _ = f.http(http.MethodPost, postPath, jb)
			pfull, _, perr := ref.Judge(ref.DoH.Named("doh-post"), jc, r, ref.CheckOpts{})
			if perr != nil {
				fail("doh-post(json-equivalent)", perr)
			}

			if jfull != pfull {
				fail("doh-json-ct-wire", fmt.Errorf("request %q: JSON API and the equivalent wire-format query disagree:\n json: %s\n wire: %s", j.Values.Encode(), jfull, pfull))
			}

			if jfull != "" {
				classes = append(classes, "json-vs-wire-compared")
			}
		}
	}

	if errs := f.metrics.take(); len(errs) > 0 {
		fail("metrics/disposer", fmt.Errorf("%s", strings.Join(errs, "\n")))
	}

	st.Case("", classes...)
	if st.WantSample() && c.NonTrivial() && c.Verdict != ref.VAccept {
		st.Sample(map[string]any{"gen": in.Gen, "wire": ref.Hex(wire), "verdict": ref.VerdictNames[c.Verdict], "classes": classes})
	}
}

func TestVerifC01Framing(t *testing.T) {
	st := vstat.New("C01", "inpkg.framing",
		"rapid inputs (as in inpkg.accept) through the real receive/frame/respond code of every transport over in-memory connections: ServerDNS.acceptUDPMsg, acceptTCPMsg (plain and DoT server), httpHandler.ServeHTTP (GET, POST, JSON API, JSON with ct=dns-message), ServerQUIC.serveQUICStream (correct and wrong length prefix, chunked reads), dnsCryptHandler.ServeDNS (udp, tcp); servers configured as the real stack does (recycling disposer that takes disposed messages apart, metrics listener that reads request/response and records recovered panics, request contexts with a deadline; the handler requires ServerInfo and RequestInfo); TCP reads in 1-13 octet chunks; DoH requests with decoy parameters of the other encodings; framing faults (short / empty TCP frame, two queries in one DoQ stream, two dns parameters, PUT); every other valid case is followed by a near miss (one of: letter case, qtype, qclass, label, kind, ID only, RD, CD, EDNS, DO, verbatim) through the same pooled servers; queries of exactly 511/512/513 octets, root and one-label names; oracle = documented per-transport treatment + reference handler, and pairwise agreement of all complete answers; non-trivial as in inpkg.accept; distinct by (transport, wire bytes)",
		"verdict-accept", "undecodable-past-header", "verdict-response-bit", "verdict-notimp", "verdict-formerr", "kind-handler-error",
		"kind-silent", "kind-large", "truncated-on-udp", "truncated-on-dnscrypt-udp", "cross-transport-compared", "json", "req-padding", "req-keepalive",
		"doq:no-message", "doq:servfail-or-none", "doq-bad-prefix", "udp-oversize-query", "mixed-case-name", "max-length-name",
		"near-miss", "near-miss-case", "near-miss-grow", "tcp-burst", "json-do-only", "json-sde-only", "json-cd-only", "json-do+sde",
		"json-invalid-param", "json-type-default", "json-type-mnemonic", "json-vs-wire-compared",
		"doh-path-canonical", "doh-path-trailing-slash", "doh-path-client-id", "doh-path-noncanonical",
		"first-write-fails-unencodable", "first-write-fails-too-large-after-padding", "first-write-fails-transient", "kind-huge", "dot:huge-servfail", "tcp:huge-complete", "doh-decoy-params", "tcp-short-frame", "tcp-empty-frame", "doq-two-in-one", "doh-two-dns-params",
		"root-name", "one-label-name", "query-size-511", "query-size-512", "query-size-513", "req-padding+keepalive", "doq:fallback-servfail")
	st.Finish(t)

	f := vc01NewFixture()
	rapid.Check(t, func(t *rapid.T) {
		in := ref.DrawInput(t)
		vc01FramingCase(t, st, f, in, vc01DrawParams(t))
		if in.Gen == "valid" && rapid.Bool().Draw(t, "followUp") {
			// The same servers (pooled buffers, pooled workers) next see a query
			// that differs in exactly one component.
			m2, what := ref.DrawNearMiss(t, in.Msg)
			if m2.Id != in.Msg.Id {
				// Out of the range of the burst's IDs (base+1 .. base+6).
				m2.Id = in.Msg.Id + 100
			}
			w2, err := m2.Pack()
			if err != nil {
				t.Fatalf("harness: near miss does not pack: %v", err)
			}

			st.Class("near-miss", "near-miss-"+what)
			vc01FramingCase(t, st, f, ref.Input{Wire: w2, Gen: "near:" + what, Msg: m2}, vc01DrawParams(t))

			// A burst of near misses pipelined on one connection (the messages
			// are handed to the worker pool while the next one is being read).
			burst, _ := ref.DrawBurst(t, in.Msg, 6)
			cs := []*ref.Case{}
			var stream []byte
			for _, bm := range append([]*dns.Msg{in.Msg, m2}, burst...) {
				bw, berr := bm.Pack()
				if berr != nil {
					t.Fatalf("harness: near miss does not pack: %v", berr)
				}

				bc := ref.Classify(bw)
				if k, _, _ := bc.Expect(ref.TCP); k == ref.MustReply {
					cs = append(cs, bc)
					stream = append(stream, vc01Frame(bw)...)
				}
			}

			if len(cs) >= 2 {
				st.Class("tcp-burst")
				for _, tr := range []ref.Transport{ref.TCP, ref.DoT} {
					srv := f.dns
					if tr.Name == "dot" {
						srv = f.dot.ServerDNS
					}

					r, rerr := f.tcp(srv, stream, rapid.SampledFrom([]int{0, 1, 5}).Draw(t, "burstChunk"))
					if rerr == nil {
						rerr = ref.MatchReplies(len(cs), r.Msgs, func(int) bool { return true }, func(i int, msg []byte) error {
							_, _, jerr := ref.Judge(tr, cs[i], ref.Result{Msgs: [][]byte{msg}}, ref.CheckOpts{})

							return jerr
						})
					}

					if rerr != nil {
						t.Fatalf("transport %s, burst of %d pipelined near misses of %s:\n%v", tr.Name, len(cs), ref.Hex(in.Wire), rerr)
					}
				}

				if errs := f.metrics.take(); len(errs) > 0 {
					t.Fatalf("metrics/disposer during a burst: %s", strings.Join(errs, "\n"))
				}
			}
		}
	})
}

// ---------------------------------------------------------------------------
// (3) native fuzzing of the same oracles (thorough tier)

func FuzzVerifC01Accept(f *testing.F) {
	st := vstat.New("C01", "inpkg.fuzz",
		"go native fuzzing (coverage-guided byte mutation, seeded with valid queries of every answer kind, structured unacceptable messages and hostile constants: header-only with maximal counts, compression pointer loops, pointers beyond the end) through serveDNS + recorder and all in-memory transports; same oracle as inpkg.accept / inpkg.framing; non-trivial as there; distinct by wire bytes")
	st.Finish(f)

	for k := 0; k < int(ref.NKinds); k++ {
		for _, qt := range []uint16{dns.TypeA, dns.TypeHTTPS, dns.TypeANY} {
			m := (&dns.Msg{}).SetQuestion(fmt.Sprintf("k%d.Fuzz.test.", k), qt)
			m.Id = uint16(1000 + k)
			if k%2 == 0 {
				m.SetEdns0(1232, true)
				opt := m.IsEdns0()
				opt.Option = append(opt.Option, &dns.EDNS0_PADDING{Padding: make([]byte, 5)}, &dns.EDNS0_TCP_KEEPALIVE{Code: dns.EDNS0TCPKEEPALIVE})
			}

			b, _ := m.Pack()
			f.Add(b)
			m.Response = true
			b, _ = m.Pack()
			f.Add(b)
			m.Response, m.Opcode = false, dns.OpcodeUpdate
			b, _ = m.Pack()
			f.Add(b)
			m.Opcode = dns.OpcodeQuery
			m.Question = append(m.Question, m.Question[0])
			b, _ = m.Pack()
			f.Add(b)
		}
	}

	f.Add([]byte{0, 1, 0, 0, 0xff, 0xff, 0xff, 0xff, 0xff, 0xff, 0xff, 0xff})                                  // header only, maximal counts
	f.Add([]byte{0, 2, 1, 0, 0, 1, 0, 0, 0, 0, 0, 0, 0xc0, 12, 0, 1, 0, 1})                                    // pointer to itself
	f.Add([]byte{0, 3, 1, 0, 0, 1, 0, 0, 0, 0, 0, 0, 0xc0, 14, 0xc0, 12, 0, 1, 0, 1})                          // pointer loop
	f.Add([]byte{0, 4, 1, 0, 0, 1, 0, 0, 0, 0, 0, 0, 0xc0, 0xff, 0, 1, 0, 1})                                  // pointer beyond the end
	f.Add([]byte{0, 5, 1, 0, 0, 1, 0, 0, 0, 0, 0, 1, 1, 'a', 0, 0, 1, 0, 1, 0, 0, 41, 0xff, 0xff, 0, 0, 0, 0}) // OPT with missing rdlength

	// The fuzzing coordinator keeps its shared-memory files in the temporary
	// directory; /tmp is swept by other jobs on this machine, so use the run's
	// own work directory.
	if w := os.Getenv("VERIF_WORK"); w != "" {
		_ = os.Setenv("TMPDIR", w)
	}

	fix := vc01NewFixture()
	base := newServerBase(ProtoDNS, vc01Base("verif-c01-fuzz-dns"))
	f.Fuzz(func(t *testing.T, wire []byte) {
		if len(wire) > 8192 {
			t.Skip()
		}

		c, err := vc01CheckAccept(base, wire)
		if err != nil {
			t.Fatalf("input (%s) %s:\n%v", ref.VerdictNames[c.Verdict], ref.Hex(wire), err)
		}

		h := ref.Hash(string(wire))
		p := vc01Params{chunk: []int{1, 7, 400, 70000}[h%4], jsonMethod: http.MethodGet, pick: ref.HashChooser(string(wire))}
		if h%11 == 0 {
			p.prefixDelta = 1
		}

		vc01FramingCase(t, st, fix, ref.Input{Wire: wire, Gen: "fuzz"}, p)
	})
}

// ---------------------------------------------------------------------------
// (4) one shared UDP socket, two responses in flight, one of them written with
// an expired context: the interleaving is owned by the in-memory connection.

func vc01IsLate(m *dns.Msg) bool {
	return len(m.Question) == 1 && strings.HasPrefix(strings.ToLower(m.Question[0].Name), "late-")
}

// vc01KnownSharedDeadline is the finding: a response written with an expired
// context puts a past write deadline on the server's one shared UDP socket, and
// a concurrent write of another query's response fails.
const vc01KnownSharedDeadline = "udp-shared-socket-write-deadline"

// vc01LateCtl synchronises the late handler, the normal writer and the
// connection.
type vc01LateCtl struct {
	waitForCtx bool

	mu        sync.Mutex
	closed    map[chan struct{}]bool
	reached   chan struct{} // the late handler is about to write
	normalSet chan struct{} // the normal writer has set its (future) deadline
	latePast  chan struct{} // a past deadline has been put on the socket
	lateDone  chan struct{} // the late request has been processed completely
	nAttempt  chan struct{} // the normal writer has attempted its write
	// normalDone: the normal request has been processed completely (so that the
	// late handler is released even if the normal writer never touches the
	// socket).
	normalDone chan struct{}
}

// waitAny waits for one of the two channels, at most 30 s.
func (h *vc01LateCtl) waitAny(a, b chan struct{}) {
	t := time.NewTimer(30 * time.Second)
	defer t.Stop()

	select {
	case <-a:
	case <-b:
	case <-t.C:
	}
}

func vc01NewLateCtl(waitForCtx bool) *vc01LateCtl {
	return &vc01LateCtl{waitForCtx: waitForCtx, closed: map[chan struct{}]bool{}, reached: make(chan struct{}), normalSet: make(chan struct{}),
		latePast: make(chan struct{}), lateDone: make(chan struct{}), nAttempt: make(chan struct{}), normalDone: make(chan struct{})}
}

func (h *vc01LateCtl) once(c chan struct{}) {
	h.mu.Lock()
	defer h.mu.Unlock()

	if !h.closed[c] {
		h.closed[c] = true
		close(c)
	}
}

var vc01LateHook atomic.Pointer[vc01LateCtl]

// vc01DLConn is an in-memory packet connection that models the write deadline
// of a socket: it is ONE value shared by all writers, and a write attempted
// while it lies in the past fails with a time-out.
type vc01DLConn struct {
	net.PacketConn

	hook *vc01LateCtl

	mu          sync.Mutex
	in          [][]byte
	out         [][]byte
	deadline    time.Time
	futureSeen  bool
	stuck       bool
	pastWrites  int
	failedOther int
}

func (c *vc01DLConn) ReadFrom(b []byte) (int, net.Addr, error) {
	c.mu.Lock()
	defer c.mu.Unlock()

	if len(c.in) == 0 {
		return 0, nil, io.EOF
	}

	n := copy(b, c.in[0])
	c.in = c.in[1:]

	return n, vc01RemoteUDP, nil
}

func (c *vc01DLConn) LocalAddr() net.Addr             { return vc01LocalUDP }
func (c *vc01DLConn) SetReadDeadline(time.Time) error { return nil }
func (c *vc01DLConn) Close() error                    { return nil }

func (c *vc01DLConn) wait(chs ...chan struct{}) {
	t := time.NewTimer(30 * time.Second)
	defer t.Stop()

	switch len(chs) {
	case 1:
		select {
		case <-chs[0]:
		case <-t.C:
			c.mu.Lock()
			c.stuck = true
			c.mu.Unlock()
		}
	default:
		select {
		case <-chs[0]:
		case <-chs[1]:
		case <-t.C:
			c.mu.Lock()
			c.stuck = true
			c.mu.Unlock()
		}
	}
}

func (c *vc01DLConn) SetWriteDeadline(t time.Time) error {
	c.mu.Lock()
	c.deadline = t
	past := !t.IsZero() && !t.After(time.Now())
	first := !t.IsZero() && !past && !c.futureSeen
	if first {
		c.futureSeen = true
	}
	c.mu.Unlock()

	if past {
		c.hook.once(c.hook.latePast)
	}

	if first {
		// The normal writer has set its deadline and is about to write: let the
		// late response be written now, i.e. between this writer's
		// SetWriteDeadline and its write -- nothing in the server orders the two.
		c.hook.once(c.hook.normalSet)
		c.wait(c.hook.latePast, c.hook.lateDone)
	}

	return nil
}

func (c *vc01DLConn) WriteTo(b []byte, _ net.Addr) (int, error) {
	m := &dns.Msg{}
	late := m.Unpack(b) == nil && vc01IsLate(m)
	if !late {
		c.hook.once(c.hook.nAttempt)
	}

	c.mu.Lock()
	dl := c.deadline
	expired := !dl.IsZero() && !dl.After(time.Now())
	if expired {
		c.pastWrites++
		if !late {
			c.failedOther++
		}
	} else {
		c.out = append(c.out, append([]byte(nil), b...))
	}
	c.mu.Unlock()

	if expired {
		if late {
			// Keep the past deadline on the socket until the normal writer has
			// tried to write (the late writer resets the deadline on return).
			c.wait(c.hook.nAttempt)
		}

		return 0, os.ErrDeadlineExceeded
	}

	return len(b), nil
}

// vc01FirstShort is a ContextConstructor whose first context (the late
// request's) has a short time-out and all later ones a long one.
type vc01FirstShort struct{ n atomic.Int32 }

func (c *vc01FirstShort) New() (context.Context, context.CancelFunc) {
	if c.n.Add(1) == 1 {
		return context.WithTimeout(context.Background(), 20*time.Millisecond)
	}

	return context.WithTimeout(context.Background(), time.Minute)
}

func TestVerifC01UDPSharedDeadline(t *testing.T) {
	st := vstat.New("C01", "inpkg.udp-shared-socket",
		"rapid (a valid query that must be answered over UDP, at most 512 octets; how the late answer comes about: the handler writes with an already expired context, or waits for the request time-out and returns ctx.Err() so that the server writes its SERVFAIL with the expired context) through ServerDNS.acceptUDPMsg on ONE in-memory packet connection that models the socket's single write deadline; the connection owns the interleaving: the late write's SetWriteDeadline falls between the normal writer's SetWriteDeadline and its write; oracle for the normal query unchanged (exactly one answer equal to the reference answer), the late query is not judged beyond at most one response; non-trivial = every case; distinct by (style, wire)",
		"udp:normal-query-in-flight-with-expired-context-write", "late-handler-writes-with-expired-context", "late-server-servfail-after-timeout")
	st.Finish(t)

	rapid.Check(t, func(t *rapid.T) {
		var c *ref.Case
		for i := 0; ; i++ {
			m := ref.DrawQuery(t)
			w, err := m.Pack()
			if err != nil {
				t.Fatalf("harness: %v", err)
			}

			c = ref.Classify(w)
			if k, _, _ := c.Expect(ref.UDP); k == ref.MustReply && len(w) <= dns.MinMsgSize && !c.Loose {
				break
			}

			if i == 20 {
				t.Skip("no answerable query drawn")
			}
		}

		waitForCtx := rapid.Bool().Draw(t, "lateByTimeout")
		style := "late-handler-writes-with-expired-context"
		if waitForCtx {
			style = "late-server-servfail-after-timeout"
		}

		hook := vc01NewLateCtl(waitForCtx)
		vc01LateHook.Store(hook)
		defer vc01LateHook.Store(nil)

		metrics := &vc01Metrics{}
		conf := vc01RealBase("verif-c01-dns", metrics)
		conf.RequestContext = &vc01FirstShort{}
		s := NewServerDNS(ConfigDNS{ConfigBase: conf, MaxUDPRespSize: dns.MaxMsgSize})
		lm := (&dns.Msg{}).SetQuestion("late-0.k0.test.", dns.TypeA)
		lm.Id = c.Req.Id + 1
		lw, _ := lm.Pack()
		conn := &vc01DLConn{hook: hook, in: [][]byte{lw, c.Wire}}

		// The late query first, up to the point where its answer is about to be
		// written; then the normal one.
		if err := s.acceptUDPMsg(context.Background(), conn); err != nil {
			t.Fatalf("acceptUDPMsg: %v", err)
		}

		conn.wait(hook.reached)
		if err := s.acceptUDPMsg(context.Background(), conn); err != nil {
			t.Fatalf("acceptUDPMsg: %v", err)
		}

		s.wg.Wait()
		s.workerPool.Release()
		conn.mu.Lock()
		stuck, out, failedOther := conn.stuck, conn.out, conn.failedOther
		conn.mu.Unlock()
		if stuck {
			fmt.Println("VERIF-INCONCLUSIVE: the owned interleaving did not complete in 30 s")
			t.FailNow()
		}

		var normal [][]byte
		lateN := 0
		for _, b := range out {
			m := &dns.Msg{}
			if m.Unpack(b) == nil && vc01IsLate(m) {
				lateN++

				continue
			}

			normal = append(normal, b)
		}

		classes := append(c.Classes(), "udp:normal-query-in-flight-with-expired-context-write", style)
		_, _, err := ref.Judge(ref.UDP, c, ref.Result{Msgs: normal}, ref.CheckOpts{})
		if err == nil && lateN > 1 {
			err = fmt.Errorf("the late query was answered %d times", lateN)
		}

		if err == nil {
			if errs := metrics.take(); len(errs) > 0 {
				err = fmt.Errorf("%s", strings.Join(errs, "\n"))
			}
		}

		if err != nil && failedOther > 0 && st.Known(vc01KnownSharedDeadline) {
			st.Case(style+"|"+string(c.Wire), append(classes, "known-finding")...)

			return
		}

		st.Case(style+"|"+string(c.Wire), classes...)
		if err != nil {
			t.Fatalf("history: [recv late query id=%d (%s); its answer is about to be written] [recv normal query %s] [normal writer: SetWriteDeadline(future)] [late writer: SetWriteDeadline(past)] [normal writer: write -> time-out: %d] [late writer: write -> time-out, SetWriteDeadline(zero)]\nnormal query outcome: %v",
				lm.Id, style, ref.Hex(c.Wire), failedOther, err)
		}
	})
}
